//! Export of the implementation's own AST (`tree_sitter_graph::ast`) and of query matches.
use crate::sexp::{self, Sexp};
use crate::tree::TreeInfo;
use streaming_iterator::StreamingIterator;
use tree_sitter::{CaptureQuantifier, Query, QueryCursor, Tree};
use tree_sitter_graph::ast::*;
use tree_sitter_graph::Location;

thread_local! {
    /// when set, every location is exported as (0 0): AST comparison modulo layout
    pub static NO_LOC: std::cell::Cell<bool> = std::cell::Cell::new(false);
}

pub fn loc(l: &Location) -> Sexp {
    if NO_LOC.with(|c| c.get()) {
        return sexp::list(vec![sexp::nat(0), sexp::nat(0)]);
    }
    sexp::list(vec![sexp::nat(l.row), sexp::nat(l.column)])
}

/// the exported AST with every location erased
pub fn file_no_loc(f: &File) -> Sexp {
    NO_LOC.with(|c| c.set(true));
    let s = file(f);
    NO_LOC.with(|c| c.set(false));
    s
}

pub fn quant(q: CaptureQuantifier) -> Sexp {
    sexp::atom(match q {
        CaptureQuantifier::Zero => "zero",
        CaptureQuantifier::ZeroOrOne => "opt",
        CaptureQuantifier::ZeroOrMore => "star",
        CaptureQuantifier::One => "one",
        CaptureQuantifier::OneOrMore => "plus",
    })
}

fn big(n: usize) -> Sexp {
    sexp::atom(&n.to_string())
}

pub fn expr(e: &Expression) -> Sexp {
    match e {
        Expression::FalseLiteral => sexp::tagged("false", vec![]),
        Expression::NullLiteral => sexp::tagged("null", vec![]),
        Expression::TrueLiteral => sexp::tagged("true", vec![]),
        Expression::IntegerConstant(c) => sexp::tagged("int", vec![sexp::nat(c.value as usize)]),
        Expression::StringConstant(c) => sexp::tagged("str", vec![sexp::st(&c.value)]),
        Expression::ListLiteral(l) => sexp::tagged("list", l.elements.iter().map(expr).collect()),
        Expression::SetLiteral(l) => sexp::tagged("set", l.elements.iter().map(expr).collect()),
        Expression::ListComprehension(c) => sexp::tagged(
            "lcomp",
            vec![expr(&c.element), sexp::st(c.variable.name.as_str()), loc(&c.variable.location), expr(&c.value), loc(&c.location)],
        ),
        Expression::SetComprehension(c) => sexp::tagged(
            "scomp",
            vec![expr(&c.element), sexp::st(c.variable.name.as_str()), loc(&c.variable.location), expr(&c.value), loc(&c.location)],
        ),
        Expression::Capture(c) => sexp::tagged(
            "cap",
            vec![sexp::st(c.name.as_str()), quant(c.quantifier), big(c.file_capture_index), big(c.stanza_capture_index), loc(&c.location)],
        ),
        Expression::Variable(Variable::Unscoped(v)) => sexp::tagged("var", vec![sexp::st(v.name.as_str()), loc(&v.location)]),
        Expression::Variable(Variable::Scoped(v)) => sexp::tagged("svar", vec![expr(&v.scope), sexp::st(v.name.as_str()), loc(&v.location)]),
        Expression::Call(c) => {
            let mut v = vec![sexp::st(c.function.as_str())];
            v.extend(c.parameters.iter().map(expr));
            sexp::tagged("call", v)
        }
        Expression::RegexCapture(c) => sexp::tagged("rcap", vec![big(c.match_index)]),
    }
}

pub fn var(v: &Variable) -> Sexp {
    match v {
        Variable::Unscoped(v) => sexp::tagged("uv", vec![sexp::st(v.name.as_str()), loc(&v.location)]),
        Variable::Scoped(v) => sexp::tagged("sv", vec![expr(&v.scope), sexp::st(v.name.as_str()), loc(&v.location)]),
    }
}

pub fn attrs(a: &[Attribute]) -> Sexp {
    sexp::list(a.iter().map(|x| sexp::list(vec![sexp::st(x.name.as_str()), expr(&x.value)])).collect())
}

pub fn cond(c: &Condition) -> Sexp {
    match c {
        Condition::Some { value, location } => sexp::tagged("some", vec![expr(value), loc(location)]),
        Condition::None { value, location } => sexp::tagged("none", vec![expr(value), loc(location)]),
        Condition::Bool { value, location } => sexp::tagged("bool", vec![expr(value), loc(location)]),
    }
}

pub fn stmts(ss: &[Statement]) -> Sexp {
    sexp::list(ss.iter().map(stmt).collect())
}

pub fn stmt(s: &Statement) -> Sexp {
    match s {
        Statement::DeclareImmutable(s) => sexp::tagged("let", vec![var(&s.variable), expr(&s.value), loc(&s.location)]),
        Statement::DeclareMutable(s) => sexp::tagged("varS", vec![var(&s.variable), expr(&s.value), loc(&s.location)]),
        Statement::Assign(s) => sexp::tagged("setS", vec![var(&s.variable), expr(&s.value), loc(&s.location)]),
        Statement::CreateGraphNode(s) => sexp::tagged("node", vec![var(&s.node), loc(&s.location)]),
        Statement::AddGraphNodeAttribute(s) => sexp::tagged("attrn", vec![expr(&s.node), attrs(&s.attributes), loc(&s.location)]),
        Statement::CreateEdge(s) => sexp::tagged("edge", vec![expr(&s.source), expr(&s.sink), loc(&s.location)]),
        Statement::AddEdgeAttribute(s) => sexp::tagged("attre", vec![expr(&s.source), expr(&s.sink), attrs(&s.attributes), loc(&s.location)]),
        Statement::Scan(s) => sexp::tagged(
            "scan",
            vec![
                expr(&s.value),
                sexp::list(s.arms.iter().map(|a| sexp::list(vec![sexp::st(a.regex.as_str()), stmts(&a.statements), loc(&a.location)])).collect()),
                loc(&s.location),
            ],
        ),
        Statement::Print(s) => sexp::tagged("print", vec![sexp::list(s.values.iter().map(expr).collect()), loc(&s.location)]),
        Statement::If(s) => sexp::tagged(
            "if",
            vec![
                sexp::list(
                    s.arms
                        .iter()
                        .map(|a| sexp::list(vec![sexp::list(a.conditions.iter().map(cond).collect()), stmts(&a.statements), loc(&a.location)]))
                        .collect(),
                ),
                loc(&s.location),
            ],
        ),
        Statement::ForIn(s) => sexp::tagged(
            "for",
            vec![sexp::st(s.variable.name.as_str()), loc(&s.variable.location), expr(&s.value), stmts(&s.statements), loc(&s.location)],
        ),
    }
}

pub fn query_captures(q: &Query) -> Vec<(String, CaptureQuantifier)> {
    let quants = q.capture_quantifiers(0);
    q.capture_names().iter().enumerate().map(|(i, n)| (n.to_string(), quants[i])).collect()
}

pub fn stanza(s: &Stanza) -> Sexp {
    sexp::tagged(
        "stanza",
        vec![
            stmts(&s.statements),
            big(s.full_match_stanza_capture_index),
            big(s.full_match_file_capture_index),
            loc(&s.range.start),
            loc(&s.range.end),
            sexp::list(query_captures(&s.query).iter().map(|(n, q)| sexp::list(vec![sexp::st(n), quant(*q)])).collect()),
        ],
    )
}

pub fn file(f: &File) -> Sexp {
    let globals = f
        .globals
        .iter()
        .map(|g| {
            sexp::list(vec![
                sexp::st(g.name.as_str()),
                quant(g.quantifier),
                match &g.default {
                    None => sexp::tagged("none", vec![]),
                    Some(d) => sexp::tagged("some", vec![sexp::st(d)]),
                },
                loc(&g.location),
            ])
        })
        .collect();
    let mut inh: Vec<String> = f.inherited_variables.iter().map(|i| i.as_str().to_string()).collect();
    inh.sort();
    let mut inh_s = vec![sexp::atom("inherited")];
    inh_s.extend(inh.iter().map(|i| sexp::st(i)));
    let mut shs: Vec<&AttributeShorthand> = f.shorthands.iter().collect();
    shs.sort_by(|a, b| a.name.as_str().cmp(b.name.as_str()));
    let shorthands = shs
        .iter()
        .map(|s| sexp::list(vec![sexp::st(s.name.as_str()), sexp::st(s.variable.name.as_str()), loc(&s.variable.location), attrs(&s.attributes), loc(&s.location)]))
        .collect();
    sexp::tagged("file", vec![sexp::list(globals), sexp::list(inh_s), sexp::list(f.stanzas.iter().map(stanza).collect()), sexp::list(shorthands)])
}

/// all matches of `query` on the tree, each as `(match pattern_index ((name (nodes...))...))`
pub fn matches(query: &Query, tree: &Tree, source: &str, info: &TreeInfo) -> Vec<Sexp> {
    let mut out = Vec::new();
    let mut cursor = QueryCursor::new();
    let names = query.capture_names();
    let mut ms = cursor.matches(query, tree.root_node(), source.as_bytes());
    while let Some(m) = ms.next() {
        let mut caps = Vec::new();
        for (i, name) in names.iter().enumerate() {
            let nodes: Vec<Sexp> = m.nodes_for_capture_index(i as u32).map(|n| sexp::nat(info.index_of(&n))).collect();
            caps.push(sexp::list(vec![sexp::st(name), sexp::list(nodes)]));
        }
        out.push(sexp::tagged("match", vec![sexp::nat(m.pattern_index), sexp::list(caps)]));
    }
    out
}

/// regexes of every `scan` statement (arm order), for the oracle's look-ahead
pub fn scan_arm_sets(f: &File) -> Vec<Vec<String>> {
    fn walk(ss: &[Statement], out: &mut Vec<Vec<String>>) {
        for s in ss {
            match s {
                Statement::Scan(sc) => {
                    out.push(sc.arms.iter().map(|a| a.regex.as_str().to_string()).collect());
                    for a in &sc.arms {
                        walk(&a.statements, out);
                    }
                }
                Statement::If(i) => {
                    for a in &i.arms {
                        walk(&a.statements, out);
                    }
                }
                Statement::ForIn(fi) => walk(&fi.statements, out),
                _ => {}
            }
        }
    }
    let mut out = Vec::new();
    for st in &f.stanzas {
        walk(&st.statements, &mut out);
    }
    out
}
