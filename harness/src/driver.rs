//! Spawns the compiled Lean driver (`tsgdriver`) and talks the one-line-in / one-line-out protocol.
use crate::sexp::{self, Sexp};
use std::io::{BufRead, BufReader, Write};
use std::process::{Child, ChildStdin, ChildStdout, Command, Stdio};

pub struct Driver {
    child: Child,
    stdin: ChildStdin,
    stdout: BufReader<ChildStdout>,
    pub requests: usize,
}

pub fn driver_path() -> String {
    std::env::var("TSG_DRIVER").unwrap_or_else(|_| "/verif/lean/.lake/build/bin/tsgdriver".to_string())
}

impl Driver {
    pub fn spawn() -> Driver {
        let mut child = Command::new(driver_path())
            .stdin(Stdio::piped())
            .stdout(Stdio::piped())
            .spawn()
            .expect("cannot spawn tsgdriver");
        let stdin = child.stdin.take().unwrap();
        let stdout = BufReader::new(child.stdout.take().unwrap());
        Driver { child, stdin, stdout, requests: 0 }
    }

    /// send one request, read one response line (raw text, trailing newline stripped)
    pub fn ask_text(&mut self, req: &Sexp) -> String {
        let mut line = req.to_text();
        line.push('\n');
        crate::report::beat();
        crate::report::IN_DRIVER.store(true, std::sync::atomic::Ordering::SeqCst);
        self.stdin.write_all(line.as_bytes()).expect("driver write");
        self.stdin.flush().unwrap();
        let mut out = String::new();
        self.stdout.read_line(&mut out).expect("driver read");
        crate::report::IN_DRIVER.store(false, std::sync::atomic::Ordering::SeqCst);
        crate::report::beat();
        self.requests += 1;
        while out.ends_with('\n') || out.ends_with('\r') {
            out.pop();
        }
        out
    }

    pub fn ask(&mut self, req: &Sexp) -> Sexp {
        let t = self.ask_text(req);
        sexp::parse(&t).unwrap_or_else(|| Sexp::Atom(format!("unparsable:{}", t)))
    }
}

impl Drop for Driver {
    fn drop(&mut self) {
        let _ = self.child.kill();
        let _ = self.child.wait();
    }
}
