//! Canonical names of `ExecutionError` variants (the free-text payload is a soft observable).
use crate::sexp::{self, Sexp};
use tree_sitter_graph::ExecutionError;

pub fn variant(e: &ExecutionError) -> &'static str {
    use ExecutionError::*;
    match e {
        Cancelled(_) => "Cancelled",
        CannotAssignImmutableVariable(_) => "CannotAssignImmutableVariable",
        CannotAssignScopedVariable(_) => "CannotAssignScopedVariable",
        CannotDefineMutableScopedVariable(_) => "CannotDefineMutableScopedVariable",
        DuplicateAttribute(_) => "DuplicateAttribute",
        DuplicateEdge(_) => "DuplicateEdge",
        DuplicateVariable(_) => "DuplicateVariable",
        ExpectedGraphNode(_) => "ExpectedGraphNode",
        ExpectedList(_) => "ExpectedList",
        ExpectedBoolean(_) => "ExpectedBoolean",
        ExpectedInteger(_) => "ExpectedInteger",
        ExpectedString(_) => "ExpectedString",
        ExpectedSyntaxNode(_) => "ExpectedSyntaxNode",
        InvalidParameters(_) => "InvalidParameters",
        InvalidVariableScope(_) => "InvalidVariableScope",
        MissingGlobalVariable(_) => "MissingGlobalVariable",
        RecursivelyDefinedScopedVariable(_) => "RecursivelyDefinedScopedVariable",
        RecursivelyDefinedVariable(_) => "RecursivelyDefinedVariable",
        UndefinedCapture(_) => "UndefinedCapture",
        UndefinedFunction(_) => "UndefinedFunction",
        UndefinedRegexCapture(_) => "UndefinedRegexCapture",
        UndefinedScopedVariable(_) => "UndefinedScopedVariable",
        EmptyRegexCapture(_) => "EmptyRegexCapture",
        UndefinedEdge(_) => "UndefinedEdge",
        UndefinedVariable(_) => "UndefinedVariable",
        VariableScopesAlreadyForced(_) => "VariableScopesAlreadyForced",
        FunctionFailed(_, _) => "FunctionFailed",
        InContext(_, _) => "InContext",
    }
}

/// innermost cause (skipping `InContext` wrappers)
pub fn root(e: &ExecutionError) -> &ExecutionError {
    match e {
        ExecutionError::InContext(_, inner) => root(inner),
        other => other,
    }
}

pub fn err_sexp(e: &ExecutionError) -> Sexp {
    sexp::tagged("err", vec![sexp::atom(variant(e))])
}
