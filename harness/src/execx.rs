//! Runs one execution on the implementation and on the model, in comparable form.
use crate::astx;
use crate::driver::Driver;
use crate::errors;
use crate::export::graph_sexp;
use crate::oracle::{ask_with_oracle, OracleTable};
use crate::sexp::{self, Sexp};
use crate::tree::TreeInfo;
use crate::values::value_sexp;
use std::cell::Cell;
use std::panic::{catch_unwind, AssertUnwindSafe};
use tree_sitter::Tree;
use tree_sitter_graph::ast::File;
use tree_sitter_graph::functions::Functions;
use tree_sitter_graph::graph::{Graph, Value};
use tree_sitter_graph::{Context, CancellationError, CancellationFlag, ExecutionConfig, ExecutionError, Identifier, Variables};

pub struct CountingFlag {
    pub count: Cell<usize>,
    pub cancel_at: Option<usize>,
}

impl CancellationFlag for CountingFlag {
    fn check(&self, at: &'static str) -> Result<(), CancellationError> {
        let n = self.count.get() + 1;
        self.count.set(n);
        if let Some(k) = self.cancel_at {
            if n >= k {
                return Err(CancellationError(at));
            }
        }
        Ok(())
    }
}

#[derive(Clone)]
pub struct RunCfg {
    pub lazy: bool,
    pub globals: Vec<(String, Value)>,
    /// bindings of an enclosing `Variables` the supplied set is nested in (empty = not nested)
    pub outer_globals: Vec<(String, Value)>,
    /// (location attr, variable-name attr, match-node attr)
    pub debug: Option<(String, String, String)>,
    pub cancel_at: Option<usize>,
}

pub struct ImplRun {
    /// `(ok)` | `(err <xerr>)` | `(panic)`
    pub outcome: Sexp,
    /// graph after the run (also after a failed run: `execute_into` leaves its partial work)
    pub graph: Option<Sexp>,
    pub polls: usize,
}

thread_local! {
    /// set when an execution left the caller's `Variables` changed (checked by C16 / C12)
    pub static GLOBALS_CHANGED: Cell<bool> = Cell::new(false);
}

fn snapshot(v: &Variables) -> Vec<(String, String)> {
    let mut out: Vec<(String, String)> = v.iter().map(|(k, v)| (k.as_str().to_string(), format!("{:?}", v))).collect();
    out.sort();
    out
}

pub fn xerr_sexp(e: &ExecutionError) -> Sexp {
    match e {
        ExecutionError::InContext(Context::Statement(v), cause) => sexp::tagged(
            "in-stmt",
            vec![
                sexp::list(
                    v.iter()
                        .map(|c| sexp::list(vec![astx::loc(&c.statement_location), astx::loc(&c.stanza_location), astx::loc(&c.source_location), sexp::st(&c.node_kind)]))
                        .collect(),
                ),
                xerr_sexp(cause),
            ],
        ),
        ExecutionError::InContext(Context::Other(_), cause) => sexp::tagged("in-other", vec![xerr_sexp(cause)]),
        ExecutionError::Cancelled(c) => sexp::tagged("base", vec![sexp::atom("Cancelled"), sexp::st(c.0)]),
        other => sexp::tagged("base", vec![sexp::atom(errors::variant(other)), sexp::st("")]),
    }
}

pub fn run_impl(file: &File, tree: &Tree, src: &str, info: &TreeInfo, cfg: &RunCfg) -> ImplRun {
    let mut graph = Graph::new();
    run_impl_into(&mut graph, file, tree, src, info, cfg)
}

/// `execute_into` on an existing graph (which keeps whatever the run did, also on failure)
/// C12: every execution of the process (all threads) uses ONE function table, as a caller that builds `Functions::stdlib()`
/// once would; off for the other checks
pub static SHARE_FUNCTIONS: std::sync::atomic::AtomicBool = std::sync::atomic::AtomicBool::new(false);
static SHARED_FUNCTIONS: std::sync::OnceLock<Functions> = std::sync::OnceLock::new();

pub fn run_impl_into<'t>(graph: &mut Graph<'t>, file: &File, tree: &'t Tree, src: &'t str, info: &TreeInfo, cfg: &RunCfg) -> ImplRun {
    let flag = CountingFlag { count: Cell::new(0), cancel_at: cfg.cancel_at };
    let r = catch_unwind(AssertUnwindSafe(|| {
        let own_functions;
        let functions: &Functions = if SHARE_FUNCTIONS.load(std::sync::atomic::Ordering::SeqCst) {
            SHARED_FUNCTIONS.get_or_init(Functions::stdlib)
        } else {
            own_functions = Functions::stdlib();
            &own_functions
        };
        let mut outer = Variables::new();
        for (k, v) in &cfg.outer_globals {
            outer.add(Identifier::from(k.as_str()), v.clone()).expect("duplicate global in harness");
        }
        let mut globals = if cfg.outer_globals.is_empty() { Variables::new() } else { Variables::nested(&outer) };
        for (k, v) in &cfg.globals {
            globals.add(Identifier::from(k.as_str()), v.clone()).expect("duplicate global in harness");
        }
        let before: Vec<(String, String)> = snapshot(&globals);
        let before_outer: Vec<(String, String)> = snapshot(&outer);
        let mut config = ExecutionConfig::new(functions, &globals).lazy(cfg.lazy);
        if let Some((l, v, m)) = &cfg.debug {
            config = config.debug_attributes(Identifier::from(l.as_str()), Identifier::from(v.as_str()), Identifier::from(m.as_str()));
        }
        let res = file.execute_into(graph, tree, src, &config, &flag);
        if snapshot(&globals) != before || snapshot(&outer) != before_outer {
            GLOBALS_CHANGED.with(|c| c.set(true));
        }
        let outcome = match &res {
            Ok(()) => sexp::tagged("ok", vec![]),
            Err(e) => sexp::tagged("err", vec![xerr_sexp(e)]),
        };
        (outcome, graph_sexp(graph, Some(info)))
    }));
    match r {
        Ok((outcome, graph)) => ImplRun { outcome, graph: Some(graph), polls: flag.count.get() },
        Err(_) => ImplRun { outcome: sexp::tagged("panic", vec![]), graph: None, polls: flag.count.get() },
    }
}

/// everything about (file, tree) the model needs, computed once
pub struct ModelInput {
    pub file: Sexp,
    pub stanza_matches: Sexp,
    pub merged_matches: Sexp,
    pub n_matches: usize,
}

pub fn model_input(file: &File, tree: &Tree, src: &str, info: &TreeInfo) -> ModelInput {
    let mut n = 0;
    let per: Vec<Sexp> = file
        .stanzas
        .iter()
        .map(|s| {
            let ms = astx::matches(&s.query, tree, src, info);
            n += ms.len();
            sexp::list(ms)
        })
        .collect();
    let merged = match &file.query {
        Some(q) => astx::matches(q, tree, src, info),
        None => vec![],
    };
    ModelInput { file: astx::file(file), stanza_matches: sexp::list(per), merged_matches: sexp::list(merged), n_matches: n }
}

fn opt_str(s: Option<&String>) -> Sexp {
    match s {
        None => sexp::tagged("none", vec![]),
        Some(s) => sexp::tagged("some", vec![sexp::st(s)]),
    }
}

pub const FUEL: usize = 40;

/// `(result outcome graph polls)` from the model (oracle questions answered on the way)
pub fn run_model(drv: &mut Driver, table: &mut OracleTable, mi: &ModelInput, cfg: &RunCfg) -> Sexp {
    run_model_into(drv, table, mi, cfg, &sexp::tagged("graph", vec![]))
}

pub fn run_model_into(drv: &mut Driver, table: &mut OracleTable, mi: &ModelInput, cfg: &RunCfg, graph0: &Sexp) -> Sexp {
    let layer = |g: &Vec<(String, Value)>| sexp::list(g.iter().map(|(k, v)| sexp::list(vec![sexp::st(k), value_sexp(v, &crate::values::no_syn)])).collect());
    let globals = if cfg.outer_globals.is_empty() { layer(&cfg.globals) } else { sexp::tagged("layers", vec![layer(&cfg.globals), layer(&cfg.outer_globals)]) };
    let debug = match &cfg.debug {
        None => sexp::tagged("debug", vec![opt_str(None), opt_str(None), opt_str(None)]),
        Some((l, v, m)) => sexp::tagged("debug", vec![opt_str(Some(l)), opt_str(Some(v)), opt_str(Some(m))]),
    };
    let cancel = match cfg.cancel_at {
        None => sexp::atom("none"),
        Some(k) => sexp::nat(k),
    };
    let mode = sexp::atom(if cfg.lazy { "lazy" } else { "strict" });
    let build = |orc: &Sexp| {
        sexp::tagged(
            "exec",
            vec![
                mode.clone(),
                mi.file.clone(),
                mi.stanza_matches.clone(),
                mi.merged_matches.clone(),
                globals.clone(),
                debug.clone(),
                cancel.clone(),
                graph0.clone(),
                orc.clone(),
                sexp::nat(FUEL),
            ],
        )
    };
    let resp = ask_with_oracle(drv, table, &build);
    // the executable contracts of the panic-freedom theorems (C05) on this request: counted, never an alarm
    if cfg.cancel_at.is_none() && resp.tag() == Some("result") {
        let orc = table.to_sexp();
        let mut req = build(&orc);
        if let Sexp::List(items) = &mut req {
            items[0] = sexp::atom("contracts");
        }
        let c = drv.ask(&req);
        let names = ["tree-sliceable", "globals-in-graph", "strict-matches-ok", "merged-matches-ok"];
        let mut all = true;
        if c.tag() == Some("contracts") {
            for (i, nm) in names.iter().enumerate() {
                let ok = c.as_list().and_then(|l| l.get(i + 1)).and_then(|x| x.as_atom()).map(|a| a == "true").unwrap_or(false);
                // the strict contract is only relevant to strict runs, the merged one to lazy runs
                let relevant = match i { 2 => !cfg.lazy, 3 => cfg.lazy, _ => true };
                if relevant && !ok {
                    all = false;
                    note_contract(format!("theorem-contracts:broken:{}", nm));
                }
            }
            note_contract(if all { "theorem-contracts:all-hold".to_string() } else { "theorem-contracts:some-broken".to_string() });
        } else {
            note_contract("theorem-contracts:no-answer".to_string());
        }
    }
    resp
}

thread_local! {
    static CONTRACT_NOTES: std::cell::RefCell<std::collections::BTreeMap<String, usize>> = std::cell::RefCell::new(Default::default());
}

fn note_contract(k: String) {
    CONTRACT_NOTES.with(|m| *m.borrow_mut().entry(k).or_insert(0) += 1);
}

/// counts of contract evaluations since the last call (drained into the report / the child's per-case counts)
pub fn take_contract_counts() -> Vec<(String, usize)> {
    CONTRACT_NOTES.with(|m| std::mem::take(&mut *m.borrow_mut()).into_iter().collect())
}

/// the implementation's run in the model's response shape (panic site unknown on this side)
pub fn impl_as_result(r: &ImplRun) -> Sexp {
    sexp::tagged("result", vec![r.outcome.clone(), r.graph.clone().unwrap_or_else(|| sexp::atom("no-graph")), sexp::nat(r.polls)])
}

