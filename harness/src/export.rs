//! Canonical export of graphs (with syntax-node references mapped to pre-order indices).
use crate::sexp::{self, Sexp};
use crate::tree::TreeInfo;
use crate::values::value_sexp;
use tree_sitter_graph::graph::{Attributes, Graph, SyntaxNodeRef};

pub fn attrs_sexp(a: &Attributes, syn: &dyn Fn(&SyntaxNodeRef) -> usize) -> Sexp {
    let mut items: Vec<(String, Sexp)> = a.iter().map(|(k, v)| (k.as_str().to_string(), value_sexp(v, syn))).collect();
    items.sort_by(|x, y| x.0.cmp(&y.0));
    sexp::list(items.into_iter().map(|(k, v)| sexp::list(vec![sexp::st(&k), v])).collect())
}

/// `(graph (attrs edges)...)`; nodes in index order, edges in iteration order, attributes sorted
pub fn graph_sexp(g: &Graph, info: Option<&TreeInfo>) -> Sexp {
    let syn = |sr: &SyntaxNodeRef| -> usize {
        match info {
            Some(info) => info.index_of(&g[*sr]),
            None => panic!("unexpected syntax node"),
        }
    };
    let mut nodes = vec![sexp::atom("graph")];
    for n in g.iter_nodes() {
        let node = &g[n];
        let edges: Vec<Sexp> = node.iter_edges().map(|(sink, e)| sexp::list(vec![sexp::nat(sink.index()), attrs_sexp(&e.attributes, &syn)])).collect();
        nodes.push(sexp::list(vec![attrs_sexp(&node.attributes, &syn), sexp::list(edges)]));
    }
    sexp::list(nodes)
}
