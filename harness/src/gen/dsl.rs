//! Type- and scope-directed generator of graph DSL programs (as text), over the Python grammar.
//!
//! The generator carries the checker's view (locals with mutability / locality / shape, captures
//! with quantifiers, globals) so that most programs are accepted, and a runtime type for every
//! expression so that most programs also run. `Opts` selects the stream (valid, order-insensitive
//! fragment, with runtime faults).
use crate::rng::Rng;
use tree_sitter::{CaptureQuantifier, Query};

/// (pattern text without the appended full-match capture)
pub const QUERY_POOL: &[&str] = &[
    "(module) @m",
    "(identifier) @id",
    "(function_definition name: (identifier) @name) @fn",
    "(function_definition name: (identifier) @name body: (block) @body) @fn",
    "(call function: (_) @f arguments: (argument_list (_)* @args)) @call",
    "(assignment left: (_) @lhs right: (_)? @rhs) @asg",
    "(class_definition name: (identifier) @name) @cls",
    "(if_statement condition: (_) @c alternative: (_)? @alt) @ifs",
    "(block (_)+ @stmts) @blk",
    "(expression_statement (_) @e)",
    "[(integer) (string)] @lit",
    "(attribute object: (_) @obj attribute: (identifier) @attr)",
    "((identifier) @id (#eq? @id \"a\"))",
    "((identifier) @id (#match? @id \"^[a-f]\"))",
    "(binary_operator left: (_) @l right: (_) @r) @op",
    "(return_statement (_)? @v) @ret",
    "(import_statement name: (dotted_name (identifier)* @parts)) @imp",
    "(module (_)* @tops) @m",
    "(for_statement left: (_) @v right: (_) @it body: (_) @b)",
    "(parameters (identifier)* @ps) @params",
    "(block . (_) @first)",
    "(argument_list (_) @last .)",
    "(identifier) @_id",
    "(pass_statement) @p",
    "(string) @s",
    "(ERROR) @err",
    "(call function: (identifier) @id) @c",
    "(list (_)* @items) @lst",
    "(function_definition parameters: (parameters (_)? @p0)) @fn",
    "(_) @any",
    // several matches that share their root node and differ in an inner capture
    "(module (expression_statement) @es) @mod",
    "(argument_list (_) @arg) @al2",
    "(block (_) @b1) @blk2",
    // one capture name with four different quantifiers (per-stanza resolution of quantifiers)
    "(expression_statement (_) @x) @st",
    "(argument_list (_)* @x) @al",
    "(return_statement (_)? @x) @r2",
    "(block (_)+ @x) @b2",
    // one capture name on a node AND on its first child (two nodes that start at the same byte): the value lists them in
    // the order tree-sitter reports them
    "(binary_operator left: (_) @x) @x",
    "(call function: (_) @x) @x",
    "(attribute object: (_) @dup) @dup",
    // four captures on one pattern step: tree-sitter keeps three and reports the fourth as occurring once, without a node
    "(assignment left: (identifier) @q1 @q2 @q3 @q4) @qa",
    // rooted at a node that can be EMPTY and zero-width at the end of the text (`if x:` without a final newline)
    "(block) @eb",
    "(block (_)* @ebs) @eb2",
    // predicate strings that END in an escaped backslash (the closing quote follows a backslash that is itself escaped)
    "((identifier) @id (#eq? @id \"a\\\\\"))",
    "((string) @s (#match? @s \"\\\\\\\\\"))",
    "((identifier) @id (#not-eq? @id \"x\\\\\") (#eq? @id \"b\\\"q\"))",
];

#[derive(Clone, Debug)]
pub struct Pattern {
    pub text: String,
    /// capture names with tree-sitter's quantifier (without the full-match capture)
    pub captures: Vec<(String, CaptureQuantifier)>,
}

pub fn pattern_pool(lang: &tree_sitter::Language) -> Vec<Pattern> {
    let mut out = Vec::new();
    for p in QUERY_POOL {
        let q = Query::new(lang, p).unwrap_or_else(|e| panic!("query pool entry invalid: {} ({:?})", p, e));
        let names = q.capture_names();
        let quants = q.capture_quantifiers(0);
        let captures = names.iter().enumerate().map(|(i, n)| (n.to_string(), quants[i])).collect();
        out.push(Pattern { text: p.to_string(), captures });
    }
    out
}

#[derive(Clone, Copy, Debug, PartialEq, Eq)]
pub enum Ty {
    Bool,
    Int,
    Str,
    Syn,
    OptSyn,
    SynList,
    GNode,
    IntList,
    StrList,
    Null,
}

#[derive(Clone, Debug)]
struct Local {
    name: String,
    ty: Ty,
    mutable: bool,
    /// the checker's `is_local`
    local: bool,
    /// the checker's quantifier is a list quantifier
    list_q: bool,
    /// the checker's quantifier is ZeroOrOne
    opt_q: bool,
}

thread_local! {
    // C06: the next injected static-rule violation uses this (rule, sub-form) instead of random ones, so that the
    // catalogue x form product is covered evenly; consumed by the first call of `violation`
    pub static FORCE_RULE: std::cell::Cell<Option<(usize, usize)>> = std::cell::Cell::new(None);
}

thread_local! {
    // C19 compares TEXT printed by another process: the order of several syntax nodes inside one set value follows their
    // addresses (false alarm 1 / 13 in DESIGN 0.6), so its programs must not build such sets
    pub static NO_SYNTAX_NODE_SETS: std::cell::Cell<bool> = std::cell::Cell::new(false);
}

#[derive(Clone, Debug, Default)]
pub struct Opts {
    /// stay inside the order-insensitive fragment of C02/C08
    pub fragment: bool,
    /// probability (percent) of injecting one runtime fault somewhere
    pub fault_pct: usize,
    pub max_stanzas: usize,
    pub allow_print: bool,
    /// universal definer stanza present: `@x.gn` is defined on every named node
    pub universal: bool,
    /// record every capture of every stanza in an attribute of a fresh node (C03 probes)
    pub probe: bool,
    /// emphasise scoped variables: links between captured nodes, nested scopes `@a.link.gn`, inherited reads
    pub scoped_heavy: bool,
    /// local names that begin with DSL keywords
    pub keywordish_names: bool,
    /// 0: none; 1: inject exactly one violation of a static rule (C06); 2: inject one valid near-miss of a rule
    pub static_fault: u8,
}

/// the one static-rule violation (or near-miss) injected into a program
#[derive(Clone, Debug)]
pub struct StaticFault {
    /// catalogue entry
    pub rule: String,
    /// expected `CheckError` variant (Variable:<VariableError> for variable errors); empty for a near-miss
    pub variant: String,
    /// enclosing blocks, outermost first (top, if, for, scan)
    pub context: String,
    /// how the offending construct is embedded
    pub form: String,
    /// the reported location is the first occurrence of this token in the line marked `;FAULT`
    pub loc_token: Option<String>,
}

pub struct Program {
    pub text: String,
    /// everything before the stanzas (globals, inherit, shorthands)
    pub header: String,
    /// the stanzas, in file order (`text = header + stanzas.concat()`)
    pub stanzas: Vec<String>,
    pub globals: Vec<(String, bool)>, // (name, list-typed)
    pub stanza_count: usize,
    pub has_fault: bool,
    pub features: Vec<&'static str>,
    pub static_fault: Option<StaticFault>,
}

struct Gen<'a> {
    r: &'a mut Rng,
    opts: Opts,
    scopes: Vec<Vec<Local>>,
    captures: Vec<(String, CaptureQuantifier)>,
    used_captures: Vec<String>,
    globals: Vec<(String, Ty)>,
    regex_groups: Option<usize>,
    counter: usize,
    shorthands: Vec<String>,
    scoped_defined_here: Vec<(String, String)>, // (capture, name) defined in this stanza execution
    features: Vec<&'static str>,
    fault_budget: usize,
    has_fault: bool,
    in_shorthand: bool,
    /// statements to go before the static fault is injected (None: nothing pending)
    sf_countdown: Option<usize>,
    sf: Option<StaticFault>,
    /// names declared in blocks that are closed by now
    popped: Vec<String>,
    block_kinds: Vec<&'static str>,
    /// set when `expr` returned something that mentions a non-local variable (mutable, or bound to a non-local value)
    taint: bool,
}

const REGEXES: &[(&str, usize)] = &[
    ("a", 0),
    ("[a-z]+", 0),
    ("([a-z])([0-9])?", 2),
    ("\\s+", 0),
    ("(\\w+)", 1),
    ("[0-9]+", 0),
    ("(a|b)(c)?", 2),
    ("_", 0),
    ("\u{e9}", 0),
    ("[^a-z]", 0),
    ("e|(x)", 1),
];

impl<'a> Gen<'a> {
    fn fresh(&mut self, base: &str) -> String {
        self.counter += 1;
        if self.opts.keywordish_names && self.r.chance(1, 3) {
            // identifiers that merely begin with a keyword (C07)
            let kw = *self.r.pick(&["let", "var", "set", "node", "edge", "attr", "print", "scan", "if", "elif", "else", "for", "in", "some", "none",
                "attribute", "global", "inherit", "true", "false", "null"]);
            return format!("{}{}{}", kw, self.r.pick(&["_", "x", "thing", "-a", "1"]), self.counter);
        }
        format!("{}{}", base, self.counter)
    }

    fn feature(&mut self, f: &'static str) {
        if !self.features.contains(&f) {
            self.features.push(f);
        }
    }

    fn lookup_locals(&self, pred: &dyn Fn(&Local) -> bool) -> Vec<Local> {
        let mut seen: Vec<String> = Vec::new();
        let mut out = Vec::new();
        for scope in self.scopes.iter().rev() {
            for l in scope.iter().rev() {
                if !seen.contains(&l.name) {
                    seen.push(l.name.clone());
                    if pred(l) {
                        out.push(l.clone());
                    }
                }
            }
        }
        out
    }

    fn name_taken(&self, name: &str) -> bool {
        self.scopes.last().unwrap().iter().any(|l| l.name == name) || self.globals.iter().any(|g| g.0 == name)
    }

    fn use_capture(&mut self, name: &str) -> String {
        if !self.used_captures.contains(&name.to_string()) {
            self.used_captures.push(name.to_string());
        }
        format!("@{}", name)
    }

    fn captures_with(&self, f: &dyn Fn(CaptureQuantifier) -> bool) -> Vec<String> {
        if self.in_shorthand {
            return Vec::new();
        }
        self.captures.iter().filter(|c| f(c.1)).map(|c| c.0.clone()).collect()
    }

    /// wrong-typed replacement (runtime fault) — returns Some(text) if a fault is injected here
    fn maybe_fault(&mut self, want: Ty) -> Option<String> {
        if self.fault_budget == 0 || !self.r.chance(1, 12) {
            return None;
        }
        self.fault_budget -= 1;
        self.has_fault = true;
        Some(
            match want {
                // wrong type, or a boolean function given a non-boolean AFTER the argument that decides its value
                Ty::Bool => *self.r.pick(&["\"notbool\"", "\"notbool\"", "(and #false 1)", "(or #true \"x\")", "(and #true #false #null)", "(not 1)", "(or #false #true [])"]),
                Ty::Int => "\"notint\"",
                // wrong type, or a function that fails on its data (invalid regular expression, missing format argument)
                Ty::Str => *self.r.pick(&["17", "17", "(replace \"a-b-c\" \"(\" \"+\")", "(replace \"abc\" \"[z-a]\" \"\")", "(format \"{}{}\" 1)"]),
                Ty::Syn | Ty::OptSyn => "3",
                Ty::SynList | Ty::IntList | Ty::StrList => "\"notlist\"",
                Ty::GNode => "\"notnode\"",
                Ty::Null => "(no-such-function 1)",
            }
            .to_string(),
        )
    }

    /// an expression of runtime type `ty`. `need_local`: must be `is_local` for the checker.
    fn expr(&mut self, ty: Ty, depth: usize, need_local: bool) -> String {
        if let Some(f) = self.maybe_fault(ty) {
            return f;
        }
        // locals of that type
        let cands = self.lookup_locals(&|l| l.ty == ty && (!need_local || l.local));
        if !cands.is_empty() && self.r.chance(1, 3) {
            let l = self.r.pick(&cands).clone();
            if !l.local {
                self.taint = true;
            }
            return l.name;
        }
        // globals
        let gs: Vec<String> = self.globals.iter().filter(|g| g.1 == ty).map(|g| g.0.clone()).collect();
        if !gs.is_empty() && self.r.chance(1, 4) {
            self.feature("global-read");
            return self.r.pick(&gs).clone();
        }
        let d = depth.saturating_sub(1);
        match ty {
            Ty::Null => "#null".to_string(),
            Ty::Bool => match if depth == 0 { self.r.below(2) } else { self.r.below(8) } {
                0 => "#true".to_string(),
                1 => "#false".to_string(),
                2 => format!("(not {})", self.expr(Ty::Bool, d, need_local)),
                3 => format!("(and {} {})", self.expr(Ty::Bool, d, need_local), self.expr(Ty::Bool, d, need_local)),
                4 => format!("(or {} {})", self.expr(Ty::Bool, d, need_local), self.expr(Ty::Bool, d, need_local)),
                5 => {
                    let t = *self.r.pick(&[Ty::Int, Ty::Str, Ty::Bool]);
                    // null compares with values of every type, on either side
                    match self.r.below(6) {
                        0 => format!("(eq {} #null)", self.expr(t, d, need_local)),
                        1 => format!("(eq #null {})", self.expr(t, d, need_local)),
                        _ => format!("(eq {} {})", self.expr(t, d, need_local), self.expr(t, d, need_local)),
                    }
                }
                6 => {
                    let opts = self.captures_with(&|q| q == CaptureQuantifier::ZeroOrOne);
                    if !opts.is_empty() {
                        let c = self.r.pick(&opts).clone();
                        format!("(is-null {})", self.use_capture(&c))
                    } else {
                        format!("(is-null {})", self.expr(Ty::Int, d, need_local))
                    }
                }
                _ => format!("(is-empty {})", self.expr(Ty::IntList, d, need_local)),
            },
            Ty::Int => match if depth == 0 { self.r.below(2) } else { self.r.below(7) } {
                0 => format!("{}", self.r.below(100)),
                1 => format!("{}", self.r.below(5)),
                2 => format!("(plus {} {})", self.expr(Ty::Int, d, need_local), self.expr(Ty::Int, d, need_local)),
                3 => format!("(length {})", self.expr(Ty::IntList, d, need_local)),
                4 => match self.syn_expr(need_local) {
                    Some(s) => format!("(named-child-count {})", s),
                    None => "7".to_string(),
                },
                5 => match self.syn_expr(need_local) {
                    Some(s) => format!("({} {})", self.r.pick(&["start-row", "start-column", "end-row", "end-column", "named-child-index"]), s),
                    None => "8".to_string(),
                },
                _ => match self.synlist_expr(need_local) {
                    Some(s) => format!("(length {})", s),
                    None => "9".to_string(),
                },
            },
            Ty::Str => match if depth == 0 { self.r.below(2) } else { self.r.below(9) } {
                0 => format!("\"{}\"", self.r.pick(&["a", "b1", "x y", "caf\u{e9}", "", "q\\\"t", "l\\n2", "{}",
                    // an escaped backslash followed by a letter that would itself be an escape: the literal is `\` + letter
                    "C:\\\\new", "a\\\\tb\\\\0", "\\\\r\\n", "\\\\\\\\n", "x\\\\", "\\t\\\\t"])),
                1 => format!("\"{}\"", self.r.pick(&["foo", "bar_2", "a1b2", "  ", "\u{65e5}"])),
                2 => match self.syn_expr(need_local) {
                    Some(s) => format!("(source-text {})", s),
                    None => "\"st\"".to_string(),
                },
                3 => match self.syn_expr(need_local) {
                    Some(s) => format!("(node-type {})", s),
                    None => "\"nt\"".to_string(),
                },
                4 => {
                    // graph nodes are not rendered as text (C02 fragment; numbering differs by mode)
                    let t = *self.r.pick(&[Ty::Int, Ty::Str, Ty::Bool, Ty::Null]);
                    let template = *self.r.pick(&["<{}|{}>{{}}", "<{}|{}>{{}}", "\u{e9}{}\u{2192}{}", "{}\u{65e5}{}}}", "\u{1f600}{{{}{}"]);
                    format!("(format \"{}\" {} {})", template, self.expr(t, d, need_local), self.expr(Ty::Str, d, need_local))
                }
                5 => format!("(replace {} \"{}\" \"{}\")", self.expr(Ty::Str, d, need_local), self.r.pick(&["a", "[0-9]", "(x)", "\\\\s"]), self.r.pick(&["", "Z", "$0$0"])),
                6 => format!("(join {} \"{}\")", self.expr(Ty::StrList, d, need_local), self.r.pick(&[",", "", "-"])),
                7 => {
                    if let Some(n) = self.regex_groups {
                        self.feature("regex-capture");
                        format!("${}", self.r.below(n + 1))
                    } else {
                        "\"nr\"".to_string()
                    }
                }
                _ => format!("(join {})", self.expr(Ty::IntList, d, need_local)),
            },
            Ty::Syn => self.syn_expr(need_local).unwrap_or_else(|| "#null".to_string()),
            Ty::OptSyn => {
                let opts = self.captures_with(&|q| q == CaptureQuantifier::ZeroOrOne);
                if !opts.is_empty() {
                    let c = self.r.pick(&opts).clone();
                    self.use_capture(&c)
                } else {
                    "#null".to_string()
                }
            }
            Ty::SynList => self.synlist_expr(need_local).unwrap_or_else(|| "[]".to_string()),
            Ty::IntList => match if depth == 0 { 0 } else { self.r.below(4) } {
                0 => {
                    let n = self.r.below(4);
                    let items: Vec<String> = (0..n).map(|_| self.expr(Ty::Int, d, need_local)).collect();
                    format!("[{}]", items.join(", "))
                }
                1 => {
                    self.feature("list-comprehension");
                    let v = self.fresh("c");
                    let src = self.local_list_source(Ty::Int, d);
                    self.scopes.push(vec![Local { name: v.clone(), ty: src.1, mutable: false, local: true, list_q: true, opt_q: false }]);
                    let body = self.expr(Ty::Int, d, need_local);
                    self.scopes.pop();
                    format!("[ {} for {} in {} ]", body, v, src.0)
                }
                2 => format!("(concat {} {})", self.expr(Ty::IntList, d, need_local), self.expr(Ty::IntList, d, need_local)),
                _ => {
                    let n = self.r.below(3);
                    let items: Vec<String> = (0..n).map(|_| self.expr(Ty::Int, d, need_local)).collect();
                    format!("[{}{}]", items.join(","), if n > 0 && self.r.chance(1, 3) { "," } else { "" })
                }
            },
            Ty::StrList => match if depth == 0 { 0 } else { self.r.below(3) } {
                0 => {
                    let n = self.r.below(4);
                    let items: Vec<String> = (0..n).map(|_| self.expr(Ty::Str, d, need_local)).collect();
                    format!("[{}]", items.join(", "))
                }
                1 => {
                    self.feature("list-comprehension");
                    let v = self.fresh("c");
                    let src = self.local_list_source(Ty::Syn, d);
                    self.scopes.push(vec![Local { name: v.clone(), ty: src.1, mutable: false, local: true, list_q: true, opt_q: false }]);
                    let body = if src.1 == Ty::Syn { format!("(node-type {})", v) } else { self.expr(Ty::Str, d, need_local) };
                    self.scopes.pop();
                    format!("[ {} for {} in {} ]", body, v, src.0)
                }
                _ => format!("(concat {} {})", self.expr(Ty::StrList, d, need_local), self.expr(Ty::StrList, d, need_local)),
            },
            Ty::GNode => {
                let cands = self.lookup_locals(&|l| l.ty == Ty::GNode && (!need_local || l.local));
                if !cands.is_empty() && self.r.chance(3, 4) {
                    let l = self.r.pick(&cands).clone();
                    if !l.local {
                        self.taint = true;
                    }
                    return l.name;
                }
                if !need_local && self.opts.universal && self.r.chance(1, 2) {
                    if let Some(s) = self.syn_expr(false) {
                        self.feature("scoped-read");
                        return format!("{}.gn", s);
                    }
                }
                if !need_local && !self.scoped_defined_here.is_empty() && self.r.chance(1, 2) {
                    let (c, n) = self.r.pick(&self.scoped_defined_here.clone()).clone();
                    self.feature("scoped-read");
                    return format!("{}.{}", self.use_capture(&c), n);
                }
                self.feature("node-call");
                "(node)".to_string()
            }
        }
    }

    /// an expression evaluating to a (named) syntax node
    fn syn_expr(&mut self, need_local: bool) -> Option<String> {
        let cands = self.lookup_locals(&|l| l.ty == Ty::Syn && (!need_local || l.local));
        let caps = self.captures_with(&|q| q == CaptureQuantifier::One);
        if !cands.is_empty() && (caps.is_empty() || self.r.chance(1, 2)) {
            let l = self.r.pick(&cands).clone();
            if !l.local {
                self.taint = true;
            }
            return Some(l.name);
        }
        if !caps.is_empty() {
            let c = self.r.pick(&caps).clone();
            return Some(self.use_capture(&c));
        }
        None
    }

    fn synlist_expr(&mut self, need_local: bool) -> Option<String> {
        let cands = self.lookup_locals(&|l| l.ty == Ty::SynList && (!need_local || l.local));
        let caps = self.captures_with(&|q| q == CaptureQuantifier::ZeroOrMore || q == CaptureQuantifier::OneOrMore);
        if !cands.is_empty() && (caps.is_empty() || self.r.chance(1, 2)) {
            let l = self.r.pick(&cands).clone();
            if !l.local {
                self.taint = true;
            }
            return Some(l.name);
        }
        if !caps.is_empty() {
            let c = self.r.pick(&caps).clone();
            return Some(self.use_capture(&c));
        }
        None
    }

    /// a local expression with a list quantifier in the checker (for `for` / comprehension sources);
    /// returns (text, element type)
    fn local_list_source(&mut self, prefer: Ty, depth: usize) -> (String, Ty) {
        let d = depth.saturating_sub(1);
        let locals = self.lookup_locals(&|l| l.local && l.list_q && matches!(l.ty, Ty::SynList | Ty::IntList | Ty::StrList));
        if !locals.is_empty() && self.r.chance(1, 3) {
            let l = self.r.pick(&locals).clone();
            let el = match l.ty {
                Ty::SynList => Ty::Syn,
                Ty::IntList => Ty::Int,
                _ => Ty::Str,
            };
            return (l.name, el);
        }
        if prefer == Ty::Syn || self.r.chance(1, 2) {
            let caps = self.captures_with(&|q| q == CaptureQuantifier::ZeroOrMore || q == CaptureQuantifier::OneOrMore);
            if !caps.is_empty() {
                let c = self.r.pick(&caps).clone();
                return (self.use_capture(&c), Ty::Syn);
            }
        }
        match self.r.below(2) {
            0 => {
                let n = self.r.below(4);
                let items: Vec<String> = (0..n).map(|_| self.expr(Ty::Int, d, true)).collect();
                (format!("[{}]", items.join(", ")), Ty::Int)
            }
            _ => {
                let n = self.r.below(3);
                let items: Vec<String> = (0..n).map(|_| self.expr(Ty::Str, d, true)).collect();
                (format!("[{}]", items.join(", ")), Ty::Str)
            }
        }
    }

    fn any_value(&mut self, depth: usize) -> (String, Ty) {
        let ty = *self.r.pick(&[Ty::Bool, Ty::Int, Ty::Str, Ty::Str, Ty::IntList, Ty::StrList, Ty::Null, Ty::Int]);
        (self.expr(ty, depth, false), ty)
    }

    fn attr_list(&mut self, depth: usize) -> String {
        let n = self.r.range(1, 3);
        let mut items = Vec::new();
        for _ in 0..n {
            if !self.shorthands.is_empty() && !self.in_shorthand && self.r.chance(1, 4) {
                self.feature("shorthand-use");
                let sh = self.r.pick(&self.shorthands.clone()).clone();
                if sh == "shref" {
                    // (the guard comes first: `syn_expr` records the capture it returns as used)
                    let sx = if items.iter().any(|i: &String| i.starts_with("shref ")) { None } else { self.syn_expr(false) };
                    match sx {
                        Some(sx) => {
                            self.feature("shorthand-over-scoped-read");
                            items.push(format!("shref = {}.gn", sx));
                        }
                        None => items.push("flag".to_string()),
                    }
                } else {
                    items.push(format!("{} = {}", sh, self.expr(Ty::Str, depth, false)));
                }
            } else if self.opts.universal && !self.in_shorthand && self.r.chance(1, 4) && !items.iter().any(|i: &String| i.starts_with("refs ")) {
                // a comprehension whose element reads a scoped variable defined by another stanza (C08, C02)
                match self.synlist_expr(false) {
                    Some(src) => {
                        self.feature("comprehension-over-scoped-read");
                        let v = self.fresh("q");
                        items.push(format!("refs = [ {}.gn for {} in {} ]", v, v, src));
                    }
                    None => items.push("flag".to_string()),
                }
            } else {
                let name = self.r.pick(&["k", "kind", "name", "val", "x-1", "flag", "n"]).to_string();
                if self.r.chance(1, 6) {
                    items.push(name); // `attr (n) flag` = #true
                } else {
                    let (v, _) = self.any_value(depth);
                    items.push(format!("{} = {}", name, v));
                }
            }
        }
        items.join(", ")
    }

    fn block(&mut self, depth: usize, indent: usize, pre: Vec<Local>) -> String {
        self.block_k("if", depth, indent, pre)
    }

    fn block_k(&mut self, kind: &'static str, depth: usize, indent: usize, pre: Vec<Local>) -> String {
        self.scopes.push(pre);
        self.block_kinds.push(kind);
        let n = self.r.range(1, 3);
        let mut out = String::new();
        for _ in 0..n {
            out.push_str(&self.stmt(depth, indent));
        }
        self.block_kinds.pop();
        let closed = self.scopes.pop().unwrap();
        self.popped.extend(closed.into_iter().map(|l| l.name));
        out
    }

    fn visible(&self, name: &str) -> bool {
        self.scopes.iter().any(|s| s.iter().any(|l| l.name == name)) || self.globals.iter().any(|g| g.0 == name)
    }

    /// a statement, preceded by the pending static fault when its time has come
    fn stmt(&mut self, depth: usize, indent: usize) -> String {
        let mut pre = String::new();
        if let Some(n) = self.sf_countdown {
            if n == 0 {
                self.sf_countdown = None;
                pre = if self.opts.static_fault == 2 { self.near_miss(indent) } else { self.violation(indent) };
            } else {
                self.sf_countdown = Some(n - 1);
            }
        }
        pre + &self.stmt_inner(depth, indent)
    }

    fn context(&self) -> String {
        let mut c = vec!["top"];
        c.extend(self.block_kinds.iter());
        c.join(">")
    }

    /// embeds a faulty expression `e` in a statement; returns (prefix lines, fault line without pad, form)
    fn embed_expr(&mut self, e: &str) -> (String, String, &'static str) {
        let wrapped: (String, &'static str) = match self.r.below(12) {
            // after a NON-LOCAL element of a list / set literal (a `var` is never local): every element is checked
            9 => (format!("[znl, {}]", e), "list-element-after-non-local"),
            10 => (format!("{{znl, 7, {}}}", e), "set-element-after-non-local"),
            11 => (format!("[[znl], [{}, 1]]", e), "nested-list-after-non-local"),
            0 => (e.to_string(), "bare"),
            1 => (format!("(plus 1 {})", e), "call-arg"),
            2 => (format!("[{}]", e), "list-element"),
            3 => (format!("{{2, {}}}", e), "set-element"),
            4 => (format!("[ {} for zq in [1] ]", e), "comprehension-element"),
            5 => (format!("[ zq for zq in [{}] ]", e), "comprehension-source"),
            6 => (format!("{}.zscoped", e), "scope-of-scoped-variable"),
            7 => (format!("(format \"{{}}\" (is-null [{}, 1]))", e), "nested-call-list"),
            _ => (format!("{{ [{}] for zq in [1, 2] }}", e), "set-comprehension-element"),
        };
        let (w, form) = wrapped;
        let extra = if form.ends_with("after-non-local") { "var znl = 1\n" } else { "" };
        let (pre, line, form) = match self.r.below(8) {
            0 => (String::new(), format!("let zf = {}", w), form),
            1 => (String::new(), format!("var zf = {}", w), form),
            2 => ("node zn\n".to_string(), format!("attr (zn) k = {}", w), form),
            3 => (String::new(), format!("print {}", w), form),
            4 => ("node zn\n".to_string(), format!("edge zn -> {}", w), form),
            5 => (String::new(), format!("if (is-null {}) {{ }}", w), form),
            6 => (String::new(), format!("for zi in [{}] {{ }}", w), form),
            _ => ("var zm = 1\n".to_string(), format!("set zm = {}", w), form),
        };
        (format!("{}{}", extra, pre), line, form)
    }

    fn emit_fault(&mut self, indent: usize, rule: &str, variant: &str, form: &str, prefix: &str, line: &str, loc_token: Option<&str>) -> String {
        let pad = "  ".repeat(indent);
        self.sf = Some(StaticFault { rule: rule.to_string(), variant: variant.to_string(), context: self.context(), form: form.to_string(), loc_token: loc_token.map(|s| s.to_string()) });
        let mut out = String::new();
        for l in prefix.lines() {
            out.push_str(&format!("{}{}\n", pad, l));
        }
        // the marker goes at the end of the first line of the offending statement
        let mut lines = line.lines();
        out.push_str(&format!("{}{} ;FAULT\n", pad, lines.next().unwrap_or("")));
        for l in lines {
            out.push_str(&format!("{}{}\n", pad, l));
        }
        out
    }

    /// a chain of bindings that carries non-locality from `src` to the returned name
    fn nonlocal_chain(&mut self, src: &str, listy: bool) -> (String, String) {
        let mut prefix = String::new();
        let mut cur = src.to_string();
        let n = self.r.below(4);
        for k in 0..n {
            let name = format!("zc{}", k);
            let e = match self.r.below(5) {
                0 => cur.clone(),
                1 => format!("[{}]", cur),
                2 => match self.r.below(4) {
                    0 => format!("(format \"{{}}\" {})", cur),
                    1 => format!("(format \"{{}}{{}}\" {} 1)", cur),
                    2 => format!("(replace {} \"a\" \"b\")", cur),
                    _ => format!("(eq {} 1 2)", cur),
                },
                3 => format!("{{{}, 1}}", cur),
                _ => format!("[ zq for zq in [1] ]").replace("[ zq for", &format!("[ {} for", cur)),
            };
            prefix.push_str(&format!("let {} = {}\n", name, e));
            cur = name;
        }
        if listy {
            // the consumer needs a list quantifier: a list literal keeps non-locality
            prefix.push_str(&format!("let zl = [{}]\n", cur));
            cur = "zl".to_string();
        }
        (prefix, cur)
    }

    /// exactly one violation of a static rule, at the current position
    fn violation(&mut self, indent: usize) -> String {
        let one_caps = self.captures_with(&|q| q == CaptureQuantifier::One);
        let nonopt_caps = self.captures_with(&|q| q != CaptureQuantifier::ZeroOrOne);
        let nonlist_caps = self.captures_with(&|q| q == CaptureQuantifier::One || q == CaptureQuantifier::ZeroOrOne);
        let inner: Vec<Local> = self.scopes.last().unwrap().clone();
        let immut = self.lookup_locals(&|l| !l.mutable);
        let gone: Vec<String> = self.popped.iter().filter(|n| !self.visible(n)).cloned().collect();
        let forced = FORCE_RULE.with(|c| c.take());
        for attempt in 0..40 {
            let rule_pick = self.r.below(18);
            let rule_pick = match forced { Some((rule, _)) if attempt == 0 => rule % 18, _ => rule_pick };
            match rule_pick {
                0 => {
                    let (p, l, f) = self.embed_expr("zundefined");
                    return self.emit_fault(indent, "undefined-variable", "UndefinedVariable", f, &p, &l, Some("zundefined"));
                }
                1 if !gone.is_empty() => {
                    let n = self.r.pick(&gone).clone();
                    let (p, l, f) = self.embed_expr(&n);
                    // the name may also occur earlier in the line only if it is a prefix of another token: names are unique
                    return self.emit_fault(indent, "out-of-scope-variable", "UndefinedVariable", f, &p, &l, Some(&n));
                }
                2 => {
                    // redefinition within a block
                    let (prefix, name) = if !inner.is_empty() && self.r.chance(2, 3) { (String::new(), self.r.pick(&inner).name.clone()) } else { ("let zdup = 1\n".to_string(), "zdup".to_string()) };
                    let (line, form) = match self.r.below(3) {
                        0 => (format!("let {} = 2", name), "let"),
                        1 => (format!("var {} = 2", name), "var"),
                        _ => (format!("node {}", name), "node"),
                    };
                    let tok = format!(" {}", name);
                    let _ = tok;
                    return self.emit_fault(indent, "redefinition-in-block", "Variable:VariableAlreadyDefined", form, &prefix, &line, Some(&name));
                }
                3 => {
                    // assignment to an immutable variable (possibly of an outer block)
                    let (prefix, name) = if !immut.is_empty() && self.r.chance(2, 3) { (String::new(), self.r.pick(&immut).name.clone()) } else { ("let zimm = 1\n".to_string(), "zimm".to_string()) };
                    return self.emit_fault(indent, "assign-immutable", "Variable:CannotAssignImmutableVariable", "set", &prefix, &format!("set {} = 2", name), Some(&name));
                }
                4 => return self.emit_fault(indent, "assign-undefined", "Variable:UndefinedVariable", "set", "", "set zundefined = 2", Some("zundefined")),
                5 if !gone.is_empty() => {
                    let n = self.r.pick(&gone).clone();
                    return self.emit_fault(indent, "assign-out-of-scope", "Variable:UndefinedVariable", "set", "", &format!("set {} = 2", n), Some(&n));
                }
                6 if !self.globals.is_empty() => {
                    let g = self.r.pick(&self.globals.clone()).0.clone();
                    return self.emit_fault(indent, "assign-global", "CannotSetGlobalVariable", "set", "", &format!("set {} = \"x\"", g), Some(&g));
                }
                7 if !self.globals.is_empty() => {
                    let g = self.r.pick(&self.globals.clone()).0.clone();
                    let sub = self.r.below(6);
                    let sub = match forced { Some((_, f)) if attempt == 0 => f % 6, _ => sub };
                    let (line, form) = match sub {
                        0 => (format!("let {} = 1", g), "let"),
                        1 => (format!("var {} = 1", g), "var"),
                        2 => (format!("node {}", g), "node"),
                        3 => (format!("for {} in [1] {{ }}", g), "for-variable"),
                        4 => (format!("let zf = [ 1 for {} in [1] ]", g), "comprehension-variable"),
                        _ => (format!("print {{ 1 for {} in [1] }}", g), "set-comprehension-variable"),
                    };
                    return self.emit_fault(indent, "hide-global", "CannotHideGlobalVariable", form, "", &line, Some(&g));
                }
                8 => {
                    let (p, l, f) = self.embed_expr("@zundefinedcap");
                    return self.emit_fault(indent, "undefined-capture", "UndefinedSyntaxCapture", f, &p, &l, Some("@zundefinedcap"));
                }
                9 | 10 => {
                    // a source that depends on a mutable or scoped variable
                    let (mut prefix, src, how) = if !one_caps.is_empty() && self.r.chance(1, 2) {
                        let c = self.r.pick(&one_caps).clone();
                        (String::new(), format!("{}.zsv", self.use_capture(&c)), "scoped")
                    } else if self.r.chance(1, 2) {
                        ("var zmut = \"x\"\n".to_string(), "zmut".to_string(), "mutable")
                    } else {
                        ("var zmut = \"x\"\nset zmut = \"y\"\n".to_string(), "zmut".to_string(), "mutable-set")
                    };
                    let consumer = self.r.below(8);
                    let listy = matches!(consumer, 3 | 4 | 5);
                    let (chain, name) = self.nonlocal_chain(&src, listy);
                    prefix.push_str(&chain);
                    let (line, form, tok): (String, &str, &str) = match consumer {
                        0 => (format!("scan {} {{\n  \"a\" {{ }}\n}}", name), "scan", "scan"),
                        1 => (format!("if {} {{ }}", name), "if", &"__cond"),
                        2 => (format!("if #false {{ }} elif {} {{ }}", name), "elif", &"__cond2"),
                        3 => (format!("for zi in {} {{ }}", name), "for", "for"),
                        4 => (format!("let zf = [ 1 for zq in {} ]", name), "list-comprehension", "["),
                        5 => (format!("print {{ 1 for zq in {} }}", name), "set-comprehension", "{"),
                        6 => (format!("if some {} {{ }}", name), "if-some", "some"),
                        _ => (format!("if none {} {{ }}", name), "if-none", "none"),
                    };
                    let tok_owned: Option<String> = match tok {
                        "__cond" => Some(name.clone()),
                        "__cond2" => None,
                        t => Some(t.to_string()),
                    };
                    let rule = format!("nonlocal-{}-source", how);
                    return self.emit_fault(indent, &rule, "ExpectedLocalValue", form, &prefix, &line, tok_owned.as_deref());
                }
                11 => {
                    // some/none on a non-optional value
                    let v = match self.r.below(5) {
                        0 if !nonopt_caps.is_empty() => { let c = self.r.pick(&nonopt_caps).clone(); self.use_capture(&c) }
                        1 => "1".to_string(),
                        2 => "[1]".to_string(),
                        3 => "(is-null 1)".to_string(),
                        _ => "#null".to_string(),
                    };
                    let (prefix, name) = if self.r.chance(1, 3) { (format!("let zo = {}\n", v), "zo".to_string()) } else { (String::new(), v) };
                    let kw = *self.r.pick(&["some", "none"]);
                    let (line, form) = if self.r.chance(1, 3) { (format!("if #false {{ }} elif {} {} {{ }}", kw, name), "elif") } else { (format!("if {} {} {{ }}", kw, name), "if") };
                    return self.emit_fault(indent, "non-optional-condition", "ExpectedOptionalValue", form, &prefix, &line, Some(kw));
                }
                12 | 13 => {
                    // iteration over a non-list
                    let v = match self.r.below(6) {
                        0 if !nonlist_caps.is_empty() => { let c = self.r.pick(&nonlist_caps).clone(); self.use_capture(&c) }
                        1 => "1".to_string(),
                        2 => "\"s\"".to_string(),
                        3 => "(concat [1] [2])".to_string(),
                        4 => "#null".to_string(),
                        _ => "$0".to_string(),
                    };
                    let (prefix, name) = if self.r.chance(1, 3) { (format!("let zs = {}\n", v), "zs".to_string()) } else { (String::new(), v) };
                    let (line, form, tok) = match self.r.below(3) {
                        0 => (format!("for zi in {} {{ }}", name), "for", "for"),
                        1 => (format!("let zf = [ zq for zq in {} ]", name), "list-comprehension", "["),
                        _ => (format!("print {{ zq for zq in {} }}", name), "set-comprehension", "{"),
                    };
                    return self.emit_fault(indent, "iterate-non-list", "ExpectedListValue", form, &prefix, &line, Some(tok));
                }
                16 => {
                    // the nearest declaration decides: an immutable variable that shadows a mutable one of an enclosing block
                    let (prefix, line, form) = match self.r.below(3) {
                        0 => ("var zsh2 = 0\nif #true {\n  let zsh2 = 1", "  set zsh2 = 2\n}", "set"),
                        1 => ("var zsh2 = 0\nfor zsh2 in [1, 2] {", "  set zsh2 = 3\n}", "set"),
                        _ => ("var zsh2 = 0\nif #true {\n  let zsh2 = 1\n  scan \"ab\" {\n    \"a\" {", "      set zsh2 = 2\n    }\n  }\n}", "set"),
                    };
                    return self.emit_fault(indent, "assign-immutable-shadowing-mutable", "Variable:CannotAssignImmutableVariable", form, prefix, line, Some("zsh2"));
                }
                17 => {
                    // a scan arm with an empty block is an arm like any other: it must be kept (C10) and its regex checked
                    let line = "scan \"abc\" {\n  \"b\" { }\n  \"c*\" { }\n  \"a\" { node zn3 }\n}";
                    return self.emit_fault(indent, "nullable-regex-in-empty-arm", "NullableRegex", "scan-arm", "", line, None);
                }
                14 | 15 => {
                    let re = *self.r.pick(&["a*", "", "(x)?", "b|", "[0-9]*", "^", "(a|b)*c?"]);
                    let line = format!("scan \"abc\" {{\n  \"b\" {{ }}\n  \"{}\" {{ }}\n}}", re);
                    return self.emit_fault(indent, "nullable-regex", "NullableRegex", "scan-arm", "", &line, None);
                }
                _ => continue,
            }
        }
        String::new()
    }

    /// a valid construct that sits right next to a rule (must be accepted)
    fn near_miss(&mut self, indent: usize) -> String {
        let opt_caps = self.captures_with(&|q| q == CaptureQuantifier::ZeroOrOne);
        let list_caps = self.captures_with(&|q| q == CaptureQuantifier::ZeroOrMore || q == CaptureQuantifier::OneOrMore);
        let outer: Vec<Local> = if self.scopes.len() > 1 { self.scopes[..self.scopes.len() - 1].iter().flatten().filter(|l| !self.scopes.last().unwrap().iter().any(|i| i.name == l.name)).cloned().collect() } else { vec![] };
        let muts = self.lookup_locals(&|l| l.mutable);
        for _ in 0..40 {
            match self.r.below(10) {
                0 if !outer.is_empty() => {
                    // shadowing a variable of an enclosing block is allowed; it lives in a nested block of its own
                    let n = self.r.pick(&outer).name.clone();
                    return self.emit_fault(indent, "shadow-outer-variable", "", "let", "", &format!("if #true {{\n  let {} = 2\n}}", n), None);
                }
                1 => return self.emit_fault(indent, "shadow-in-nested-block", "", "let", "let zsh = 1\n", "if #true {\n  let zsh = 2\n  for zsh in [1] { }\n}", None),
                2 if !muts.is_empty() => {
                    let n = self.r.pick(&muts).name.clone();
                    return self.emit_fault(indent, "set-mutable-from-nested-block", "", "set", "", &format!("if #true {{\n  set {} = 2\n}}", n), None);
                }
                3 => return self.emit_fault(indent, "local-list-through-bindings", "", "for", "let zl1 = [1, 2]\nlet zl2 = zl1\n", "for zi in zl2 { }", None),
                4 if !opt_caps.is_empty() => {
                    let c = self.r.pick(&opt_caps).clone();
                    let cap = self.use_capture(&c);
                    return self.emit_fault(indent, "optional-through-binding", "", "if-some", &format!("let zo = {}\n", cap), "if some zo { } elif none zo { }", None);
                }
                5 if !list_caps.is_empty() => {
                    let c = self.r.pick(&list_caps).clone();
                    let cap = self.use_capture(&c);
                    return self.emit_fault(indent, "capture-list-comprehension", "", "list-comprehension", "", &format!("let zf = [ (node-type zq) for zq in {} ]", cap), None);
                }
                6 => return self.emit_fault(indent, "non-nullable-regex", "", "scan-arm", "", "scan \"abc\" {\n  \"a+\" { }\n  \"b|c\" { }\n}", None),
                7 => return self.emit_fault(indent, "mutable-read-in-attribute", "", "attr", "var zm2 = 1\nnode zn2\n", "attr (zn2) k = zm2, j = [zm2]", None),
                8 => return self.emit_fault(indent, "immutable-of-local-is-local", "", "scan", "let zs1 = \"x\"\nlet zs2 = (format \"{}\" zs1)\n", "scan zs2 {\n  \"x\" { }\n}", None),
                9 => return self.emit_fault(indent, "same-name-in-sibling-blocks", "", "if", "", "if #true {\n  let zsib = 1\n} else {\n  let zsib = 2\n}", None),
                _ => continue,
            }
        }
        String::new()
    }

    fn declare(&mut self, name: &str, ty: Ty, mutable: bool, local: bool, list_q: bool, opt_q: bool) {
        self.scopes.last_mut().unwrap().push(Local { name: name.to_string(), ty, mutable, local: local && !mutable, list_q, opt_q });
    }

    fn stmt_inner(&mut self, depth: usize, indent: usize) -> String {
        let pad = "  ".repeat(indent);
        let d = depth.saturating_sub(1);
        let choice = if depth == 0 { self.r.below(10) } else { self.r.below(17) };
        let choice = if depth == 0 && choice == 9 { 16 } else { choice };
        match choice {
            16 => {
                // a list / set LITERAL whose elements are node calls, bound to a local: evaluated once per binding (strict: where
                // it stands; lazy: one thunk, forced at most once and in any case at the end), read twice, once or never (C02)
                let v = self.fresh("nl");
                if self.name_taken(&v) {
                    return String::new();
                }
                self.feature("node-list-literal");
                let as_set = self.r.chance(1, 3);
                let lit = if as_set { "{(node)}" } else { *self.r.pick(&["[(node)]", "[(node), (node)]"]) };
                let reads = self.r.below(3);
                let mut out = format!("{}let {} = {}\n", pad, v, lit);
                if as_set {
                    if reads > 0 {
                        let n = self.fresh("nh");
                        out.push_str(&format!("{}node {}\n{}attr ({}) nla = {}, nlb = {}\n", pad, n, pad, n, v, v));
                    }
                } else {
                    for k in 0..reads {
                        let x = self.fresh("nx");
                        out.push_str(&format!("{}for {} in {} {{\n{}  attr ({}) nl{} = {}\n{}}}\n", pad, x, v, pad, x, k, k, pad));
                    }
                }
                out
            }
            0 | 1 => {
                // node + attr
                let n = self.fresh("n");
                if self.name_taken(&n) {
                    return String::new();
                }
                self.declare(&n, Ty::GNode, false, true, false, false);
                self.feature("node");
                format!("{}node {}\n{}attr ({}) {}\n", pad, n, pad, n, self.attr_list(2))
            }
            2 => {
                let ty = *self.r.pick(&[Ty::Int, Ty::Str, Ty::Bool, Ty::IntList, Ty::StrList, Ty::SynList, Ty::Syn, Ty::OptSyn]);
                let v = self.fresh("v");
                self.taint = false;
                let text = self.expr(ty, 2, false);
                let tainted = self.taint;
                // the checker's view of the bound value
                let is_capture = text.starts_with('@');
                let is_literal_list = text.starts_with('[');
                let list_q = matches!(ty, Ty::IntList | Ty::StrList | Ty::SynList) && (is_capture || is_literal_list);
                let opt_q = ty == Ty::OptSyn && is_capture;
                let local = !text.contains('.') || text.starts_with('"');
                self.declare(&v, ty, false, local && !tainted && !text.contains("(node)"), list_q, opt_q);
                self.feature("let");
                format!("{}let {} = {}\n", pad, v, text)
            }
            3 => {
                // mutable local + set
                let v = self.fresh("m");
                let ty = *self.r.pick(&[Ty::Int, Ty::Str]);
                let a = self.expr(ty, 1, false);
                let b = self.expr(ty, 1, false);
                self.declare(&v, ty, true, false, false, false);
                self.feature("var-set");
                format!("{}var {} = {}\n{}set {} = {}\n", pad, v, a, pad, v, b)
            }
            4 => {
                // edge between graph nodes (+ attr on it)
                let a = self.expr(Ty::GNode, 1, false);
                let b = self.expr(Ty::GNode, 1, false);
                if a == "(node)" || b == "(node)" {
                    // bind first so the edge can be annotated
                    let x = self.fresh("e");
                    let y = self.fresh("e");
                    self.declare(&x, Ty::GNode, false, false, false, false);
                    self.declare(&y, Ty::GNode, false, false, false, false);
                    self.feature("edge");
                    return format!("{}let {} = {}\n{}let {} = {}\n{}edge {} -> {}\n{}attr ({} -> {}) {}\n", pad, x, a, pad, y, b, pad, x, y, pad, x, y, self.attr_list(1));
                }
                self.feature("edge");
                if self.r.chance(1, 2) {
                    format!("{}edge {} -> {}\n{}attr ({} -> {}) {}\n", pad, a, b, pad, a, b, self.attr_list(1))
                } else {
                    format!("{}edge {} -> {}\n", pad, a, b)
                }
            }
            5 => {
                // scoped definition on a captured node
                if let Some(s) = self.syn_expr(false) {
                    if s.starts_with('@') && !self.in_shorthand {
                        let cap = s[1..].to_string();
                        // in the order-insensitive fragment every definer of an inherited name precedes its readers: `.val` is
                        // inherited and read by the stanzas placed before the generated ones, so it is not defined here
                        let name = if self.opts.fragment { self.r.pick(&["def", "ref", "scope2", "val2"]).to_string() } else { self.r.pick(&["def", "ref", "scope2", "val"]).to_string() };
                        if self.scoped_defined_here.iter().any(|(c, n)| *c == cap && *n == name) {
                            return String::new();
                        }
                        self.feature("scoped-def");
                        if name == "val" || name == "val2" {
                            let v = self.expr(Ty::Str, 1, false);
                            return format!("{}let {}.{} = {}\n", pad, s, name, v);
                        }
                        self.scoped_defined_here.push((cap, name.clone()));
                        return format!("{}node {}.{}\n", pad, s, name);
                    }
                }
                String::new()
            }
            6 => {
                if self.opts.allow_print && !self.opts.fragment {
                    self.feature("print");
                    let (v, _) = self.any_value(1);
                    format!("{}print \"dbg\", {}\n", pad, v)
                } else {
                    String::new()
                }
            }
            7 | 8 => {
                // attribute on an existing node
                let n = self.expr(Ty::GNode, 1, false);
                if n == "(node)" {
                    return String::new();
                }
                format!("{}attr ({}) {}\n", pad, n, self.attr_list(2))
            }
            9 | 10 => {
                // if / elif / else
                self.feature("if");
                let mut out = String::new();
                let arms = self.r.range(1, 3);
                // a boolean whose name merely begins with a condition keyword, used as a bare condition (C07)
                let mut kw_cond: Option<String> = None;
                if self.opts.keywordish_names && self.r.chance(1, 2) {
                    self.counter += 1;
                    let name = format!("{}{}{}", self.r.pick(&["some", "none"]), self.r.pick(&["1", "-flag", "_x", "thing", "0a", "-", "-1", "2-"]), self.counter);
                    if !self.name_taken(&name) {
                        self.declare(&name, Ty::Bool, false, true, false, false);
                        out.push_str(&format!("{}let {} = #true\n", pad, name));
                        self.feature("keyword-prefixed-condition");
                        kw_cond = Some(name);
                    }
                }
                for i in 0..arms {
                    let cond = match (&kw_cond, i) {
                        (Some(n), 0) => n.clone(),
                        (Some(n), 1) => format!("{}, {}", self.conditions(d), n),
                        _ => self.conditions(d),
                    };
                    let kw = if i == 0 { "if" } else { "elif" };
                    out.push_str(&format!("{}{} {} {{\n{}{}}}", if i == 0 { pad.clone() } else { " ".to_string() }, kw, cond, self.block(d, indent + 1, vec![]), pad));
                }
                if self.r.chance(1, 2) {
                    out.push_str(&format!(" else {{\n{}{}}}", self.block(d, indent + 1, vec![]), pad));
                }
                out.push('\n');
                out
            }
            11 | 12 => {
                // for
                self.feature("for");
                let v = self.fresh("i");
                let (src, el) = self.local_list_source(Ty::Syn, d);
                let pre = vec![Local { name: v.clone(), ty: el, mutable: false, local: true, list_q: true, opt_q: false }];
                format!("{}for {} in {} {{\n{}{}}}\n", pad, v, src, self.block_k("for", d, indent + 1, pre), pad)
            }
            13 | 14 => {
                // scan
                self.feature("scan");
                let subject = self.expr(Ty::Str, 1, true);
                let narms = self.r.range(1, 3);
                let mut out = format!("{}scan {} {{\n", pad, subject);
                let saved = self.regex_groups;
                let mut used: Vec<&str> = Vec::new();
                for _ in 0..narms {
                    let (re, groups) = *self.r.pick(REGEXES);
                    if used.contains(&re) {
                        continue;
                    }
                    used.push(re);
                    self.regex_groups = Some(groups);
                    // record every group of the match, participating or not (C10, C02)
                    let probe = if self.r.chance(1, 2) {
                        self.counter += 1;
                        let n = format!("gp{}", self.counter);
                        self.feature("regex-group-probe");
                        let attrs: Vec<String> = (0..=groups).map(|k| format!("g{} = ${}", k, k)).collect();
                        format!("{}    node {}\n{}    attr ({}) {}\n", pad, n, pad, n, attrs.join(", "))
                    } else {
                        String::new()
                    };
                    out.push_str(&format!("{}  \"{}\" {{\n{}{}{}  }}\n", pad, re.replace('\\', "\\\\"), probe, self.block_k("scan", d, indent + 2, vec![]), pad));
                }
                self.regex_groups = saved;
                out.push_str(&format!("{}}}\n", pad));
                out
            }
            _ => {
                // set comprehension / set literal attribute
                let n = self.fresh("n");
                if self.name_taken(&n) {
                    return String::new();
                }
                self.declare(&n, Ty::GNode, false, true, false, false);
                self.feature("set");
                let (src, el) = self.local_list_source(Ty::Int, d);
                let v = self.fresh("c");
                self.scopes.push(vec![Local { name: v.clone(), ty: el, mutable: false, local: true, list_q: true, opt_q: false }]);
                let body = match el {
                    Ty::Syn => format!("(node-type {})", v),
                    Ty::Int => format!("(plus {} 1)", v),
                    _ => v.clone(),
                };
                self.scopes.pop();
                // a comprehension whose ELEMENT reads a scoped variable defined by another stanza: its evaluation must
                // be deferred like any other lazy value (C08)
                let extra = if self.opts.universal && el == Ty::Syn && !self.in_shorthand && self.r.chance(2, 3) {
                    self.feature("comprehension-over-scoped-read");
                    format!(", refs = [ {}.gn for {} in {} ]", v, v, src)
                } else {
                    String::new()
                };
                format!("{}node {}\n{}attr ({}) items = {{ {} for {} in {} }}, lit = {{1, 2, 1}}{}\n", pad, n, pad, n, body, v, src, extra)
            }
        }
    }

    fn conditions(&mut self, depth: usize) -> String {
        let n = self.r.range(1, 2);
        let mut cs = Vec::new();
        for _ in 0..n {
            let opts = self.captures_with(&|q| q == CaptureQuantifier::ZeroOrOne);
            let opt_locals = self.lookup_locals(&|l| l.opt_q && l.local);
            match self.r.below(4) {
                0 if !opts.is_empty() => {
                    let c = self.r.pick(&opts).clone();
                    cs.push(format!("some {}", self.use_capture(&c)));
                }
                1 if !opts.is_empty() => {
                    let c = self.r.pick(&opts).clone();
                    cs.push(format!("none {}", self.use_capture(&c)));
                }
                2 if !opt_locals.is_empty() => {
                    cs.push(format!("some {}", self.r.pick(&opt_locals).name));
                }
                _ => cs.push(self.expr(Ty::Bool, depth.max(1), true)),
            }
        }
        cs.join(", ")
    }
}

/// Generates one DSL program.
pub fn gen_program(r: &mut Rng, pool: &[Pattern], opts: &Opts) -> Program {
    let mut text = String::new();
    let fault_budget = if r.below(100) < opts.fault_pct { 1 } else { 0 };
    let mut g = Gen {
        r,
        opts: opts.clone(),
        scopes: vec![],
        captures: vec![],
        used_captures: vec![],
        globals: vec![],
        regex_groups: None,
        counter: 0,
        shorthands: vec![],
        scoped_defined_here: vec![],
        features: vec![],
        fault_budget,
        has_fault: false,
        in_shorthand: false,
        sf_countdown: None,
        sf: None,
        popped: vec![],
        block_kinds: vec![],
        taint: false,
    };
    let mut static_pending = opts.static_fault != 0;
    // header- and stanza-level violations are chosen up front
    let header_rule = if opts.static_fault == 1 { g.r.below(10) } else { 99 };
    let mut globals_out = Vec::new();
    // globals (always present when the violation to inject is about a global)
    let need_globals = FORCE_RULE.with(|c| { let v = c.get(); matches!(v, Some((r, _)) if r % 18 == 6 || r % 18 == 7) });
    if g.r.chance(1, 3) || need_globals {
        g.feature("global-decl");
        for i in 0..g.r.range(1, 2) {
            let name = format!("G{}", i);
            match g.r.below(3) {
                0 => {
                    text.push_str(&format!("global {}\n", name));
                    g.globals.push((name.clone(), Ty::Str));
                    globals_out.push((name, false));
                }
                1 => {
                    text.push_str(&format!("global {} = \"dflt\"\n", name));
                    g.globals.push((name.clone(), Ty::Str));
                    globals_out.push((name, false));
                }
                _ => {
                    text.push_str(&format!("global {}*\n", name));
                    g.globals.push((name.clone(), Ty::StrList));
                    globals_out.push((name, true));
                }
            }
        }
    }
    // nested definers of an inherited variable: the nearest defining ancestor must win, and ancestors that only
    // carry other scoped variables must be walked through (C02, C04)
    let nested_definers = opts.scoped_heavy && g.r.chance(1, 2);
    if g.r.chance(1, 3) || nested_definers {
        g.feature("inherit");
        text.push_str("inherit .val\n");
        if nested_definers {
            // a second inherited name, defined by the same ancestors with other values: lookups are per (node, name)
            text.push_str("inherit .kind2\n");
        }
    }
    // shorthands (bodies use only their parameter, literals and calls: shorthand bodies are unchecked)
    if g.r.chance(1, 3) {
        g.feature("shorthand-decl");
        let name = "sh1".to_string();
        // the checker does not visit shorthands: a parameter named like a global is only refused at run time
        let param = if !g.globals.is_empty() && g.r.chance(1, 4) {
            g.feature("shorthand-param-hides-global");
            g.r.pick(&g.globals.clone()).0.clone()
        } else {
            "p".to_string()
        };
        text.push_str(&format!("attribute {} = {} => shk = {}, shlen = (format \"[{{}}]\" {})\n", name, param, param, param));
        g.shorthands.push(name);
        if g.r.chance(1, 3) {
            text.push_str("attribute sh2 = q => sh1 = q, shq\n");
            g.shorthands.push("sh2".to_string());
        }
    }
    // a shorthand whose body mentions a name that is NOT its parameter: shorthand bodies see no locals of the place
    // where the shorthand is used, so the name is undefined there even when the using stanza has a local of that name
    let caller_local = g.r.chance(1, 6);
    if caller_local {
        g.feature("shorthand-free-name");
        text.push_str("attribute shfree = fp => shf = fp, shcaller = zcaller\n");
        g.shorthands.push("shfree".to_string());
    }
    let mut header_fault: Option<StaticFault> = None;
    if header_rule == 0 && !g.globals.is_empty() {
        let gname = g.r.pick(&g.globals.clone()).0.clone();
        let q = *g.r.pick(&["", "*", "?", " = \"d2\""]);
        text.push_str(&format!("global {}{} ;FAULT\n", gname, q));
        header_fault = Some(StaticFault { rule: "duplicate-global".to_string(), variant: "DuplicateGlobalVariable".to_string(), context: "header".to_string(), form: "global".to_string(), loc_token: Some(gname) });
        static_pending = false;
    }
    if opts.universal && g.r.chance(1, 2) {
        // a shorthand that passes its argument on unformatted: used with scoped reads (`shref = @x.gn`)
        g.feature("shorthand-decl");
        text.push_str("attribute shref = r => ref = r\n");
        g.shorthands.push("shref".to_string());
    }
    let universal = opts.universal;
    let mut header = text.clone();
    let mut stanzas: Vec<String> = Vec::new();
    if universal {
        g.feature("universal-definer");
        stanzas.push("(_) @any {\n  node @any.gn\n}\n".to_string());
        if g.r.chance(1, 2) {
            // comprehensions whose element reads what the universal definer defines (C08: must be deferred)
            g.feature("comprehension-over-scoped-read");
            if g.r.chance(1, 2) {
                // definer and reader on the SAME node: in lazy mode only the stanza order separates their matches
                let (pat, cap) = *g.r.pick(&[("(block (_)+ @{})", "stmts"), ("(module (_)* @{})", "tops"), ("(argument_list (_)* @{})", "args")]);
                let val = *g.r.pick(&["(node-type s)", "(source-text s)", "(start-row s)"]);
                stanzas.push(format!("{} {{\n  for s in @d{} {{\n    let s.txt = {}\n  }}\n}}\n", pat.replace("{}", &format!("d{}", cap)), cap, val));
                stanzas.push(format!("{} @_rd {{\n  node cr2\n  attr (cr2) texts = [ s.txt for s in @r{} ], more = {{ [s.txt, 1] for s in @r{} }}\n}}\n", pat.replace("{}", &format!("r{}", cap)), cap, cap));
            }
            stanzas.push(match g.r.below(3) {
                0 => "(block (_)+ @cstmts) @_cblk {\n  node cr\n  attr (cr) refs = [ q.gn for q in @cstmts ], n = (length @cstmts)\n}\n",
                1 => "(module (_)* @ctops) @_cm {\n  node cr\n  for t in @ctops {\n    edge cr -> t.gn\n  }\n  attr (cr) refs = [ q.gn for q in @ctops ]\n}\n",
                _ => "(argument_list (_)* @cargs) @_cal {\n  node cr\n  attr (cr) refs = [ [q.gn] for q in @cargs ]\n}\n",
            }.to_string());
        }
    }
    if universal && g.r.chance(1, 3) {
        // the same edge created by two stanzas, one of them putting an attribute on it right after its own `edge`
        // statement: the attribute is there whatever the order of the stanzas (C08, C09)
        g.feature("edge-created-twice-with-attr");
        let pat = *g.r.pick(&["(identifier)", "(pass_statement)", "(integer)"]);
        let second = if g.r.chance(1, 2) { "" } else { "\n  attr (@ed3.gn -> @ed3.gn) ek = 1" };
        stanzas.push(format!("{} @ed1 {{\n  edge @ed1.gn -> @ed1.gn\n}}\n", pat));
        stanzas.push(format!("{} @ed2 {{\n  edge @ed2.gn -> @ed2.gn\n  attr (@ed2.gn -> @ed2.gn) ek = 1\n}}\n", pat));
        if g.r.chance(1, 2) {
            stanzas.push(format!("{} @ed3 {{\n  edge @ed3.gn -> @ed3.gn{}\n}}\n", pat, second));
        }
    }
    if opts.fragment && !opts.universal && g.r.chance(1, 6) {
        // an INHERITED variable defined twice on one node by two stanzas, and read from a descendant: a duplicate, in every
        // order of the stanzas (C08)
        g.feature("inherited-variable-defined-twice");
        header.push_str("inherit .dupv\n");
        stanzas.push("(module) @dv1 {\n  let @dv1.dupv = \"first\"\n}\n".to_string());
        stanzas.push("(module) @dv2 {\n  let @dv2.dupv = \"second\"\n}\n".to_string());
        stanzas.push("(pass_statement) @dvr {\n  node dvn\n  attr (dvn) seen = @dvr.dupv\n}\n".to_string());
    }
    if opts.fragment && g.r.chance(1, 5) {
        // an assignment whose new value mentions the variable's previous value AND a scoped variable that another stanza
        // defines on the same node: deferred like every other value (C08)
        g.feature("self-referential-set-reads-scoped");
        let pat = *g.r.pick(&["(module)", "(identifier)", "(pass_statement)"]);
        stanzas.push(format!("{} @sb {{\n  let @sb.base = 10\n}}\n", pat));
        stanzas.push(format!("{} @su {{\n  node sun\n  var total = 1\n  set total = (plus total @su.base)\n  attr (sun) total = total\n}}\n", pat));
    }
    if opts.static_fault == 0 && g.r.chance(1, 4) {
        // two DIFFERENT syntax nodes of the same kind that start at the same position (`a + b + c`, `x.y.z`, `f(1)(2)`): they are
        // two values (unequal, two set elements), whatever they have in common (C01)
        g.feature("nested-same-start-nodes");
        let pat = *g.r.pick(&["(binary_operator left: (binary_operator) @inner) @outer", "(attribute object: (attribute) @inner) @outer",
            "(call function: (call) @inner) @outer", "(binary_operator left: (_) @inner) @outer", "(subscript value: (subscript) @inner) @outer"]);
        if NO_SYNTAX_NODE_SETS.with(|c| c.get()) {
            stanzas.push(format!("{} {{\n  node nso\n  attr (nso) same = (eq @outer @inner), refl = (eq @inner @inner), lst = [@inner, @outer], one = {{@inner, @inner}}\n}}\n", pat));
        } else {
            stanzas.push(format!("{} {{\n  node nso\n  attr (nso) same = (eq @outer @inner), refl = (eq @inner @inner), both = {{@outer, @inner}}, lst = [@inner, @outer], three = {{@inner, @outer, @inner}}\n}}\n", pat));
        }
    }
    if opts.static_fault == 0 && g.r.chance(1, 5) {
        // one hub node with MANY outgoing edges whose sinks are not created in increasing order, each edge with an attribute put on
        // it after later edges exist (C08, C09, C15, C17): the hub hangs on the module and is reached through an inherited variable
        g.feature("hub-with-many-unordered-edges");
        header.push_str("inherit .hub\n");
        stanzas.push("(module) @hm {\n  node @hm.hub\n}\n".to_string());
        let pat = *g.r.pick(&["(identifier)", "(identifier)", "[(integer) (identifier)]", "(expression_statement)"]);
        let late = if g.r.chance(1, 2) { "\n  attr (@hi.hub -> hb) late = (start-row @hi)" } else { "" };
        stanzas.push(format!("{} @hi {{\n  node ha\n  node hb\n  edge @hi.hub -> hb\n  edge @hi.hub -> ha\n  attr (@hi.hub -> ha) k = (source-text @hi){}\n}}\n", pat, late));
    }
    if opts.static_fault == 0 && g.r.chance(1, 8) {
        // patterns with several sibling wildcards: every tuple of children is a match, so many matches are in progress at
        // once on a wide node — each of them runs its block (C01, C02, C03); the checks pair these programs with WIDE sources
        g.feature("sibling-tuples");
        stanzas.push(match g.r.below(3) {
            0 => "(module (_) @t1 (_) @t2 (_) @t3) {\n  node tn\n  attr (tn) a = (start-row @t1), b = (start-row @t2), c = (start-row @t3)\n}\n",
            1 => "(module (expression_statement) @p1 (expression_statement) @p2) {\n  node pn\n  attr (pn) a = (start-row @p1), b = (start-row @p2)\n}\n",
            _ => "(argument_list (identifier) @g1 (identifier) @g2) {\n  node gn\n  attr (gn) a = (source-text @g1), b = (source-text @g2)\n}\n",
        }.to_string());
    }
    if opts.fragment && opts.static_fault == 0 && g.r.chance(1, 5) {
        // the VALUE of a scoped variable reads the same name on another node (a value handed from child to parent): no cycle per
        // node, so lazy evaluation resolves the chain like strict evaluation does (C02)
        g.feature("scoped-value-reads-same-name-on-other-node");
        if g.r.chance(1, 2) {
            stanzas.push("(integer) @di {\n  let @di.depth = 0\n}\n".to_string());
            stanzas.push("(assignment right: (integer) @di2) @da {\n  let @da.depth = (plus @di2.depth 1)\n}\n".to_string());
            stanzas.push("(expression_statement (assignment) @da2) @ds {\n  let @ds.depth = (plus @da2.depth 1)\n  node dn\n  attr (dn) depth = @ds.depth, below = @da2.depth\n}\n".to_string());
        } else {
            stanzas.push("(module . (_) @hp) @hm2 {\n  let @hp.handed = (node-type @hp)\n  let @hm2.handed = [@hp.handed, \"up\"]\n  node hn\n  attr (hn) v = @hm2.handed\n}\n".to_string());
        }
    }
    if opts.scoped_heavy && !opts.fragment && g.r.chance(1, 3) {
        // define on the root, read from a leaf, define on the nodes in between, read from the same leaf again: in strict mode the
        // second read sees the nearer definition that arrived after the first read (C04)
        g.feature("inherited-define-read-define-read");
        header.push_str("inherit .iv\n");
        stanzas.push("(module) @ivm {\n  let @ivm.iv = \"module\"\n}\n".to_string());
        stanzas.push("[(pass_statement) (integer) (identifier)] @ivr1 {\n  node ir1\n  attr (ir1) first = @ivr1.iv\n}\n".to_string());
        stanzas.push("[(function_definition) (class_definition) (if_statement) (for_statement)] @ivn {\n  let @ivn.iv = (node-type @ivn)\n}\n".to_string());
        stanzas.push("[(pass_statement) (integer) (identifier)] @ivr2 {\n  node ir2\n  attr (ir2) second = @ivr2.iv\n}\n".to_string());
        if g.r.chance(1, 2) {
            stanzas.push("(block) @ivb {\n  let @ivb.iv = \"block\"\n}\n".to_string());
            stanzas.push("[(pass_statement) (integer) (identifier)] @ivr3 {\n  node ir3\n  attr (ir3) third = @ivr3.iv, again = @ivr3.iv\n}\n".to_string());
        }
    }
    if opts.scoped_heavy {
        g.feature("scoped-heavy");
        // every identifier links to its parent-most enclosing statement-ish node through captures of other stanzas
        stanzas.push("(identifier) @id {\n  let @id.val = (source-text @id)\n  node @id.def\n}\n".to_string());
        stanzas.push("(call function: (_) @f) @c {\n  let @c.link = @f\n}\n".to_string());
        if g.r.chance(1, 3) {
            // a scoped variable whose value is a list / set LITERAL of node calls: every reader sees the same value (one
            // evaluation per definition), in both modes (C04)
            g.feature("scoped-literal-of-node-calls");
            let lit = *g.r.pick(&["[(node)]", "{(node)}", "[(node), (node)]"]);
            stanzas.push(format!("(identifier) @sl {{\n  let @sl.members = {}\n}}\n", lit));
            stanzas.push("(identifier) @sr1 {\n  node slr1\n  attr (slr1) members = @sr1.members\n}\n".to_string());
            stanzas.push("(identifier) @sr2 {\n  node slr2\n  attr (slr2) members = @sr2.members, again = @sr2.members\n}\n".to_string());
        }
        if nested_definers {
            g.feature("nested-definers");
            stanzas.push("[(function_definition) (class_definition) (if_statement) (for_statement) (block) (call) (argument_list) (list) (assignment)] @nest {\n  let @nest.val = (node-type @nest)\n  let @nest.kind2 = (start-row @nest)\n}\n".to_string());
            stanzas.push("[(integer) (string) (pass_statement) (true) (false) (none)] @leaf {\n  node lf\n  attr (lf) inherited = @leaf.val, second = @leaf.kind2, at = (start-row @leaf), col = (start-column @leaf)\n}\n".to_string());
            // the same two names read in the other order by another stanza
            stanzas.push("[(integer) (string) (pass_statement)] @leaf2 {\n  node lf2\n  attr (lf2) second = @leaf2.kind2, inherited = @leaf2.val\n}\n".to_string());
        }
    }
    let n_stanzas = g.r.range(1, opts.max_stanzas.max(1));
    let fault_stanza = if opts.static_fault != 0 { g.r.below(n_stanzas) } else { 0 };
    for si in 0..n_stanzas {
        let p = g.r.pick(pool).clone();
        g.captures = p.captures.clone();
        g.used_captures.clear();
        g.scopes = vec![vec![]];
        g.popped.clear();
        g.scoped_defined_here.clear();
        g.counter = 0;
        if static_pending && g.sf.is_none() && g.sf_countdown.is_none() && si >= fault_stanza && header_rule != 1 {
            g.sf_countdown = Some(g.r.below(7));
        }
        let mut body = String::new();
        if caller_local && g.r.chance(2, 3) {
            body.push_str("  let zcaller = \"caller-local\"\n");
            g.scopes.last_mut().unwrap().push(Local { name: "zcaller".to_string(), ty: Ty::Str, mutable: false, local: true, list_q: false, opt_q: false });
        }
        let n = g.r.range(1, 4);
        for _ in 0..n {
            body.push_str(&g.stmt(3, 1));
        }
        if static_pending && g.sf.is_none() && g.sf_countdown.is_some() && si + 1 == n_stanzas {
            // the countdown outlived the program: inject at the end of the last stanza
            g.sf_countdown = None;
            body.push_str(&if opts.static_fault == 2 { g.near_miss(1) } else { g.violation(1) });
        }
        if g.opts.probe {
            for (i, c) in g.captures.clone().iter().enumerate() {
                let cap = g.use_capture(&c.0);
                body.push_str(&format!("  node probe_{}\n  attr (probe_{}) cap_{} = {}\n", i, i, c.0.replace('-', "_"), cap));
                // the same capture read inside nested blocks: it is still the capture of THIS stanza's pattern (C03)
                let nm = c.0.replace('-', "_");
                match (i + si) % 4 {
                    0 => body.push_str(&format!("  for zpf{} in [1] {{\n    node probe_f{}\n    attr (probe_f{}) capf_{} = {}\n  }}\n", i, i, i, nm, cap)),
                    1 => body.push_str(&format!("  if #true {{\n    node probe_i{}\n    attr (probe_i{}) capi_{} = {}\n  }}\n", i, i, nm, cap)),
                    2 => body.push_str(&format!("  scan \"a\" {{\n    \"a\" {{\n      node probe_s{}\n      attr (probe_s{}) caps_{} = {}\n    }}\n  }}\n", i, i, nm, cap)),
                    3 => body.push_str(&format!("  node probe_c{}\n  attr (probe_c{}) capc_{} = [ {} for zpc{} in [1, 2] ]\n", i, i, nm, cap, i)),
                    _ => {}
                }
            }
        }
        if g.opts.scoped_heavy && g.r.chance(1, 2) {
            if let Some(s) = g.syn_expr(false) {
                // reads through another stanza's definitions: own value (inherited from ancestors), nested scope
                let which = g.r.below(3);
                body.push_str(&match which {
                    0 => format!("  node sh_a\n  attr (sh_a) inherited = {}.val\n", s),
                    1 => format!("  node sh_b\n  edge sh_b -> {}.def\n", s),
                    _ => format!("  node sh_c\n  attr (sh_c) linked = (node-type {}.link)\n", s),
                });
            }
        }
        // the unused-capture rule: mention every capture not starting with `_`
        let mut unused: Vec<String> = g.captures.iter().map(|c| c.0.clone()).filter(|c| !c.starts_with('_') && !g.used_captures.contains(c)).collect();
        let mut marker = "";
        if static_pending && g.sf.is_none() && header_rule == 1 && !unused.is_empty() && (si + 1 == n_stanzas || g.r.chance(1, 2)) {
            // leave one (or all) of them unmentioned
            let dropped: Vec<String> = if g.r.chance(1, 3) { std::mem::take(&mut unused) } else { vec![unused.remove(g.r.below(unused.len()))] };
            let mut names: Vec<String> = dropped.iter().map(|c| format!("@{}", c)).collect();
            names.sort();
            g.sf = Some(StaticFault { rule: "unused-capture".to_string(), variant: "UnusedCaptures".to_string(), context: "stanza".to_string(), form: names.join(" "), loc_token: Some(p.text.chars().take(1).collect()) });
            marker = " ;FAULT";
        }
        for (i, c) in unused.iter().enumerate() {
            body.push_str(&format!("  let u_{} = @{}\n", i, c));
        }
        stanzas.push(format!("{} {{{}\n{}}}\n", p.text, marker, body));
    }
    if static_pending && g.sf.is_none() && header_rule == 1 && opts.static_fault == 1 {
        // no stanza had a capture to leave unused: fall back to a statement-level violation in a stanza of its own
        g.captures = vec![];
        g.used_captures.clear();
        g.scopes = vec![vec![]];
        g.popped.clear();
        let body = g.violation(1);
        stanzas.push(format!("(module) {{\n{}}}\n", body));
    }
    static_pending = false;
    let _ = static_pending;
    // a placeholder stanza: no capture, empty block. It still has to be given its file-level full-match capture index by the
    // checker, and its matches are visited in both modes (C03)
    if opts.static_fault == 0 && g.r.chance(1, 5) {
        g.feature("empty-captureless-stanza");
        let pat = *g.r.pick(&["(pass_statement)", "(identifier)", "(module)", "(expression_statement)", "(block)", "(integer)", "(call)"]);
        let at = g.r.below(stanzas.len() + 1);
        stanzas.insert(at, format!("{} {}\n", pat, *g.r.pick(&["{ }", "{}", "{\n}"])));
    }
    // a MUTABLE scoped variable declared twice on one node (by two stanzas, or twice by one): a duplicate in every
    // combination of `var` and `let`; a single `var` followed by `set` is fine in strict mode (C04)
    if opts.scoped_heavy && !opts.fragment && opts.static_fault == 0 && g.r.chance(1, 6) {
        g.feature("mutable-scoped-redeclared");
        let (k1, k2) = *g.r.pick(&[("var", "var"), ("var", "let"), ("let", "var"), ("var", "set")]);
        let pat = *g.r.pick(&["(module)", "(identifier)", "(pass_statement)"]);
        if g.r.chance(1, 2) {
            stanzas.push(format!("{} @mv1 {{\n  {} @mv1.cnt = 1\n}}\n{} @mv2 {{\n  {} @mv2.cnt = 2\n  node mvn\n  attr (mvn) cnt = @mv2.cnt\n}}\n", pat, k1, pat, k2));
        } else {
            stanzas.push(format!("{} @mv1 {{\n  {} @mv1.cnt = 1\n  {} @mv1.cnt = 2\n  node mvn\n  attr (mvn) cnt = @mv1.cnt\n}}\n", pat, k1, k2));
        }
    }
    let text = format!("{}{}", header, stanzas.concat());
    let stanza_count = stanzas.len();
    let static_fault = header_fault.or(g.sf.clone());
    Program { text, header, stanzas, globals: globals_out, stanza_count, has_fault: g.has_fault, features: g.features, static_fault }
}

/// Programs OUTSIDE the accepted language whose rejection the evaluation modes rely on (C02, C08): a value that
/// depends on a scoped variable with live data reaches a place that lazy evaluation runs eagerly on the strength of
/// the checker's "local" certificate (scan subject, condition, loop source). The scoped variable is defined on the
/// same node just before, once per match, so that a checker which wrongly accepts the program makes lazy evaluation
/// force the variable between two definitions while strict evaluation succeeds.
/// Returns (text, description of the form).
pub fn live_nonlocal_program(r: &mut Rng) -> (String, String) {
    let (pat, cap, definer, reader, form) = live_nonlocal_parts(r);
    (format!("{} {{\n{}{}}}\n", pat, definer, reader), form)
}

/// The same as two stanzas on the same pattern (C08): a definer and a reader. If the reader is accepted, the order of
/// the two stanzas decides whether the eagerly evaluated read comes before or after the definitions.
pub fn live_nonlocal_pair(r: &mut Rng) -> (String, String, String) {
    let (pat, _cap, definer, reader, form) = live_nonlocal_parts(r);
    (format!("{} {{\n{}}}\n", pat, definer), format!("{} {{\n{}}}\n", pat, reader), form)
}

/// (pattern, capture, definer statement, reader statements, form)
fn live_nonlocal_parts(r: &mut Rng) -> (String, String, String, String, String) {
    let (pat, cap) = *r.pick(&[("(identifier) @lv", "@lv"), ("(integer) @lv", "@lv"), ("(call function: (_) @lv)", "@lv"), ("(assignment left: (_) @lv)", "@lv")]);
    let read = format!("{}.zsv", cap);
    let (prefix, name, how): (String, String, &str) = match r.below(14) {
        // loop-carried: the read comes textually BEFORE the assignment of the non-local value, in a body that runs twice
        12 | 13 => ("LOOP".to_string(), "zm".into(), "loop-carried-read-before-set"),
        0 => (String::new(), read.clone(), "direct"),
        1 => (format!("  let zl = {}\n", read), "zl".into(), "let"),
        2 => (format!("  var zm = {}\n", read), "zm".into(), "var"),
        3 => (format!("  var zm = \"a\"\n  set zm = {}\n", read), "zm".into(), "set"),
        4 => (format!("  var zm = \"a\"\n  if #true {{\n    set zm = {}\n  }} else {{\n    set zm = \"b\"\n  }}\n", read), "zm".into(), "set-in-earlier-arm"),
        5 => (format!("  var zm = \"a\"\n  if #false {{\n    set zm = \"c\"\n  }} elif #true {{\n    set zm = {}\n  }} else {{\n    set zm = \"b\"\n  }}\n", read), "zm".into(), "set-in-middle-arm"),
        6 => (format!("  let zl = (format \"{{}}\" {})\n", read), "zl".into(), "call-argument"),
        7 => (format!("  let zi = [{}, \"k\"]\n  let zl = (join zi)\n", read), "zl".into(), "list-element"),
        // a non-local argument that is not the last one
        8 => (String::new(), format!("(format \"{{}}{{}}\" {} \"a\")", read), "call-non-last-argument-direct"),
        9 => (format!("  let zl = (replace {} \"a\" \"b\")\n", read), "zl".into(), "call-first-argument"),
        10 => (format!("  let zl = (format \"{{}}{{}}{{}}\" \"p\" {} \"q\")\n", read), "zl".into(), "call-middle-argument"),
        _ => (format!("  var zm = \"a\"\n  for zq in [1] {{\n    set zm = {}\n  }}\n  set zm = (format \"{{}}\" zm)\n", read), "zm".into(), "set-in-loop-then-self"),
    };
    let (consumer, what): (String, &str) = match r.below(5) {
        0 => (format!("  scan {} {{\n    \".\" {{\n      node zn\n    }}\n  }}\n", name), "scan"),
        1 => (format!("  if (eq {} \"a\") {{\n    node zn\n  }}\n", name), "if"),
        2 => (format!("  if #false {{\n  }} elif (not (eq {} \"a\")) {{\n    node zn\n  }}\n", name), "elif"),
        3 => (format!("  for zi2 in [{}] {{\n    node zn\n  }}\n", name), "for"),
        _ => (format!("  node zc\n  attr (zc) els = [ zq2 for zq2 in [{}] ]\n", name), "comprehension"),
    };
    let definer = format!("  let {} = (source-text {})\n", read, cap);
    if prefix == "LOOP" {
        let body = format!("  var zm = \"a\"\n  for zq in [1, 2] {{\n{}    set zm = {}\n  }}\n", consumer, read);
        return (pat.to_string(), cap.to_string(), definer, body, format!("{}-into-{}", how, what));
    }
    (pat.to_string(), cap.to_string(), definer, format!("{}{}", prefix, consumer), format!("{}-into-{}", how, what))
}
