pub mod python;
