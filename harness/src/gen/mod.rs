pub mod dsl;
pub mod python;
