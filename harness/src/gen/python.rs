//! Small grammar-based generator of Python sources, a fixed corpus, and syntax-fault injection.
use crate::rng::Rng;

pub const CORPUS: &[&str] = &[
    "pass",
    "pass\n",
    "",
    "x = 1\n",
    "import a\nfrom b import c\n\ndef f(x, y):\n    return x + y\n\nclass K:\n    def m(self):\n        self.v = f(1, 2)\n",
    "def outer():\n    def inner(a):\n        if a:\n            return [a, 1, \"s\"]\n        else:\n            return None\n    return inner\n",
    "for i in range(10):\n    print(i, \"caf\u{e9}\", '\u{65e5}\u{672c}')\n",
    "a.b.c(d)(e)\nf(g(h(1)))\n",
    "x = [1, 2, 3]\ny = {\"k\": x}\nz = (x, y)\n",
    "# comment \u{3bb}\nwhile True:\n    break\n",
    "if a:\n    pass\nelif b:\n    pass\nelse:\n    pass\n",
    "lambda_ = lambda q: q * 2\nprint(lambda_(21))\n",
    // shapes of source trees that none of the grammar-based sources has (each found missing by a seeded change or by review)
    "if x: pass\nmatch = 1\nprint = match\nwhile z: break\n",
    "# only a comment\n",
    "# a\n# b\n\n# c\nx = 1  # trailing\n    # indented comment\ny = 2\n",
    "@dec\ndef f(*args, **kw) -> int:\n    '''doc'''\n    return 1\n\ndef g():\n    pass\n",
    "async def g():\n    await h()\n    async with a as b:\n        pass\n",
    "x = [i for i in range(3) if i]\ny = {k: v for k, v in z}\ns = {1, 2}\n",
    "f'{a}{b!r:>10} tail'\nb'bytes'\nr'raw\\n'\n",
    "try:\n    pass\nexcept E as e:\n    raise\nfinally:\n    pass\n",
    "with open(p) as f, open(q) as g:\n    pass\n",
    "class A(B, metaclass=M):\n    x: int = 1\n    def __init__(self): pass\n",
    "a = b if c else d\nt = 1,\nu = *v, w\nq = a + b + c + d\nw = x.y.z.k\n",
    "x = 1\r\ny = 2\r\n",
    "def f():\n\treturn 1\n",
    "lst = [0, 1, 2, 3, 4, 5, 6, 7, 8, 9, 10, 11, 12, 13, 14, 15, 16, 17, 18, 19, 20, 21, 22, 23, 24, 25, 26, 27, 28, 29, 30, 31, 32, 33, 34, 35, 36, 37, 38, 39]\n",
    "((((((((1))))))))\nf(g(h(i(j(k(1))))))\n",
    "match x:\n    case 1:\n        pass\n    case _:\n        pass\n",
    "x = 1;y = 2; z = 3\n",
    "\n\n\n",
    "   \n",
    "global g\ndel a\nassert b, 'm'\n",
    "\u{f1} = '\u{e9}'\n\u{65e5}\u{672c} = 1\n",
    "x = 1",
    "def a() -> int:\n    pass\ndef b():\n    pass\ndef c() -> str:\n    pass\n",
    "s = 'a\\nb\\\\c'\nt = \"\"\"multi\nline\"\"\"\n",
    // WIDE nodes: more than eight statements / parameters / arguments under one parent (repeated children hang in hidden
    // repeat nodes, so their order in memory is not their order in the document)
    "a0\na1\na2\na3\na4\na5\na6\na7\na8\na9\na10\na11\na12\na13\na14\na15\na16\na17\na18\na19\n",
    "pass\npass\nx = 1\npass\ny = 2\npass\nz\npass\npass\nw = 3\npass\nv\n",
    "def f(p0, p1, p2, p3, p4, p5, p6, p7, p8, p9, p10):\n    b0\n    b1\n    b2\n    b3\n    b4\n    b5\n    b6\n    b7\n    b8\n    b9\n    b10\n    return g(p0, p1, p2, p3, p4, p5, p6, p7, p8, p9)\n",
    "import m0, m1, m2, m3, m4, m5, m6, m7, m8, m9\nq = a.b.c.d.e.f.g.h.i.j\nr = a + b + c + d + e + f + g + h + i + j\n",    "if x: pass\nprint(1)\nmatch = 3\ntype = match\nwhile y: break\n",
    "with open(p) as f: pass\nz = a not in b\nw = a is not b\nexec(print)\n",
    "def f():\n    return (1,\n",
    // compound-statement headers at the very end of the text, no final newline: the body is an empty, zero-width `block`
    "if x:",
    "x = 1\nclass A:",
    "while c:",
];

/// sources full of ALIASED nodes (the grammar gives them another name than the rule that produced them): one-line suites
/// (`block`), soft keywords used as identifiers, `as` patterns, `not in` / `is not`
pub const ALIASED: &[&str] = &[
    "if x: pass\nprint(1)\nmatch = 3\ntype = match\nwhile y: break\n",
    "with open(p) as f: pass\nz = a not in b\nw = a is not b\nexec(print)\nfor i in j: continue\n",
    "def f(): return print\nclass C: pass\nprint(f'{match!r:>{type}}')\n",
];

/// sources with one very wide node (many statements / arguments): for patterns whose matches are tuples of siblings
pub const WIDE: &[&str] = &[
    "a0\na1\na2\na3\na4\na5\na6\na7\na8\na9\na10\na11\n",
    "s0\ns1\ns2\ns3\ns4\ns5\ns6\ns7\ns8\ns9\ns10\ns11\ns12\ns13\ns14\ns15\ns16\ns17\ns18\ns19\ns20\ns21\ns22\ns23\ns24\ns25\ns26\ns27\ns28\ns29\ns30\ns31\ns32\ns33\ns34\ns35\ns36\ns37\ns38\ns39\ns40\ns41\n",
    "f(b0, b1, b2, b3, b4, b5, b6, b7, b8, b9, b10, b11, b12, b13, b14, b15, b16, b17, b18, b19, b20, b21, b22, b23, b24, b25, b26, b27, b28, b29, b30, b31, b32, b33, b34, b35)\n",
];

const IDENTS: &[&str] = &["a", "b", "foo", "bar", "x1", "self", "n", "\u{3b1}\u{3b2}"];
const STRS: &[&str] = &["\"s\"", "'t'", "\"caf\u{e9}\"", "\"\u{65e5}\"", "\"\"", "\"a b\""];

fn expr(r: &mut Rng, depth: usize) -> String {
    let top = if depth == 0 { 3 } else { 9 };
    match r.below(top) {
        0 => r.pick(IDENTS).to_string(),
        1 => format!("{}", r.below(100)),
        2 => r.pick(STRS).to_string(),
        3 => format!("{}({})", expr(r, depth - 1), args(r, depth - 1)),
        4 => format!("{}.{}", expr(r, depth - 1), r.pick(IDENTS)),
        5 => format!("{} {} {}", expr(r, depth - 1), r.pick(&["+", "*", "-", "==", "and"]), expr(r, depth - 1)),
        6 => format!("[{}]", args(r, depth - 1)),
        7 => format!("({})", expr(r, depth - 1)),
        _ => format!("{}[{}]", r.pick(IDENTS), expr(r, depth - 1)),
    }
}

fn args(r: &mut Rng, depth: usize) -> String {
    let n = r.below(4);
    (0..n).map(|_| expr(r, depth)).collect::<Vec<_>>().join(", ")
}

fn block(r: &mut Rng, depth: usize, indent: usize, out: &mut String) {
    let n = r.range(1, 3);
    for _ in 0..n {
        stmt(r, depth, indent, out);
    }
}

fn stmt(r: &mut Rng, depth: usize, indent: usize, out: &mut String) {
    let pad = "    ".repeat(indent);
    let top = if depth == 0 { 5 } else { 10 };
    match r.below(top) {
        0 => out.push_str(&format!("{}{} = {}\n", pad, r.pick(IDENTS), expr(r, 2))),
        1 => out.push_str(&format!("{}{}\n", pad, expr(r, 2))),
        2 => out.push_str(&format!("{}pass\n", pad)),
        3 => out.push_str(&format!("{}import {}\n", pad, r.pick(IDENTS))),
        4 => out.push_str(&format!("{}return {}\n", pad, expr(r, 1))),
        5 => {
            out.push_str(&format!("{}def {}({}):\n", pad, r.pick(IDENTS), (0..r.below(3)).map(|_| r.pick(IDENTS).to_string()).collect::<Vec<_>>().join(", ")));
            block(r, depth - 1, indent + 1, out);
        }
        6 => {
            out.push_str(&format!("{}if {}:\n", pad, expr(r, 1)));
            block(r, depth - 1, indent + 1, out);
            if r.chance(1, 2) {
                out.push_str(&format!("{}else:\n", pad));
                block(r, depth - 1, indent + 1, out);
            }
        }
        7 => {
            out.push_str(&format!("{}for {} in {}:\n", pad, r.pick(IDENTS), expr(r, 1)));
            block(r, depth - 1, indent + 1, out);
        }
        8 => {
            out.push_str(&format!("{}class {}:\n", pad, r.pick(&["K", "Foo", "B"])));
            block(r, depth - 1, indent + 1, out);
        }
        _ => {
            out.push_str(&format!("{}while {}:\n", pad, expr(r, 1)));
            block(r, depth - 1, indent + 1, out);
        }
    }
}

/// a syntactically valid Python module
pub fn gen_source(r: &mut Rng) -> String {
    if r.chance(1, 5) {
        return r.pick(CORPUS).to_string();
    }
    let mut out = String::new();
    let n = r.range(1, 5);
    for _ in 0..n {
        stmt(r, 3, 0, &mut out);
    }
    out
}

/// small sources (few nodes, few matches) for checks whose cost grows with matches
pub fn gen_small_source(r: &mut Rng) -> String {
    if r.chance(1, 3) {
        return r.pick(CORPUS).to_string();
    }
    let mut out = String::new();
    let n = r.range(1, 2);
    for _ in 0..n {
        stmt(r, 1, 0, &mut out);
    }
    out
}

/// inject `n` syntax faults (char-level): delete, duplicate, insert stray / bracket characters
pub fn inject_faults(r: &mut Rng, src: &str, n: usize) -> String {
    let mut chars: Vec<char> = src.chars().collect();
    for _ in 0..n {
        if chars.is_empty() {
            chars.push(*r.pick(&['(', ')', '$', '?']));
            continue;
        }
        let pos = match r.below(6) {
            0 => 0,
            1 => chars.len() - 1,
            _ => r.below(chars.len()),
        };
        match r.below(8) {
            6 | 7 => {
                // delete a closing bracket or a colon (tends to produce MISSING nodes)
                let idxs: Vec<usize> = chars.iter().enumerate().filter(|(_, c)| matches!(c, ')' | ']' | ':' | '}')).map(|(i, _)| i).collect();
                if !idxs.is_empty() {
                    let i = *r.pick(&idxs);
                    chars.remove(i);
                }
            }
            0 => {
                chars.remove(pos);
            }
            1 => {
                let c = chars[pos];
                chars.insert(pos, c);
            }
            2 => chars.insert(pos, *r.pick(&['(', '[', '{'])),
            3 => chars.insert(pos, *r.pick(&[')', ']', '}'])),
            4 => chars.insert(pos, *r.pick(&['$', '?', '!', '\u{e9}', '`'])),
            _ => {
                // delete a whole token-ish run
                let mut end = pos;
                while end < chars.len() && !chars[end].is_whitespace() && end - pos < 6 {
                    end += 1;
                }
                chars.drain(pos..end.max(pos + 1).min(chars.len()));
            }
        }
    }
    chars.into_iter().collect()
}
