//! Graph isomorphism up to renumbering of graph nodes, on the canonical graph encoding
//! `(graph (attrs edges)...)`. Colour refinement; ties are broken by bounded backtracking.
use crate::sexp::{self, Sexp};
use crate::values::cmp_val_sexp;
use std::collections::BTreeMap;

#[derive(Clone)]
struct G {
    attrs: Vec<Sexp>,             // per node: attrs list
    edges: Vec<Vec<(usize, Sexp)>>, // per node: (sink, attrs)
}

fn parse(g: &Sexp) -> Option<G> {
    let l = g.as_list()?;
    if g.tag() != Some("graph") {
        return None;
    }
    let mut attrs = Vec::new();
    let mut edges = Vec::new();
    for n in &l[1..] {
        let nl = n.as_list()?;
        attrs.push(nl[0].clone());
        let mut es = Vec::new();
        for e in nl[1].as_list()? {
            let el = e.as_list()?;
            es.push((el[0].as_atom()?.parse().ok()?, el[1].clone()));
        }
        edges.push(es);
    }
    Some(G { attrs, edges })
}

/// value with graph-node references replaced through `f`; sets re-sorted
fn map_refs(v: &Sexp, f: &dyn Fn(usize) -> usize) -> Sexp {
    match v.tag() {
        Some("gnode") => {
            let i: usize = v.as_list().unwrap()[1].as_atom().unwrap().parse().unwrap();
            sexp::tagged("gnode", vec![sexp::nat(f(i))])
        }
        Some("list") => sexp::tagged("list", v.as_list().unwrap()[1..].iter().map(|x| map_refs(x, f)).collect()),
        Some("set") => {
            let mut xs: Vec<Sexp> = v.as_list().unwrap()[1..].iter().map(|x| map_refs(x, f)).collect();
            xs.sort_by(|a, b| cmp_val_sexp(a, b));
            xs.dedup();
            sexp::tagged("set", xs)
        }
        _ => v.clone(),
    }
}

fn map_attrs(a: &Sexp, f: &dyn Fn(usize) -> usize) -> Sexp {
    sexp::list(
        a.as_list()
            .unwrap()
            .iter()
            .map(|kv| {
                let l = kv.as_list().unwrap();
                sexp::list(vec![l[0].clone(), map_refs(&l[1], f)])
            })
            .collect(),
    )
}

fn colours(g: &G) -> Vec<u64> {
    let n = g.attrs.len();
    let mut col = vec![0u64; n];
    let mut indeg: Vec<Vec<(usize, Sexp)>> = vec![Vec::new(); n];
    for (s, es) in g.edges.iter().enumerate() {
        for (t, a) in es {
            if *t < n {
                indeg[*t].push((s, a.clone()));
            }
        }
    }
    for _round in 0..(n.min(8) + 2) {
        let cur = col.clone();
        let f = |i: usize| -> usize { if i < n { cur[i] as usize } else { usize::MAX } };
        let mut next = Vec::with_capacity(n);
        for i in 0..n {
            let a = map_attrs(&g.attrs[i], &f).to_text();
            let mut outs: Vec<String> = g.edges[i].iter().map(|(t, ea)| format!("{}:{}", f(*t), map_attrs(ea, &f).to_text())).collect();
            outs.sort();
            let mut ins: Vec<String> = indeg[i].iter().map(|(s, ea)| format!("{}:{}", f(*s), map_attrs(ea, &f).to_text())).collect();
            ins.sort();
            next.push(crate::report::hash_of(&(cur[i], a, outs, ins)) >> 12);
        }
        col = next;
    }
    col
}

fn relabel(g: &G, perm: &[usize]) -> String {
    // perm[old] = new
    let n = g.attrs.len();
    let f = |i: usize| -> usize { if i < n { perm[i] } else { i } };
    let mut nodes: Vec<(usize, String)> = (0..n)
        .map(|i| {
            let mut es: Vec<(usize, String)> = g.edges[i].iter().map(|(t, a)| (f(*t), map_attrs(a, &f).to_text())).collect();
            es.sort();
            (perm[i], format!("{} {:?}", map_attrs(&g.attrs[i], &f).to_text(), es))
        })
        .collect();
    nodes.sort();
    format!("{:?}", nodes)
}

/// Some(true/false) = decided; None = too symmetric to decide within the budget
pub fn isomorphic(a: &Sexp, b: &Sexp) -> Option<bool> {
    let (ga, gb) = (parse(a)?, parse(b)?);
    if ga.attrs.len() != gb.attrs.len() {
        return Some(false);
    }
    let n = ga.attrs.len();
    let (ca, cb) = (colours(&ga), colours(&gb));
    let mut sa = ca.clone();
    let mut sb = cb.clone();
    sa.sort();
    sb.sort();
    if sa != sb {
        return Some(false);
    }
    // canonical order by colour; ties explored by backtracking on side b against a fixed order on a
    let mut order_a: Vec<usize> = (0..n).collect();
    order_a.sort_by_key(|i| (ca[*i], *i));
    let mut perm_a = vec![0; n];
    for (new, old) in order_a.iter().enumerate() {
        perm_a[*old] = new;
    }
    let canon_a = relabel(&ga, &perm_a);
    // classes of b
    let mut classes: BTreeMap<u64, Vec<usize>> = BTreeMap::new();
    for i in 0..n {
        classes.entry(cb[i]).or_default().push(i);
    }
    let class_list: Vec<Vec<usize>> = classes.into_values().collect();
    let mut budget = 2000usize;
    let mut perm_b = vec![0; n];
    fn go(ci: usize, base: usize, class_list: &[Vec<usize>], perm_b: &mut Vec<usize>, gb: &G, canon_a: &str, budget: &mut usize) -> Option<bool> {
        if ci == class_list.len() {
            if *budget == 0 {
                return None;
            }
            *budget -= 1;
            return Some(relabel(gb, perm_b) == canon_a);
        }
        let class = &class_list[ci];
        let mut idx: Vec<usize> = (0..class.len()).collect();
        // iterate permutations of the class (Heap's algorithm, bounded by budget)
        let mut c = vec![0; class.len()];
        let assign = |idx: &Vec<usize>, perm_b: &mut Vec<usize>| {
            for (pos, k) in idx.iter().enumerate() {
                perm_b[class[*k]] = base + pos;
            }
        };
        assign(&idx, perm_b);
        match go(ci + 1, base + class.len(), class_list, perm_b, gb, canon_a, budget) {
            Some(true) => return Some(true),
            None => return None,
            _ => {}
        }
        let mut i = 0;
        while i < class.len() {
            if c[i] < i {
                if i % 2 == 0 {
                    idx.swap(0, i);
                } else {
                    idx.swap(c[i], i);
                }
                assign(&idx, perm_b);
                match go(ci + 1, base + class.len(), class_list, perm_b, gb, canon_a, budget) {
                    Some(true) => return Some(true),
                    None => return None,
                    _ => {}
                }
                c[i] += 1;
                i = 0;
            } else {
                c[i] = 0;
                i += 1;
            }
        }
        Some(false)
    }
    go(0, 0, &class_list, &mut perm_b, &gb, &canon_a, &mut budget)
}
