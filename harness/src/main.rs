#![allow(dead_code)]
mod astx;
mod driver;
mod execx;
mod errors;
mod export;
mod gen;
mod iso;
mod oracle;
mod tree;
mod probe;
mod props;
mod replay;
mod report;
mod rng;
mod sexp;
mod values;

fn main() {
    let args: Vec<String> = std::env::args().collect();
    if args.len() < 2 {
        eprintln!("usage: tsg-verif <Cxx> [--tier quick|thorough] [--seed N] [--out FILE]");
        std::process::exit(2);
    }
    if args[1] == "probe" {
        std::panic::set_hook(Box::new(|_| {}));
        let ok = probe::run();
        std::process::exit(if ok { 0 } else { 1 });
    }
    if args[1] == "tree" {
        // debugging aid: the tree-sitter tree of a python source file
        let src = std::fs::read_to_string(&args[2]).expect("read");
        let tree = tree::parse_python(&src);
        println!("has_error={}\n{}", tree.root_node().has_error(), tree.root_node().to_sexp());
        let all = tree_sitter_graph::parse_error::ParseError::all(&tree);
        println!("ParseError::all -> {} errors", all.len());
        fn walk(n: tree_sitter::Node, depth: usize, out: &mut Vec<String>) {
            if n.is_missing() || n.is_error() {
                out.push(format!("{} missing={} error={} named={} extra={} range={:?} has_error={}", n.kind(), n.is_missing(), n.is_error(), n.is_named(), n.is_extra(), n.byte_range(), n.has_error()));
            }
            let mut c = n.walk();
            for ch in n.children(&mut c) {
                walk(ch, depth + 1, out);
            }
        }
        let mut out = Vec::new();
        walk(tree.root_node(), 0, &mut out);
        println!("recursive walk over children(): {:?}", out);
        return;
    }
    if args[1] == "replay" {
        std::panic::set_hook(Box::new(|_| {}));
        std::process::exit(replay::run(&args[2]));
    }
    if args[1] == "c05-child" {
        std::panic::set_hook(Box::new(|_| {}));
        props::c05::child(args[2].parse().unwrap_or(1), &args[3], args[4].parse().unwrap_or(0));
        return;
    }
    if args[1] == "c12-child" {
        std::panic::set_hook(Box::new(|_| {}));
        props::c12::child(args[2].parse().unwrap_or(1), args[3].parse().unwrap_or(1), args.get(4).and_then(|a| a.parse().ok()));
        return;
    }
    let prop = args[1].to_uppercase();
    let mut tier = "quick".to_string();
    let mut seed: u64 = 1;
    let mut out = format!("/verif/evidence/.harness-{}.json", prop);
    let mut i = 2;
    while i < args.len() {
        match args[i].as_str() {
            "--tier" => {
                tier = args[i + 1].clone();
                i += 2;
            }
            "--seed" => {
                seed = args[i + 1].parse().unwrap_or(1);
                i += 2;
            }
            "--out" => {
                out = args[i + 1].clone();
                i += 2;
            }
            _ => i += 1,
        }
    }
    // panics of the implementation are caught per case; keep the default hook quiet (TSG_VERBOSE_PANIC=1 shows them)
    if std::env::var("TSG_VERBOSE_PANIC").is_err() {
        std::panic::set_hook(Box::new(|_| {}));
    }
    report::OUT_PATH.set(out.clone()).ok();
    let mut rep = report::Report::new(&prop, &tier, seed);
    match prop.as_str() {
        "C01" => props::c01::run(&mut rep, &tier, seed),
        "C02" => props::c02::run(&mut rep, &tier, seed),
        "C03" => props::c03::run(&mut rep, &tier, seed),
        "C04" => props::c04::run(&mut rep, &tier, seed),
        "C05" => props::c05::run(&mut rep, &tier, seed),
        "C06" => props::c06::run(&mut rep, &tier, seed),
        "C07" => props::c07::run(&mut rep, &tier, seed),
        "C08" => props::c08::run(&mut rep, &tier, seed),
        "C09" => props::c09::run(&mut rep, &tier, seed),
        "C10" => props::c10::run(&mut rep, &tier, seed),
        "C11" => props::c11::run(&mut rep, &tier, seed),
        "C15" => props::c15::run(&mut rep, &tier, seed),
        "C16" => props::c16::run(&mut rep, &tier, seed),
        "C18" => props::c18::run(&mut rep, &tier, seed),
        "C19" => props::c19::run(&mut rep, &tier, seed),
        "C20" => props::c20::run(&mut rep, &tier, seed),
        "C12" => props::c12::run(&mut rep, &tier, seed),
        "C13" => props::c13::run(&mut rep, &tier, seed),
        "C14" => props::c14::run(&mut rep, &tier, seed),
        "C17" => props::c17::run(&mut rep, &tier, seed),
        _ => {
            eprintln!("unknown property {}", prop);
            std::process::exit(2);
        }
    }
    props::common::check_rejected(&mut rep);
    let n = rep.finish(&out);
    std::process::exit(if n == 0 { 0 } else { 1 });
}
