//! Oracle tables: answers of the real `regex` crate, completed on demand (NEED protocol).
use crate::driver::Driver;
use crate::sexp::{self, Sexp};
use regex::Regex;
use std::collections::BTreeMap;

/// the model is re-run from the start after every oracle answer; a case whose model runs add up to more than this is
/// given up (counted, never reported as agreement or as a failure)
pub const MODEL_BUDGET_S: u64 = 90;

#[derive(Default, Clone)]
pub struct OracleTable {
    entries: BTreeMap<String, Sexp>,
    pub rx_asked: usize,
    pub rp_asked: usize,
    /// regexes of each `scan` statement of the file under test: lets the harness answer, together with
    /// one question, the questions the same scan will ask next (fewer round trips; never changes an answer)
    pub arm_sets: Vec<Vec<String>>,
}

impl OracleTable {
    pub fn new() -> OracleTable {
        OracleTable::default()
    }

    pub fn to_sexp(&self) -> Sexp {
        sexp::tagged("oracle", self.entries.values().cloned().collect())
    }

    /// `Regex::captures(&subject[offset..])` exactly as strict.rs / lazy.rs call it
    pub fn regex_at(pattern: &str, subject: &str, offset: usize) -> Sexp {
        let re = match Regex::new(pattern) {
            Ok(re) => re,
            Err(_) => return sexp::tagged("none", vec![]),
        };
        if offset > subject.len() || !subject.is_char_boundary(offset) {
            return sexp::tagged("none", vec![]);
        }
        match re.captures(&subject[offset..]) {
            None => sexp::tagged("none", vec![]),
            Some(caps) => {
                let m0 = caps.get(0).unwrap();
                let groups: Vec<Sexp> = caps
                    .iter()
                    .map(|g| match g {
                        Some(m) => sexp::tagged("some", vec![sexp::st(m.as_str())]),
                        None => sexp::tagged("none", vec![]),
                    })
                    .collect();
                sexp::tagged("some", vec![sexp::nat(m0.start()), sexp::nat(m0.end()), sexp::list(groups)])
            }
        }
    }

    fn add_rx(&mut self, p: &str, s: &str, i: usize) {
        let res = Self::regex_at(p, s, i);
        let entry = sexp::tagged("rx", vec![sexp::st(p), sexp::st(s), sexp::nat(i), res]);
        self.entries.insert(entry.to_text(), entry);
    }

    pub fn replace_all(pattern: &str, text: &str, repl: &str) -> Sexp {
        match Regex::new(pattern) {
            Err(_) => sexp::tagged("invalid", vec![]),
            Ok(re) => sexp::tagged("ok", vec![sexp::st(&re.replace_all(text, repl))]),
        }
    }

    /// answer a `(need ...)` response; returns false if it is not a need
    pub fn answer(&mut self, resp: &Sexp) -> bool {
        let l = match resp.as_list() {
            Some(l) if resp.tag() == Some("need") && l.len() >= 2 => l,
            _ => return false,
        };
        match l[1].as_atom() {
            Some("rx") if l.len() == 5 => {
                let (p, s) = (l[2].as_str().unwrap().to_string(), l[3].as_str().unwrap().to_string());
                let i: usize = l[4].as_atom().unwrap().parse().unwrap();
                self.add_rx(&p, &s, i);
                self.rx_asked += 1;
                // look ahead along every scan that uses this regex
                let sets: Vec<Vec<String>> = self.arm_sets.iter().filter(|a| a.contains(&p)).cloned().collect();
                let subjects: Vec<(String, usize)> = vec![(s.clone(), i)];
                for (s, i) in subjects {
                  for arms in sets.iter().cloned() {
                    let mut j = i;
                    for _ in 0..400 {
                        if j >= s.len() || !s.is_char_boundary(j) {
                            break;
                        }
                        let mut best: Option<(usize, usize)> = None; // (start, end)
                        let mut empty = false;
                        for a in &arms {
                            self.add_rx(a, &s, j);
                            if let Ok(re) = Regex::new(a) {
                                if let Some(m) = re.find(&s[j..]) {
                                    if m.start() == m.end() {
                                        empty = true;
                                    }
                                    if best.map_or(true, |b| m.start() < b.0) {
                                        best = Some((m.start(), m.end()));
                                    }
                                }
                            }
                        }
                        match best {
                            Some((_, end)) if !empty && end > 0 => j += end,
                            _ => break,
                        }
                    }
                  }
                }
                true
            }
            Some("rp") if l.len() == 5 => {
                let res = Self::replace_all(l[2].as_str().unwrap(), l[3].as_str().unwrap(), l[4].as_str().unwrap());
                let entry = sexp::tagged("rp", vec![l[2].clone(), l[3].clone(), l[4].clone(), res]);
                self.entries.insert(entry.to_text(), entry);
                self.rp_asked += 1;
                true
            }
            _ => false,
        }
    }
}

/// send `build(oracle)` until the driver stops asking for oracle answers
pub fn ask_with_oracle(drv: &mut Driver, table: &mut OracleTable, build: &dyn Fn(&Sexp) -> Sexp) -> Sexp {
    let started = std::time::Instant::now();
    for _ in 0..10_000 {
        if started.elapsed().as_secs() > MODEL_BUDGET_S {
            return sexp::atom("model-too-slow");
        }
        let req = build(&table.to_sexp());
        let t0 = std::time::Instant::now();
        let resp = drv.ask(&req);
        if std::env::var("TSG_TRACE_ORACLE").is_ok() {
            eprintln!("oracle round: request {} bytes, {} ms, response {}", req.to_text().len(), t0.elapsed().as_millis(), resp.to_text().chars().take(60).collect::<String>());
        }
        if !table.answer(&resp) {
            return resp;
        }
    }
    sexp::atom("oracle-did-not-converge")
}
