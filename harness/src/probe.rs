//! Demonstrations of the genuine defects found on the pinned tree (DESIGN.md section 10).
//! `tsg-verif probe` prints one line per defect: OK (behaves as the property requires) or DEFECT.
use std::panic::{catch_unwind, AssertUnwindSafe};
use tree_sitter::Parser;
use tree_sitter_graph::ast::File;
use tree_sitter_graph::functions::Functions;
use tree_sitter_graph::graph::{Graph, Value};
use tree_sitter_graph::{ExecutionConfig, Identifier, NoCancellation, Variables};

fn lang() -> tree_sitter::Language {
    tree_sitter_python::LANGUAGE.into()
}

fn load(tsg: &str) -> Result<Result<File, String>, String> {
    catch_unwind(AssertUnwindSafe(|| File::from_str(lang(), tsg).map_err(|e| format!("{}", e)))).map_err(|_| "panic".to_string())
}

fn exec(tsg: &str, src: &str, lazy: bool, debug: bool) -> Result<Result<String, String>, String> {
    catch_unwind(AssertUnwindSafe(|| {
        let file = File::from_str(lang(), tsg).map_err(|e| format!("load: {}", e))?;
        let mut parser = Parser::new();
        parser.set_language(&lang()).unwrap();
        let tree = parser.parse(src, None).unwrap();
        let functions = Functions::stdlib();
        let globals = Variables::new();
        let mut config = ExecutionConfig::new(&functions, &globals).lazy(lazy);
        if debug {
            config = config.debug_attributes(Identifier::from("dbg_loc"), Identifier::from("dbg_var"), Identifier::from("dbg_match"));
        }
        let g = file.execute(&tree, src, &config, &NoCancellation).map_err(|e| format!("exec: {}", e))?;
        Ok(format!("{}", g.pretty_print()))
    }))
    .map_err(|_| "panic".to_string())
}

fn line(id: &str, ok: bool, what: &str, detail: String) {
    println!("{} {} {} :: {}", if ok { "OK    " } else { "DEFECT" }, id, what, detail.replace('\n', "\\n"));
}

pub fn run() -> bool {
    let mut all = true;
    let mut rec = |id: &str, ok: bool, what: &str, detail: String| {
        all &= ok;
        line(id, ok, what, detail)
    };
    // 1 integer literal >= 2^32
    let r = load("(module) @_m { let x = 99999999999 }");
    rec("D01", matches!(r, Ok(Err(_))), "C05 integer literal >= 2^32 must be a parse error", format!("{:?}", r.map(|x| x.map(|_| "file"))));
    // 2 $N overflow
    let r = load("(module) @_m { scan \"a\" { \"a\" { let x = $99999999999999999999999 } } }");
    rec("D02", matches!(r, Ok(Err(_))), "C05 regex capture index overflow must be a parse error", format!("{:?}", r.map(|x| x.map(|_| "file"))));
    // 3 lazy $n out of range
    let tsg = "(module) @_m { node n scan \"ab\" { \"a\" { attr (n) v = $5 } } }";
    let s = exec(tsg, "pass", false, false);
    let l = exec(tsg, "pass", true, false);
    rec("D03", matches!(l, Ok(Err(_))) && matches!(s, Ok(Err(_))), "C02/C05 out-of-range $n: error in both modes", format!("strict={:?} lazy={:?}", s, l));
    // 4 some/none prefix
    let r = exec("(module) @_m { let something = #true node n if something { attr (n) yes } }", "pass", false, false);
    rec("D04", matches!(&r, Ok(Ok(g)) if g.contains("yes")), "C07 identifier starting with `some` in a condition", format!("{:?}", r));
    let r = exec("(module) @_m { let none_left = #true node n if none_left { attr (n) yes } }", "pass", false, false);
    rec("D04b", matches!(&r, Ok(Ok(g)) if g.contains("yes")), "C07 identifier starting with `none` in a condition", format!("{:?}", r));
    // 7 two edge statements with debug attrs, strict
    let tsg = "(module) @_m { node a node b edge a -> b\n edge a -> b }";
    let plain = exec(tsg, "pass", false, false);
    let dbg = exec(tsg, "pass", false, true);
    rec("D07", plain.as_ref().map(|x| x.is_ok()) == dbg.as_ref().map(|x| x.is_ok()), "C15 debug attributes must not change success (strict, same edge twice)", format!("plain={:?} debug={:?}", plain.map(|x| x.is_ok()), dbg));
    // 8 lazy execute_into wipes attributes of pre-existing edge
    let r = catch_unwind(AssertUnwindSafe(|| {
        let mut out = Vec::new();
        for lazy in [false, true] {
            let mut graph = Graph::new();
            let a = graph.add_graph_node();
            let b = graph.add_graph_node();
            graph[a].add_edge(b).ok().unwrap().attributes.add(Identifier::from("keep"), Value::Integer(1)).unwrap();
            let file = File::from_str(lang(), "global a global b (module) @m { edge a -> b let _x = @m }").unwrap();
            let mut parser = Parser::new();
            parser.set_language(&lang()).unwrap();
            let tree = parser.parse("pass", None).unwrap();
            let functions = Functions::stdlib();
            let mut globals = Variables::new();
            globals.add(Identifier::from("a"), Value::GraphNode(a)).unwrap();
            globals.add(Identifier::from("b"), Value::GraphNode(b)).unwrap();
            let config = ExecutionConfig::new(&functions, &globals).lazy(lazy);
            file.execute_into(&mut graph, &tree, "pass", &config, &NoCancellation).unwrap();
            out.push(graph[a].get_edge(b).unwrap().attributes.get("keep").is_some());
        }
        out
    }));
    rec("D08", matches!(&r, Ok(v) if v == &vec![true, true]), "C09 execute_into keeps attributes of a re-created edge (strict, lazy)", format!("{:?}", r));
    // 9 plus overflow
    let r = exec("(module) @_m { node n attr (n) v = (plus 4294967295 1) }", "pass", false, false);
    rec("D09", matches!(r, Ok(Err(_))), "C13 plus overflow must be an execution error", format!("{:?}", r));
    // 10 is-empty / length arity
    let r = exec("(module) @_m { node n attr (n) v = (is-empty [] 1 2) }", "pass", false, false);
    rec("D10", matches!(r, Ok(Err(_))), "C13 is-empty with extra arguments must be an error", format!("{:?}", r));
    let r = exec("(module) @_m { node n attr (n) v = (length [] 1) }", "pass", false, false);
    rec("D10b", matches!(r, Ok(Err(_))), "C13 length with extra arguments must be an error", format!("{:?}", r));
    // 11 plain display of a parse error not at byte 0
    let r = catch_unwind(AssertUnwindSafe(|| {
        let src = "x = 1\ny = (\n";
        let mut parser = Parser::new();
        parser.set_language(&lang()).unwrap();
        let tree = parser.parse(src, None).unwrap();
        let errs = tree_sitter_graph::parse_error::ParseError::all(&tree);
        errs.iter().map(|e| format!("{}", e.display(std::path::Path::new("f.py"), src))).collect::<Vec<_>>()
    }));
    rec("D11", r.is_ok(), "C18 plain display of a tree-sitter parse error must not panic", format!("{:?}", r));
    // 12 unused captures order
    let mut msgs = std::collections::BTreeSet::new();
    for _ in 0..40 {
        if let Ok(Err(m)) = load("(module (expression_statement (identifier) @zz @yy @xx)) @_m { }") {
            msgs.insert(m);
        }
    }
    rec("D12", msgs.len() == 1, "C12 unused-capture diagnostic must be deterministic", format!("{:?}", msgs));
    // 13 lazy evaluate_all order
    let mut msgs = std::collections::BTreeSet::new();
    for _ in 0..40 {
        let r = exec(
            "(module) @m { let @m.aaa = 1\n let @m.aaa = 2\n let @m.bbb = 1\n let @m.bbb = 2\n let @m.ccc = 1\n let @m.ccc = 2 }",
            "pass",
            true,
            false,
        );
        msgs.insert(format!("{:?}", r));
    }
    rec("D13", msgs.len() == 1, "C12 lazy duplicate-scoped-variable error must be deterministic", format!("{} distinct messages", msgs.len()));
    // 14 full-match capture lost: four captures on one node (tree-sitter keeps three), quantified root
    for (id, tsg) in [("D14a", "(module) @_a @_b @_c { node n }"), ("D14b", "(pass_statement)* @_m { node n }")] {
        let s = exec(tsg, "pass", false, false);
        let l = exec(tsg, "pass", true, false);
        rec(id, s.is_ok() && l.is_ok(), "C05 a stanza whose full-match capture is lost must not panic", format!("strict={:?} lazy={:?}", s, l));
    }
    let tsg = "(module) @_a @_b @_c { node n }";
    let s = exec(tsg, "pass", false, true);
    rec("D14c", s.is_ok(), "C05 lost full-match capture with debug attributes must not panic", format!("strict={:?}", s));
    // 15 capture inside a shorthand body (never checked): unreachable!()
    let tsg = "attribute sh = x => k = @m\n(module) @_m { node n attr (n) sh = 1 }";
    let s = exec(tsg, "pass", false, false);
    let l = exec(tsg, "pass", true, false);
    rec("D15", s.is_ok() && l.is_ok(), "C05 a capture inside an attribute shorthand must not panic", format!("strict={:?} lazy={:?}", s, l));
    // 16 a fourth USER capture on one pattern step: tree-sitter drops it and still reports it as occurring once
    let tsg = "(assignment left: (identifier) @_a @_b @_c @d) { node n attr (n) v = @d }";
    let s = exec(tsg, "x = 1\n", false, false);
    let l = exec(tsg, "x = 1\n", true, false);
    rec("D16", s.is_ok() && l.is_ok(), "C05 a capture that tree-sitter dropped from the match (more than three on one step) must not panic", format!("strict={:?} lazy={:?}", s, l));
    all
}
