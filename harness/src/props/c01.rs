//! C01 — execution yields exactly the graph the language reference prescribes.
//! Correspondence: strict execution of the implementation vs the strict model (`Strict.run`), which is
//! proved to refine the reference semantics (Props/C01). Hard observables: success/failure and, on
//! success, the whole graph including node numbering.
use crate::driver::Driver;
use crate::execx::{impl_as_result, run_impl, run_model, RunCfg};
use crate::gen::dsl::Opts;
use crate::oracle::OracleTable;
use crate::props::common::*;
use crate::report::Report;
use crate::rng::Rng;
use crate::sexp::{self, Sexp};
use serde_json::json;

pub fn outcome_class(o: &Sexp) -> String {
    match o.tag() {
        Some("ok") => "ok".to_string(),
        Some("err") => {
            // root cause variant
            let mut cur = &o.as_list().unwrap()[1];
            loop {
                match cur.tag() {
                    Some("base") => return format!("err:{}", cur.as_list().unwrap()[1].as_atom().unwrap_or("?")),
                    Some("in-stmt") => cur = &cur.as_list().unwrap()[2],
                    Some("in-other") => cur = &cur.as_list().unwrap()[1],
                    _ => return "err:?".to_string(),
                }
            }
        }
        Some("panic") => "panic".to_string(),
        Some(t) => t.to_string(),
        None => "?".to_string(),
    }
}

pub fn result_parts(r: &Sexp) -> Option<(&Sexp, &Sexp, &Sexp)> {
    let l = r.as_list()?;
    if r.tag() == Some("result") && l.len() == 4 {
        Some((&l[1], &l[2], &l[3]))
    } else {
        None
    }
}

pub fn run(rep: &mut Report, tier: &str, seed: u64) {
    rep.rule = "generated DSL programs (whole statement/expression grammar, nested blocks, 1-6 stanzas from a pool of 30 query shapes, \
                globals, inherit, shorthands; a second stream with one injected runtime fault) x generated / corpus Python sources \
                (one in five with a syntax fault); strict mode. non-trivial = the run executed at least one block (>= 1 match); distinct by (program text, source)"
        .to_string();
    rep.correspondence = "exec strict: outcome class and (on success) the whole graph incl. numbering equal between File::execute_into and Strict.run".to_string();
    let (n_programs, trees_per) = if tier == "thorough" { (4000, 3) } else { (300, 2) };
    let mut drv = Driver::spawn();
    let mut table = OracleTable::new();
    let root = Rng::new(seed);
    let pool = pool();
    for pi in 0..n_programs {
        let mut r = root.fork(pi as u64);
        let opts = Opts { fragment: false, fault_pct: if pi % 3 == 2 { 100 } else { 0 }, max_stanzas: 6, allow_print: true, universal: r.chance(1, 2), probe: false, scoped_heavy: pi % 4 == 1, keywordish_names: false, static_fault: 0 };
        let loaded = match gen_loaded(rep, &mut r, &pool, &opts) {
            Some(l) => l,
            None => continue,
        };
        for ti in 0..trees_per {
            let source = gen_source(&mut r, false, ti == 1 && pi % 5 == 0);
            let source = if ti == 0 { crate::props::common::wide_source_for(&loaded.program).unwrap_or(source) } else { source };
            let (info, mi) = export(&loaded.file, &source);
            drv.ask(&sexp::tagged("set-tree", vec![info.to_sexp(&source.src)]));
            rep.count_n("regex-oracle-questions", table.rx_asked + table.rp_asked);
            table = OracleTable::new();
            table.arm_sets = crate::astx::scan_arm_sets(&loaded.file);
            let cfg = RunCfg { lazy: false, globals: supply_globals(&mut r, &loaded.program), outer_globals: vec![], debug: None, cancel_at: None };
            let ir = run_impl(&loaded.file, &source.tree, &source.src, &info, &cfg);
            if ir.polls > crate::props::runner::MODEL_POLL_LIMIT {
                // the executable model is quadratic in the size of the run (as in `Runner::check_mode`)
                rep.count("model-comparison-skipped:run-too-large");
                let key = format!("{}\u{0}{}", loaded.program.text, source.src);
                rep.case(&key, false);
                if outcome_class(&ir.outcome) == "panic" {
                    rep.fail("impl-panic", "C01 strict execution panics (model not run: large case)", true, json!({"tsg": loaded.program.text, "source": source.src}));
                }
                continue;
            }
            let model = run_model(&mut drv, &mut table, &mi, &cfg);
            let key = format!("{}\u{0}{}", loaded.program.text, source.src);
            rep.case(&key, mi.n_matches > 0);
            let class = outcome_class(&ir.outcome);
            rep.count(&format!("outcome:{}", class));
            rep.count_n("matches", mi.n_matches);
            if pi < 2 && ti == 0 {
                rep.sample(json!({"tsg": loaded.program.text, "source": source.src, "outcome": class}));
            }
            let replay = |extra: serde_json::Value| json!({"tsg": loaded.program.text, "source": source.src, "mode": "strict",
                "globals": format!("{:?}", cfg.globals.iter().map(|g| &g.0).collect::<Vec<_>>()),
                "implementation": impl_as_result(&ir).pretty(), "model": model.pretty(), "detail": extra});
            match result_parts(&model) {
                None if model.as_atom() == Some("model-too-slow") => rep.count("model-comparison-given-up:time-budget"),
                None => rep.fail("disagreement", &format!("C01 model did not return a result: {}", model.to_text().chars().take(60).collect::<String>()), false, replay(json!(null))),
                Some((mo, mg, _mp)) => {
                    let mclass = outcome_class(mo);
                    if class == "panic" {
                        rep.fail("impl-panic", &format!("C01 strict execution panics (model: {})", mclass), true, replay(json!(null)));
                    } else if (class == "ok") != (mclass == "ok") {
                        rep.fail("disagreement", &format!("C01 strict: implementation {} / model {}", class, mclass), true, replay(json!(null)));
                    } else if class == "ok" {
                        if ir.graph.as_ref() != Some(mg) {
                            rep.fail("disagreement", "C01 strict: graphs differ", true, replay(json!(null)));
                        }
                    } else {
                        // both fail: which error is soft under C01 (hard under C02/C16/C20)
                        if class != mclass {
                            rep.fail("disagreement", &format!("C01 strict: error variant implementation {} / model {}", class, mclass), false, replay(json!(null)));
                        }
                        if ir.graph.as_ref() != Some(mg) {
                            rep.count("soft:graph-at-failure-differs");
                        }
                    }
                }
            }
        }
    }
    rep.count_n("regex-oracle-questions", table.rx_asked + table.rp_asked);
}
