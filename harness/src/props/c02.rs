//! C02 — strict and lazy evaluation agree on every order-insensitive program.
//! Correspondence: each mode of the implementation vs its model (outcome class, graph).
//! Direct oracle: strict vs lazy on the implementation (success coincides, graphs isomorphic,
//! order-independent failures fail in both, no panic in either).
use crate::driver::Driver;
use crate::execx::{impl_as_result, run_impl, run_model, RunCfg};
use crate::gen::dsl::Opts;
use crate::iso::isomorphic;
use crate::oracle::OracleTable;
use crate::props::c01::{outcome_class, result_parts};
use crate::props::common::*;
use crate::report::Report;
use crate::rng::Rng;
use crate::sexp;
use serde_json::json;

/// failure classes that do not depend on evaluation order (the property's list)
pub fn order_independent(class: &str) -> bool {
    matches!(
        class,
        "err:ExpectedBoolean" | "err:ExpectedInteger" | "err:ExpectedString" | "err:ExpectedList" | "err:ExpectedGraphNode" | "err:ExpectedSyntaxNode"
            | "err:InvalidVariableScope" | "err:DuplicateAttribute" | "err:DuplicateVariable" | "err:FunctionFailed" | "err:UndefinedFunction"
            | "err:InvalidParameters" | "err:UndefinedRegexCapture" | "err:MissingGlobalVariable"
    )
}

pub fn run(rep: &mut Report, tier: &str, seed: u64) {
    rep.rule = "generated programs inside the order-insensitive fragment (no var/set on scoped variables, scoped definitions precede reads, \
                graph nodes never rendered as text, no print), a third of them with one injected runtime fault, x generated/corpus Python sources; \
                both modes. non-trivial = at least one match; distinct by (program, source)"
        .to_string();
    rep.correspondence = "exec strict / exec lazy: outcome class and (on success) the whole graph equal between each mode of File::execute_into and Strict.run / Lazy.run".to_string();
    let (n_programs, trees_per) = if tier == "thorough" { (3000, 3) } else { (250, 2) };
    let mut drv = Driver::spawn();
    let mut table = OracleTable::new();
    let root = Rng::new(seed);
    let pool = pool();
    for pi in 0..n_programs {
        let mut r = root.fork(pi as u64);
        let opts = Opts { fragment: true, fault_pct: if pi % 3 == 2 { 100 } else { 0 }, max_stanzas: 5, allow_print: false, universal: r.chance(1, 2), probe: false, scoped_heavy: pi % 4 == 1, keywordish_names: false, static_fault: 0 };
        let loaded = match gen_loaded(rep, &mut r, &pool, &opts) {
            Some(l) => l,
            None => continue,
        };
        for ti in 0..trees_per {
            let source = gen_source(&mut r, ti == 1, false);
            let source = if ti == 0 { crate::props::common::wide_source_for(&loaded.program).unwrap_or(source) } else { source };
            let (info, mi) = export(&loaded.file, &source);
            drv.ask(&sexp::tagged("set-tree", vec![info.to_sexp(&source.src)]));
            rep.count_n("regex-oracle-questions", table.rx_asked + table.rp_asked);
            table = OracleTable::new();
            table.arm_sets = crate::astx::scan_arm_sets(&loaded.file);
            let globals = supply_globals(&mut r, &loaded.program);
            let mut results = Vec::new();
            for lazy in [false, true] {
                let cfg = RunCfg { lazy, globals: globals.clone(), outer_globals: vec![], debug: None, cancel_at: None };
                if let Ok(path) = std::env::var("TSG_CASE_LOG") {
                    // debugging aid: the case about to run, so that a stall can be attributed
                    let _ = std::fs::write(&path, json!({"pi": pi, "ti": ti, "lazy": lazy, "tsg": loaded.program.text, "source": source.src,
                        "globals": format!("{:?}", globals.iter().map(|g| (g.0.clone(), format!("{}", g.1))).collect::<Vec<_>>())}).to_string());
                }
                let ir = run_impl(&loaded.file, &source.tree, &source.src, &info, &cfg);
                if ir.polls > crate::props::runner::MODEL_POLL_LIMIT {
                    // the executable model is quadratic in the size of the run: very large runs are decided by the direct
                    // strict-vs-lazy oracle below only (as in `Runner::check_mode`)
                    rep.count("model-comparison-skipped:run-too-large");
                    let class = outcome_class(&ir.outcome);
                    if class == "panic" {
                        rep.fail("impl-panic", &format!("C02 {} execution panics (model not run: large case)", if lazy { "lazy" } else { "strict" }), true,
                            json!({"tsg": loaded.program.text, "source": source.src, "mode": if lazy { "lazy" } else { "strict" }}));
                    }
                    rep.count(&format!("{}:{}", if lazy { "lazy" } else { "strict" }, class));
                    results.push((class, ir));
                    continue;
                }
                let model = run_model(&mut drv, &mut table, &mi, &cfg);
                let class = outcome_class(&ir.outcome);
                rep.count(&format!("{}:{}", if lazy { "lazy" } else { "strict" }, class));
                let mode = if lazy { "lazy" } else { "strict" };
                let replay = json!({"tsg": loaded.program.text, "source": source.src, "mode": mode,
                    "implementation": impl_as_result(&ir).pretty(), "model": model.pretty()});
                match result_parts(&model) {
                    None if model.as_atom() == Some("model-too-slow") => rep.count("model-comparison-given-up:time-budget"),
                    None => rep.fail("disagreement", &format!("C02 {} model did not return a result: {}", mode, model.to_text().chars().take(60).collect::<String>()), false, replay),
                    Some((mo, mg, _)) => {
                        let mclass = outcome_class(mo);
                        if class == "panic" {
                            rep.fail("impl-panic", &format!("C02 {} execution panics (model: {})", mode, mclass), true, replay);
                        } else if (class == "ok") != (mclass == "ok") {
                            rep.fail("disagreement", &format!("C02 {}: implementation {} / model {}", mode, class, mclass), false, replay);
                        } else if class == "ok" && ir.graph.as_ref() != Some(mg) {
                            rep.fail("disagreement", &format!("C02 {}: graphs differ", mode), false, replay);
                        } else if class != "ok" && class != mclass {
                            // both fail with different errors: the model mirrors the evaluation order of each mode, so
                            // which error surfaces is part of the correspondence
                            rep.fail("disagreement", &format!("C02 {}: error variant implementation {} / model {}", mode, class, mclass), false, replay);
                        }
                    }
                }
                results.push((class, ir));
            }
            let key = format!("{}\u{0}{}", loaded.program.text, source.src);
            rep.case(&key, mi.n_matches > 0);
            rep.count_n("matches", mi.n_matches);
            if pi < 2 && ti == 0 {
                rep.sample(json!({"tsg": loaded.program.text, "source": source.src, "strict": results[0].0, "lazy": results[1].0}));
            }
            // direct oracle on the implementation
            let (sc, sr) = &results[0];
            let (lc, lr) = &results[1];
            let replay = json!({"tsg": loaded.program.text, "source": source.src,
                "strict": impl_as_result(sr).pretty(), "lazy": impl_as_result(lr).pretty()});
            if sc == "panic" || lc == "panic" {
                // already reported above
            } else if sc == "ok" {
                if lc != "ok" {
                    rep.fail("direct", &format!("C02 strict succeeds, lazy fails with {}", lc), true, replay);
                } else {
                    match isomorphic(sr.graph.as_ref().unwrap(), lr.graph.as_ref().unwrap()) {
                        Some(true) => rep.count("direct:isomorphic"),
                        Some(false) => rep.fail("direct", "C02 strict and lazy graphs are not isomorphic", true, replay),
                        None => rep.count("direct:iso-undecided"),
                    }
                }
            } else if order_independent(sc) && lc == "ok" {
                rep.fail("direct", &format!("C02 strict fails with order-independent {}, lazy succeeds", sc), true, replay);
            } else {
                rep.count("direct:both-fail-or-order-dependent");
            }
        }
    }
    rep.count_n("regex-oracle-questions", table.rx_asked + table.rp_asked);
    locality_stream(rep, tier, seed);
}

/// Lazy evaluation runs scan subjects, conditions and loop sources eagerly because the checker certified them
/// local; C02 quantifies over ACCEPTED programs, so what is accepted is part of the property. This stream offers
/// programs in which a value depending on a live scoped variable reaches such a place. They must be rejected;
/// when one is accepted, both modes run on sources with several matches and must agree like any other program.
fn locality_stream(rep: &mut Report, tier: &str, seed: u64) {
    let n = if tier == "thorough" { 1500 } else { 150 };
    let root = Rng::new(seed ^ 0x10ca1);
    for i in 0..n {
        let mut r = root.fork(i as u64);
        let (text, form) = crate::gen::dsl::live_nonlocal_program(&mut r);
        match load(&text) {
            Ok(Err(_)) => rep.count("locality-stream:rejected-as-required"),
            Err(()) => rep.fail("impl-panic", "C02 loading a program of the locality stream panics", true, json!({"tsg": text})),
            Ok(Ok(file)) => {
                rep.count(&format!("locality-stream:ACCEPTED:{}", form));
                for ti in 0..3 {
                    let source = gen_source(&mut r, ti == 1, false);
                    let info = crate::tree::TreeInfo::new(&source.tree);
                    let mut results = Vec::new();
                    for lazy in [false, true] {
                        let cfg = RunCfg { lazy, globals: vec![], outer_globals: vec![], debug: None, cancel_at: None };
                        let ir = run_impl(&file, &source.tree, &source.src, &info, &cfg);
                        results.push((outcome_class(&ir.outcome), ir));
                    }
                    let (sc, sr) = &results[0];
                    let (lc, lr) = &results[1];
                    let replay = json!({"tsg": text, "source": source.src, "form": form,
                        "strict": impl_as_result(sr).pretty(), "lazy": impl_as_result(lr).pretty()});
                    if sc == "panic" || lc == "panic" {
                        rep.fail("impl-panic", &format!("C02 execution of an accepted locality-stream program panics ({} / {})", sc, lc), true, replay);
                    } else if sc == "ok" && lc != "ok" {
                        rep.fail("direct", &format!("C02 strict succeeds, lazy fails with {} [accepted {}: a non-local value certified local]", lc, form), true, replay);
                    } else if sc == "ok" && isomorphic(sr.graph.as_ref().unwrap(), lr.graph.as_ref().unwrap()) == Some(false) {
                        rep.fail("direct", &format!("C02 strict and lazy graphs are not isomorphic [accepted {}]", form), true, replay);
                    } else if order_independent(sc) && lc == "ok" {
                        rep.fail("direct", &format!("C02 strict fails with order-independent {}, lazy succeeds [accepted {}]", sc, form), true, replay);
                    } else {
                        rep.count("locality-stream:accepted-and-modes-agree");
                    }
                }
            }
        }
    }
}
