//! C03 — each query match runs its stanza exactly once with correctly bound captures.
//! Correspondence: multi-stanza files with probe statements (every capture stored in an attribute), both modes,
//! against the model, which binds captures BY NAME from the harness's own per-stanza `QueryCursor` run.
//! Direct oracle: `File::try_visit_matches` (strict and lazy) and `Stanza::try_visit_matches` against that same
//! independent run; the checker's capture indices against the queries' capture-name tables.
use crate::execx::RunCfg;
use crate::gen::dsl::Opts;
use crate::props::runner::*;
use crate::report::Report;
use crate::sexp::{self, Sexp};
use serde_json::json;
use tree_sitter_graph::ast::{Expression, Statement, Variable};

fn visit_exprs<'a>(ss: &'a [Statement], out: &mut Vec<&'a tree_sitter_graph::ast::Capture>) {
    fn ex<'a>(e: &'a Expression, out: &mut Vec<&'a tree_sitter_graph::ast::Capture>) {
        match e {
            Expression::Capture(c) => out.push(c),
            Expression::ListLiteral(l) => l.elements.iter().for_each(|x| ex(x, out)),
            Expression::SetLiteral(l) => l.elements.iter().for_each(|x| ex(x, out)),
            Expression::ListComprehension(c) => {
                ex(&c.element, out);
                ex(&c.value, out)
            }
            Expression::SetComprehension(c) => {
                ex(&c.element, out);
                ex(&c.value, out)
            }
            Expression::Variable(Variable::Scoped(v)) => ex(&v.scope, out),
            Expression::Call(c) => c.parameters.iter().for_each(|x| ex(x, out)),
            _ => {}
        }
    }
    fn var<'a>(v: &'a Variable, out: &mut Vec<&'a tree_sitter_graph::ast::Capture>) {
        if let Variable::Scoped(s) = v {
            ex(&s.scope, out)
        }
    }
    for s in ss {
        match s {
            Statement::DeclareImmutable(x) => {
                var(&x.variable, out);
                ex(&x.value, out)
            }
            Statement::DeclareMutable(x) => {
                var(&x.variable, out);
                ex(&x.value, out)
            }
            Statement::Assign(x) => {
                var(&x.variable, out);
                ex(&x.value, out)
            }
            Statement::CreateGraphNode(x) => var(&x.node, out),
            Statement::AddGraphNodeAttribute(x) => {
                ex(&x.node, out);
                x.attributes.iter().for_each(|a| ex(&a.value, out))
            }
            Statement::CreateEdge(x) => {
                ex(&x.source, out);
                ex(&x.sink, out)
            }
            Statement::AddEdgeAttribute(x) => {
                ex(&x.source, out);
                ex(&x.sink, out);
                x.attributes.iter().for_each(|a| ex(&a.value, out))
            }
            Statement::Scan(x) => {
                ex(&x.value, out);
                x.arms.iter().for_each(|a| visit_exprs(&a.statements, out))
            }
            Statement::Print(x) => x.values.iter().for_each(|v| ex(v, out)),
            Statement::If(x) => x.arms.iter().for_each(|a| {
                a.conditions.iter().for_each(|c| match c {
                    tree_sitter_graph::ast::Condition::Some { value, .. } | tree_sitter_graph::ast::Condition::None { value, .. } | tree_sitter_graph::ast::Condition::Bool { value, .. } => ex(value, out),
                });
                visit_exprs(&a.statements, out)
            }),
            Statement::ForIn(x) => {
                ex(&x.value, out);
                visit_exprs(&x.statements, out)
            }
        }
    }
}

/// what a visitor callback saw for one match, in canonical form
fn visited(m: &tree_sitter_graph::Match, info: &crate::tree::TreeInfo) -> Sexp {
    let mut caps: Vec<(String, Sexp)> = m
        .named_captures()
        .map(|(name, q, nodes)| (name.to_string(), sexp::list(vec![sexp::st(name), crate::astx::quant(q), sexp::list(nodes.map(|n| sexp::nat(info.index_of(&n))).collect())])))
        .collect();
    caps.sort_by(|a, b| a.0.cmp(&b.0));
    sexp::list(vec![crate::astx::loc(m.query_location()), sexp::nat(info.index_of(&m.full_capture())), sexp::list(caps.into_iter().map(|c| c.1).collect())])
}

/// what `try_visit_matches` must report, from independent per-stanza `QueryCursor` runs (no match limit)
fn expected_visits(file: &tree_sitter_graph::ast::File, tree: &tree_sitter::Tree, src: &str, info: &crate::tree::TreeInfo) -> Vec<Sexp> {
    let mut expected: Vec<Sexp> = Vec::new();
    for st in &file.stanzas {
        let names = crate::astx::query_captures(&st.query);
        for m in crate::astx::matches(&st.query, tree, src, info) {
            let caps = m.as_list().unwrap()[2].as_list().unwrap();
            let full = caps.iter().find(|c| c.as_list().unwrap()[0].as_str() == Some("__tsg__full_match")).unwrap().as_list().unwrap()[1].as_list().unwrap()[0].clone();
            let mut named: Vec<(String, Sexp)> = caps
                .iter()
                .filter(|c| c.as_list().unwrap()[0].as_str() != Some("__tsg__full_match"))
                .map(|c| {
                    let l = c.as_list().unwrap();
                    let name = l[0].as_str().unwrap().to_string();
                    let q = names.iter().find(|n| n.0 == name).unwrap().1;
                    (name.clone(), sexp::list(vec![sexp::st(&name), crate::astx::quant(q), l[1].clone()]))
                })
                .collect();
            named.sort_by(|a, b| a.0.cmp(&b.0));
            expected.push(sexp::list(vec![crate::astx::loc(&st.range.start), full, sexp::list(named.into_iter().map(|c| c.1).collect())]));
        }
    }
    expected
}

/// Wide inputs: a pattern that keeps many partial matches alive over a node with hundreds of children. Every match must
/// still be visited, in both modes (no in-progress match may be dropped).
fn wide_stream(rep: &mut Report, tier: &str) {
    use crate::props::common::load;
    let sizes: &[usize] = if tier == "thorough" { &[64, 129, 130, 200, 300] } else { &[130, 200] };
    for &n in sizes {
        let src = format!("x = [{}]\n", (0..n).map(|i| i.to_string()).collect::<Vec<_>>().join(", "));
        for text in ["(list (integer) @_a (integer) @_b) { }\n", "(module) @_m { }\n(list (integer) @_a (integer) @_b) { }\n"] {
            let file = match load(text) {
                Ok(Ok(f)) => f,
                _ => { rep.fail("direct", "C03 wide-input program rejected", true, json!({"tsg": text})); continue; }
            };
            let tree = crate::tree::parse_python(&src);
            let info = crate::tree::TreeInfo::new(&tree);
            let expected = expected_visits(&file, &tree, &src, &info);
            rep.case(&format!("wide {} {}", n, text), true);
            rep.alive();
            for lazy in [false, true] {
                let mut count = 0usize;
                let res = std::panic::catch_unwind(std::panic::AssertUnwindSafe(|| {
                    let mut v = Vec::new();
                    let _ = file.try_visit_matches::<(), _>(&tree, &src, lazy, |m| {
                        v.push(visited(&m, &info));
                        Ok(())
                    });
                    v
                }));
                match res {
                    Err(_) => rep.fail("impl-panic", "C03 try_visit_matches panics on a wide input", true, json!({"tsg": text, "list_length": n, "lazy": lazy})),
                    Ok(mut seen) => {
                        count = seen.len();
                        let mut exp = expected.clone();
                        seen.sort_by_key(|x| x.to_text());
                        exp.sort_by_key(|x| x.to_text());
                        if seen != exp {
                            rep.fail("direct", &format!("C03 File::try_visit_matches(lazy={}) does not visit every match of a wide input", lazy), true,
                                json!({"tsg": text, "source": format!("x = [0, 1, ..., {}]", n - 1), "list_length": n, "visited": count, "expected": expected.len()}));
                        }
                    }
                }
                rep.count_n("wide-input-matches-visited", count);
            }
        }
    }
}

pub fn run(rep: &mut Report, tier: &str, seed: u64) {
    rep.rule = "multi-stanza files (2-7 stanzas) from a pool of 30 query shapes (fields, wildcards, alternations, anchors, #eq?/#match? predicates, ? * + captures, \
                capture names shared between stanzas with different quantifiers/positions, _-prefixed names), every capture probed into an attribute, x generated/corpus \
                Python trees incl. trees with ERROR nodes, both modes; non-trivial = at least two stanzas with matches; distinct by (program, source)".to_string();
    rep.correspondence = "exec of probe programs: graph (capture values as attributes) equal between each mode and its model, the model binding captures by name \
                          from an independent per-stanza QueryCursor run".to_string();
    let n_programs = if tier == "thorough" { 2500 } else { 160 };
    let mut runner = Runner::new("C03");
    campaign(rep, &mut runner, seed, n_programs, 3, false,
        &|_pi, r| Opts { fragment: true, fault_pct: 0, max_stanzas: 6, allow_print: false, universal: r.chance(1, 4), probe: true, scoped_heavy: false, keywordish_names: false, static_fault: 0 },
        &mut |rep, runner, case, r, pi| {
            let globals = crate::props::common::supply_globals(r, &case.loaded.program);
            for lazy in [false, true] {
                runner.check_mode(rep, case, &RunCfg { lazy, globals: globals.clone(), outer_globals: vec![], debug: None, cancel_at: None }, true, false);
            }
            let file = &case.loaded.file;
            let (tree, src, info) = (&case.source.tree, case.source.src.as_str(), case.info);
            // independent expectation
            let expected: Vec<Sexp> = expected_visits(file, tree, src, info);
            for lazy in [false, true] {
                let mut seen: Vec<Sexp> = Vec::new();
                let res = std::panic::catch_unwind(std::panic::AssertUnwindSafe(|| {
                    let mut v = Vec::new();
                    let _ = file.try_visit_matches::<(), _>(tree, src, lazy, |m| {
                        v.push(visited(&m, info));
                        Ok(())
                    });
                    v
                }));
                match res {
                    Ok(v) => seen = v,
                    Err(_) => rep.fail("impl-panic", "C03 try_visit_matches panics", true, json!({"tsg": case.tsg, "source": src, "lazy": lazy})),
                }
                let (mut a, mut b) = (seen.clone(), expected.clone());
                if lazy {
                    a.sort_by_key(|x| x.to_text());
                    b.sort_by_key(|x| x.to_text());
                }
                if a != b {
                    rep.fail("direct", &format!("C03 File::try_visit_matches(lazy={}) differs from per-stanza QueryCursor runs", lazy), true,
                        json!({"tsg": case.tsg, "source": src, "visited": seen.iter().map(|x| x.pretty()).collect::<Vec<_>>(), "expected": expected.iter().map(|x| x.pretty()).collect::<Vec<_>>()}));
                } else {
                    rep.count_n("visited-matches", a.len());
                }
            }
            // oracle contract: merged query = union of the per-stanza queries
            {
                let mut merged: Vec<String> = case.mi.merged_matches.as_list().unwrap().iter().map(|m| {
                    let l = m.as_list().unwrap();
                    let mut caps: Vec<String> = l[2].as_list().unwrap().iter().filter(|c| !c.as_list().unwrap()[1].as_list().unwrap().is_empty()).map(|c| c.to_text()).collect();
                    caps.sort();
                    format!("{} {:?}", l[1].to_text(), caps)
                }).collect();
                let mut union: Vec<String> = Vec::new();
                for (i, ms) in case.mi.stanza_matches.as_list().unwrap().iter().enumerate() {
                    for m in ms.as_list().unwrap() {
                        let mut caps: Vec<String> = m.as_list().unwrap()[2].as_list().unwrap().iter().filter(|c| !c.as_list().unwrap()[1].as_list().unwrap().is_empty()).map(|c| c.to_text()).collect();
                        caps.sort();
                        union.push(format!("{} {:?}", i, caps));
                    }
                }
                merged.sort();
                union.sort();
                if merged != union {
                    rep.fail("oracle-contract", "tree-sitter: merged file query does not report the union of the per-stanza matches", false, json!({"tsg": case.tsg, "source": src}));
                }
            }
            // checker's index resolution
            if pi % 2 == 0 {
                let fq = file.query.as_ref().unwrap();
                for st in &file.stanzas {
                    let mut caps = Vec::new();
                    visit_exprs(&st.statements, &mut caps);
                    for c in caps {
                        let ok = fq.capture_names().get(c.file_capture_index).map(|n| *n == c.name.as_str()).unwrap_or(false)
                            && st.query.capture_names().get(c.stanza_capture_index).map(|n| *n == c.name.as_str()).unwrap_or(false);
                        rep.count("capture-indices-checked");
                        if !ok {
                            rep.fail("direct", "C03 a capture's recorded index does not name it in the query's capture table", true, json!({"tsg": case.tsg, "capture": c.name.as_str()}));
                        }
                    }
                }
            }
        });
    wide_stream(rep, tier);
}
