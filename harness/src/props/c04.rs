//! C04 — scoped variables follow syntax-node identity and inherit only when declared.
//! Correspondence: programs that define and read scoped variables through different capture names, list
//! elements, nested scopes and inherit declarations, both modes, against the model (whose store is keyed by
//! the node's pre-order index and whose ancestor walk uses the exported parent links).
use crate::execx::RunCfg;
use crate::gen::dsl::Opts;
use crate::props::runner::*;
use crate::report::Report;

const NOTHING_DEFERRED: &[(&str, &str)] = &[
    ("(module) @m {\n  let @m.x = 1\n}\n(module) @m2 {\n  let @m2.x = 2\n}\n", "pass\n"),
    ("(module) @m {\n  let @m.x = 1\n  let @m.x = 1\n}\n", "pass\n"),
    ("(identifier) @a {\n  node n\n  let @a.v = n\n}\n(identifier) @b {\n  let @b.v = 1\n}\n", "x = y\n"),
    ("inherit .v\n(module) @m {\n  let @m.v = 1\n}\n(identifier) @i {\n  let @i.w = @i.v\n  var @i.w = 2\n}\n", "a\n"),
    ("(module) @m {\n  node @m.n\n  node @m.n\n}\n", "pass\n"),
    ("(module) @m {\n  let @m.x = 1\n  let @m.x = 2\n}\n(call) @_c {\n  node n\n  attr (n) k = 1\n}\n", "pass\n"),
    ("(module) @_m {\n  node n\n  let n.v = 1\n}\n", "pass\n"),
    ("(module (_) @a (_) @b) {\n  let @a.tag = 1\n  let @b.tag = 2\n}\n", "x\ny\nz\n"),
    ("(module) @m {\n  let @m.x = 1\n}\n(identifier) @i {\n  let @i.y = 2\n}\n", "a = b\n"),
];

pub fn run(rep: &mut Report, tier: &str, seed: u64) {
    rep.rule = "generated programs emphasising scoped variables (definitions on every identifier, links between captured nodes, nested scopes @a.link.x, \
                reads of an inherited name from descendants, duplicate definitions) x generated/corpus trees (deep nesting, same-range parent/child chains, many \
                nodes of one kind), both modes; non-trivial = at least one match; distinct by (program, source)".to_string();
    rep.correspondence = "exec: outcome class, error variant and graph equal between each mode and its model".to_string();
    let n_programs = if tier == "thorough" { 2500 } else { 200 };
    let mut runner = Runner::new("C04");
    // runs that defer NOTHING (no attr / edge / print is ever queued): duplicate definitions and bad scopes are still found
    // when the scoped variables are forced at the end of a lazy run
    for (tsg, src) in NOTHING_DEFERRED {
        fixed_case(rep, &mut runner, tsg, src, &[None]);
    }
    campaign(rep, &mut runner, seed, n_programs, 3, false,
        &|pi, r| Opts { fragment: false, fault_pct: 0, max_stanzas: 4, allow_print: false, universal: r.chance(1, 2), probe: pi % 4 == 0, scoped_heavy: true, keywordish_names: false, static_fault: 0 },
        &mut |rep, runner, case, r, _pi| {
            let globals = crate::props::common::supply_globals(r, &case.loaded.program);
            for lazy in [false, true] {
                let res = runner.check_mode(rep, case, &RunCfg { lazy, globals: globals.clone(), outer_globals: vec![], debug: None, cancel_at: None }, true, false);
                if res.class.contains("Undefined") || res.class.contains("Duplicate") {
                    rep.count("scoped-variable-errors");
                }
            }
        });
}
