//! C05 — no input makes loading, execution or error rendering panic or hang.
//! Direct oracle: every case runs in a child process under a watchdog; a panic (caught per case), an abort of the
//! process (stack overflow, allocation failure) or no progress within the time limit is a violation.
//! Loading: damaged / hostile texts -> `File::from_str` returns, and its error renders plain and pretty.
//! Execution: accepted files (valid, ill-typed, hostile) x trees (also with syntax errors, non-ASCII) x globals
//! (also missing / wrong-typed) x {strict, lazy} -> returns, and its error renders plain and pretty.
//! Correspondence: the loader's verdict against parser + checker model, the execution outcome class (and graph on
//! success) against the interpreter models — the models are total functions; `panic` is one of their outcomes and
//! must not occur either.
use crate::driver::Driver;
use crate::execx::RunCfg;
use crate::gen::dsl::{gen_program, Opts};
use crate::gen::python;
use crate::oracle::OracleTable;
use crate::props::c06::{load_result_sexp, model_load};
use crate::props::c07::{damage, relayout};
use crate::props::common::{export, pool, supply_globals, Loaded, Source};
use crate::props::runner::{Case, Runner};
use crate::report::Report;
use crate::rng::Rng;
use crate::sexp;
use crate::tree::{parse_python, python as python_lang};
use serde_json::{json, Value as J};
use std::io::{BufRead, BufReader};
use std::panic::{catch_unwind, AssertUnwindSafe};
use std::path::Path;
use std::process::{Command, Stdio};
use std::sync::mpsc;
use std::time::Duration;
use tree_sitter_graph::ast::File;
use tree_sitter_graph::functions::Functions;
use tree_sitter_graph::graph::Value;
use tree_sitter_graph::{ExecutionConfig, Identifier, NoCancellation, ParseError, Variables};

pub enum CaseSpec {
    Load { text: String, stream: &'static str },
    Exec { text: String, source: String, globals: Vec<(String, Value)>, stream: &'static str, compare_model: bool },
}

fn nest(open: &str, close: &str, inner: &str, d: usize) -> String {
    format!("{}{}{}", open.repeat(d), inner, close.repeat(d))
}

const HOSTILE_TEXTS: &[&str] = &[
    "",
    " \n\t ",
    ";",
    "; unterminated comment",
    "(module) @m { ; comment to the end",
    "(module) @_m { let x = \"unterminated",
    "(module) @_m { let x = \"esc\\",
    "(module) @_m { let x = 99999999999999999999999999999999999999 }",
    "(module) @_m { let x = 4294967296 }",
    "(module) @_m { let x = 4294967295 }",
    "(module) @_m { scan \"a\" { \"a\" { let x = $99999999999999999999999999 } } }",
    "(module) @_m { scan \"a\" { \"a\" { let x = $ } } }",
    "(module) @_m { scan \"a\" { \"(\" { } } }",
    "(module) @_m { scan \"a\" { \"a*\" { } } }",
    "(module",
    "(module))",
    ")",
    "}",
    "{",
    "(module) @_m {",
    "(module) @_m { }}",
    "(module) @_m { node }",
    "(module) @_m { node 1 }",
    "(module) @_m { let = 1 }",
    "(module) @_m { let x 1 }",
    "(module) @_m { attr }",
    "(module) @_m { attr () }",
    "(module) @_m { attr (x) }",
    "(module) @_m { edge -> }",
    "(module) @_m { edge a b }",
    "(module) @_m { if { } }",
    "(module) @_m { if #true }",
    "(module) @_m { for in [] { } }",
    "(module) @_m { for x.y in [] { } }",
    "(module) @_m { let x = [1, 2 }",
    "(module) @_m { let x = {1, 2 ] }",
    "(module) @_m { let x = [ y for ] }",
    "(module) @_m { let x = (f }",
    "(module) @_m { let x = # }",
    "(module) @_m { let x = #maybe }",
    "(module) @_m { let x = @ }",
    "(module) @_m { let x = @1 }",
    "(module) @_m { let x = . }",
    "(module) @_m { let x = y. }",
    "(module) @_m { print }",
    "(module) @_m { print 1, }",
    "(module) @_m { scan x }",
    "(module) @_m { scan x { y } }",
    "(module) @_m { unknown }",
    "(module) @m @n",
    "(module) (module) { }",
    "(nosuchnodekind) @_x { }",
    "(module) @_m { } (identifier",
    "global",
    "global 1",
    "global x!",
    "global x = 1",
    "global x = \"a\" global x = \"b\"",
    "global x;c\n",
    "inherit",
    "inherit x",
    "inherit .",
    "inherit .1",
    "attribute",
    "attribute a",
    "attribute a = ",
    "attribute a = b",
    "attribute a = b =>",
    "attribute a = b.c => x",
    "attribute a = b => x = ",
    "\u{feff}(module) @_m { }",
    "(module) @_m { let x = \"\u{0}\" }",
    "\u{0}",
    "(module) @_m { let \u{e9}t\u{e9} = 1 }",
    "(module) @_m\u{a0}{ }",
    "(module) @_m {\r\n}\r\n",
    "\"module\" @_m { }",
    "[(module) (identifier)] @_m { }",
    "(module (#eq? @a \"x\")) @_m { }",
    "((module) @_m (#match? @_m \"(\")) { }",
    "(module) @_m { let x = \"a\" let x = \"b\" }",
    "(module) @m { }",
    // tree-sitter 0.24.7 binding: error at offset 0 of the query text (known finding)
    "nosuchfield: (identifier) @x { }",
];

fn load_case(r: &mut Rng, pool: &[crate::gen::dsl::Pattern], i: usize) -> CaseSpec {
    match i % 8 {
        0 => CaseSpec::Load { text: HOSTILE_TEXTS[(i / 8) % HOSTILE_TEXTS.len()].to_string(), stream: "hostile-text" },
        1 => {
            // bracket nesting up to 64
            let d = 1 + r.below(64);
            let text = match r.below(7) {
                0 => format!("(module) @_m {{ let x = {} }}", nest("[", "]", "1", d)),
                1 => format!("(module) @_m {{ let x = {} }}", nest("{", "}", "1", d)),
                2 => format!("(module) @_m {{ let x = {} }}", nest("(not ", ")", "#true", d)),
                3 => format!("(module) @_m {{ {} }}", nest("if #true { ", " }", "node n", d.min(40))),
                4 => format!("(module) @_m {{ let x = {} }}", nest("[ ", " for q in [1] ]", "1", d.min(40))),
                5 => format!("{} @_m {{ }}", nest("(", ")", "(module)", d)),
                _ => format!("(module) @_m {{ let x = {} }}", nest("[", "", "1", d)), // unbalanced
            };
            CaseSpec::Load { text, stream: "nesting<=64" }
        }
        2 | 3 | 4 => {
            let opts = Opts { fragment: false, fault_pct: 50, max_stanzas: 3, allow_print: true, universal: r.chance(1, 4), probe: false, scoped_heavy: r.chance(1, 4), keywordish_names: r.chance(1, 3), static_fault: 0 };
            let p = gen_program(r, pool, &opts);
            let mut text = if r.chance(1, 2) { relayout(r, &p.text) } else { p.text };
            for _ in 0..(1 + r.below(3)) {
                text = damage(r, &text);
            }
            CaseSpec::Load { text, stream: "damaged-program" }
        }
        5 => {
            let opts = Opts { fragment: false, fault_pct: 0, max_stanzas: 3, allow_print: true, universal: false, probe: false, scoped_heavy: false, keywordish_names: false, static_fault: 1 };
            let p = gen_program(r, pool, &opts);
            CaseSpec::Load { text: p.text, stream: "static-rule-violation" }
        }
        6 => {
            // byte-level: cut at a character boundary, splice two programs
            let opts = Opts { fragment: false, fault_pct: 0, max_stanzas: 2, allow_print: true, universal: false, probe: false, scoped_heavy: false, keywordish_names: false, static_fault: 0 };
            let a = gen_program(r, pool, &opts).text;
            let b = gen_program(r, pool, &opts).text;
            let ca: Vec<char> = a.chars().collect();
            let cb: Vec<char> = b.chars().collect();
            let i1 = r.below(ca.len() + 1);
            let i2 = r.below(cb.len() + 1);
            let text: String = ca[..i1].iter().chain(cb[i2..].iter()).collect();
            CaseSpec::Load { text, stream: "spliced-programs" }
        }
        _ => {
            // random token soup
            const TOK: &[&str] = &["(", ")", "{", "}", "[", "]", "@x", "@_y", "\"s\"", "\"", "let", "var", "set", "node", "edge", "attr", "print", "scan", "if", "elif", "else", "for", "in", "some", "none", "=", "->", ",", ".", "#true", "#null", "x", "y", "1", "$1", "(module)", "(identifier)", "global", "inherit", "attribute", "=>", ";c\n", "\n", "*", "?", "+", "\u{e9}"];
            let n = r.range(1, 30);
            let text: String = (0..n).map(|_| *r.pick(TOK)).collect::<Vec<_>>().join(if r.chance(1, 4) { "" } else { " " });
            CaseSpec::Load { text, stream: "token-soup" }
        }
    }
}

/// hostile but loadable programs (with a source to run them on)
const HOSTILE_PROGRAMS: &[(&str, &str)] = &[
    ("(module) @_m {\n  node n\n  attr (n) dbg_var = \"other\"\n}\n", "x = 1\n"),
    ("(module) @_m {\n  node a\n  node b\n  edge a -> b\n  attr (a -> b) dbg_loc = \"elsewhere\"\n}\n", "x = 1\n"),
    ("(module) @_m {\n  node n\n  attr (n) dbg_match = 3, dbg_loc = 4\n}\n", "pass\n"),
    ("attribute sh = x => k = @m\n(module) @_m { node n attr (n) sh = 1 }", "pass\n"),
    ("(module) @_a @_b @_c { node n }", "pass\n"),
    // more captures on one pattern step than tree-sitter keeps (three): the others are reported as occurring once and have no node
    ("(assignment left: (identifier) @_a @_b @_c @d) { node n attr (n) v = @d }", "x = 1\n"),
    ("(identifier) @a @b @c @d @e { node n attr (n) v = [@a, @b, @c, @d, @e] }", "x = 1\n"),
    ("(module) @_a @_b @_c @d { node n attr (n) v = @d }", "pass\n"),
    ("(module (expression_statement) @_a @_b @_c @d @e) { node n attr (n) v = (source-text @e), w = @d }", "x\ny\n"),
    ("(pass_statement)* @_m { node n }", "pass\n"),
    ("(module) @_m { node n scan \"ab cd\" { \"\\\\b\" { attr (n) v = $0 } } }", "pass\n"),
    ("(module) @_m { node n scan \"ab\" { \"a\" { attr (n) v = $5 } } }", "pass\n"),
    ("(module) @_m { node n scan \"ab\" { \"(a)|(b)\" { attr (n) v = $2 } } }", "pass\n"),
    ("(module) @_m { node n attr (n) v = (plus 4294967295 1) }", "pass\n"),
    ("(module) @_m { node n attr (n) v = (plus 4294967295 4294967295 4294967295) }", "pass\n"),
    ("(module) @m { node n scan (source-text @m) { \"\u{e9}\" { attr (n) v = $0 } \"[^a]\" { } } }", "x = '\u{e9}\u{65e5}a\u{e9}'\n"),
    ("(module) @m { node n attr (n) v = (source-text @m), w = (node-type @m), x = (start-row @m), y = (end-column @m) }", "\u{e9} = 1\n"),
    ("global G\n(module) @_m { node n attr (n) v = G }", "pass\n"),
    ("global G*\n(module) @_m { for x in G { node n } }", "pass\n"),
    ("global G?\n(module) @_m { if some G { node n } }", "pass\n"),
    ("(module) @_m { let x = #null node x.y }", "pass\n"),
    ("(module) @m { node @m.a node @m.a }", "pass\n"),
    ("(module) @m { let @m.a = @m.b }", "pass\n"),
    ("(module) @m { let @m.a = @m.b let @m.b = @m.a node n attr (n) v = @m.a }", "pass\n"),
    ("(module) @_m { node n edge n -> n edge n -> n attr (n -> n) a = 1, a = 2 }", "pass\n"),
    ("(module) @_m { node n attr (n -> n) a = 1 }", "pass\n"),
    ("(module) @_m { attr (1) a = 1 }", "pass\n"),
    ("(module) @_m { edge 1 -> \"x\" }", "pass\n"),
    ("(module) @_m { for x in 1 { } }", "pass\n"),
    ("(module) @_m { let l = (concat [1] 2) }", "pass\n"),
    ("(module) @_m { let l = (no-such-function) }", "pass\n"),
    ("(module) @_m { let l = (plus) let m = (plus \"a\") let k = (not) }", "pass\n"),
    ("(module) @_m { let l = (format \"{} {}\" 1) }", "pass\n"),
    ("(module) @_m { let l = (format \"{\" 1) }", "pass\n"),
    ("(module) @_m { node n attr (n) v = (format \"\u{2192} {}\" 1) }", "pass\n"),
    ("(module) @_m { node n attr (n) v = (format \"\u{e9}{}\u{65e5}{}\" 1 2), w = (format \"\u{1f600}{{{}}}\" 3) }", "pass\n"),
    ("(module) @_m { node n attr (n) v = (format \"\u{2192}{x\" 1) }", "pass\n"),
    ("(module) @_m { node n attr (n) v = (replace \"a\u{e9}b\" \"\u{e9}\" \"$0\u{65e5}\"), w = (join [\"\u{e9}\", \"\"] \"\u{2192}\") }", "pass\n"),
    ("(module) @_m { let l = (format \"}\" 1) }", "pass\n"),
    ("(module) @_m { let l = (replace \"a\" \"(\" \"b\") }", "pass\n"),
    ("(module) @_m { let l = (named-child-index #null) }", "pass\n"),
    ("(module) @m { let l = (named-child-index @m) }", "pass\n"),
    ("(module) @_m { let l = (join [1, #null, \"a\", [2]] 5) }", "pass\n"),
    ("(module) @_m { let l = (is-empty 1) let k = (length \"abc\") }", "pass\n"),
    ("(module) @_m { var x = 1 set x = (plus x 1) set y = 2 }", "pass\n"),
    ("(module) @_m { let s = {(node), (node), 1, \"a\", #null, [1], {2}} print s }", "pass\n"),
    ("(identifier) @i { node @i.n attr (@i.n) t = (source-text @i) }\n(module) @m { print @m.n }", "a = b\n"),
    ("inherit .v\n(module) @m { let @m.v = 1 }\n(identifier) @i { node n attr (n) v = @i.v }", "a = b\n"),
    ("inherit .v\n(identifier) @i { node n attr (n) v = @i.v }", "a = b\n"),
    ("(module) @_m { if some #null { } }", "pass\n"),
    ("(_) @x { node @x.n }\n(_ (_) @c) @p { edge @p.n -> @c.n }", "a = (b, [c, {d: e}])\n"),
    ("(module (_)* @xs) @_m { for x in @xs { node n attr (n) t = (node-type x) } }", "a\nb\n"),
    ("(ERROR) @e { node n attr (n) t = (source-text @e) }", "a = = (\n"),
    ("(MISSING) @e { node n attr (n) t = (source-text @e) }", "a = (\n"),
    ("(module) @m { node n attr (n) t = (source-text @m) }", ""),
    ("(module) @m { node n attr (n) sh2 = 1 }\nattribute sh2 = x => sh3 = x\nattribute sh3 = y => k = y, k2 = (plus y 1)", "pass\n"),
];

const CYCLIC_SHORTHANDS: &[&str] = &[
    "attribute sa = x => sb = x\nattribute sb = y => sa = y\n(module) @_m { node n attr (n) sa = 1 }",
    "attribute self = x => self = x\n(module) @_m { node n attr (n) self = 1 }",
];

fn wrong_globals(r: &mut Rng, names: &[(String, bool)]) -> Vec<(String, Value)> {
    let mut out = Vec::new();
    for (name, _) in names {
        match r.below(5) {
            0 => {}
            1 => out.push((name.clone(), Value::Integer(7))),
            2 => out.push((name.clone(), Value::Null)),
            3 => out.push((name.clone(), Value::List(vec![Value::Integer(1), Value::String("x".into())]))),
            _ => out.push((name.clone(), Value::String("g".into()))),
        }
    }
    if r.chance(1, 4) {
        out.push(("unexpected_extra".to_string(), Value::Boolean(true)));
    }
    out
}

fn exec_case(r: &mut Rng, pool: &[crate::gen::dsl::Pattern], i: usize, tier: &str) -> CaseSpec {
    let k = i % 10;
    if k == 9 && (i / 10) % (if tier == "thorough" { 400 } else { 40 }) == 0 {
        let text = CYCLIC_SHORTHANDS[(i / 10) % CYCLIC_SHORTHANDS.len()].to_string();
        return CaseSpec::Exec { text, source: "pass\n".to_string(), globals: vec![], stream: "cyclic-shorthand", compare_model: false };
    }
    match k {
        0 | 9 => {
            let (t, s) = HOSTILE_PROGRAMS[(i / 10) % HOSTILE_PROGRAMS.len()];
            let globals = if t.starts_with("global") { wrong_globals(r, &[("G".to_string(), false)]) } else { vec![] };
            CaseSpec::Exec { text: t.to_string(), source: s.to_string(), globals, stream: "hostile-program", compare_model: true }
        }
        1 => {
            let d = 1 + r.below(64);
            let text = match r.below(5) {
                0 => format!("(module) @_m {{ node n attr (n) v = {} }}", nest("[", "]", "1", d)),
                1 => format!("(module) @_m {{ node n attr (n) v = {} }}", nest("(not ", ")", "#true", d)),
                2 => format!("(module) @_m {{ {} }}", nest("if #true { ", " }", "node n", d.min(40))),
                3 => format!("(module) @_m {{ node n attr (n) v = {} }}", nest("[ ", " for q in [1, 2] ]", "q", d.min(12))),
                _ => format!("(module) @_m {{ {} }}", nest("for q in [1] { ", " }", "node n", d.min(40))),
            };
            let source = nest("(", ")", "1", 1 + r.below(64)) + "\n";
            CaseSpec::Exec { text, source, globals: vec![], stream: "nesting<=64", compare_model: d <= 30 }
        }
        _ => {
            let opts = Opts { fragment: false, fault_pct: if k % 3 == 0 { 0 } else { 100 }, max_stanzas: 4, allow_print: true, universal: r.chance(1, 3), probe: r.chance(1, 8), scoped_heavy: r.chance(1, 4), keywordish_names: false, static_fault: 0 };
            let p = gen_program(r, pool, &opts);
            let base = if r.chance(1, 2) { python::gen_small_source(r) } else { python::gen_source(r) };
            let nf = 1 + r.below(3);
            let (source, stream) = match k {
                2 | 3 => (python::inject_faults(r, &base, nf), "generated x tree-with-syntax-errors"),
                4 => (format!("{}\n\u{e9}\u{65e5} = '\u{1f600}'\n", base), "generated x non-ascii-source"),
                _ => (base, "generated"),
            };
            let globals = if k == 5 { wrong_globals(r, &p.globals) } else { supply_globals(r, &p) };
            CaseSpec::Exec { text: p.text, source, globals, stream: if k == 5 { "generated x wrong-globals" } else { stream }, compare_model: true }
        }
    }
}

pub fn make_case(seed: u64, tier: &str, i: usize, pool: &[crate::gen::dsl::Pattern]) -> CaseSpec {
    let mut r = Rng::new(seed).fork(i as u64);
    if i % 2 == 0 { load_case(&mut r, pool, i / 2) } else { exec_case(&mut r, pool, i / 2, tier) }
}

fn case_json(c: &CaseSpec) -> J {
    match c {
        CaseSpec::Load { text, stream } => json!({"operation": "load", "stream": stream, "tsg": text}),
        CaseSpec::Exec { text, source, globals, stream, .. } => json!({"operation": "execute", "stream": stream, "tsg": text, "source": source,
            "globals": globals.iter().map(|(k, v)| format!("{}={}", k, v)).collect::<Vec<_>>()}),
    }
}

pub fn case_count(tier: &str) -> usize {
    if tier == "thorough" { 30000 } else { 1600 }
}

struct Out {
    nontrivial: bool,
    counts: Vec<String>,
    fails: Vec<(String, String, J)>,
}

fn run_load(drv: &mut Driver, text: &str, stream: &str, out: &mut Out) {
    let base = json!({"operation": "load", "stream": stream, "tsg": text});
    let r = catch_unwind(AssertUnwindSafe(|| {
        let res = File::from_str(python_lang(), text);
        // rendering
        let rendered = match &res {
            Ok(_) => None,
            Err(e) => {
                let plain = format!("{}", e);
                let pretty = format!("{}", e.display_pretty(Path::new("test.tsg"), text));
                Some((plain, pretty))
            }
        };
        (res, rendered)
    }));
    match r {
        Err(_) => {
            let model = model_load(drv, text);
            let sig = if crate::props::c07::is_binding_panic(&model) { crate::props::c07::load_panic_signature("C05", &model) } else { format!("C05 loading or rendering the load error panics [stream={}]", stream) };
            out.fails.push(("impl-panic".into(), sig, json!({"case": base, "model": model.pretty()})))
        }
        Ok((res, rendered)) => {
            out.nontrivial = true;
            out.counts.push(format!("load:{}", match &res { Ok(_) => "accepted".to_string(), Err(ParseError::Check(_)) => "check-error".to_string(), Err(e) => format!("{:?}", e).chars().take_while(|c| c.is_alphanumeric()).collect() }));
            if let Some((plain, pretty)) = rendered {
                if plain.is_empty() || pretty.is_empty() {
                    out.fails.push(("direct".into(), "C05 a load error renders as empty text".into(), base.clone()));
                }
                out.counts.push("rendered-load-errors".into());
            }
            let want = load_result_sexp(&res);
            let model = model_load(drv, text);
            if model.tag() == Some("panic") || model.tag() == Some("out-of-fuel") {
                out.fails.push(("disagreement".into(), format!("C05 the loader model ends in {} (implementation: {})", model.tag().unwrap(), want.tag().unwrap_or("?")), json!({"case": base, "model": model.pretty()})));
            } else if want != model {
                out.fails.push(("disagreement".into(), format!("C05 loader and model differ (implementation: {}, model: {})", want.tag().unwrap_or("?"), model.tag().unwrap_or("?")),
                    json!({"case": base, "implementation": want.pretty().chars().take(4000).collect::<String>(), "model": model.pretty().chars().take(4000).collect::<String>()})));
            }
        }
    }
}

fn run_exec(runner: &mut Runner, rep_local: &mut Report, text: &str, source: &str, globals: &[(String, Value)], stream: &str, compare_model: bool, out: &mut Out) {
    let base = json!({"operation": "execute", "stream": stream, "tsg": text, "source": source, "globals": globals.iter().map(|(k, v)| format!("{}={}", k, v)).collect::<Vec<_>>()});
    let file = match catch_unwind(AssertUnwindSafe(|| File::from_str(python_lang(), text))) {
        Err(_) => {
            let model = model_load(&mut runner.drv, text);
            let sig = if crate::props::c07::is_binding_panic(&model) { crate::props::c07::load_panic_signature("C05", &model) } else { format!("C05 loading panics [stream={}]", stream) };
            out.fails.push(("impl-panic".into(), sig, json!({"case": base, "model": model.pretty()})));
            return;
        }
        Ok(Err(e)) => {
            out.counts.push(format!("exec-case-not-loadable:{}", format!("{:?}", e).chars().take_while(|c| c.is_alphanumeric()).collect::<String>()));
            return;
        }
        Ok(Ok(f)) => f,
    };
    let tree = parse_python(source);
    out.counts.push(format!("tree-has-error:{}", tree.root_node().has_error()));
    if tree.root_node().has_error() {
        // the CLI renders these when a source does not parse: plain and pretty must return text as well
        let r = catch_unwind(AssertUnwindSafe(|| {
            let errs = tree_sitter_graph::parse_error::ParseError::all(&tree);
            let mut n = 0;
            for e in errs.iter().take(8) {
                let a = format!("{}", e.display(Path::new("test.py"), source));
                let b = format!("{}", e.display_pretty(Path::new("test.py"), source));
                if a.is_empty() || b.is_empty() {
                    n += 1000;
                }
                n += 1;
            }
            let _ = tree_sitter_graph::parse_error::ParseError::first(&tree);
            n
        }));
        match r {
            Err(_) => out.fails.push(("impl-panic".into(), format!("C05 discovering or rendering the syntax errors of a source panics [stream={}]", stream), base.clone())),
            Ok(n) => {
                if n >= 1000 {
                    out.fails.push(("direct".into(), "C05 a syntax error of a source renders as empty text".into(), base.clone()));
                }
                out.counts.push("rendered-source-syntax-errors".into());
            }
        }
    }
    // programs that mention `dbg_…` attribute names are also run with debug attributes of exactly those names: a clash between
    // an `attr` statement and an attribute that no `attr` statement set is an error like any other
    let with_debug = text.contains("dbg_");
    for (lazy, dbg) in [(false, false), (true, false), (false, true), (true, true)] {
        if dbg && !with_debug {
            continue;
        }
        let mode = match (lazy, dbg) { (false, false) => "strict", (true, false) => "lazy", (false, true) => "strict+debug", (true, true) => "lazy+debug" };
        let r = catch_unwind(AssertUnwindSafe(|| {
            let functions = Functions::stdlib();
            let mut vars = Variables::new();
            for (k, v) in globals {
                let _ = vars.add(Identifier::from(k.as_str()), v.clone());
            }
            let config = ExecutionConfig::new(&functions, &vars).lazy(lazy);
            let config = if dbg { config.debug_attributes(Identifier::from("dbg_loc"), Identifier::from("dbg_var"), Identifier::from("dbg_match")) } else { config };
            let res = file.execute(&tree, source, &config, &NoCancellation);
            match res {
                Ok(g) => {
                    // the graph renders too
                    let _ = format!("{}", g.pretty_print());
                    ("ok".to_string(), None)
                }
                Err(e) => {
                    let plain = format!("{}", e);
                    let pretty = format!("{}", e.display_pretty(Path::new("test.py"), source, Path::new("test.tsg"), text));
                    (crate::errors::variant(innermost(&e)).to_string(), Some((plain, pretty)))
                }
            }
        }));
        match r {
            Err(_) => out.fails.push(("impl-panic".into(), format!("C05 {} execution or rendering its error panics [stream={}]", mode, stream), json!({"case": base, "mode": mode}))),
            Ok((class, rendered)) => {
                out.nontrivial = true;
                out.counts.push(format!("exec:{}:{}", mode, class));
                if let Some((plain, pretty)) = rendered {
                    out.counts.push("rendered-execution-errors".into());
                    if plain.is_empty() || pretty.is_empty() {
                        out.fails.push(("direct".into(), "C05 an execution error renders as empty text".into(), json!({"case": base, "mode": mode})));
                    }
                }
            }
        }
    }
    if compare_model {
        let src = Source { src: source.to_string(), tree };
        let program = crate::gen::dsl::Program { text: text.to_string(), header: String::new(), stanzas: vec![], globals: vec![], stanza_count: 0, has_fault: false, features: vec![], static_fault: None };
        let loaded = Loaded { program, file };
        let (info, mi) = export(&loaded.file, &src);
        runner.set_tree(&info, &src.src);
        runner.table = OracleTable::new();
        runner.table.arm_sets = crate::astx::scan_arm_sets(&loaded.file);
        let case = Case { tsg: text, loaded: &loaded, source: &src, info: &info, mi: &mi };
        for lazy in [false, true] {
            let cfg = RunCfg { lazy, globals: globals.to_vec(), outer_globals: vec![], debug: None, cancel_at: None };
            let before = rep_local.failures.len();
            let res = runner.check_mode(rep_local, &case, &cfg, true, false);
            if let Some(m) = &res.model {
                if let Some((mo, _, _)) = crate::props::c01::result_parts(m) {
                    let mc = crate::props::c01::outcome_class(mo);
                    if mc == "panic" || mc == "out-of-fuel" {
                        out.fails.push(("disagreement".into(), format!("C05 the {} interpreter model ends in {} [stream={}]", if lazy { "lazy" } else { "strict" }, mc, stream), json!({"case": base, "model_outcome": mo.pretty()})));
                    }
                }
            }
            for f in rep_local.failures.drain(before..) {
                out.fails.push((f.kind, format!("{} [stream={}]", f.signature, stream), f.replay));
            }
        }
    }
}

fn innermost(e: &tree_sitter_graph::ExecutionError) -> &tree_sitter_graph::ExecutionError {
    match e {
        tree_sitter_graph::ExecutionError::InContext(_, c) => innermost(c),
        other => other,
    }
}

/// `tsg-verif c05-child <seed> <tier> <from>`: runs cases from..n, one `B i` line before and one `E i json` line after each
pub fn child(seed: u64, tier: &str, from: usize) {
    let n = case_count(tier);
    let pool = pool();
    let mut drv = Driver::spawn();
    let mut runner = Runner::new("C05");
    let mut rep_local = Report::new("C05", tier, seed);
    for i in from..n {
        println!("B {}", i);
        let spec = make_case(seed, tier, i, &pool);
        let mut out = Out { nontrivial: false, counts: vec![], fails: vec![] };
        match &spec {
            CaseSpec::Load { text, stream } => {
                out.counts.push(format!("stream:load:{}", stream));
                run_load(&mut drv, text, stream, &mut out)
            }
            CaseSpec::Exec { text, source, globals, stream, compare_model } => {
                out.counts.push(format!("stream:execute:{}", stream));
                run_exec(&mut runner, &mut rep_local, text, source, globals, stream, *compare_model, &mut out)
            }
        }
        for (k, n) in crate::execx::take_contract_counts() {
            for _ in 0..n {
                out.counts.push(k.clone());
            }
        }
        let j = json!({"nontrivial": out.nontrivial, "counts": out.counts,
            "fails": out.fails.iter().map(|(k, m, r)| json!({"kind": k, "message": m, "replay": r})).collect::<Vec<_>>()});
        println!("E {} {}", i, j);
    }
    println!("DONE");
}

pub fn run(rep: &mut Report, tier: &str, seed: u64) {
    rep.rule = "even cases load a text (hostile texts, bracket nesting 1..64, generated programs under 1-3 character/token damages, one static-rule violation, two programs spliced at \
                random character positions, token soup); odd cases execute an accepted file in both modes (generated valid / ill-typed programs x generated sources, sources with injected \
                syntax errors, non-ASCII sources, missing and wrong-typed globals; hand-written hostile programs; nesting 1..64; cyclic shorthands). Every error is rendered plain and pretty. \
                Each case runs in a child process under a watchdog. non-trivial = the operation returned (value or error) and was compared; distinct by (operation, text, source)".to_string();
    rep.correspondence = "load: verdict (AST / error variant + payload + location) vs parser + checker model; exec: outcome class and graph vs interpreter models; a model outcome `panic` or `out-of-fuel` is reported".to_string();
    let n = case_count(tier);
    let limit = Duration::from_secs(if tier == "thorough" { 180 } else { 120 });
    let pool = pool();
    let exe = std::env::current_exe().expect("current exe");
    let mut next = 0usize;
    let mut restarts = 0usize;
    while next < n {
        let mut child = Command::new(&exe)
            .args(["c05-child", &seed.to_string(), tier, &next.to_string()])
            .stdout(Stdio::piped())
            .stderr(Stdio::null())
            .spawn()
            .expect("spawn c05 child");
        let stdout = child.stdout.take().unwrap();
        let (tx, rx) = mpsc::channel::<String>();
        let reader = std::thread::spawn(move || {
            for line in BufReader::new(stdout).lines() {
                match line {
                    Ok(l) => {
                        if tx.send(l).is_err() {
                            break;
                        }
                    }
                    Err(_) => break,
                }
            }
        });
        let mut current: Option<usize> = None;
        let mut done = false;
        let mut problem: Option<&'static str> = None;
        loop {
            match rx.recv_timeout(limit) {
                Ok(line) => {
                    if line == "DONE" {
                        done = true;
                        break;
                    } else if let Some(rest) = line.strip_prefix("B ") {
                        current = rest.trim().parse().ok();
                    } else if let Some(rest) = line.strip_prefix("E ") {
                        let (idx, js) = rest.split_once(' ').unwrap_or((rest, "{}"));
                        let i: usize = idx.parse().unwrap_or(0);
                        let j: J = serde_json::from_str(js).unwrap_or(json!({}));
                        let spec = make_case(seed, tier, i, &pool);
                        let key = case_json(&spec).to_string();
                        rep.case(&key, j["nontrivial"].as_bool().unwrap_or(false));
                        for c in j["counts"].as_array().cloned().unwrap_or_default() {
                            rep.count(c.as_str().unwrap_or("?"));
                        }
                        for f in j["fails"].as_array().cloned().unwrap_or_default() {
                            rep.fail(f["kind"].as_str().unwrap_or("direct"), f["message"].as_str().unwrap_or("C05 failure"), true, f["replay"].clone());
                        }
                        if rep.samples.len() < 3 && i % 37 == 5 {
                            rep.sample(case_json(&spec));
                        }
                        current = None;
                        next = i + 1;
                    }
                }
                Err(mpsc::RecvTimeoutError::Timeout) => {
                    problem = Some("hang");
                    break;
                }
                Err(mpsc::RecvTimeoutError::Disconnected) => {
                    problem = Some("abort");
                    break;
                }
            }
        }
        if done {
            let _ = child.wait();
            let _ = reader.join();
            break;
        }
        let _ = child.kill();
        let status = child.wait().ok();
        let _ = reader.join();
        let i = current.unwrap_or(next);
        let spec = make_case(seed, tier, i, &pool);
        let (op, stream) = match &spec {
            CaseSpec::Load { stream, .. } => ("loading", *stream),
            CaseSpec::Exec { stream, .. } => ("executing", *stream),
        };
        rep.case(&case_json(&spec).to_string(), false);
        rep.count(&format!("child-{}", problem.unwrap_or("abort")));
        let what = match problem {
            Some("hang") => format!("C05 no result within {} s while {} [stream={}]", limit.as_secs(), op, stream),
            _ => format!("C05 the process is aborted while {} (stack overflow or abort, {}) [stream={}]", op, status.map(|s| format!("{}", s)).unwrap_or_default(), stream),
        };
        // exit-status text differs between runs only by signal number: keep the signature stable
        let what = what.replace("signal: 11 (SIGSEGV) (core dumped)", "SIGSEGV").replace("signal: 11 (SIGSEGV)", "SIGSEGV").replace("signal: 6 (SIGABRT) (core dumped)", "SIGABRT").replace("signal: 6 (SIGABRT)", "SIGABRT");
        rep.fail(if problem == Some("hang") { "impl-hang" } else { "impl-abort" }, &what, true, json!({"case": case_json(&spec), "seed": seed, "case_index": i,
            "how_to_replay": format!("tsg-verif c05-child {} {} {}   (first case run is the failing one)", seed, tier, i)}));
        next = i + 1;
        restarts += 1;
        if restarts > 50 {
            rep.notes.push("more than 50 child restarts: stopping early".to_string());
            break;
        }
    }
    rep.count_n("child-restarts", restarts);
    let _ = sexp::atom("");
}
