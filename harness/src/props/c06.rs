//! C06 — the static checker rejects exactly the programs that break a documented rule.
//! Direct oracle: generated valid programs and valid near-misses of every rule are accepted; a program with exactly
//! one injected violation (catalogue x position x nesting x embedding) is rejected with the rule's error variant at
//! the offending construct's location. Correspondence: `File::from_str` vs parser model + checker model — the whole
//! resolved AST (capture quantifiers and indices filled in) on acceptance, variant + payload + location on rejection;
//! a line-mutation stream (delete / duplicate / swap lines, rename identifiers) explores rejections beyond the catalogue.
use crate::driver::Driver;
use crate::gen::dsl::{gen_program, Opts};
use crate::props::c07::{parse_error_sexp, POracleTable};
use crate::props::common::pool;
use crate::report::Report;
use crate::rng::Rng;
use crate::sexp::{self, Sexp};
use crate::tree::python;
use serde_json::json;
use tree_sitter_graph::ast::File;
use tree_sitter_graph::{CheckError, Location, ParseError};

pub fn real_load(text: &str) -> Result<Result<File, ParseError>, ()> {
    std::panic::catch_unwind(std::panic::AssertUnwindSafe(|| File::from_str(python(), text))).map_err(|_| ())
}

pub fn check_error_parts(e: &CheckError) -> (String, Vec<String>, Location) {
    match e {
        CheckError::CannotHideGlobalVariable(n, l) => ("CannotHideGlobalVariable".into(), vec![n.clone()], *l),
        CheckError::CannotSetGlobalVariable(n, l) => ("CannotSetGlobalVariable".into(), vec![n.clone()], *l),
        CheckError::DuplicateGlobalVariable(n, l) => ("DuplicateGlobalVariable".into(), vec![n.clone()], *l),
        CheckError::ExpectedListValue(l) => ("ExpectedListValue".into(), vec![], *l),
        CheckError::ExpectedLocalValue(l) => ("ExpectedLocalValue".into(), vec![], *l),
        CheckError::ExpectedOptionalValue(l) => ("ExpectedOptionalValue".into(), vec![], *l),
        CheckError::NullableRegex(r, l) => ("NullableRegex".into(), vec![r.clone()], *l),
        CheckError::UndefinedSyntaxCapture(n, l) => ("UndefinedSyntaxCapture".into(), vec![n.clone()], *l),
        CheckError::UndefinedVariable(n, l) => ("UndefinedVariable".into(), vec![n.clone()], *l),
        CheckError::UnusedCaptures(n, l) => ("UnusedCaptures".into(), vec![n.clone()], *l),
        CheckError::Variable(v, n, l) => {
            let dbg = format!("{:?}", v);
            let vn: String = dbg.chars().take_while(|c| c.is_alphanumeric()).collect();
            (format!("Variable:{}", vn), vec![n.clone()], *l)
        }
    }
}

pub fn check_error_sexp(e: &CheckError) -> Sexp {
    let (variant, payload, l) = check_error_parts(e);
    let mut items = Vec::new();
    if let Some(v) = variant.strip_prefix("Variable:") {
        items.push(sexp::atom("Variable"));
        items.push(sexp::atom(v));
    } else {
        items.push(sexp::atom(&variant));
    }
    for p in &payload {
        items.push(sexp::st(p));
    }
    items.push(crate::astx::loc(&l));
    sexp::list(items)
}

pub fn load_result_sexp(r: &Result<File, ParseError>) -> Sexp {
    match r {
        Ok(f) => sexp::tagged("loaded", vec![crate::astx::file(f)]),
        Err(ParseError::Check(c)) => sexp::tagged("check-error", vec![check_error_sexp(c)]),
        Err(e) => sexp::tagged("parse-error", vec![parse_error_sexp(e)]),
    }
}

pub fn model_load(drv: &mut Driver, text: &str) -> Sexp {
    let mut table = POracleTable::new(text);
    for _ in 0..2000 {
        let resp = drv.ask(&sexp::tagged("load", vec![sexp::st(text), table.to_sexp()]));
        if !table.answer(&resp) {
            return resp;
        }
    }
    sexp::atom("oracle-did-not-converge")
}

/// line-level damage that keeps the text parseable most of the time
fn mutate_lines(r: &mut Rng, text: &str) -> String {
    let mut lines: Vec<String> = text.lines().map(|l| l.to_string()).collect();
    let stmt_lines: Vec<usize> = lines.iter().enumerate().filter(|(_, l)| l.starts_with("  ") && !l.trim_end().ends_with('{') && l.trim() != "}" && !l.trim().starts_with('}') && !l.trim().starts_with('"')).map(|(i, _)| i).collect();
    if stmt_lines.is_empty() {
        return text.to_string();
    }
    let i = *r.pick(&stmt_lines);
    match r.below(5) {
        0 => { lines.remove(i); }
        1 => { let l = lines[i].clone(); lines.insert(i, l); }
        2 => { let j = *r.pick(&stmt_lines); lines.swap(i, j); }
        3 => {
            // rename one identifier occurrence on the line to another identifier of the text
            let idents: Vec<String> = text.split(|c: char| !(c.is_alphanumeric() || c == '_')).filter(|w| w.len() > 1 && w.chars().next().unwrap().is_alphabetic()).map(|w| w.to_string()).collect();
            let words: Vec<String> = lines[i].split(|c: char| !(c.is_alphanumeric() || c == '_')).filter(|w| w.len() > 1 && w.chars().next().unwrap().is_alphabetic()).map(|w| w.to_string()).collect();
            if !idents.is_empty() && !words.is_empty() {
                let from = r.pick(&words).clone();
                let to = r.pick(&idents).clone();
                lines[i] = lines[i].replacen(&from, &to, 1);
            }
        }
        _ => {
            // move a statement line to another block position
            let l = lines.remove(i);
            let j = r.below(lines.len());
            if lines[j].starts_with("  ") || lines[j].ends_with('{') {
                lines.insert(j + 1, l);
            } else {
                lines.insert(i, l);
            }
        }
    }
    let mut out = lines.join("\n");
    out.push('\n');
    out
}

/// A direct expectation comes from the generator's own bookkeeping of scopes and shapes. When the implementation and
/// the checker model (whose rules are the theorems of Props/C06) return the very same verdict, an unmet expectation
/// is a flaw of that bookkeeping, not of the code: it is counted, and only reported when the model disagrees too.
fn direct(rep: &mut Report, agree: bool, sig: &str, replay: serde_json::Value) {
    if agree {
        rep.count(&format!("generator-expectation-not-met(model-agrees-with-implementation):{}", sig.chars().take(60).collect::<String>()));
    } else {
        rep.fail("direct", sig, true, replay);
    }
}

pub fn run(rep: &mut Report, tier: &str, seed: u64) {
    rep.rule = "generated programs (all statement and expression forms, nested blocks to depth 3, globals, inherit, shorthands): valid as generated; with exactly one \
                violation from the catalogue (16 rules x position x enclosing if/for/scan block x embedding in call/list/set/comprehension/scoped-variable/binding chains); \
                with one valid near-miss of a rule; and line-mutated (delete/duplicate/swap/move lines, rename identifiers). non-trivial = the case exercised the checker \
                (the text parsed); distinct by text".to_string();
    rep.correspondence = "load: File::from_str vs Parser.parse + Checker.check — resolved AST incl. capture quantifiers and indices, or the error variant with payload and location".to_string();
    let n = if tier == "thorough" { 20000 } else { 1000 };
    let mut drv = Driver::spawn();
    let root = Rng::new(seed);
    let pool = pool();
    // inputs of the known findings of this property (known_findings.json) are always run
    for text in crate::props::c07::KNOWN_FINDING_INPUTS {
        rep.case(text, false);
        rep.count("known-finding-inputs");
        if real_load(text).is_err() {
            let model = model_load(&mut drv, text);
            rep.fail("impl-panic", &crate::props::c07::load_panic_signature("C06", &model), true, json!({"text": text, "model": model.pretty()}));
        }
    }
    for ci in 0..n {
        let mut r = root.fork(ci as u64);
        let mode: u8 = match ci % 6 { 0 => 0, 1 | 2 | 3 => 1, 4 => 2, _ => 0 };
        let mutated = ci % 6 == 5;
        let opts = Opts { fragment: false, fault_pct: 0, max_stanzas: 3, allow_print: true, universal: r.chance(1, 4), probe: r.chance(1, 6), scoped_heavy: r.chance(1, 5), keywordish_names: false, static_fault: mode };
        if mode == 1 {
            // walk the catalogue x sub-form product instead of sampling it
            let k = ci / 6 * 3 + (ci % 6 - 1);
            crate::gen::dsl::FORCE_RULE.with(|c| c.set(Some((k % 18, (k / 18) % 6))));
        }
        let program = gen_program(&mut r, &pool, &opts);
        crate::gen::dsl::FORCE_RULE.with(|c| c.set(None));
        let text = if mutated { mutate_lines(&mut r, &program.text) } else { program.text.clone() };
        // globals that have BOTH a quantifier and a default keep their declared shape: optional for `some`/`none`, list for
        // `for` and comprehensions
        let text = if mode == 0 && ci % 12 == 0 {
            rep.count("quantified-global-with-default");
            format!("global ZQ? = \"d\"\nglobal ZL* = \"e\"\nglobal ZP+ = \"f\"\n{}(module) @_zq {{\n  if some ZQ {{\n  }} elif none ZQ {{\n  }}\n  for zli in ZL {{\n  }}\n  let zc = [ zli2 for zli2 in ZP ]\n  let zo = ZQ\n  if some zo {{\n  }}\n}}\n", text)
        } else {
            text
        };
        // a third of the texts get a `;` comment with multi-byte characters (more bytes than characters) on a line of its own, in
        // front of a statement inside a block: comments are skipped whole, whatever they contain
        let text = if ci % 3 == 1 {
            let lines: Vec<&str> = text.split_inclusive('\n').collect();
            let candidates: Vec<usize> = lines.iter().enumerate().filter(|(_, l)| l.starts_with("  ")).map(|(i, _)| i).collect();
            if candidates.is_empty() {
                text
            } else {
                rep.count("multi-byte-comment-inserted");
                let at = *r.pick(&candidates);
                let comment = *r.pick(&["  ;; \u{65e5}\u{672c}\u{8a9e}\u{306e}\u{30b3}\u{30e1}\u{30f3}\u{30c8} caf\u{e9}\n", ";\u{1f600}\u{1f600}\u{1f600}\u{1f600}\u{1f600}\u{1f600}\n", "      ; \u{e9}\u{e9}\u{e9}\u{e9}\u{e9}\u{e9}\u{e9}\u{e9}\u{e9}\u{e9}\u{e9}\u{e9} ;\n"]);
                let mut out = String::new();
                for (i, l) in lines.iter().enumerate() {
                    if i == at {
                        out.push_str(comment);
                    }
                    out.push_str(l);
                }
                out
            }
        } else {
            text
        };
        let real = match real_load(&text) {
            Ok(x) => x,
            Err(()) => {
                rep.case(&text, false);
                let model = model_load(&mut drv, &text);
                rep.fail("impl-panic", &crate::props::c07::load_panic_signature("C06", &model), true, json!({"text": text, "model": model.pretty()}));
                continue;
            }
        };
        let exercised = !matches!(real, Err(ref e) if !matches!(e, ParseError::Check(_)));
        rep.case(&text, exercised);
        let model = model_load(&mut drv, &text);
        let want = load_result_sexp(&real);
        let agree = want == model;
        if want != model {
            rep.fail("disagreement", &format!("C06 loader and model differ (implementation: {}, model: {})", want.tag().unwrap_or("?"), model.tag().unwrap_or("?")), true,
                json!({"text": text, "implementation": want.pretty(), "model": model.pretty()}));
        }
        if rep.samples.len() < 3 && program.static_fault.is_some() && !mutated {
            rep.sample(json!({"text": text, "fault": format!("{:?}", program.static_fault)}));
        }
        if mutated {
            rep.count(&format!("mutated:{}", match &real { Ok(_) => "accepted".to_string(), Err(ParseError::Check(c)) => check_error_parts(c).0, Err(_) => "parse-error".to_string() }));
            continue;
        }
        match (&program.static_fault, mode) {
            (Some(sf), 1) => {
                rep.count(&format!("violation:{}", sf.rule));
                rep.count(&format!("violation-context:{}", sf.context.split('>').last().unwrap_or("?")));
                rep.count(&format!("violation-depth:{}", sf.context.split('>').count() - 1));
                rep.count(&format!("violation-form:{}", sf.form.split(' ').next().unwrap_or("?").trim_start_matches('@').chars().take(28).collect::<String>()).replace(char::is_numeric, ""));
                let fault_row = text.lines().position(|l| l.contains(";FAULT"));
                match &real {
                    Ok(_) => direct(rep, agree, &format!("C06 a program that breaks a static rule is accepted ({})", sf.rule), json!({"text": text, "fault": format!("{:?}", sf)})),
                    Err(ParseError::Check(c)) => {
                        let (variant, payload, l) = check_error_parts(c);
                        if variant != sf.variant {
                            direct(rep, agree, &format!("C06 the reported error does not name the broken rule (expected {}, got {})", sf.variant, variant),
                                json!({"text": text, "fault": format!("{:?}", sf), "error": format!("{:?}", c)}));
                        } else {
                            if sf.rule == "unused-capture" && payload.get(0) != Some(&sf.form) {
                                direct(rep, agree, "C06 the unused-capture report does not list exactly the unused captures", json!({"text": text, "fault": format!("{:?}", sf), "error": format!("{:?}", c)}));
                            }
                            // location: the marked line; the column of the offending token where the catalogue names one
                            let line = fault_row.and_then(|r| text.lines().nth(r)).unwrap_or("");
                            let row_ok = sf.rule == "nullable-regex" || Some(l.row) == fault_row;
                            let col_ok = match (&sf.loc_token, sf.rule.as_str()) {
                                (_, "nullable-regex") => true,
                                (Some(tok), _) => {
                                    // all occurrences of the token on the line as whole words
                                    let cols: Vec<usize> = line.match_indices(tok.as_str()).map(|(b, _)| line[..b].chars().count()).collect();
                                    cols.contains(&l.column)
                                }
                                (None, _) => true,
                            };
                            if !row_ok || !col_ok {
                                direct(rep, agree, &format!("C06 the reported location is not the offending construct ({})", sf.rule),
                                    json!({"text": text, "fault": format!("{:?}", sf), "error": format!("{:?}", c), "fault_row": fault_row}));
                            }
                        }
                    }
                    Err(e) => direct(rep, agree, "C06 generator: a program with an injected static violation does not parse", json!({"text": text, "fault": format!("{:?}", sf), "error": format!("{:?}", e)})),
                }
            }
            (Some(sf), _) => {
                rep.count(&format!("near-miss:{}", sf.rule));
                rep.count(&format!("near-miss-context:{}", sf.context.split('>').last().unwrap_or("?")));
                if let Err(e) = &real {
                    direct(rep, agree, &format!("C06 a valid near-miss of a rule is rejected ({})", sf.rule), json!({"text": text, "fault": format!("{:?}", sf), "error": format!("{:?}", e)}));
                }
            }
            (None, _) => {
                rep.count("valid");
                if let Err(e) = &real {
                    direct(rep, agree, "C06 a program that breaks no rule is rejected", json!({"text": text, "error": format!("{:?}", e)}));
                }
            }
        }
    }
}
