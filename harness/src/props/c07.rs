//! C07 — parsing recovers exactly the written program and its source locations.
//! Correspondence: the real parser (`File::parse`, no checker) vs the parser model on generated programs
//! re-laid-out with random whitespace, line breaks, comments (multi-byte text) and keyword-prefixed identifiers:
//! the complete AST with every location must be equal. Direct oracle: every location recorded in the
//! implementation's AST points at the first character of its construct in the text.
use crate::driver::Driver;
use crate::gen::dsl::{gen_program, Opts};
use crate::props::common::pool;
use crate::report::Report;
use crate::rng::Rng;
use crate::sexp::{self, Sexp};
use crate::tree::python;
use regex::Regex;
use serde_json::json;
use std::collections::BTreeMap;
use tree_sitter::Query;
use tree_sitter_graph::ast::*;
use tree_sitter_graph::Location;
use tree_sitter_graph::ParseError;

const GAPS: &[&str] = &[" ", " ", "  ", "\t", "\n", " \n  ", "\r\n", " ; comment\n", "\n;; caf\u{e9} \u{65e5}\u{672c} ;\n\t", " ;\n", "\u{a0}", " \n\n "];

/// re-lay-out generated text: every space / newline outside strings and query patterns becomes a random gap
pub fn relayout(r: &mut Rng, text: &str) -> String {
    let mut out = String::new();
    for line in text.split_inclusive('\n') {
        let starts_construct = !line.starts_with(' ') && !line.starts_with('}');
        let is_pattern = starts_construct && !(line.starts_with("global") || line.starts_with("inherit") || line.starts_with("attribute"));
        let (verbatim, rest) = if is_pattern {
            match line.rfind(" {") {
                Some(i) => (&line[..i], &line[i..]),
                None => (line, ""),
            }
        } else {
            ("", line)
        };
        out.push_str(verbatim);
        let mut in_string = false;
        let mut escape = false;
        let mut prev_gap = false;
        // the gap between a query pattern and `{` belongs to the query text (skip_query): tree-sitter accepts
        // ASCII whitespace and `;` comments there, nothing else
        let mut query_gap = is_pattern;
        for ch in rest.chars() {
            if in_string {
                out.push(ch);
                if escape {
                    escape = false;
                } else if ch == '\\' {
                    escape = true;
                } else if ch == '"' {
                    in_string = false;
                }
                prev_gap = false;
            } else if ch == ' ' || ch == '\n' {
                if !prev_gap {
                    let mut g = *r.pick(GAPS);
                    while query_gap && !g.is_ascii() {
                        g = *r.pick(GAPS);
                    }
                    out.push_str(g);
                    query_gap = false;
                }
                prev_gap = true;
            } else {
                if ch == '"' {
                    in_string = true;
                }
                // optional gaps where the house layout has none: around punctuation inside stanza bodies
                // (`@x . y`, `( f a )`, `[ 1 , 2 ]`, `x = 1`); never inside `->` / `=>` or header lines
                let body_line = line.starts_with(' ');
                let punct = body_line && matches!(ch, '.' | ',' | '(' | ')' | '[' | ']');
                if punct && !prev_gap && r.chance(1, 6) {
                    out.push_str(*r.pick(GAPS));
                }
                out.push(ch);
                prev_gap = false;
                if punct && r.chance(1, 6) {
                    out.push_str(*r.pick(GAPS));
                    prev_gap = true;
                }
            }
        }
    }
    out
}

pub fn real_parse(text: &str) -> Result<Result<File, ParseError>, ()> {
    std::panic::catch_unwind(std::panic::AssertUnwindSafe(|| {
        let mut file = File::new(python());
        #[allow(deprecated)]
        let r = file.parse(text);
        r.map(|_| file)
    }))
    .map_err(|_| ())
}

/// parse error in the model's encoding (variant + payload + location)
pub fn parse_error_sexp(e: &ParseError) -> Sexp {
    use crate::astx::loc;
    let t = |name: &str, items: Vec<Sexp>| { let mut v = vec![sexp::atom(name)]; v.extend(items); sexp::list(v) };
    match e {
        ParseError::ExpectedQuantifier(l) => t("ExpectedQuantifier", vec![loc(l)]),
        ParseError::ExpectedToken(tok, l) => t("ExpectedToken", vec![sexp::st(tok), loc(l)]),
        ParseError::ExpectedVariable(l) => t("ExpectedVariable", vec![loc(l)]),
        ParseError::ExpectedUnscopedVariable(l) => t("ExpectedUnscopedVariable", vec![loc(l)]),
        ParseError::InvalidRegex(re, l) => t("InvalidRegex", vec![sexp::st(re), loc(l)]),
        ParseError::InvalidIntegerConstant(s, l) => t("InvalidIntegerConstant", vec![sexp::st(s), loc(l)]),
        ParseError::InvalidRegexCapture(l) => t("InvalidRegexCapture", vec![loc(l)]),
        ParseError::QueryError(q) => t("QueryError", vec![sexp::nat(q.row), sexp::nat(q.column), sexp::nat(q.offset)]),
        ParseError::UnexpectedCharacter(c, w, l) => t("UnexpectedCharacter", vec![sexp::st(&c.to_string()), sexp::st(w), loc(l)]),
        ParseError::UnexpectedEOF(l) => t("UnexpectedEOF", vec![loc(l)]),
        ParseError::UnexpectedKeyword(k, l) => t("UnexpectedKeyword", vec![sexp::st(k), loc(l)]),
        ParseError::UnexpectedLiteral(k, l) => t("UnexpectedLiteral", vec![sexp::st(k), loc(l)]),
        ParseError::UnexpectedQueryPatterns(l) => t("UnexpectedQueryPatterns", vec![loc(l)]),
        ParseError::Check(c) => t("Check", vec![sexp::st(&format!("{:?}", c))]),
    }
}

/// token- and character-level damage of a text (the malformed stream)
pub fn damage(r: &mut Rng, text: &str) -> String {
    let chars: Vec<char> = text.chars().collect();
    if chars.is_empty() {
        return "(".to_string();
    }
    let i = r.below(chars.len());
    let mut out: Vec<char> = chars.clone();
    const STRAY: &[&str] = &["{", "}", "(", ")", "[", "]", "\"", ",", "=", "@", "$", "#", ".", ";", "99999999999999999999", "$99999999999999999999", "#maybe", "\\", "\u{a0}", "\u{e9}", "let", "in", "?", "*", "+", "->", "-"];
    match r.below(7) {
        0 => { out.remove(i); }
        1 => { out.truncate(i); }
        2 => { let s: Vec<char> = r.pick(STRAY).chars().collect(); out.splice(i..i, s); }
        3 => { let s: Vec<char> = r.pick(STRAY).chars().collect(); out.splice(i..(i + 1).min(chars.len()), s); }
        4 => { let j = r.below(chars.len()); out.swap(i, j); }
        5 => { let j = (i + 1 + r.below(12)).min(chars.len()); out.drain(i..j); }
        _ => { let j = r.below(chars.len()); let (a, b) = (i.min(j), i.max(j)); let seg: Vec<char> = chars[a..b.min(a + 20)].to_vec(); out.splice(i..i, seg); }
    }
    out.into_iter().collect()
}

pub struct POracleTable {
    entries: BTreeMap<String, Sexp>,
}

impl POracleTable {
    pub fn new(text: &str) -> POracleTable {
        let mut entries = BTreeMap::new();
        for ch in text.chars() {
            if (ch as u32) >= 128 {
                let e = sexp::tagged("c", vec![sexp::st(&ch.to_string()), sexp::boolean(ch.is_whitespace()), sexp::boolean(ch.is_alphabetic()), sexp::boolean(ch.is_alphanumeric())]);
                entries.insert(e.to_text(), e);
            }
        }
        POracleTable { entries }
    }
    pub fn to_sexp(&self) -> Sexp {
        sexp::tagged("poracle", self.entries.values().cloned().collect())
    }
    pub fn answer(&mut self, resp: &Sexp) -> bool {
        let l = match resp.as_list() {
            Some(l) if resp.tag() == Some("need") && l.len() == 3 => l,
            _ => return false,
        };
        let text = l[2].as_str().unwrap();
        let e = match l[1].as_atom() {
            Some("q") => {
                // (tree-sitter 0.24.7's Rust binding itself panics while building the error for some texts: treat that
                // as the rejection it was about to report; `real_parse` sees the same panic through the library)
                let q = std::panic::catch_unwind(std::panic::AssertUnwindSafe(|| Query::new(&python(), text)));
                let q = match q {
                    Ok(q) => q,
                    Err(_) => {
                        let e = sexp::tagged("q", vec![l[2].clone(), sexp::tagged("binding-panic", vec![])]);
                        self.entries.insert(e.to_text(), e);
                        return true;
                    }
                };
                let ans = match q {
                    Ok(q) => {
                        let quants: Vec<_> = if q.pattern_count() > 0 { q.capture_quantifiers(0).to_vec() } else { vec![] };
                        let caps: Vec<Sexp> = q.capture_names().iter().enumerate().map(|(i, n)| sexp::list(vec![sexp::st(n), crate::astx::quant(quants.get(i).copied().unwrap_or(tree_sitter::CaptureQuantifier::Zero))])).collect();
                        sexp::tagged("valid", vec![sexp::nat(q.pattern_count()), sexp::list(caps)])
                    }
                    Err(e) => sexp::tagged("invalid", vec![sexp::nat(e.row), sexp::nat(e.column), sexp::nat(e.offset)]),
                };
                sexp::tagged("q", vec![l[2].clone(), ans])
            }
            Some("r") => sexp::tagged("r", vec![l[2].clone(), sexp::boolean(Regex::new(text).is_ok())]),
            Some("n") => sexp::tagged("n", vec![l[2].clone(), sexp::boolean(Regex::new(text).map(|re| re.captures("").is_some()).unwrap_or(false))]),
            _ => return false,
        };
        self.entries.insert(e.to_text(), e);
        true
    }
}

/// texts on which loading is known to panic inside the dependency (see known_findings.json)
pub const KNOWN_FINDING_INPUTS: &[&str] = &["nosuchfield: (identifier) @x { }"];

/// the model's outcome when tree-sitter's `Query::new` does not return (binding panic recorded in the oracle table)
pub fn is_binding_panic(model: &Sexp) -> bool {
    model.tag() == Some("panic") && model.as_list().and_then(|l| l.get(1)).and_then(|x| x.as_str()) == Some("tree_sitter::Query::new")
}

/// signature of a loading panic: the known upstream defect is named as such, everything else is generic
pub fn load_panic_signature(prop: &str, model: &Sexp) -> String {
    if is_binding_panic(model) {
        format!("{} loading panics inside tree_sitter::Query::new (tree-sitter 0.24.7 Rust binding: query error at offset 0 of a stanza query)", prop)
    } else {
        format!("{} loading panics (model: {})", prop, model.tag().unwrap_or("?"))
    }
}

pub fn model_parse(drv: &mut Driver, text: &str) -> Sexp {
    let mut table = POracleTable::new(text);
    for _ in 0..2000 {
        let resp = drv.ask(&sexp::tagged("parse", vec![sexp::st(text), table.to_sexp()]));
        if !table.answer(&resp) {
            return resp;
        }
    }
    sexp::atom("oracle-did-not-converge")
}

/// the character at (row, char column) and the text from there
fn at<'a>(lines: &'a [&'a str], l: &Location) -> Option<String> {
    let line = lines.get(l.row)?;
    Some(line.chars().skip(l.column).collect())
}

fn check_locations(file: &File, text: &str) -> Vec<String> {
    let lines: Vec<&str> = text.split('\n').collect();
    let mut bad = Vec::new();
    let mut expect = |what: &str, l: &Location, prefix: &str| match at(&lines, l) {
        Some(t) if t.starts_with(prefix) => {}
        other => bad.push(format!("{} at ({}, {}) expected `{}` found `{}`", what, l.row, l.column, prefix, other.unwrap_or_default().chars().take(12).collect::<String>())),
    };
    fn expr(e: &Expression, expect: &mut dyn FnMut(&str, &Location, &str)) {
        match e {
            Expression::Capture(c) => expect("capture", &c.location, &format!("@{}", c.name.as_str())),
            Expression::Variable(Variable::Unscoped(v)) => expect("variable", &v.location, v.name.as_str()),
            Expression::Variable(Variable::Scoped(v)) => {
                expect("scoped variable name", &v.location, v.name.as_str());
                expr(&v.scope, expect)
            }
            Expression::ListLiteral(l) => l.elements.iter().for_each(|x| expr(x, expect)),
            Expression::SetLiteral(l) => l.elements.iter().for_each(|x| expr(x, expect)),
            Expression::ListComprehension(c) => {
                expect("list comprehension", &c.location, "[");
                expect("comprehension variable", &c.variable.location, c.variable.name.as_str());
                expr(&c.element, expect);
                expr(&c.value, expect)
            }
            Expression::SetComprehension(c) => {
                expect("set comprehension", &c.location, "{");
                expect("comprehension variable", &c.variable.location, c.variable.name.as_str());
                expr(&c.element, expect);
                expr(&c.value, expect)
            }
            Expression::Call(c) => c.parameters.iter().for_each(|x| expr(x, expect)),
            _ => {}
        }
    }
    fn var(v: &Variable, expect: &mut dyn FnMut(&str, &Location, &str)) {
        match v {
            Variable::Unscoped(v) => expect("variable", &v.location, v.name.as_str()),
            Variable::Scoped(v) => {
                expect("scoped variable name", &v.location, v.name.as_str());
                expr(&v.scope, expect)
            }
        }
    }
    fn stmts(ss: &[Statement], expect: &mut dyn FnMut(&str, &Location, &str)) {
        for s in ss {
            match s {
                Statement::DeclareImmutable(x) => { expect("let", &x.location, "let"); var(&x.variable, expect); expr(&x.value, expect) }
                Statement::DeclareMutable(x) => { expect("var", &x.location, "var"); var(&x.variable, expect); expr(&x.value, expect) }
                Statement::Assign(x) => { expect("set", &x.location, "set"); var(&x.variable, expect); expr(&x.value, expect) }
                Statement::CreateGraphNode(x) => { expect("node", &x.location, "node"); var(&x.node, expect) }
                Statement::AddGraphNodeAttribute(x) => { expect("attr", &x.location, "attr"); expr(&x.node, expect); x.attributes.iter().for_each(|a| expr(&a.value, expect)) }
                Statement::CreateEdge(x) => { expect("edge", &x.location, "edge"); expr(&x.source, expect); expr(&x.sink, expect) }
                Statement::AddEdgeAttribute(x) => { expect("attr", &x.location, "attr"); expr(&x.source, expect); expr(&x.sink, expect); x.attributes.iter().for_each(|a| expr(&a.value, expect)) }
                Statement::Scan(x) => { expect("scan", &x.location, "scan"); expr(&x.value, expect); x.arms.iter().for_each(|a| stmts(&a.statements, expect)) }
                Statement::Print(x) => { expect("print", &x.location, "print"); x.values.iter().for_each(|v| expr(v, expect)) }
                Statement::If(x) => {
                    expect("if", &x.location, "if");
                    for (i, a) in x.arms.iter().enumerate() {
                        if i == 0 { expect("if arm", &a.location, "if") } else if a.conditions.is_empty() { expect("else arm", &a.location, "else") } else { expect("elif arm", &a.location, "elif") }
                        for c in &a.conditions {
                            match c {
                                Condition::Some { value, location } => { expect("some", location, "some"); expr(value, expect) }
                                Condition::None { value, location } => { expect("none", location, "none"); expr(value, expect) }
                                Condition::Bool { value, .. } => expr(value, expect),
                            }
                        }
                        stmts(&a.statements, expect)
                    }
                }
                Statement::ForIn(x) => { expect("for", &x.location, "for"); expect("loop variable", &x.variable.location, x.variable.name.as_str()); expr(&x.value, expect); stmts(&x.statements, expect) }
            }
        }
    }
    for g in &file.globals {
        expect("global", &g.location, g.name.as_str());
    }
    for sh in file.shorthands.iter() {
        expect("shorthand", &sh.location, sh.name.as_str());
        expect("shorthand variable", &sh.variable.location, sh.variable.name.as_str());
        sh.attributes.iter().for_each(|a| expr(&a.value, &mut expect));
    }
    for st in &file.stanzas {
        let first = at(&lines, &st.range.start).and_then(|t| t.chars().next()).map(|c| c.to_string()).unwrap_or_default();
        if first == "(" || first == "[" || first == "\"" {
            expect("stanza start", &st.range.start, &first);
        } else {
            expect("stanza start", &st.range.start, "(");
        }
        let mut e2 = |w: &str, l: &Location, p: &str| expect(w, l, p);
        stmts(&st.statements, &mut e2);
    }
    bad
}

pub fn run(rep: &mut Report, tier: &str, seed: u64) {
    rep.rule = "generated programs (every statement and expression form, nested blocks, globals, inherit, shorthands, trailing commas, strings with escapes and multi-byte \
                characters, identifiers that begin with keywords) re-laid-out with random spaces, tabs, CR/LF, line breaks, `;` comments with multi-byte text and a no-break space; \
                non-trivial = the text parses; distinct by text".to_string();
    rep.correspondence = "parse: the complete AST with all locations (or the ParseError variant with its payload and location) equal between parser.rs and Tsg.Syntax.Parser".to_string();
    let n = if tier == "thorough" { 20000 } else { 900 };
    let mut drv = Driver::spawn();
    let root = Rng::new(seed);
    let pool = pool();
    // inputs of the known findings of this property (known_findings.json) are always run
    for text in KNOWN_FINDING_INPUTS {
        let real = real_parse(text);
        let model = model_parse(&mut drv, text);
        rep.case(text, false);
        rep.count("known-finding-inputs");
        if real.is_err() {
            rep.fail("impl-panic", &load_panic_signature("C07", &model), true, json!({"text": text, "model": model.pretty()}));
        }
    }
    for ci in 0..n {
        let mut r = root.fork(ci as u64);
        let opts = Opts { fragment: false, fault_pct: 0, max_stanzas: 4, allow_print: true, universal: r.chance(1, 4), probe: r.chance(1, 5), scoped_heavy: r.chance(1, 4), keywordish_names: true, static_fault: 0 };
        let program = gen_program(&mut r, &pool, &opts);
        let damaged = ci % 3 == 2;
        let text = if ci % 6 == 0 { program.text.clone() } else { relayout(&mut r, &program.text) };
        // one text in seven ENDS in an attribute shorthand (the other items may come in any order), followed by nothing, by a
        // newline, or by layout only
        let text = if ci % 7 == 3 {
            rep.count("text-ends-in-a-shorthand");
            format!("{}attribute zlast = zp => zk = zp, zj = 1{}", text, r.pick(&["", "\n", "  ", " ; the end", "\n\n; done\n"]))
        } else {
            text
        };
        let text = if damaged { let mut t = damage(&mut r, &text); if r.chance(1, 3) { t = damage(&mut r, &t); } t } else { text };
        let real = real_parse(&text);
        let model = model_parse(&mut drv, &text);
        let ok = matches!(real, Ok(Ok(_)));
        rep.case(&text, ok);
        if damaged {
            // malformed stream: the model must predict the parser's verdict (AST, or error variant + payload + location)
            rep.count("damaged");
            match real {
                Err(()) => rep.fail("impl-panic", &load_panic_signature("C07", &model), true, json!({"text": text, "model": model.pretty()})),
                Ok(Ok(file)) => {
                    rep.count("damaged:still-parses");
                    let want = sexp::tagged("parsed", vec![crate::astx::file(&file)]);
                    if want != model {
                        rep.fail("disagreement", &format!("C07 parser and parser model differ on a damaged text (model: {})", model.tag().unwrap_or("?")), true,
                            json!({"text": text, "implementation": want.pretty(), "model": model.pretty()}));
                    }
                    let bad = check_locations(&file, &text);
                    if !bad.is_empty() {
                        rep.fail("direct", "C07 a recorded location does not point at the first character of its construct", true, json!({"text": text, "mismatches": bad}));
                    }
                }
                Ok(Err(e)) => {
                    let want = sexp::tagged("parse-error", vec![parse_error_sexp(&e)]);
                    rep.count(&format!("damaged:{}", want.as_list().unwrap()[1].tag().unwrap_or("?")));
                    if want != model {
                        rep.fail("disagreement", &format!("C07 parser and parser model differ on a damaged text (model: {})", model.tag().unwrap_or("?")), true,
                            json!({"text": text, "implementation": want.pretty(), "model": model.pretty()}));
                    }
                }
            }
            continue;
        }
        if rep.samples.len() < 2 && ci > 6 {
            rep.sample(json!({"text": text}));
        }
        match real {
            Err(()) => rep.fail("impl-panic", &load_panic_signature("C07", &model), true, json!({"text": text, "model": model.pretty()})),
            Ok(Ok(file)) => {
                rep.count("parsed");
                let want = sexp::tagged("parsed", vec![crate::astx::file(&file)]);
                if want != model {
                    rep.fail("disagreement", &format!("C07 parser and parser model differ (model: {})", model.tag().unwrap_or("?")), true,
                        json!({"text": text, "implementation": want.pretty(), "model": model.pretty()}));
                }
                // layout independence: the same program in the generator's house layout yields the same AST modulo locations
                let house_text = if ci % 7 == 3 { format!("{}attribute zlast = zp => zk = zp, zj = 1\n", program.text) } else { program.text.clone() };
                if text != house_text {
                    match real_parse(&house_text) {
                        Ok(Ok(house)) => {
                            rep.count("layout-pairs");
                            let (a, b) = (crate::astx::file_no_loc(&house), crate::astx::file_no_loc(&file));
                            if a != b {
                                rep.fail("direct", "C07 two layouts of one program parse to different ASTs", true, json!({"text": text, "house": house_text, "relayout_ast": b.pretty(), "house_ast": a.pretty()}));
                            }
                        }
                        _ => rep.fail("direct", "C07 the house layout of a generated program is rejected", true, json!({"text": program.text})),
                    }
                }
                let bad = check_locations(&file, &text);
                rep.count_n("locations-checked", 1);
                if !bad.is_empty() {
                    rep.fail("direct", "C07 a recorded location does not point at the first character of its construct", true, json!({"text": text, "mismatches": bad}));
                }
            }
            Ok(Err(e)) => {
                let dbg = format!("{:?}", e);
                let variant: String = dbg.chars().take_while(|c| c.is_alphanumeric()).collect();
                rep.count(&format!("rejected:{}", variant));
                // a generated program under a legal layout must parse. The expectation is the generator's; when the
                // parser model (position / gap / token theorems of Props/C07) rejects the text with the very same error, the
                // layout was not legal after all: counted, not reported.
                let want = sexp::tagged("parse-error", vec![parse_error_sexp(&e)]);
                if want == model {
                    rep.count(&format!("generator-expectation-not-met(model-agrees-with-implementation):rejected:{}", variant));
                } else {
                    rep.fail("direct", &format!("C07 a syntactically valid text is rejected by the parser ({})", variant), true, json!({"text": text, "error": dbg, "model": model.pretty()}));
                }
            }
        }
    }
}
