//! C08 — lazy evaluation does not depend on the order of stanzas.
//! Direct oracle: every permutation of the stanzas (all n! for n <= 4 in quick / 5 in thorough, sampled beyond)
//! is loaded and executed lazily; success must coincide and the graphs must be isomorphic.
//! Correspondence: the lazy model on the original and on sampled permutations.
use crate::execx::{model_input, run_impl, RunCfg};
use crate::gen::dsl::Opts;
use crate::iso::isomorphic;
use crate::props::common::load;
use crate::props::runner::*;
use crate::report::Report;
use serde_json::json;

fn permutations(n: usize, limit: usize, r: &mut crate::rng::Rng) -> Vec<Vec<usize>> {
    let mut out = Vec::new();
    let total: usize = (1..=n).product();
    if total <= limit {
        let mut idx: Vec<usize> = (0..n).collect();
        let mut c = vec![0; n];
        out.push(idx.clone());
        let mut i = 0;
        while i < n {
            if c[i] < i {
                if i % 2 == 0 { idx.swap(0, i) } else { idx.swap(c[i], i) }
                out.push(idx.clone());
                c[i] += 1;
                i = 0;
            } else {
                c[i] = 0;
                i += 1;
            }
        }
    } else {
        for _ in 0..limit {
            let mut idx: Vec<usize> = (0..n).collect();
            r.shuffle(&mut idx);
            out.push(idx);
        }
    }
    out
}

pub fn run(rep: &mut Report, tier: &str, seed: u64) {
    rep.rule = "generated programs of 2-6 stanzas (graph nodes never rendered as text) x ALL permutations of their stanzas for n <= 4 (quick) / 5 (thorough), \
                24 / 120 sampled permutations beyond, x small sources; lazy mode; non-trivial = the original run succeeds with a non-empty graph; distinct by (program, source)".to_string();
    rep.correspondence = "exec lazy on the original and on sampled permutations: outcome class and graph equal between implementation and model".to_string();
    let (n_programs, limit) = if tier == "thorough" { (500, 120) } else { (50, 24) };
    let mut runner = Runner::new("C08");
    campaign(rep, &mut runner, seed, n_programs, 2, true,
        &|pi, r| Opts { fragment: true, fault_pct: if pi % 4 == 3 { 100 } else { 0 }, max_stanzas: 4, allow_print: false, universal: r.chance(1, 2), probe: false, scoped_heavy: pi % 3 == 0, keywordish_names: false, static_fault: 0 },
        &mut |rep, runner, case, r, _pi| {
            let globals = crate::props::common::supply_globals(r, &case.loaded.program);
            let cfg = RunCfg { lazy: true, globals: globals.clone(), outer_globals: vec![], debug: None, cancel_at: None };
            let base = runner.check_mode(rep, case, &cfg, true, false);
            if base.class == "panic" {
                return;
            }
            let prog = &case.loaded.program;
            let n = prog.stanzas.len();
            if n < 2 {
                return;
            }
            let perms = permutations(n, limit, r);
            for (pi2, perm) in perms.iter().enumerate() {
                let text: String = format!("{}{}", prog.header, perm.iter().map(|i| prog.stanzas[*i].clone()).collect::<String>());
                let file = match load(&text) {
                    Ok(Ok(f)) => f,
                    other => {
                        rep.fail("direct", "C08 a permutation of an accepted file is rejected", true, json!({"tsg": text, "result": format!("{:?}", other.map(|x| x.map(|_| "file")))}));
                        continue;
                    }
                };
                rep.count("permutations");
                let ir = run_impl(&file, &case.source.tree, &case.source.src, case.info, &cfg);
                let class = crate::props::c01::outcome_class(&ir.outcome);
                let replay = json!({"original": case.tsg, "permuted": text, "permutation": perm, "source": case.source.src,
                    "original_outcome": base.class, "permuted_outcome": class,
                    "original_graph": base.run.graph.as_ref().map(|g| g.pretty()), "permuted_graph": ir.graph.as_ref().map(|g| g.pretty())});
                if class == "panic" {
                    rep.fail("impl-panic", "C08 lazy execution of a permuted file panics", true, replay);
                    continue;
                }
                if (class == "ok") != (base.class == "ok") {
                    rep.fail("direct", &format!("C08 reordering stanzas changes whether lazy execution succeeds ({} vs {})", base.class, class), true, replay);
                    continue;
                }
                if class == "ok" {
                    match isomorphic(base.run.graph.as_ref().unwrap(), ir.graph.as_ref().unwrap()) {
                        Some(true) => rep.count("isomorphic"),
                        Some(false) => rep.fail("direct", "C08 reordering stanzas changes the lazy graph (not isomorphic)", true, replay),
                        None => rep.count("iso-undecided"),
                    }
                }
                // model on a few permutations
                if pi2 == 1 || pi2 == perms.len() - 1 {
                    let loaded = crate::props::common::Loaded { program: crate::gen::dsl::Program { text: text.clone(), header: prog.header.clone(), stanzas: vec![], globals: prog.globals.clone(), stanza_count: n, has_fault: false, features: vec![], static_fault: None }, file };
                    let mi = model_input(&loaded.file, &case.source.tree, &case.source.src, case.info);
                    let c2 = Case { tsg: &text, loaded: &loaded, source: case.source, info: case.info, mi: &mi };
                    runner.table = crate::oracle::OracleTable::new();
                    runner.table.arm_sets = crate::astx::scan_arm_sets(&loaded.file);
                    runner.check_mode(rep, &c2, &cfg, true, false);
                }
            }
        });
    locality_stream(rep, tier, seed);
}

/// Lazy evaluation runs scan subjects, conditions and loop sources while matches are still being collected, on the
/// strength of the checker's "local" certificate. Pairs (definer stanza, reader stanza) in which a value depending on
/// the defined scoped variable reaches such a place must be rejected; when one is accepted, both orders of the two
/// stanzas must agree like any other accepted file.
fn locality_stream(rep: &mut Report, tier: &str, seed: u64) {
    let n = if tier == "thorough" { 1500 } else { 150 };
    let root = crate::rng::Rng::new(seed ^ 0x10ca2);
    for i in 0..n {
        let mut r = root.fork(i as u64);
        let (definer, reader, form) = crate::gen::dsl::live_nonlocal_pair(&mut r);
        let orders = [format!("{}{}", definer, reader), format!("{}{}", reader, definer)];
        let files: Vec<_> = orders.iter().map(|t| load(t)).collect();
        match (&files[0], &files[1]) {
            (Ok(Err(_)), Ok(Err(_))) => rep.count("locality-stream:rejected-as-required"),
            (Ok(Ok(f0)), Ok(Ok(f1))) => {
                rep.count(&format!("locality-stream:ACCEPTED:{}", form));
                for ti in 0..3 {
                    let source = crate::props::common::gen_source(&mut r, ti == 1, false);
                    let info = crate::tree::TreeInfo::new(&source.tree);
                    let cfg = RunCfg { lazy: true, globals: vec![], outer_globals: vec![], debug: None, cancel_at: None };
                    let a = run_impl(f0, &source.tree, &source.src, &info, &cfg);
                    let b = run_impl(f1, &source.tree, &source.src, &info, &cfg);
                    let (ca, cb) = (crate::props::c01::outcome_class(&a.outcome), crate::props::c01::outcome_class(&b.outcome));
                    let replay = json!({"original": orders[0], "permuted": orders[1], "source": source.src, "form": form,
                        "original_outcome": ca, "permuted_outcome": cb});
                    if ca == "panic" || cb == "panic" {
                        rep.fail("impl-panic", "C08 lazy execution of an accepted locality-stream file panics", true, replay);
                    } else if (ca == "ok") != (cb == "ok") {
                        rep.fail("direct", &format!("C08 reordering stanzas changes whether lazy execution succeeds ({} vs {}) [accepted {}: a non-local value certified local]", ca, cb, form), true, replay);
                    } else if ca == "ok" && isomorphic(a.graph.as_ref().unwrap(), b.graph.as_ref().unwrap()) == Some(false) {
                        rep.fail("direct", &format!("C08 reordering stanzas changes the lazy graph [accepted {}]", form), true, replay);
                    } else {
                        rep.count("locality-stream:accepted-and-orders-agree");
                    }
                }
            }
            (Err(()), _) | (_, Err(())) => rep.fail("impl-panic", "C08 loading a locality-stream file panics", true, json!({"tsg": orders[0]})),
            _ => rep.fail("direct", "C08 a file is accepted in one order of its stanzas and rejected in the other", true, json!({"original": orders[0], "permuted": orders[1]})),
        }
    }
}
