//! C09 — edges are a set, attributes are single-assignment, execute_into only adds.
//! Histories of 1-3 successive `execute_into` calls (either mode) on one pre-populated graph, with
//! earlier graph nodes passed back in as globals. Direct oracle: graph before ⊑ graph after every
//! successful call; sinks strictly ascending (no duplicate edge). Correspondence: model run from the
//! same initial graph.
use crate::execx::{impl_as_result, run_impl_into, run_model_into, model_input, RunCfg};
use crate::export::graph_sexp;
use crate::oracle::OracleTable;
use crate::driver::Driver;
use crate::props::c01::{outcome_class, result_parts};
use crate::props::common::{gen_source, load};
use crate::report::Report;
use crate::rng::Rng;
use crate::sexp::{self, Sexp};
use crate::tree::TreeInfo;
use crate::values::gnode_ref;
use serde_json::json;
use tree_sitter_graph::graph::{Graph, Value};
use tree_sitter_graph::Identifier;

fn attr_map(a: &Sexp) -> Vec<(String, String)> {
    a.as_list().unwrap().iter().map(|kv| { let l = kv.as_list().unwrap(); (l[0].as_str().unwrap().to_string(), l[1].to_text()) }).collect()
}

/// `before ⊑ after` on canonical graph encodings
fn graph_le(before: &Sexp, after: &Sexp) -> Result<(), String> {
    let (b, a) = (&before.as_list().unwrap()[1..], &after.as_list().unwrap()[1..]);
    if b.len() > a.len() {
        return Err("node count decreased".into());
    }
    for (i, nb) in b.iter().enumerate() {
        let (nbl, nal) = (nb.as_list().unwrap(), a[i].as_list().unwrap());
        let aa = attr_map(&nal[0]);
        for kv in attr_map(&nbl[0]) {
            if !aa.contains(&kv) {
                return Err(format!("node {} attribute {} lost or changed", i, kv.0));
            }
        }
        for e in nbl[1].as_list().unwrap() {
            let el = e.as_list().unwrap();
            match nal[1].as_list().unwrap().iter().find(|x| x.as_list().unwrap()[0] == el[0]) {
                None => return Err(format!("edge {} -> {} lost", i, el[0].to_text())),
                Some(ea) => {
                    let eaa = attr_map(&ea.as_list().unwrap()[1]);
                    for kv in attr_map(&el[1]) {
                        if !eaa.contains(&kv) {
                            return Err(format!("edge {} -> {} attribute {} lost or changed", i, el[0].to_text(), kv.0));
                        }
                    }
                }
            }
        }
    }
    Ok(())
}

fn sinks_ascending(g: &Sexp) -> bool {
    g.as_list().unwrap()[1..].iter().all(|n| {
        let sinks: Vec<usize> = n.as_list().unwrap()[1].as_list().unwrap().iter().map(|e| e.as_list().unwrap()[0].as_atom().unwrap().parse().unwrap()).collect();
        sinks.windows(2).all(|w| w[0] < w[1])
    })
}

fn gen_file(r: &mut Rng, syn_values: bool) -> String {
    let keys = ["k", "w", "seen", "tag"];
    // every kind of value, `#null` included: it is an ordinary value, and a different later value conflicts with it
    let vals = ["1", "2", "\"x\"", "#true", "[1, 2]", "#null", "#null", "#false", "{1}"];
    let mut t = String::from("global ga\nglobal gb\n");
    // attribute shorthands that expand to several attributes: a conflict in ANY of them fails the statement
    t.push_str("attribute kw = x => k = x, w = x, tag = \"via-shorthand\"\nattribute wk = y => w = y, k = y\n");
    t.push_str("(module) @m {\n  let _u = @m\n");
    for _ in 0..r.range(1, 5) {
        match r.below(12) {
            // an attribute on an edge that this call does not create: it is there only if the graph had it already, else the call
            // fails with UndefinedEdge and no OTHER edge of the node is touched
            9 => t.push_str(&format!("  attr (ga -> gb) {} = {}\n", r.pick(&keys), r.pick(&vals))),
            10 => t.push_str(&format!("  attr (gb -> ga) {} = {}\n", r.pick(&keys), r.pick(&vals))),
            11 => t.push_str(&format!("  node fresh\n  edge ga -> fresh\n  attr (ga -> gb) {} = {}\n", r.pick(&keys), r.pick(&vals))),
            7 => t.push_str(&format!("  attr (ga) {} = {}\n", r.pick(&["kw", "wk"]), r.pick(&vals))),
            8 => t.push_str(&format!("  edge ga -> gb\n  attr (ga -> gb) {} = {}\n", r.pick(&["kw", "wk"]), r.pick(&vals))),
            0 => t.push_str("  edge ga -> gb\n"),
            1 => t.push_str(&format!("  edge ga -> gb\n  attr (ga -> gb) {} = {}\n", r.pick(&keys), r.pick(&vals))),
            2 => t.push_str(&format!("  attr (ga) {} = {}\n", r.pick(&keys), r.pick(&vals))),
            3 => t.push_str("  node n\n  edge n -> ga\n  attr (n -> ga) w = \"x\"\n  edge gb -> n\n".replace("node n", &format!("node n{}", r.below(1000))).replace(" n ", " n0 ").as_str()),
            4 => t.push_str("  edge gb -> ga\n  edge gb -> ga\n"),
            5 => t.push_str(&format!("  attr (gb) {} = {}, {} = {}\n", r.pick(&keys), r.pick(&vals), r.pick(&keys), r.pick(&vals))),
            _ => t.push_str("  edge gb -> gb\n  attr (gb -> gb) loop\n"),
        }
    }
    t.push_str("}\n");
    if r.chance(1, 2) {
        t.push_str(&format!("(identifier) @id {{\n  node @id.n\n  edge @id.n -> ga\n  attr (@id.n) {} = (source-text @id)\n}}\n", r.pick(&keys)));
    }
    if syn_values {
        // attribute values that are syntax nodes: two different nodes are two different values, also when they are of the
        // same kind and start at the same position (`a + b + c`, `x.y.z`)
        match r.below(3) {
            0 => t.push_str("(binary_operator) @b {\n  attr (ga) op = @b\n}\n"),
            1 => t.push_str("(attribute) @at {\n  edge ga -> gb\n  attr (ga -> gb) at = @at\n}\n"),
            _ => t.push_str("(binary_operator left: (binary_operator) @inner) @outer {\n  attr (gb) op = @inner\n  attr (gb) op = @outer\n}\n"),
        }
    }
    // the node statement template above may yield duplicate names; normalise
    let mut out = String::new();
    let mut counter = 0;
    for line in t.lines() {
        if line.trim_start().starts_with("node n") && !line.contains('@') {
            counter += 1;
            out.push_str(&format!("  node nn{}\n", counter));
        } else {
            out.push_str(&line.replace(" n0 ", &format!(" nn{} ", counter.max(1))).replace("edge n ->", &format!("edge nn{} ->", counter.max(1))).replace("(n ->", &format!("(nn{} ->", counter.max(1))).replace("-> n", &format!("-> nn{}", counter.max(1))).replace("-> nn", "-> nn"));
            out.push('\n');
        }
    }
    out
}

pub fn run(rep: &mut Report, tier: &str, seed: u64) {
    rep.rule = "histories of 1-3 execute_into calls (strict or lazy per call, a fresh generated file each) on one graph pre-populated through the API, \
                earlier graph nodes passed back as globals; programs re-create edges and re-assign attributes (equal and different values); \
                non-trivial = at least one call succeeded on a non-empty graph; distinct by history".to_string();
    rep.correspondence = "exec into graph0: outcome class and resulting graph equal between File::execute_into and Strict.run / Lazy.run from the same initial graph".to_string();
    let n_hist = if tier == "thorough" { 3000 } else { 200 };
    let mut drv = Driver::spawn();
    let root = Rng::new(seed);
    for hi in 0..n_hist {
        let mut r = root.fork(hi as u64);
        let mut source = gen_source(&mut r, true, false);
        let syn_values = hi % 4 == 3;
        if syn_values {
            let src = format!("{}q = a + b + c\nw = x.y.z\n", source.src);
            source = crate::props::common::Source { tree: crate::tree::parse_python(&src), src };
        }
        let info = TreeInfo::new(&source.tree);
        drv.ask(&sexp::tagged("set-tree", vec![info.to_sexp(&source.src)]));
        let mut graph = Graph::new();
        // pre-populate
        let n0 = r.range(2, 5);
        let refs: Vec<_> = (0..n0).map(|_| graph.add_graph_node()).collect();
        // endpoints of edges that exist (or were addressed) so far: later calls prefer them
        let mut known_edges: Vec<(usize, usize)> = Vec::new();
        for _ in 0..r.below(5) {
            let (ia, ib) = (r.below(n0), r.below(n0));
            known_edges.push((ia, ib));
            let (a, b) = (refs[ia], refs[ib]);
            let e = match graph[a].add_edge(b) { Ok(e) | Err(e) => e };
            if r.chance(1, 2) {
                let _ = e.attributes.add(Identifier::from(*r.pick(&["k", "w", "pre"])), Value::Integer(r.below(3) as u32));
            }
        }
        for _ in 0..r.below(4) {
            let a = refs[r.below(n0)];
            let _ = graph[a].attributes.add(Identifier::from(*r.pick(&["k", "seen", "pre"])), Value::Integer(r.below(3) as u32));
        }
        let calls = r.range(1, 3);
        let mut history = Vec::new();
        let mut any_ok = false;
        for ci in 0..calls {
            let text = gen_file(&mut r, syn_values);
            let file = match load(&text) {
                Ok(Ok(f)) => f,
                other => {
                    rep.count(&format!("file-rejected:{}", match other { Ok(Err(m)) => m.chars().take(30).collect::<String>(), _ => "panic".into() }));
                    continue;
                }
            };
            let mi = model_input(&file, &source.tree, &source.src, &info);
            let n = graph.node_count();
            let (ga, gb) = if !known_edges.is_empty() && r.chance(2, 3) { *r.pick(&known_edges) } else { (r.below(n), r.below(n)) };
            known_edges.push((ga, gb));
            known_edges.push((gb, ga));
            let lazy = r.chance(1, 2);
            // a third of the histories run with debug attributes: an `edge` statement that finds its edge already there
            // leaves the edge's location attribute alone (per history, so that earlier calls left such attributes behind)
            let debug = if hi % 3 == 1 { Some(("dbg_l".to_string(), "dbg_v".to_string(), "dbg_m".to_string())) } else { None };
            if debug.is_some() {
                rep.count("call-with-debug-attributes");
            }
            let cfg = RunCfg { lazy, globals: vec![("ga".into(), gnode_ref(ga)), ("gb".into(), gnode_ref(gb))], outer_globals: vec![], debug, cancel_at: None };
            let before = graph_sexp(&graph, Some(&info));
            let mut table = OracleTable::new();
            table.arm_sets = crate::astx::scan_arm_sets(&file);
            let ir = run_impl_into(&mut graph, &file, &source.tree, &source.src, &info, &cfg);
            let model = run_model_into(&mut drv, &mut table, &mi, &cfg, &before);
            let class = outcome_class(&ir.outcome);
            let mode = if lazy { "lazy" } else { "strict" };
            rep.count(&format!("{}:{}", mode, class));
            history.push(json!({"call": ci, "mode": mode, "tsg": text, "ga": ga, "gb": gb, "before": before.pretty(), "outcome": class}));
            let replay = json!({"source": source.src, "history": history, "implementation": impl_as_result(&ir).pretty(), "model": model.pretty()});
            match result_parts(&model) {
                None if model.as_atom() == Some("model-too-slow") => rep.count("model-comparison-given-up:time-budget"),
                None => rep.fail("disagreement", &format!("C09 {} model did not return a result: {}", mode, model.to_text().chars().take(80).collect::<String>()), false, replay.clone()),
                Some((mo, mg, _)) => {
                    let mclass = outcome_class(mo);
                    if class == "panic" {
                        rep.fail("impl-panic", &format!("C09 {} execute_into panics (model: {})", mode, mclass), true, replay.clone());
                    } else if (class == "ok") != (mclass == "ok") {
                        rep.fail("disagreement", &format!("C09 {}: implementation {} / model {}", mode, class, mclass), true, replay.clone());
                    } else if class == "ok" && ir.graph.as_ref() != Some(mg) {
                        rep.fail("disagreement", &format!("C09 {}: graphs differ after execute_into", mode), true, replay.clone());
                    }
                }
            }
            if class == "panic" {
                break;
            }
            let after = ir.graph.clone().unwrap();
            if class == "ok" {
                any_ok = true;
                if let Err(what) = graph_le(&before, &after) {
                    rep.fail("direct", &format!("C09 {}: execute_into does not only add ({})", mode, what.split(' ').take(2).collect::<Vec<_>>().join(" ")), true, replay.clone());
                }
            }
            if !sinks_ascending(&after) {
                rep.fail("direct", "C09 duplicate or unordered edge", true, replay.clone());
            }
        }
        rep.case(&format!("{:?}", history), any_ok);
        if hi < 2 {
            rep.sample(json!({"source": source.src, "history": history}));
        }
    }
}
