//! C10 — scan runs arms for the leftmost match, earlier arm first, and always advances.
//! Direct oracle: a reference loop (arg-min over (start, arm) of `Regex::captures(&s[i..])`, restart after
//! the end) computes the expected sequence of (arm, $0..$n); the program records each executed arm as a node.
//! Correspondence: both modes against the model (regex answers supplied as oracle).
use crate::execx::RunCfg;
use crate::props::common::{load, Loaded, Source};
use crate::props::runner::*;
use crate::gen::dsl::Program;
use crate::report::Report;
use crate::rng::Rng;
use crate::sexp::{self, Sexp};
use crate::tree::{parse_python, TreeInfo};
use crate::execx::model_input;
use regex::Regex;
use serde_json::json;

const ALPHA: &[&str] = &["a", "b", "a", "b", "c", " ", "\u{e9}", "1"];

fn gen_atom(r: &mut Rng, depth: usize) -> String {
    match r.below(if depth == 0 { 4 } else { 9 }) {
        0 | 1 => r.pick(ALPHA).to_string(),
        2 => r.pick(&["[ab]", "[^a]", "[a-c1]", "\\\\w", "\\\\s", "."]).to_string(),
        3 => r.pick(&["ab", "ba", "c\u{e9}", "a1"]).to_string(),
        4 => format!("({})", gen_seq(r, depth - 1)),
        5 => format!("({})?", gen_seq(r, depth - 1)),
        6 => format!("({}|{})", gen_seq(r, depth - 1), gen_seq(r, depth - 1)),
        7 => format!("{}+", gen_atom(r, depth - 1)),
        _ => {
            if r.chance(1, 2) {
                format!("{}$", gen_atom(r, depth - 1))
            } else {
                // an end anchor inside an optional group or an earlier alternative: it holds at the end of the SUBJECT only
                // ... and arms anchored at the START (`^`, `\b`): they are matched against the text that is LEFT, whose first
                // character has no left context
                r.pick(&["(a$)?", "(b$|b)", "(c$)?c?", "([ab]$)?", "(a$)|(a)", "(/$)?(/)?", "^b", "^[a-c]", "^a?b", "\\\\bb", "\\\\b[a-c]", "\\\\Ba"]).to_string()
            }
        }
    }
}

fn gen_seq(r: &mut Rng, depth: usize) -> String {
    let n = r.range(1, 2);
    (0..n).map(|_| gen_atom(r, depth)).collect()
}

/// a regex of the generated language (DSL-escaped text, actual pattern)
fn gen_regex(r: &mut Rng) -> (String, String) {
    let esc = match r.below(30) {
        // match empty inside a non-empty string only (never on ""): accepted at load time, a runtime error as soon as the first
        // match of the arm in what is left is empty — wherever in what is left it starts
        0 | 5 => r.pick(&["\\\\b", "\\\\b", "a*\\\\b", "\\\\B", "c?\\\\b", "(b|\\\\b)"]).to_string(),
        1 => "a*".to_string(),              // nullable: rejected at load time
        // an arm that is anchored at its START as a whole: it can fail at one restart position and match at a later one, because
        // every restart searches the text that is left as a fresh haystack
        2 | 3 | 4 => r.pick(&["^b", "^a", "^[ab]", "\\\\bb", "\\\\ba", "\\\\Ba", "\\\\B[ab]", "^ab", "\\\\b[a-c1]+", "^c", "^ +"]).to_string(),
        _ => {
            // a mandatory atom keeps most arms non-nullable
            if r.chance(1, 2) { format!("{}{}", gen_atom(r, 0), gen_seq(r, 2)) } else { format!("{}{}", gen_seq(r, 2), gen_atom(r, 0)) }
        }
    };
    let actual = esc.replace("\\\\", "\\");
    (esc, actual)
}

fn gen_subject(r: &mut Rng) -> String {
    let n = r.below(18);
    (0..n).map(|_| *r.pick(ALPHA)).collect()
}

/// expected trace: (arm index, group texts) per executed arm; Err = empty match at run time
fn reference(arms: &[Regex], subject: &str) -> Result<Vec<(usize, Vec<String>)>, ()> {
    let mut out = Vec::new();
    let mut i = 0;
    while i < subject.len() {
        let mut best: Option<(usize, usize, usize, Vec<String>)> = None; // start, arm, end, groups
        for (k, re) in arms.iter().enumerate() {
            if let Some(c) = re.captures(&subject[i..]) {
                let m0 = c.get(0).unwrap();
                if m0.start() == m0.end() {
                    return Err(());
                }
                let better = match &best {
                    None => true,
                    Some(b) => (m0.start(), k) < (b.0, b.1),
                };
                if better {
                    best = Some((m0.start(), k, m0.end(), c.iter().map(|g| g.map(|m| m.as_str().to_string()).unwrap_or_default()).collect()));
                }
            }
        }
        match best {
            None => break,
            Some((_, k, end, groups)) => {
                out.push((k, groups));
                i += end;
            }
        }
    }
    Ok(out)
}

fn observed_trace(g: &Sexp) -> Vec<(usize, Vec<String>)> {
    // node 0 is the root; every later node carries arm = k and g0.. attributes
    let mut out = Vec::new();
    for n in &g.as_list().unwrap()[2..] {
        let attrs = n.as_list().unwrap()[0].as_list().unwrap();
        let mut arm = usize::MAX;
        let mut groups: Vec<(usize, String)> = Vec::new();
        for kv in attrs {
            let l = kv.as_list().unwrap();
            let k = l[0].as_str().unwrap();
            let v = l[1].as_list().unwrap();
            if k == "arm" {
                arm = v.get(1).and_then(|x| x.as_atom()).and_then(|a| a.parse().ok()).unwrap_or(usize::MAX);
            } else if let Some(ix) = k.strip_prefix('g') {
                // `$k` must be a string (the empty string for a group that did not participate): anything else is kept as a
                // marker that can never equal the reference trace
                let text = match (l[1].tag(), v.get(1).and_then(|x| x.as_str())) {
                    (Some("str"), Some(t)) => t.to_string(),
                    _ => format!("<not a string: {}>", l[1].pretty()),
                };
                groups.push((ix.parse().unwrap_or(usize::MAX), text));
            }
        }
        groups.sort();
        out.push((arm, groups.into_iter().map(|g| g.1).collect()));
    }
    out
}

/// (arms as written in the DSL, subject): shapes that random generation reaches too rarely — an arm whose first match in what
/// is left is EMPTY but does not start at the restart offset, next to an earlier arm that matches at the same place and
/// consumes the rest (an empty first match is an error wherever it starts)
const FIXED: &[(&[&str], &str)] = &[
    (&["[a-z]+", "\\\\b"], " ab"),
    (&["[a-c]+", "a*\\\\b"], "- ab"),
    (&["b+", "c?\\\\b"], "  bb"),
    (&["[ab]+", "(x|\\\\b)"], "\u{e9} ab"),
    (&["\\\\w+", "\\\\b"], "  a1 "),
    (&["a", "\\\\B"], "a  "),
];

pub fn run(rep: &mut Report, tier: &str, seed: u64) {
    rep.rule = "arm lists of 1-4 regexes from a generated regex language (classes, alternation, groups, optional groups, +, $ anchors, multi-byte literals, \
                a word-boundary arm, a nullable arm) x subject strings over a small alphabet incl. non-ASCII x {strict, lazy}; a quarter with a nested scan over $0; \
                non-trivial = at least two arms and a non-empty subject; distinct by (arms, subject)".to_string();
    rep.correspondence = "exec of scan programs: outcome and graph (one node per executed arm with arm number and every $k) equal between implementation and model".to_string();
    let n = if tier == "thorough" { 8000 } else { 400 };
    let mut runner = Runner::new("C10");
    let root = Rng::new(seed);
    let src_text = "pass\n".to_string();
    let tree = parse_python(&src_text);
    let source = Source { src: src_text, tree };
    let info = TreeInfo::new(&source.tree);
    runner.set_tree(&info, &source.src);
    for ci in 0..n {
        let mut r = root.fork(ci as u64);
        let narms = r.range(2, 5);
        let mut esc = Vec::new();
        let mut actual = Vec::new();
        for _ in 0..narms {
            let (e, a) = gen_regex(&mut r);
            if actual.contains(&a) || Regex::new(&a).is_err() {
                continue;
            }
            esc.push(e);
            actual.push(a);
        }
        if esc.is_empty() {
            continue;
        }
        let mut subject = gen_subject(&mut r);
        let mut nested = r.chance(1, 4);
        if ci < FIXED.len() {
            esc = FIXED[ci].0.iter().map(|e| e.to_string()).collect();
            actual = esc.iter().map(|e| e.replace("\\\\", "\\")).collect();
            subject = FIXED[ci].1.to_string();
            nested = false;
            rep.count("fixed-shape");
        }
        let regexes: Vec<Regex> = actual.iter().map(|a| Regex::new(a).unwrap()).collect();
        // arms with an EMPTY block take part in the selection like any other arm (and consume their match); they leave no record
        let mut empty: Vec<bool> = (0..esc.len()).map(|_| r.chance(1, 5)).collect();
        if empty.iter().all(|e| *e) {
            empty[0] = false;
        }
        if ci < FIXED.len() {
            empty.iter_mut().for_each(|e| *e = false);
        }
        let mut text = format!("(module) @m {{\n  let _u = @m\n  node root\n  scan \"{}\" {{\n", subject);
        for (k, e) in esc.iter().enumerate() {
            if empty[k] {
                rep.count("arm-with-empty-block");
                text.push_str(&format!("    \"{}\" {{ }}\n", e));
                continue;
            }
            let groups = regexes[k].captures_len();
            let attrs: Vec<String> = (0..groups).map(|g| format!("g{} = ${}", g, g)).collect();
            // the bindings of $k hold in the WHOLE arm block: also inside the blocks nested in it
            let (open, close): (&str, &str) = match r.below(8) {
                0 => ("      if #true {\n", "      }\n"),
                1 => ("      if #false {\n      } elif #true {\n", "      }\n"),
                2 => ("      if #false {\n      } else {\n", "      }\n"),
                3 => ("      for _w in [1] {\n", "      }\n"),
                4 => ("      if #true {\n      for _w in [1] {\n      if (not #false) {\n", "      }\n      }\n      }\n"),
                _ => ("", ""),
            };
            if !open.is_empty() {
                rep.count("arm-body-in-nested-block");
            }
            text.push_str(&format!("    \"{}\" {{\n{}      node a\n      attr (a) arm = {}, {}\n", e, open, k, attrs.join(", ")));
            if nested && k == 0 {
                text.push_str("      scan $0 {\n        \"[ab]\" {\n          node b\n          attr (b) arm = 100, g0 = $0\n        }\n      }\n");
            }
            text.push_str(close);
            text.push_str("    }\n");
        }
        text.push_str("  }\n}\n");
        let key = format!("{:?} {:?} {} {:?}", actual, subject, nested, empty);
        let nullable = regexes.iter().any(|re| re.captures("").is_some());
        let file = match load(&text) {
            Ok(Ok(f)) => {
                if nullable {
                    rep.fail("direct", "C10 a regex that matches the empty string was accepted at load time", true, json!({"tsg": text}));
                }
                f
            }
            Ok(Err(msg)) => {
                rep.case(&key, false);
                if nullable && msg.contains("Nullable") {
                    rep.count("rejected-nullable-regex");
                } else {
                    rep.fail("direct", &format!("C10 generated scan program rejected: {}", msg.chars().take(40).collect::<String>()), true, json!({"tsg": text, "error": msg}));
                }
                continue;
            }
            Err(()) => {
                rep.fail("impl-panic", "C10 loading a scan program panics", true, json!({"tsg": text}));
                continue;
            }
        };
        rep.case(&key, narms >= 2 && !subject.is_empty());
        if rep.samples.len() < 3 {
            rep.sample(json!({"arms": actual, "subject": subject, "nested": nested}));
        }
        let loaded = Loaded { program: Program { text: text.clone(), header: String::new(), stanzas: vec![text.clone()], globals: vec![], stanza_count: 1, has_fault: false, features: vec![], static_fault: None }, file };
        let mi = model_input(&loaded.file, &source.tree, &source.src, &info);
        runner.table = crate::oracle::OracleTable::new();
        runner.table.arm_sets = crate::astx::scan_arm_sets(&loaded.file);
        let case = Case { tsg: &text, loaded: &loaded, source: &source, info: &info, mi: &mi };
        let full = reference(&regexes, &subject);
        let competing = {
            // were there iterations with >= 2 matching arms? (walked over the UNFILTERED trace: arms with an empty block consume too)
            let mut i = 0;
            let mut any = false;
            if let Ok(tr) = &full {
                for (k, _) in tr {
                    let m = regexes.iter().filter(|re| re.is_match(&subject[i..])).count();
                    if m >= 2 {
                        any = true;
                    }
                    match regexes[*k].captures(&subject[i..]).and_then(|c| c.get(0).map(|m0| m0.end())) {
                        Some(e) => i += e,
                        None => break,
                    }
                }
            }
            any
        };
        let expect = full.map(|tr| tr.into_iter().filter(|(k, _)| !empty[*k]).collect::<Vec<_>>());
        if competing {
            rep.count("scans-with-competing-arms");
        }
        for lazy in [false, true] {
            let mode = if lazy { "lazy" } else { "strict" };
            let res = runner.check_mode(rep, &case, &RunCfg { lazy, globals: vec![], outer_globals: vec![], debug: None, cancel_at: None }, true, false);
            let replay = json!({"tsg": text, "arms": actual, "subject": subject, "mode": mode, "observed": res.run.outcome.pretty(),
                "graph": res.run.graph.as_ref().map(|g| g.pretty()), "expected": format!("{:?}", expect)});
            match (&expect, res.class.as_str()) {
                (Err(()), "err:EmptyRegexCapture") => rep.count("runtime-empty-match-error"),
                (Err(()), other) => rep.fail("direct", &format!("C10 {}: an empty match at run time must raise EmptyRegexCapture, got {}", mode, other), true, replay),
                (Ok(tr), "ok") => {
                    if !nested {
                        let obs = observed_trace(res.run.graph.as_ref().unwrap());
                        if &obs != tr {
                            rep.fail("direct", &format!("C10 {}: executed arms / captures differ from the leftmost-earliest-arm trace", mode), true, replay);
                        } else {
                            rep.count_n("arm-executions", tr.len());
                        }
                    } else {
                        let obs: Vec<(usize, Vec<String>)> = observed_trace(res.run.graph.as_ref().unwrap()).into_iter().filter(|x| x.0 != 100).collect();
                        if &obs != tr {
                            rep.fail("direct", &format!("C10 {}: outer scan trace differs (nested case)", mode), true, replay);
                        }
                    }
                }
                (Ok(_), "panic") => {}
                (Ok(_), other) => rep.fail("direct", &format!("C10 {}: scan program failed with {}", mode, other), true, replay),
            }
        }
    }
    let _ = sexp::atom("");
}
