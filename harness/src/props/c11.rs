//! C11 — cancellation at any poll stops execution and surfaces as Cancelled.
//! Direct oracle (needs no model): for every k in 1..=N the flag fails from poll k on; the result must be
//! the top-level `Cancelled` error, with exactly k polls observed; a never-signalling counting flag gives the
//! `NoCancellation` result. Correspondence: the model's poll count is a lower bound of the implementation's
//! (every mandatory poll class is still polled), cancelled runs agree at sampled k.
use crate::execx::{run_impl, RunCfg};
use crate::gen::dsl::Opts;
use crate::props::runner::*;
use crate::report::Report;
use serde_json::json;
use tree_sitter_graph::functions::Functions;
use tree_sitter_graph::{ExecutionConfig, Identifier, NoCancellation, Variables};

pub fn run(rep: &mut Report, tier: &str, seed: u64) {
    rep.rule = "generated programs x small sources x {strict, lazy}; for each, cancellation at EVERY poll k = 1..N of the uncancelled run (exhaustive in k for N <= 1500; beyond: the first 600, the last 200 and ~400 evenly spaced polls); \
                non-trivial = N >= 5; distinct by (program, source)"
        .to_string();
    rep.correspondence = "exec with cancelAt: model polls <= implementation polls (no mandatory poll lost); cancelled runs return Cancelled with k polls in both".to_string();
    let (n_programs, max_k) = if tier == "thorough" { (400, 100000) } else { (40, 400) };
    let mut runner = Runner::new("C11");
    campaign(rep, &mut runner, seed, n_programs, 1, true,
        &|pi, r| Opts { fragment: false, fault_pct: if pi % 4 == 3 { 100 } else { 0 }, max_stanzas: 3, allow_print: true, universal: r.chance(1, 3), probe: false, scoped_heavy: false, keywordish_names: false, static_fault: 0 },
        &mut |rep, runner, case, r, _pi| {
            let globals = crate::props::common::supply_globals(r, &case.loaded.program);
            for lazy in [false, true] {
                let mode = if lazy { "lazy" } else { "strict" };
                let cfg = RunCfg { lazy, globals: globals.clone(), outer_globals: vec![], debug: None, cancel_at: None };
                let base = runner.check_mode(rep, case, &cfg, false, false);
                if base.class == "panic" {
                    continue;
                }
                let n = base.run.polls;
                rep.count_n("polls", n);
                // a flag that never signals does not change the result: compare with NoCancellation
                {
                    let functions = Functions::stdlib();
                    let mut gl = Variables::new();
                    for (k, v) in &cfg.globals {
                        gl.add(Identifier::from(k.as_str()), v.clone()).unwrap();
                    }
                    let config = ExecutionConfig::new(&functions, &gl).lazy(lazy);
                    let mut graph = tree_sitter_graph::graph::Graph::new();
                    let res = case.loaded.file.execute_into(&mut graph, &case.source.tree, &case.source.src, &config, &NoCancellation);
                    let g = crate::export::graph_sexp(&graph, Some(case.info));
                    let same_ok = res.is_ok() == (base.class == "ok");
                    if !same_ok || Some(&g) != base.run.graph.as_ref() {
                        rep.fail("direct", &format!("C11 {}: a never-signalling flag changes the result", mode), true,
                            json!({"tsg": case.tsg, "source": case.source.src, "mode": mode}));
                    }
                }
                if let Some((_, _, mpolls)) = parts(&base.model) {
                    if n < mpolls {
                        rep.fail("disagreement", &format!("C11 {}: implementation polls fewer times ({}) than the model's mandatory polls ({})", mode, n, mpolls), true,
                            json!({"tsg": case.tsg, "source": case.source.src, "mode": mode, "implementation_polls": n, "model_polls": mpolls}));
                    } else if n != mpolls {
                        rep.count("soft:poll-count-differs");
                    }
                }
                let upto = n.min(max_k);
                // every k for runs of ordinary length; for very long runs (wide sources: thousands of polls, and every k is a
                // whole run) the first 600 polls, the last 200 and an even sample in between
                let ks: Vec<usize> = if upto <= 1500 {
                    (1..=upto).collect()
                } else {
                    rep.count("cancellation-points-sampled-in-a-long-run");
                    let mut v: Vec<usize> = (1..=600).collect();
                    let stride = ((upto - 800) / 400).max(1);
                    let mut k = 601;
                    while k + 200 <= upto {
                        v.push(k);
                        k += stride;
                    }
                    v.extend(upto - 199..=upto);
                    v
                };
                for k in ks {
                    let cfgk = RunCfg { cancel_at: Some(k), ..cfg.clone() };
                    let ir = run_impl(&case.loaded.file, &case.source.tree, &case.source.src, case.info, &cfgk);
                    rep.count("cancellation-points");
                    let ok = ir.outcome.tag() == Some("err")
                        && ir.outcome.as_list().unwrap()[1].tag() == Some("base")
                        && ir.outcome.as_list().unwrap()[1].as_list().unwrap()[1].as_atom() == Some("Cancelled")
                        && ir.polls == k;
                    if !ok {
                        rep.fail("direct", &format!("C11 {}: cancelling at a poll does not surface as top-level Cancelled with exactly k polls", mode), true,
                            json!({"tsg": case.tsg, "source": case.source.src, "mode": mode, "k": k, "N": n, "observed": ir.outcome.pretty(), "polls": ir.polls}));
                        break;
                    }
                }
                // model agreement at sampled cancellation points
                if n > 0 {
                    for k in [1, n, 1 + r.below(n)] {
                        let cfgk = RunCfg { cancel_at: Some(k), ..cfg.clone() };
                        runner.check_mode(rep, case, &cfgk, true, false);
                    }
                }
            }
        });
}
