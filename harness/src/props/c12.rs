//! C12 — results are deterministic and a loaded file is reusable without cross-talk.
//! Direct oracle: transcript equality — the same text loaded R times (AST dump or diagnostic), one loaded file
//! executed on several trees in interleaved order and from T threads sharing `&File`, and P separate OS
//! processes (fresh hash seeds) given the same seed. Correspondence: one run per case against the (pure) model.
use crate::execx::{run_impl, RunCfg, GLOBALS_CHANGED};
use crate::gen::dsl::{gen_program, Opts};
use crate::props::common::*;
use crate::props::runner::*;
use crate::report::{hash_of, Report};
use crate::rng::Rng;
use crate::tree::TreeInfo;
use serde_json::json;
use std::process::Command;

fn opts_for(pi: usize, r: &mut Rng) -> Opts {
    Opts { fragment: false, fault_pct: if pi % 3 == 2 { 100 } else { 0 }, max_stanzas: 4, allow_print: false, universal: r.chance(1, 2), probe: false, scoped_heavy: pi % 4 == 1, keywordish_names: false, static_fault: 0 }
}

/// texts with one static fault (diagnostics must be reproducible too)
fn faulty_variant(r: &mut Rng, text: &str) -> String {
    match r.below(4) {
        0 => text.replacen("node ", "node undefined_scope_var.", 1),
        1 => text.replacen("{\n", "{\n  let dup = 1\n  let dup = 2\n", 1),
        2 => text.replacen(") @", ") @unused_a @unused_b @", 1),
        _ => text.replacen("attr (", "attr ((undefined-var) ", 1),
    }
}

/// programs whose diagnostics would depend on hash-map iteration order if anything iterated one: several
/// independently failing, unread scoped variables; several unused captures; several conflicting attributes
fn hash_order_hostile(r: &mut Rng) -> String {
    let names = ["alpha", "bravo", "charlie", "delta", "echo", "foxtrot", "golf"];
    let k = r.range(2, 6);
    let mut t = String::new();
    match r.below(4) {
        3 => {
            // attribute names that differ in CASE only, on one node and on one edge: the printed order is by name, exactly
            let variants = ["name", "Name", "NAME", "nAme", "naMe", "namE"];
            t.push_str("(module) @_m {\n  node n\n  node e\n  edge n -> e\n");
            for (i, v) in variants[..k].iter().enumerate() {
                t.push_str(&format!("  attr (n) {} = {}\n  attr (n -> e) {} = {}\n", v, i, v, i));
            }
            t.push_str("}\n");
        }
        0 => {
            t.push_str("(module) @m {\n");
            for n in &names[..k] {
                t.push_str(&format!("  let @m.{} = 1\n  let @m.{} = 2\n", n, n));
            }
            t.push_str("}\n");
        }
        1 => {
            // the same across two stanzas, definitions interleaved with unrelated work
            t.push_str("(module) @m {\n  node n\n");
            for n in &names[..k] {
                t.push_str(&format!("  let @m.{} = (node)\n", n));
            }
            t.push_str("}\n(module) @m2 {\n");
            for n in names[..k].iter().rev() {
                t.push_str(&format!("  let @m2.{} = \"again\"\n", n));
            }
            t.push_str("}\n");
        }
        _ => {
            let caps: Vec<String> = names[..k].iter().map(|n| format!("@{}", n)).collect();
            t.push_str(&format!("(module (_) {}) @_m {{ }}\n", caps.join(" ")));
        }
    }
    t
}

/// programs that fail inside a library function on their data (invalid regular expression, format arity): the
/// failure must be the same whatever ran before in the process — nothing may be remembered from one call to the next
/// scan arms that can match at the same position: which arm runs must depend on the text only, not on which arm ran last in
/// an earlier execution of the same loaded file
fn scan_history_hostile(r: &mut Rng) -> String {
    let (a1, a2) = *r.pick(&[("a", "[a-z]"), ("[a-c]", "[a-z]+"), ("ab", "a"), ("[a-z]", "[a-z0-9]")]);
    format!("(identifier) @id {{\n  scan (source-text @id) {{\n    \"{}\" {{\n      node h1\n      attr (h1) arm = \"first\", t = $0\n    }}\n    \"{}\" {{\n      node h2\n      attr (h2) arm = \"second\", t = $0\n    }}\n  }}\n}}\n", a1, a2)
}

/// an inherited variable with SEVERAL defining proper ancestors: the nearest one wins, on every run
fn ancestor_hostile(r: &mut Rng) -> String {
    let name = *r.pick(&["owner", "scope", "ctx"]);
    format!("inherit .{n}\n(class_definition) @c {{\n  let @c.{n} = \"class\"\n}}\n(function_definition) @f {{\n  let @f.{n} = \"function\"\n}}\n(block) @b {{\n  let @b.{n} = (start-row @b)\n}}\n(pass_statement) @p {{\n  node n\n  attr (n) seen = @p.{n}\n}}\n(identifier) @i {{\n  node m\n  attr (m) seen = @i.{n}\n}}\n", n = name)
}

/// list captures that receive MANY nodes (more than any inline buffer holds) hanging in several hidden repeat nodes: the value
/// lists them in document order, on every run, for every re-parse of the same text
fn wide_capture_hostile(r: &mut Rng) -> String {
    let (pat, cap) = *r.pick(&[("(module (_)* @tops) @m", "tops"), ("(module (expression_statement (identifier) @tops)*) @m", "tops"), ("(module (expression_statement)+ @tops) @m", "tops"),
        ("(block (_)+ @tops) @m", "tops"), ("(argument_list (_)* @tops) @m", "tops"), ("(parameters (identifier)* @tops) @m", "tops")]);
    format!("{} {{\n  let _u = @m\n  node n\n  attr (n) all = @{c}, texts = [ (source-text t) for t in @{c} ], count = (length @{c})\n  for t in @{c} {{\n    node x\n    attr (x) t = (source-text t), row = (start-row t)\n  }}\n}}\n", pat, c = cap)
}

const WIDE_SRCS: &[&str] = &[
    "a0\na1\na2\na3\na4\na5\na6\na7\na8\na9\na10\na11\na12\na13\na14\na15\na16\na17\na18\na19\na20\na21\na22\na23\na24\na25\na26\na27\na28\na29\na30\na31\na32\na33\na34\na35\na36\na37\na38\na39\n",
    "def f(p0, p1, p2, p3, p4, p5, p6, p7, p8, p9, p10, p11):\n    b0\n    b1\n    b2\n    b3\n    b4\n    b5\n    b6\n    b7\n    b8\n    b9\n    b10\n    b11\n    return g(p0, p1, p2, p3, p4, p5, p6, p7, p8, p9, p10, p11)\n",
    "x0\npass\nx1\ny = 2\nx2\nx3\nx4\npass\nx5\nx6\nx7\nx8\nx9\nx10\nx11\nx12\n",
];

const NESTED_SRC: &str = "class K:\n    def m(self):\n        pass\n    def n(self):\n        if a:\n            pass\n";

fn history_hostile(r: &mut Rng) -> String {
    let bad = *r.pick(&["(", "[z-a]", "a{2,1}", "(?P<n>", "\\"]);
    let subject = *r.pick(&["a-b-c", "abc", "x(y"]);
    match r.below(6) {
        0 => format!("(module) @m {{\n  node n\n  attr (n) out = (replace \"{}\" \"{}\" \"+\")\n}}\n", subject, bad),
        1 => format!("(module) @m {{\n  node n\n  attr (n) fine = (replace \"a-b\" \"-\" \"+\")\n}}\n(module) @m2 {{\n  node n2\n  attr (n2) out = (replace \"{}\" \"{}\" \"+\")\n}}\n", subject, bad),
        2 => format!("(module) @m {{\n  node n\n  if (eq (replace \"{}\" \"{}\" \"\") \"\") {{\n    attr (n) empty\n  }}\n}}\n", subject, bad),
        3 => format!("(module) @m {{\n  node n\n  attr (n) out = (format \"{{}}{{}}\" \"{}\")\n}}\n", subject),
        // the pattern comes from the source: valid on one tree, invalid on the next (see `hostile_sources`)
        _ => format!("(string_content) @c {{\n  node n\n  attr (n) out = (replace \"{}\" (source-text @c) \"+\")\n}}\n", subject),
    }
}

/// transcript of one (text, source) pair: load result and both modes' results, all in canonical form
fn transcript(text: &str, src: &str, globals: &[(String, tree_sitter_graph::graph::Value)]) -> String {
    match load(text) {
        Err(()) => "load-panic".to_string(),
        Ok(Err(msg)) => format!("rejected: {}", msg),
        Ok(Ok(file)) => {
            let tree = crate::tree::parse_python(src);
            let info = TreeInfo::new(&tree);
            let mut out = format!("ast:{:x}", hash_of(&crate::astx::file(&file).to_text()));
            for lazy in [false, true] {
                let cfg = RunCfg { lazy, globals: globals.to_vec(), outer_globals: vec![], debug: None, cancel_at: None };
                let ir = run_impl(&file, &tree, src, &info, &cfg);
                out.push_str(&format!("|{}:{}:{:x}", lazy, ir.outcome.to_text(), hash_of(&ir.graph.map(|g| g.to_text()))));
                // the PRINTED graph too (attribute lines are sorted by name): it must not depend on the process either
                out.push_str(&format!(":pp={:x}", hash_of(&exec_pretty(&file, &tree, src, globals, lazy))));
                // the rendered message too (statement texts, values): it must not depend on what ran before
                out.push_str(&format!(":msg={}", exec_message(&file, &tree, src, globals, lazy)));
            }
            out
        }
    }
}

fn exec_pretty(file: &tree_sitter_graph::ast::File, tree: &tree_sitter::Tree, src: &str, globals: &[(String, tree_sitter_graph::graph::Value)], lazy: bool) -> String {
    let r = std::panic::catch_unwind(std::panic::AssertUnwindSafe(|| {
        let functions = tree_sitter_graph::functions::Functions::stdlib();
        let mut gl = tree_sitter_graph::Variables::new();
        for (k, v) in globals {
            let _ = gl.add(tree_sitter_graph::Identifier::from(k.as_str()), v.clone());
        }
        let config = tree_sitter_graph::ExecutionConfig::new(&functions, &gl).lazy(lazy);
        match file.execute(tree, src, &config, &tree_sitter_graph::NoCancellation) {
            // syntax-node values print with their position, not their address: the text is process-independent
            Ok(g) => format!("{}", g.pretty_print()),
            Err(_) => String::new(),
        }
    }));
    r.unwrap_or_else(|_| "panic".to_string())
}

fn exec_message(file: &tree_sitter_graph::ast::File, tree: &tree_sitter::Tree, src: &str, globals: &[(String, tree_sitter_graph::graph::Value)], lazy: bool) -> String {
    let r = std::panic::catch_unwind(std::panic::AssertUnwindSafe(|| {
        let functions = tree_sitter_graph::functions::Functions::stdlib();
        let mut gl = tree_sitter_graph::Variables::new();
        for (k, v) in globals {
            let _ = gl.add(tree_sitter_graph::Identifier::from(k.as_str()), v.clone());
        }
        let config = tree_sitter_graph::ExecutionConfig::new(&functions, &gl).lazy(lazy);
        match file.execute(tree, src, &config, &tree_sitter_graph::NoCancellation) {
            Ok(_) => "ok".to_string(),
            Err(e) => format!("{}", e),
        }
    }));
    format!("{:x}", hash_of(&r.unwrap_or_else(|_| "panic".to_string())))
}

/// `tsg-verif c12-child <seed> <n> [only]`: prints one transcript line per case (or only that of case `only`,
/// run alone in this fresh process)
pub fn child(seed: u64, n: usize, only: Option<usize>) {
    // the printed graph is part of the transcript: no sets of several syntax nodes (their order follows addresses; DESIGN 0.6)
    crate::gen::dsl::NO_SYNTAX_NODE_SETS.with(|c| c.set(true));
    let root = Rng::new(seed);
    let pool = pool();
    for pi in 0..n {
        if let Some(k) = only {
            if pi != k {
                continue;
            }
        }
        let mut r = root.fork(pi as u64);
        let opts = opts_for(pi, &mut r);
        let program = gen_program(&mut r, &pool, &opts);
        let text = if pi % 11 == 10 { history_hostile(&mut r) } else if pi % 11 == 9 { scan_history_hostile(&mut r) } else if pi % 11 == 8 { ancestor_hostile(&mut r) } else if pi % 11 == 7 { wide_capture_hostile(&mut r) } else if pi % 5 == 4 { faulty_variant(&mut r, &program.text) } else if pi % 7 == 6 { hash_order_hostile(&mut r) } else { program.text.clone() };
        let source = gen_source(&mut r, true, false);
        let globals = supply_globals(&mut r, &program);
        let src_text = if pi % 11 == 8 { NESTED_SRC.to_string() } else if pi % 11 == 7 { WIDE_SRCS[pi % 3].to_string() } else { source.src.clone() };
        println!("{}", transcript(&text, &src_text, &globals));
    }
}

pub fn run(rep: &mut Report, tier: &str, seed: u64) {
    rep.rule = "generated files (valid, with runtime faults, and with one static fault) x small sources: each text loaded 3 times; each loaded file executed (both modes) on 3 trees \
                in two interleavings and from T threads sharing &File; P child processes (fresh hash seeds) reproduce the whole transcript from the same seed; \
                non-trivial = the file loads and has a match; distinct by (text, source)".to_string();
    rep.correspondence = "exec: each case once against the model (a pure function of its inputs)".to_string();
    let (n_programs, threads, procs) = if tier == "thorough" { (600, 16, 6) } else { (60, 4, 3) };
    // one function table for every execution of this process, the threads included (a caller builds `Functions::stdlib()` once)
    crate::execx::SHARE_FUNCTIONS.store(true, std::sync::atomic::Ordering::SeqCst);
    crate::gen::dsl::NO_SYNTAX_NODE_SETS.with(|c| c.set(true));
    // processes
    {
        let exe = std::env::current_exe().expect("current exe");
        let n = n_programs;
        let mut outputs = Vec::new();
        for _ in 0..procs {
            let o = Command::new(&exe).args(["c12-child", &seed.to_string(), &n.to_string()]).stderr(std::process::Stdio::null()).output().expect("spawn child");
            outputs.push(String::from_utf8_lossy(&o.stdout).to_string());
        }
        rep.count_n("child-processes", procs);
        let first: Vec<&str> = outputs[0].lines().collect();
        // isolation: a case run ALONE in a fresh process gives the line it gave in sequence (no state carried from
        // one loaded file or execution to the next)
        let failing: Vec<usize> = first.iter().enumerate().filter(|(_, l)| l.contains("(err ")).map(|(i, _)| i).collect();
        let mut sample: Vec<usize> = failing.iter().cloned().step_by((failing.len() / (if tier == "thorough" { 60 } else { 12 })).max(1)).collect();
        // the history-hostile cases are always re-run alone
        for i in failing.iter().cloned().filter(|i| i % 11 == 10).take(if tier == "thorough" { 40 } else { 6 }) {
            if !sample.contains(&i) {
                sample.push(i);
            }
        }
        for i in sample {
            let o = Command::new(&exe).args(["c12-child", &seed.to_string(), &n.to_string(), &i.to_string()]).stderr(std::process::Stdio::null()).output().expect("spawn child");
            let alone = String::from_utf8_lossy(&o.stdout).to_string();
            rep.count("isolated-reruns");
            if alone.trim_end() != first[i] {
                rep.fail("direct", "C12 a case run alone in a fresh process differs from the same case run after others", true,
                    json!({"seed": seed, "case_index": i, "in_sequence": first[i], "alone": alone.trim_end(),
                           "how_to_replay": format!("tsg-verif c12-child {} {} {}   vs line {} of   tsg-verif c12-child {} {}", seed, n, i, i + 1, seed, n)}));
            }
        }
        rep.count_n("transcript-lines-per-process", first.len());
        for (k, o) in outputs.iter().enumerate().skip(1) {
            let lines: Vec<&str> = o.lines().collect();
            if lines != first {
                let idx = first.iter().zip(lines.iter()).position(|(a, b)| a != b).unwrap_or(first.len().min(lines.len()));
                rep.fail("direct", "C12 two processes given the same seed produce different results", true,
                    json!({"seed": seed, "case_index": idx, "process_0": first.get(idx), "process_k": lines.get(idx), "k": k,
                           "how_to_replay": format!("tsg-verif c12-child {} {} (compare line {})", seed, n, idx + 1)}));
                break;
            }
        }
    }
    let mut runner = Runner::new("C12");
    let root = Rng::new(seed);
    let pool = runner.pool.clone();
    for pi in 0..n_programs {
        let mut r = root.fork(pi as u64);
        let opts = opts_for(pi, &mut r);
        let program = gen_program(&mut r, &pool, &opts);
        let text = if pi % 11 == 10 { history_hostile(&mut r) } else if pi % 11 == 9 { scan_history_hostile(&mut r) } else if pi % 11 == 8 { ancestor_hostile(&mut r) } else if pi % 11 == 7 { wide_capture_hostile(&mut r) } else if pi % 5 == 4 { faulty_variant(&mut r, &program.text) } else if pi % 7 == 6 { hash_order_hostile(&mut r) } else { program.text.clone() };
        let _ = gen_source(&mut r, true, false); // keep the PRNG stream aligned with `child`
        let globals = supply_globals(&mut r, &program);
        // (1) repeated loading
        let loads: Vec<String> = (0..3).map(|_| match load(&text) {
            Ok(Ok(f)) => format!("ast:{}", crate::astx::file(&f).to_text()),
            Ok(Err(m)) => format!("rejected:{}", m),
            Err(()) => "panic".to_string(),
        }).collect();
        rep.count(if loads[0].starts_with("ast:") { "loads:accepted" } else { "loads:rejected" });
        if loads.iter().any(|l| l != &loads[0]) {
            rep.fail("direct", "C12 loading the same text twice gives different ASTs or diagnostics", true, json!({"tsg": text, "results": loads.iter().map(|l| l.chars().take(300).collect::<String>()).collect::<Vec<_>>()}));
        }
        let file = match load(&text) {
            Ok(Ok(f)) => f,
            _ => {
                rep.case(&text, false);
                continue;
            }
        };
        // (2) one file, several trees, interleaved and concurrent
        let sources: Vec<Source> = (0..3).map(|_| gen_source(&mut r, true, false)).collect();
        // history-hostile files run on trees whose string is a valid pattern, then an invalid one, twice
        let sources: Vec<Source> = if pi % 11 == 10 {
            let good = *r.pick(&["-", "b", "[a-c]"]);
            let bad = *r.pick(&["(", "[z-a]", "a{2,1}"]);
            [good, bad, bad].iter().map(|p| { let src = format!("x = \"{}\"\n", p); let tree = crate::tree::parse_python(&src); Source { src, tree } }).collect()
        } else if pi % 11 == 8 {
            [NESTED_SRC, NESTED_SRC, "def f():\n    pass\n"].iter().map(|src| { let src = src.to_string(); let tree = crate::tree::parse_python(&src); Source { src, tree } }).collect()
        } else if pi % 11 == 7 {
            [WIDE_SRCS[pi % 3], WIDE_SRCS[(pi + 1) % 3], WIDE_SRCS[pi % 3]].iter().map(|src| { let src = src.to_string(); let tree = crate::tree::parse_python(&src); Source { src, tree } }).collect()
        } else if pi % 11 == 9 {
            ["ab = ba\n", "a = b\n", "ba = a0\n"].iter().map(|src| { let src = src.to_string(); let tree = crate::tree::parse_python(&src); Source { src, tree } }).collect()
        } else {
            sources
        };
        let infos: Vec<TreeInfo> = sources.iter().map(|s| TreeInfo::new(&s.tree)).collect();
        let run_one = |i: usize, lazy: bool| -> String {
            GLOBALS_CHANGED.with(|c| c.set(false));
            let cfg = RunCfg { lazy, globals: globals.clone(), outer_globals: vec![], debug: None, cancel_at: None };
            let ir = run_impl(&file, &sources[i].tree, &sources[i].src, &infos[i], &cfg);
            format!("{}|{}|globals-changed={}", ir.outcome.to_text(), ir.graph.map(|g| g.to_text()).unwrap_or_default(), GLOBALS_CHANGED.with(|c| c.get()))
        };
        // reference: every (tree, mode) on a FRESHLY loaded file — a loaded file that was used before must behave like a new one
        let fresh: Vec<String> = (0..3).flat_map(|i| [false, true].map(|lazy| {
            match load(&text) {
                Ok(Ok(f2)) => {
                    let cfg = RunCfg { lazy, globals: globals.clone(), outer_globals: vec![], debug: None, cancel_at: None };
                    let ir = run_impl(&f2, &sources[i].tree, &sources[i].src, &infos[i], &cfg);
                    format!("{}|{}", ir.outcome.to_text(), ir.graph.map(|g| g.to_text()).unwrap_or_default())
                }
                _ => "not-loadable".to_string(),
            }
        })).collect();
        let isolated: Vec<String> = (0..3).flat_map(|i| [run_one(i, false), run_one(i, true)]).collect();
        if isolated.iter().zip(fresh.iter()).any(|(a, b)| !a.starts_with(b.as_str())) {
            rep.fail("direct", "C12 a loaded file that was executed before gives a different result than a freshly loaded one", true,
                json!({"tsg": text, "sources": sources.iter().map(|s| s.src.clone()).collect::<Vec<_>>()}));
        } else {
            rep.count("reuse-vs-fresh-load-checked");
        }
        let matches: usize = (0..3).map(|i| crate::execx::model_input(&file, &sources[i].tree, &sources[i].src, &infos[i]).n_matches).sum();
        rep.case(&format!("{}\u{0}{}", text, sources[0].src), matches > 0);
        if rep.samples.len() < 2 {
            rep.sample(json!({"tsg": text, "sources": sources.iter().map(|s| s.src.clone()).collect::<Vec<_>>()}));
        }
        // (2b) the same loaded file executed for callers with DIFFERENT globals: everything supplied, then the globals that
        // have a default omitted, then everything again — each run must equal the same run on a freshly loaded file
        {
            let defaulted: Vec<String> = text.lines().filter_map(|l| l.strip_prefix("global ")).filter(|l| l.contains(" = ")).map(|l| l.split(|c: char| !(c.is_alphanumeric() || c == '_')).next().unwrap_or("").to_string()).filter(|n| !n.is_empty()).collect();
            if !defaulted.is_empty() {
                let mut g_all = globals.clone();
                for d in &defaulted {
                    if !g_all.iter().any(|(k, _)| k == d) {
                        g_all.push((d.clone(), tree_sitter_graph::graph::Value::String("supplied".into())));
                    }
                }
                let g_less: Vec<_> = globals.iter().filter(|(k, _)| !defaulted.contains(k)).cloned().collect();
                let run_g = |f: &tree_sitter_graph::ast::File, gl: &Vec<(String, tree_sitter_graph::graph::Value)>, lazy: bool| -> String {
                    let cfg = RunCfg { lazy, globals: gl.clone(), outer_globals: vec![], debug: None, cancel_at: None };
                    let ir = run_impl(f, &sources[0].tree, &sources[0].src, &infos[0], &cfg);
                    format!("{}|{}", ir.outcome.to_text(), ir.graph.map(|g| g.to_text()).unwrap_or_default())
                };
                for lazy in [false, true] {
                    let reused: Vec<String> = [&g_all, &g_less, &g_all].iter().map(|gl| run_g(&file, gl, lazy)).collect();
                    let fresh2: Vec<String> = [&g_all, &g_less, &g_all].iter().map(|gl| match load(&text) { Ok(Ok(f2)) => run_g(&f2, gl, lazy), _ => "not-loadable".to_string() }).collect();
                    if reused != fresh2 {
                        rep.fail("direct", "C12 a loaded file executed for callers with different globals gives a different result than a freshly loaded one", true,
                            json!({"tsg": text, "source": sources[0].src, "lazy": lazy, "defaulted_globals": defaulted}));
                    } else {
                        rep.count("reuse-with-different-globals-checked");
                    }
                }
            }
        }
        if isolated.iter().any(|t| t.ends_with("globals-changed=true")) {
            rep.fail("direct", "C12 execution changed the caller's globals", true, json!({"tsg": text}));
        }
        // interleaving 2: reverse order, modes swapped
        let mut again = vec![String::new(); 6];
        for i in (0..3).rev() {
            again[2 * i + 1] = run_one(i, true);
            again[2 * i] = run_one(i, false);
        }
        if again != isolated {
            rep.fail("direct", "C12 re-executing a loaded file in another order gives a different result", true, json!({"tsg": text, "sources": sources.iter().map(|s| s.src.clone()).collect::<Vec<_>>()}));
        }
        // threads sharing &File
        {
            let file_ref = &file;
            let srcs = &sources;
            let globals_ref = &globals;
            let results: Vec<Vec<String>> = std::thread::scope(|scope| {
                let handles: Vec<_> = (0..threads)
                    .map(|t| {
                        scope.spawn(move || {
                            let mut out = Vec::new();
                            for k in 0..3 {
                                let i = (k + t) % 3;
                                let tree = crate::tree::parse_python(&srcs[i].src);
                                let info = TreeInfo::new(&tree);
                                for lazy in [false, true] {
                                    let cfg = RunCfg { lazy, globals: globals_ref.clone(), outer_globals: vec![], debug: None, cancel_at: None };
                                    let ir = run_impl(file_ref, &tree, &srcs[i].src, &info, &cfg);
                                    out.push((i, lazy, format!("{}|{}", ir.outcome.to_text(), ir.graph.map(|g| g.to_text()).unwrap_or_default())));
                                }
                            }
                            out.sort();
                            out.into_iter().map(|x| x.2).collect::<Vec<String>>()
                        })
                    })
                    .collect();
                handles.into_iter().map(|h| h.join().unwrap_or_default()).collect()
            });
            let want: Vec<String> = isolated.iter().map(|t| t.rsplitn(2, "|globals-changed=").last().unwrap().to_string()).collect();
            for (t, res) in results.iter().enumerate() {
                if res != &want {
                    rep.fail("direct", "C12 concurrent execution of one loaded file differs from the isolated runs", true, json!({"tsg": text, "thread": t}));
                    break;
                }
            }
            rep.count_n("thread-runs", threads * 6);
        }
        // (3) the model, once
        let loaded = Loaded { program: crate::gen::dsl::Program { text: text.clone(), header: String::new(), stanzas: vec![], globals: vec![], stanza_count: 0, has_fault: false, features: vec![], static_fault: None }, file };
        let mi = crate::execx::model_input(&loaded.file, &sources[0].tree, &sources[0].src, &infos[0]);
        runner.set_tree(&infos[0], &sources[0].src);
        runner.table = crate::oracle::OracleTable::new();
        runner.table.arm_sets = crate::astx::scan_arm_sets(&loaded.file);
        let case = Case { tsg: &text, loaded: &loaded, source: &sources[0], info: &infos[0], mi: &mi };
        for lazy in [false, true] {
            runner.check_mode(rep, &case, &RunCfg { lazy, globals: globals.clone(), outer_globals: vec![], debug: None, cancel_at: None }, true, false);
        }
    }
}
