//! C13 — standard-library functions honour their documented contracts.
//! Correspondence: `Functions::stdlib().call` vs `Stdlib.call` (Lean) on generated argument tuples;
//! direct oracle for the syntax functions: tree-sitter's own `Node` API.
use crate::driver::Driver;
use crate::errors;
use crate::gen::python;
use crate::oracle::{ask_with_oracle, OracleTable};
use crate::report::Report;
use crate::rng::Rng;
use crate::sexp::{self, Sexp};
use crate::tree::{parse_python, TreeInfo};
use crate::values::{gen_string, gen_value, value_sexp};
use serde_json::json;
use std::panic::{catch_unwind, AssertUnwindSafe};
use tree_sitter_graph::functions::Functions;
use tree_sitter_graph::graph::{Graph, Value};
use tree_sitter_graph::Identifier;

pub const STDLIB: &[&str] = &[
    "eq", "is-null", "named-child-index", "source-text", "start-row", "start-column", "end-row", "end-column", "node-type",
    "named-child-count", "node", "not", "and", "or", "plus", "format", "replace", "concat", "is-empty", "join", "length",
];

const PATTERNS: &[&str] = &["a", "b+", "[ab]", "(a)(b)?", "x|y", ".", "\\s+", "(", "[", "a{2}", "\u{e9}", "^a", "b$", "", "(?P<n>a)"];
const REPLS: &[&str] = &["", "X", "$1", "$0$0", "${n}", "\u{3bb}", "$", "\\"];

/// type-directed argument tuples: mostly the right shape, with systematic perturbations
fn gen_args<'t>(r: &mut Rng, name: &str, graph: &mut Graph<'t>, info: &TreeInfo<'t>, gnodes: usize) -> Vec<Value> {
    let mut any = |r: &mut Rng, graph: &mut Graph<'t>| -> Value {
        if r.chance(1, 6) && !info.nodes.is_empty() {
            Value::SyntaxNode(graph.add_syntax_node(*r.pick(&info.nodes)))
        } else {
            gen_value(r, 2, gnodes)
        }
    };
    let list_of = |r: &mut Rng, f: &mut dyn FnMut(&mut Rng) -> Value| -> Value {
        let n = r.below(4);
        Value::List((0..n).map(|_| f(r)).collect())
    };
    let mut args: Vec<Value> = match name {
        "eq" if r.chance(1, 4) && !info.nodes.is_empty() => {
            // two DIFFERENT syntax nodes: a node and the nearest node below it, down its first children, that has the same
            // kind and the same start (left-nested `a + b + c`, `x.y.z`, `f(1)(2)`) — else its first child, else itself
            let n = *r.pick(&info.nodes);
            let mut d = n.child(0);
            let mut found = None;
            while let Some(c) = d {
                if c.kind_id() == n.kind_id() && c.start_byte() == n.start_byte() {
                    found = Some(c);
                    break;
                }
                d = c.child(0);
            }
            let other = found.or(n.child(0)).unwrap_or(n);
            vec![Value::SyntaxNode(graph.add_syntax_node(n)), Value::SyntaxNode(graph.add_syntax_node(other))]
        }
        "eq" => {
            let a = any(r, graph);
            let b = if r.chance(1, 2) { a.clone() } else { any(r, graph) };
            vec![a, b]
        }
        "is-null" => vec![any(r, graph)],
        "named-child-index" | "source-text" | "start-row" | "start-column" | "end-row" | "end-column" | "node-type" | "named-child-count" => {
            vec![Value::SyntaxNode(graph.add_syntax_node(*r.pick(&info.nodes)))]
        }
        "node" => vec![],
        "not" => vec![Value::Boolean(r.chance(1, 2))],
        "and" | "or" => (0..r.below(5)).map(|_| Value::Boolean(r.chance(1, 2))).collect(),
        "plus" => (0..r.below(5)).map(|_| Value::Integer(crate::values::gen_int(r))).collect(),
        "format" => {
            let f = match r.below(4) {
                0 => gen_string(r),
                _ => {
                    let parts = ["{}", "{{", "}}", "a", " ", "{", "}", "x{}y", "\u{e9}"];
                    (0..r.below(6)).map(|_| *r.pick(&parts)).collect::<String>()
                }
            };
            let holes = f.matches("{}").count();
            let n = if r.chance(3, 4) { holes } else { r.below(4) };
            let mut v = vec![Value::String(f)];
            for _ in 0..n {
                v.push(any(r, graph));
            }
            v
        }
        "replace" => vec![Value::String(gen_string(r) + *r.pick(&["ab", "aab", "", "xy"])), Value::String(r.pick(PATTERNS).to_string()), Value::String(r.pick(REPLS).to_string())],
        "concat" => (0..r.below(4)).map(|_| list_of(r, &mut |r| gen_value(r, 1, gnodes))).collect(),
        "is-empty" | "length" => vec![list_of(r, &mut |r| gen_value(r, 1, gnodes))],
        "join" => {
            let mut v = vec![list_of(r, &mut |r| gen_value(r, 1, gnodes))];
            if r.chance(2, 3) {
                v.push(Value::String(r.pick(&[", ", "", "-", "\u{e9}"]).to_string()));
            }
            v
        }
        _ => (0..r.below(4)).map(|_| any(r, graph)).collect(),
    };
    // perturbations: wrong arity / wrong type
    match r.below(10) {
        0 => {
            args.push(any(r, graph));
        }
        1 => {
            args.pop();
        }
        2 => {
            if !args.is_empty() {
                let i = r.below(args.len());
                args[i] = any(r, graph);
            }
        }
        3 => {
            args = (0..r.below(5)).map(|_| any(r, graph)).collect();
        }
        _ => {}
    }
    args
}

pub fn run(rep: &mut Report, tier: &str, seed: u64) {
    rep.rule = "every stdlib function x generated argument tuples (type-directed, with arity/type perturbations; length 0-5; all Value variants incl. \
                syntax nodes of generated trees); non-trivial = any call; distinct by (function, encoded arguments)"
        .to_string();
    rep.correspondence = "fn: Functions::stdlib().call result (value + node count | error variant | panic) equals Stdlib.call in the Lean model".to_string();
    let (n_trees, calls_per_tree) = if tier == "thorough" { (30, 2000) } else { (6, 1000) };
    let mut drv = Driver::spawn();
    let root = Rng::new(seed);
    let functions = Functions::stdlib();
    let mut table = OracleTable::new();
    for ti in 0..n_trees {
        let mut r = root.fork(ti as u64);
        let base = python::gen_source(&mut r);
        let src = if ti % 3 == 2 { python::inject_faults(&mut r, &base, 2) } else { base };
        // one tree in six is made of constructs whose nodes the grammar produces through `alias(...)` (a one-line `if` body,
        // soft keywords used as identifiers, `not in` / `is not`, `with .. as ..`): their kind is the aliased name
        let src = if ti % 6 == 1 { "if x: pass\nmatch = 1\nprint = match\nwith f as g: pass\nfor *a, b in c: pass\nu = x not in y\nv = x is not y\nwhile z: break\n".to_string() } else { src };
        // ... and one in six of left-nested expressions: different nodes of one kind that start at the same place
        let src = if ti % 6 == 3 { "q = a + b + c + d\nw = x.y.z.k\nf(1)(2)(3)\nv = a[0][1][2]\nu = a and b and c\n".to_string() } else { src };
        let tree = parse_python(&src);
        let info = TreeInfo::new(&tree);
        for v in info.contract_violations() {
            rep.fail("oracle-contract", &format!("tree-sitter contract: {}", v), false, json!({"source": src}));
        }
        let ack = drv.ask(&sexp::tagged("set-tree", vec![info.to_sexp(&src)]));
        if ack.tag() != Some("ok") {
            rep.fail("disagreement", "driver rejected tree", false, json!({"source": src, "response": ack.to_text()}));
            continue;
        }
        rep.count("trees");
        rep.count_n("tree-nodes", info.nodes.len());
        let syn = |n: &tree_sitter_graph::graph::SyntaxNodeRef| -> usize {
            // SyntaxNodeRef exposes only its location; identity is recovered through a scratch lookup below
            let _ = n;
            unreachable!()
        };
        let _ = syn;
        for ci in 0..calls_per_tree {
            let name = if ci % 8 == 7 { "no-such-function" } else { STDLIB[(ci + r.below(3)) % STDLIB.len()] };
            let mut graph = Graph::new();
            let gnodes = r.below(4);
            for _ in 0..gnodes {
                graph.add_graph_node();
            }
            let args = gen_args(&mut r, name, &mut graph, &info, gnodes);
            // map SyntaxNodeRef -> pre-order index: go through the graph's own table (Index impl)
            let graph_ref = &graph;
            let syn_ix = |sr: &tree_sitter_graph::graph::SyntaxNodeRef| -> usize { info.index_of(&graph_ref[*sr]) };
            let args_sexp: Vec<Sexp> = args.iter().map(|a| value_sexp(a, &syn_ix)).collect();
            let call_args = args.clone();
            let result = catch_unwind(AssertUnwindSafe(|| {
                let mut g = Graph::new();
                for _ in 0..gnodes {
                    g.add_graph_node();
                }
                // re-register the syntax nodes in the fresh graph
                for n in &info.nodes {
                    g.add_syntax_node(*n);
                }
                let r = functions.call(&Identifier::from(name), &mut g, &src, &mut call_args.into_iter());
                let count = g.node_count();
                match r {
                    Ok(v) => {
                        let sx = |sr: &tree_sitter_graph::graph::SyntaxNodeRef| -> usize { info.index_of(&g[*sr]) };
                        sexp::tagged("ok", vec![value_sexp(&v, &sx), sexp::nat(count)])
                    }
                    Err(e) => errors::err_sexp(&e),
                }
            }));
            let expected = match result {
                Ok(s) => s,
                Err(_) => sexp::tagged("panic", vec![]),
            };
            let key = format!("{} {}", name, sexp::list(args_sexp.clone()).to_text());
            rep.case(&key, true);
            rep.count(&format!("fn:{}", name));
            rep.count(&format!("outcome:{}", expected.as_list().map(|l| l.iter().take(if expected.tag() == Some("err") { 2 } else { 1 }).map(|x| x.to_text()).collect::<Vec<_>>().join(" ")).unwrap_or_default()));
            if ci < 2 && ti == 0 {
                rep.sample(json!({"function": name, "args": sexp::list(args_sexp.clone()).pretty(), "implementation": expected.pretty()}));
            }
            let name_s = name.to_string();
            let build = |orc: &Sexp| sexp::tagged("fn", vec![sexp::st(&name_s), sexp::list(args_sexp.clone()), sexp::nat(gnodes), orc.clone()]);
            let got = ask_with_oracle(&mut drv, &mut table, &build);
            // panics carry a site only on the model side
            let same = if expected.tag() == Some("panic") { got.tag() == Some("panic") } else { expected == got };
            if !same {
                let kind = if expected.tag() == Some("panic") { "impl-panic" } else { "disagreement" };
                rep.fail(
                    kind,
                    &format!("C13 stdlib `{}`: implementation {} / model {}", name, short(&expected), short(&got)),
                    true,
                    json!({"function": name, "args": sexp::list(args_sexp.clone()).pretty(), "source": src,
                           "implementation": expected.pretty(), "model": got.pretty()}),
                );
            } else if expected.tag() == Some("panic") {
                rep.fail("impl-panic", &format!("C13 stdlib `{}` panics (model agrees: {})", name, got.to_text()), true,
                    json!({"function": name, "args": sexp::list(args_sexp.clone()).pretty(), "source": src}));
            }
            // direct oracle for syntax accessors: tree-sitter's own Node API
            if let (Some(Value::SyntaxNode(sr)), 1) = (args.first(), args.len()) {
                let node = graph[*sr];
                let want: Option<Sexp> = match name {
                    "source-text" => Some(sexp::tagged("str", vec![sexp::st(&src[node.byte_range()])])),
                    "start-row" => Some(sexp::tagged("int", vec![sexp::nat(node.start_position().row)])),
                    "start-column" => Some(sexp::tagged("int", vec![sexp::nat(node.start_position().column)])),
                    "end-row" => Some(sexp::tagged("int", vec![sexp::nat(node.end_position().row)])),
                    "end-column" => Some(sexp::tagged("int", vec![sexp::nat(node.end_position().column)])),
                    "node-type" => Some(sexp::tagged("str", vec![sexp::st(node.kind())])),
                    "named-child-count" => Some(sexp::tagged("int", vec![sexp::nat(node.named_child_count())])),
                    _ => None,
                };
                if let Some(w) = want {
                    rep.count("direct-oracle-syntax-accessor");
                    let ok = expected.as_list().map(|l| l.len() == 3 && l[1] == w).unwrap_or(false);
                    if !ok {
                        rep.fail("direct", &format!("C13 `{}` differs from tree-sitter's Node API", name), true,
                            json!({"function": name, "source": src, "node": info.index_of(&node), "implementation": expected.pretty(), "tree_sitter": w.pretty()}));
                    }
                }
            }
        }
    }
    rep.count_n("regex-oracle-questions", table.rx_asked + table.rp_asked);
}

fn short(s: &Sexp) -> String {
    match s.tag() {
        Some("ok") => "ok".to_string(),
        Some("err") => s.to_text(),
        Some("panic") => "panic".to_string(),
        _ => s.to_text().chars().take(40).collect(),
    }
}
