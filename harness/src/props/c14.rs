//! C14 — JSON and pretty-printed output encode the graph faithfully and completely.
//! Correspondence: `serde_json::to_value(&graph)` vs `J.ofGraph`, `pretty_print()` vs `Pretty.pretty`.
//! Direct oracle: decode the real JSON (text round-trip included) and compare with the in-memory API.
use crate::driver::Driver;
use crate::export::graph_sexp;
use crate::gen::python;
use crate::report::Report;
use crate::rng::Rng;
use crate::sexp::{self, Sexp};
use crate::tree::{parse_python, TreeInfo};
use crate::values::{cmp_val_sexp, gen_int, gen_string, gnode_ref};
use serde_json::{json, Value as J};
use std::collections::BTreeSet;
use tree_sitter_graph::graph::{Graph, Value};
use tree_sitter_graph::Identifier;

// names that are prefixes of one another, continued by a digit, a letter, `-`, `_`, a space: sorting is by NAME, not by
// the rendered line `name: value`
const KEYS: &[&str] = &["a", "b", "name", "k-1", "_x", "\u{e9}", "z\"q", "A", "type", "id", "a1", "a10", "a 1", "a-b", "a_b", "name2", "names", "k", "k-"];

/// values of every variant. Inside a set at most one syntax node occurs (at any depth): the order of
/// two syntax nodes inside a `BTreeSet` follows their address-derived ids, which is not observable
/// behaviour the property constrains (the JSON comparison sorts set elements; the pretty text cannot).
pub fn gen_value_syn<'t>(r: &mut Rng, depth: usize, gnodes: usize, graph: &mut Graph<'t>, info: &TreeInfo<'t>) -> Value {
    let mut budget = usize::MAX;
    gen_value_syn_b(r, depth, gnodes, graph, info, &mut budget)
}

fn gen_value_syn_b<'t>(r: &mut Rng, depth: usize, gnodes: usize, graph: &mut Graph<'t>, info: &TreeInfo<'t>, syn_budget: &mut usize) -> Value {
    let top = if depth == 0 { 7 } else { 9 };
    match r.below(top) {
        0 => Value::Null,
        1 => Value::Boolean(r.chance(1, 2)),
        2 => Value::Integer(gen_int(r)),
        3 | 4 => Value::String(gen_string(r)),
        5 => {
            if *syn_budget > 0 {
                *syn_budget -= 1;
                Value::SyntaxNode(graph.add_syntax_node(*r.pick(&info.nodes)))
            } else {
                Value::Integer(7)
            }
        }
        6 => {
            if gnodes > 0 {
                gnode_ref(r.below(gnodes))
            } else {
                Value::Null
            }
        }
        7 => {
            let n = r.below(4);
            Value::List((0..n).map(|_| gen_value_syn_b(r, depth - 1, gnodes, graph, info, syn_budget)).collect())
        }
        _ => {
            let n = r.below(4);
            let mut inner = (*syn_budget).min(1);
            let v = Value::Set((0..n).map(|_| gen_value_syn_b(r, depth - 1, gnodes, graph, info, &mut inner)).collect::<BTreeSet<_>>());
            if *syn_budget != usize::MAX {
                *syn_budget = inner;
            }
            v
        }
    }
}

pub fn gen_graph<'t>(r: &mut Rng, info: &TreeInfo<'t>) -> Graph<'t> {
    let mut g = Graph::new();
    let n = match r.below(6) {
        0 => 0,
        1 => 1,
        _ => r.range(2, 40),
    };
    let refs: Vec<_> = (0..n).map(|_| g.add_graph_node()).collect();
    for i in 0..n {
        for _ in 0..r.below(4) {
            let k = r.pick(KEYS).to_string();
            let v = gen_value_syn(r, 3, n, &mut g, info);
            let _ = g[refs[i]].attributes.add(Identifier::from(k.as_str()), v);
        }
        let ne = if r.chance(1, 8) { r.range(9, 14) } else { r.below(4) };
        for _ in 0..ne {
            let sink = refs[r.below(n)];
            let mut attrs = Vec::new();
            for _ in 0..r.below(3) {
                attrs.push((r.pick(KEYS).to_string(), gen_value_syn(r, 2, n, &mut g, info)));
            }
            let e = match g[refs[i]].add_edge(sink) {
                Ok(e) | Err(e) => e,
            };
            for (k, v) in attrs {
                let _ = e.attributes.add(Identifier::from(k.as_str()), v);
            }
        }
    }
    g
}

/// canonical encoding of a JSON value (object keys sorted; syntax-node ids mapped to pre-order indices)
pub fn json_sexp(j: &J, info: &TreeInfo) -> Sexp {
    match j {
        J::Null => sexp::atom("jnull"),
        J::Bool(b) => sexp::tagged("jbool", vec![sexp::boolean(*b)]),
        J::Number(n) => sexp::tagged("jnum", vec![sexp::atom(&n.to_string())]),
        J::String(s) => sexp::tagged("jstr", vec![sexp::st(s)]),
        J::Array(xs) => sexp::tagged("jarr", xs.iter().map(|x| json_sexp(x, info)).collect()),
        J::Object(m) => {
            let is_syn = m.get("type") == Some(&J::String("syntaxNode".to_string())) && m.len() == 2;
            let mut items: Vec<(String, Sexp)> = m
                .iter()
                .map(|(k, v)| {
                    if is_syn && k == "id" {
                        let raw = v.as_u64().unwrap_or(u64::MAX) as u32;
                        let mapped = info.index_of_id.get(&raw).copied().unwrap_or(usize::MAX);
                        (k.clone(), sexp::tagged("jnum", vec![sexp::nat(mapped)]))
                    } else {
                        (k.clone(), json_sexp(v, info))
                    }
                })
                .collect();
            items.sort_by(|a, b| a.0.cmp(&b.0));
            sexp::tagged("jobj", items.into_iter().map(|(k, v)| sexp::list(vec![sexp::st(&k), v])).collect())
        }
    }
}

/// independent decoder of the documented JSON shape -> canonical graph encoding
fn decode_value(j: &J, info: &TreeInfo) -> Option<Sexp> {
    let o = j.as_object()?;
    let ty = o.get("type")?.as_str()?;
    Some(match ty {
        "null" if o.len() == 1 => sexp::tagged("null", vec![]),
        "bool" if o.len() == 2 => sexp::tagged("bool", vec![sexp::boolean(o.get("bool")?.as_bool()?)]),
        "int" if o.len() == 2 => sexp::tagged("int", vec![sexp::nat(o.get("int")?.as_u64()? as usize)]),
        "string" if o.len() == 2 => sexp::tagged("str", vec![sexp::st(o.get("string")?.as_str()?)]),
        "list" if o.len() == 2 => sexp::tagged("list", o.get("values")?.as_array()?.iter().map(|x| decode_value(x, info)).collect::<Option<Vec<_>>>()?),
        "set" if o.len() == 2 => {
            let mut xs = o.get("values")?.as_array()?.iter().map(|x| decode_value(x, info)).collect::<Option<Vec<_>>>()?;
            let n = xs.len();
            xs.sort_by(|a, b| cmp_val_sexp(a, b));
            xs.dedup();
            if xs.len() != n {
                return None; // a set must not list an element twice
            }
            sexp::tagged("set", xs)
        }
        "syntaxNode" if o.len() == 2 => sexp::tagged("syn", vec![sexp::nat(*info.index_of_id.get(&(o.get("id")?.as_u64()? as u32))?)]),
        "graphNode" if o.len() == 2 => sexp::tagged("gnode", vec![sexp::nat(o.get("id")?.as_u64()? as usize)]),
        _ => return None,
    })
}

fn decode_attrs(j: &J, info: &TreeInfo) -> Option<Sexp> {
    let mut items: Vec<(String, Sexp)> = j.as_object()?.iter().map(|(k, v)| Some((k.clone(), decode_value(v, info)?))).collect::<Option<Vec<_>>>()?;
    items.sort_by(|a, b| a.0.cmp(&b.0));
    Some(sexp::list(items.into_iter().map(|(k, v)| sexp::list(vec![sexp::st(&k), v])).collect()))
}

fn decode_graph(j: &J, info: &TreeInfo) -> Option<Sexp> {
    let mut nodes = vec![sexp::atom("graph")];
    for (i, n) in j.as_array()?.iter().enumerate() {
        let o = n.as_object()?;
        if o.len() != 3 || o.get("id")?.as_u64()? as usize != i {
            return None;
        }
        let mut edges = Vec::new();
        let mut last: Option<u64> = None;
        for e in o.get("edges")?.as_array()? {
            let eo = e.as_object()?;
            if eo.len() != 2 {
                return None;
            }
            let sink = eo.get("sink")?.as_u64()?;
            if let Some(l) = last {
                if sink <= l {
                    return None; // ascending, once each
                }
            }
            last = Some(sink);
            edges.push(sexp::list(vec![sexp::nat(sink as usize), decode_attrs(eo.get("attrs")?, info)?]));
        }
        nodes.push(sexp::list(vec![decode_attrs(o.get("attrs")?, info)?, sexp::list(edges)]));
    }
    Some(sexp::list(nodes))
}

/// one graph: model comparisons + direct oracle. Shared with checks that produce graphs by execution.
pub fn check_graph(rep: &mut Report, drv: &mut Driver, g: &Graph, info: &TreeInfo, src: &str, origin: &str) {
    let gs = graph_sexp(g, Some(info));
    // every way of producing text may panic or fail inside the serialiser: guarded, so that the graph is reported
    let guarded = std::panic::catch_unwind(std::panic::AssertUnwindSafe(|| {
        (serde_json::to_value(g).ok(), serde_json::to_string_pretty(g).ok(), serde_json::to_string(g).ok())
    }));
    let (jv, text, compact) = match guarded {
        Ok((Some(a), Some(b), Some(c))) => (a, b, c),
        Ok(_) => {
            rep.fail("direct", "C14 serialising a graph fails", true, json!({"origin": origin, "source": src, "graph": gs.pretty()}));
            return;
        }
        Err(_) => {
            rep.fail("impl-panic", "C14 serialising a graph panics", true, json!({"origin": origin, "source": src, "graph": gs.pretty()}));
            return;
        }
    };
    match serde_json::from_str::<J>(&compact) {
        Ok(back) if back == jv => {}
        _ => rep.fail("direct", "C14 compact JSON text does not parse back to the serialised value", true, json!({"origin": origin, "source": src, "graph": gs.pretty(), "text": compact})),
    }
    let expected_json = json_sexp(&jv, info);
    let model_json = drv.ask(&sexp::tagged("json", vec![gs.clone()]));
    if expected_json != model_json {
        rep.fail("disagreement", "C14 JSON: model and implementation differ", true,
            json!({"origin": origin, "source": src, "graph": gs.pretty(), "implementation": expected_json.pretty(), "model": model_json.pretty()}));
    }
    // text round trip: what a consumer of the CLI's output sees
    match serde_json::from_str::<J>(&text) {
        Ok(back) if back == jv => {}
        _ => rep.fail("direct", "C14 JSON text does not parse back to the serialised value", true, json!({"origin": origin, "source": src, "graph": gs.pretty(), "text": text})),
    }
    // the file written by `display_json(Some(path))` — what `--output` produces — holds exactly that document, also when the
    // destination exists already and is longer
    {
        let path = std::path::PathBuf::from(format!("/tmp/tsg-verif-c14-{}.json", std::process::id()));
        let stale = format!("{{\"stale\": \"{}\"}}\n", "y".repeat(text.len() + 64));
        let ok = std::fs::write(&path, &stale).is_ok()
            && std::panic::catch_unwind(std::panic::AssertUnwindSafe(|| g.display_json(Some(&path)).is_ok())).unwrap_or(false);
        let written = std::fs::read_to_string(&path).unwrap_or_default();
        let _ = std::fs::remove_file(&path);
        match (ok, serde_json::from_str::<J>(&written)) {
            (true, Ok(back)) if back == jv => rep.count("display-json-to-existing-file-checked"),
            _ => rep.fail("direct", "C14 display_json into an existing (longer) file does not leave exactly the graph's JSON there", true,
                json!({"origin": origin, "source": src, "graph": gs.pretty(), "file_tail": written.chars().rev().take(120).collect::<String>().chars().rev().collect::<String>()})),
        }
    }
    // the output and the in-memory API tell the same story about edges: every listed edge is found by `get_edge`, nothing else is
    {
        let nodes: Vec<_> = g.iter_nodes().collect();
        'outer: for n in &nodes {
            let sinks: Vec<usize> = g[*n].iter_edges().map(|(s, _)| s.index()).collect();
            for m in &nodes {
                let listed = sinks.contains(&m.index());
                if g[*n].get_edge(*m).is_some() != listed {
                    rep.fail("direct", "C14 get_edge disagrees with the edges that iter_edges, the JSON and the pretty form list", true,
                        json!({"origin": origin, "source": src, "graph": gs.pretty(), "source_node": n.index(), "sink": m.index(), "listed": listed}));
                    break 'outer;
                }
            }
        }
    }
    match decode_graph(&jv, info) {
        Some(dec) if dec == gs => {}
        other => rep.fail("direct", "C14 decoding the JSON does not reconstruct the in-memory graph", true,
            json!({"origin": origin, "source": src, "graph": gs.pretty(), "decoded": other.map(|x| x.pretty()), "json": jv})),
    }
    let pretty_real = format!("{}", g.pretty_print());
    let pretty_model = drv.ask(&sexp::tagged("pretty", vec![gs.clone()]));
    if pretty_model != sexp::st(&pretty_real) {
        rep.fail("disagreement", "C14 pretty print: model and implementation differ", true,
            json!({"origin": origin, "source": src, "graph": gs.pretty(), "implementation": pretty_real, "model": pretty_model.pretty()}));
    }
}

pub fn run(rep: &mut Report, tier: &str, seed: u64) {
    rep.rule = "graphs built through the public API: 0-40 nodes, arbitrary edge sets (some nodes > 8 edges), attribute values of every variant \
                nested to depth 3 (quotes, control and non-ASCII characters, syntax-node and graph-node references); non-trivial = at least one attribute or edge; \
                distinct by canonical graph encoding"
        .to_string();
    rep.correspondence = "json / pretty: serde_json::to_value(&graph) (keys sorted, syntax ids mapped) equals J.ofGraph; pretty_print() equals Pretty.pretty".to_string();
    let (n_trees, per_tree) = if tier == "thorough" { (100, 100) } else { (10, 50) };
    let mut drv = Driver::spawn();
    let root = Rng::new(seed);
    for ti in 0..n_trees {
        let mut r = root.fork(ti as u64);
        let src = if ti % 3 == 2 { python::ALIASED[(ti / 3) % python::ALIASED.len()].to_string() } else { python::gen_source(&mut r) };
        let tree = parse_python(&src);
        let info = TreeInfo::new(&tree);
        drv.ask(&sexp::tagged("set-tree", vec![info.to_sexp(&src)]));
        for gi in 0..per_tree {
            let g = gen_graph(&mut r, &info);
            let gs = graph_sexp(&g, Some(&info));
            let mut edges = 0;
            let mut attrs = 0;
            for n in g.iter_nodes() {
                edges += g[n].edge_count();
                attrs += g[n].attributes.iter().count();
            }
            rep.case(&gs.to_text(), edges + attrs > 0);
            rep.count("graphs");
            rep.count_n("nodes", g.node_count());
            rep.count_n("edges", edges);
            rep.count_n("node-attributes", attrs);
            if ti == 0 && gi < 2 {
                rep.sample(json!({"graph": gs.pretty().chars().take(600).collect::<String>()}));
            }
            check_graph(rep, &mut drv, &g, &info, &src, "api");
        }
    }
}
