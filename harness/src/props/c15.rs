//! C15 — debug attributes are correct and do not otherwise change the outcome.
//! Direct oracle: run {plain, debug with fresh names} x {strict, lazy}; success must coincide and the
//! graph with the three attributes removed must equal the plain graph. Correspondence: the model with
//! the same configuration (so the debug attribute values themselves are checked).
use crate::execx::RunCfg;
use crate::gen::dsl::Opts;
use crate::props::runner::*;
use crate::report::Report;
use crate::sexp::{self, Sexp};
use serde_json::json;

const DBG: (&str, &str, &str) = ("dbg_location", "dbg_variable", "dbg_match");

fn strip(g: &Sexp) -> Sexp {
    let strip_attrs = |a: &Sexp| -> Sexp {
        sexp::list(a.as_list().unwrap().iter().filter(|kv| {
            let k = kv.as_list().unwrap()[0].as_str().unwrap();
            k != DBG.0 && k != DBG.1 && k != DBG.2
        }).cloned().collect())
    };
    let l = g.as_list().unwrap();
    let mut out = vec![l[0].clone()];
    for n in &l[1..] {
        let nl = n.as_list().unwrap();
        let edges = sexp::list(nl[1].as_list().unwrap().iter().map(|e| {
            let el = e.as_list().unwrap();
            sexp::list(vec![el[0].clone(), strip_attrs(&el[1])])
        }).collect());
        out.push(sexp::list(vec![strip_attrs(&nl[0]), edges]));
    }
    sexp::list(out)
}

pub fn run(rep: &mut Report, tier: &str, seed: u64) {
    rep.rule = "generated programs (incl. programs creating the same edge from several statements and matches) x sources x {strict, lazy} x \
                {no debug attributes, debug attributes with fresh names}; non-trivial = at least one match; distinct by (program, source)".to_string();
    rep.correspondence = "exec with debug configuration: outcome and graph (incl. the debug attribute values) equal between implementation and model".to_string();
    let n_programs = if tier == "thorough" { 2500 } else { 150 };
    let mut runner = Runner::new("C15");
    // stanzas whose full-match capture tree-sitter drops (three user captures on the root): whatever such a run does, it does
    // the same with and without debug attributes
    for (tsg, src) in [
        ("(identifier) @_a @_b @_c {\n  node n\n}\n", "x = y\n"),
        ("(module) @_a @_b @_c {\n  node n\n  node m\n  edge n -> m\n}\n", "pass\n"),
        ("(identifier) @_a @_b @_c {\n  let u = 1\n}\n(module) @_m {\n  node n\n}\n", "x\n"),
        ("(assignment left: (identifier) @_a @_b @_c) @_asg {\n  node n\n}\n", "x = 1\n"),
    ] {
        let dbg = Some((DBG.0.to_string(), DBG.1.to_string(), DBG.2.to_string()));
        if let Some(classes) = fixed_case(rep, &mut runner, tsg, src, &[None, dbg]) {
            // classes: [plain strict, plain lazy, debug strict, debug lazy]
            for m in 0..2 {
                if (classes[m] == "ok") != (classes[m + 2] == "ok") {
                    rep.fail("direct", &format!("C15 {}: debug attributes change whether execution succeeds (full-match capture lost)", if m == 0 { "strict" } else { "lazy" }), true,
                        json!({"tsg": tsg, "source": src, "plain": classes[m], "debug": classes[m + 2]}));
                }
            }
        }
    }
    campaign(rep, &mut runner, seed, n_programs, 2, false,
        &|pi, r| Opts { fragment: false, fault_pct: if pi % 5 == 4 { 100 } else { 0 }, max_stanzas: 4, allow_print: false, universal: r.chance(1, 2), probe: false, scoped_heavy: false, keywordish_names: false, static_fault: 0 },
        &mut |rep, runner, case, r, _pi| {
            let globals = crate::props::common::supply_globals(r, &case.loaded.program);
            for lazy in [false, true] {
                let mode = if lazy { "lazy" } else { "strict" };
                let plain = runner.check_mode(rep, case, &RunCfg { lazy, globals: globals.clone(), outer_globals: vec![], debug: None, cancel_at: None }, true, false);
                let dbg = runner.check_mode(rep, case, &RunCfg { lazy, globals: globals.clone(), outer_globals: vec![], debug: Some((DBG.0.into(), DBG.1.into(), DBG.2.into())), cancel_at: None }, true, false);
                if plain.class == "panic" || dbg.class == "panic" {
                    continue;
                }
                let replay = json!({"tsg": case.tsg, "source": case.source.src, "mode": mode,
                    "plain": plain.run.outcome.pretty(), "debug": dbg.run.outcome.pretty(),
                    "plain_graph": plain.run.graph.as_ref().map(|g| g.pretty()), "debug_graph": dbg.run.graph.as_ref().map(|g| g.pretty())});
                if (plain.class == "ok") != (dbg.class == "ok") {
                    rep.fail("direct", &format!("C15 {}: debug attributes change whether execution succeeds ({} vs {})", mode, plain.class, dbg.class), true, replay);
                } else if plain.class == "ok" {
                    let stripped = strip(dbg.run.graph.as_ref().unwrap());
                    if Some(&stripped) != plain.run.graph.as_ref() {
                        rep.fail("direct", &format!("C15 {}: graph with debug attributes removed differs from the plain graph", mode), true, replay);
                    } else {
                        rep.count("direct:neutral");
                    }
                }
            }
        });
    location_stream(rep, &mut runner, tier, seed);
    quantified_stream(rep, &mut runner, tier, seed);
}

/// A stanza whose TOP-LEVEL pattern is quantified: one match covers several sibling nodes. The match-node attribute is the
/// first of them (what `Match::full_capture` reports), in both modes.
fn quantified_stream(rep: &mut Report, runner: &mut Runner, tier: &str, seed: u64) {
    use crate::gen::dsl::Program;
    use crate::props::common::{load, Loaded, Source};
    let n = if tier == "thorough" { 60 } else { 8 };
    let root = crate::rng::Rng::new(seed ^ 0x9a47);
    for i in 0..n {
        let mut r = root.fork(i as u64);
        let (pat, unit) = *r.pick(&[("(comment)+", "# c\n"), ("(comment)+ @_cs", "# c\n"), ("(expression_statement)+ @_es", "f(1)\n"), ("(pass_statement)+", "pass\n")]);
        let text = format!("{} {{\n  node qn\n  attr (qn) k = 1\n}}\n", pat);
        let reps = r.range(2, 4);
        let src = format!("x = 1\n{}y = 2\n{}", unit.repeat(reps), unit.repeat(r.range(1, 3)));
        let file = match load(&text) {
            Ok(Ok(f)) => f,
            other => {
                rep.fail("direct", "C15 quantified-pattern program rejected", true, json!({"tsg": text, "result": format!("{:?}", other.map(|x| x.map(|_| "file")))}));
                continue;
            }
        };
        let source = Source { tree: crate::tree::parse_python(&src), src };
        let info = crate::tree::TreeInfo::new(&source.tree);
        let loaded = Loaded { program: Program { text: text.clone(), header: String::new(), stanzas: vec![text.clone()], globals: vec![], stanza_count: 1, has_fault: false, features: vec![], static_fault: None }, file };
        let mi = crate::execx::model_input(&loaded.file, &source.tree, &source.src, &info);
        runner.set_tree(&info, &source.src);
        runner.table = crate::oracle::OracleTable::new();
        let case = Case { tsg: &text, loaded: &loaded, source: &source, info: &info, mi: &mi };
        rep.case(&format!("{}\u{0}{}", text, source.src), true);
        let mut per_mode: Vec<Option<Sexp>> = Vec::new();
        for lazy in [false, true] {
            let res = runner.check_mode(rep, &case, &RunCfg { lazy, globals: vec![], outer_globals: vec![], debug: Some((DBG.0.into(), DBG.1.into(), DBG.2.into())), cancel_at: None }, true, false);
            rep.count(&format!("quantified-stream:{}:{}", if lazy { "lazy" } else { "strict" }, res.class));
            per_mode.push(if res.class == "ok" { res.run.graph.clone() } else { None });
        }
        if let (Some(a), Some(b)) = (&per_mode[0], &per_mode[1]) {
            if a != b {
                rep.fail("direct", "C15 strict and lazy give different debug attributes for a match of a quantified top-level pattern", true,
                    json!({"tsg": text, "source": source.src, "strict": a.pretty(), "lazy": b.pretty()}));
            } else {
                rep.count("quantified-stream:modes-agree");
            }
        }
    }
}

/// The location half of the property, with the expected positions computed FROM THE DSL TEXT (not from the parsed AST):
/// `node` and `edge` statements that follow ASCII and non-ASCII text on their line; the location attribute must be the
/// 1-based line and CHARACTER column of the variable (node) / of the statement (edge) in the text.
fn location_stream(rep: &mut Report, runner: &mut Runner, tier: &str, seed: u64) {
    use crate::gen::dsl::Program;
    use crate::props::common::{gen_source, load, Loaded};
    let n = if tier == "thorough" { 500 } else { 50 };
    let root = crate::rng::Rng::new(seed ^ 0x10ca7e);
    let texts = ["", "x", "abc", "é", "héllo wörld", "日本語", "€uro", "𝔘𝔫𝔦", "a𝔘b", "ü", "\u{a0}"];
    for i in 0..n {
        let mut r = root.fork(i as u64);
        let mut text = String::from("(module) @_m {\n");
        // (variable name, line, column) of every `node` statement; (line, column) of every `edge` statement
        let mut nodes: Vec<(String, usize, usize)> = Vec::new();
        let mut edges: Vec<(usize, usize, String, String)> = Vec::new();
        let mut line_no = 2usize;
        let mut k = 0usize;
        let lines = r.range(1, 4);
        for _ in 0..lines {
            let mut line = String::new();
            line.push_str(*r.pick(&["  ", "    ", "\t", " "]));
            let stmts = r.range(1, 2);
            for _ in 0..stmts {
                if r.chance(2, 3) {
                    k += 1;
                    line.push_str(&format!("let zp{} = \"{}\" ", k, r.pick(&texts)));
                }
                if r.chance(1, 5) {
                    // a string literal that spans two lines (a raw newline between the quotes): what follows it is on the next
                    // line, at the column after the closing quote
                    k += 1;
                    rep.count("location-stream:multi-line-string-literal");
                    line.push_str(&format!("let zm{} = \"{}", k, r.pick(&["x", "", "h\u{e9}"])));
                    text.push_str(&line);
                    text.push('\n');
                    line_no += 1;
                    line = format!("{}\" ", r.pick(&["y", "", "\u{65e5}\u{672c}"]));
                }
                if nodes.len() >= 1 && r.chance(1, 3) {
                    let a = r.pick(&nodes).0.clone();
                    let b = r.pick(&nodes).0.clone();
                    let col = line.chars().count() + 1;
                    line.push_str(&format!("edge {} -> {} ", a, b));
                    if !edges.iter().any(|e| e.2 == a && e.3 == b) {
                        edges.push((line_no, col, a, b));
                    }
                } else {
                    k += 1;
                    let name = format!("n{}", k);
                    line.push_str("node ");
                    let col = line.chars().count() + 1;
                    line.push_str(&format!("{} ", name));
                    nodes.push((name, line_no, col));
                }
            }
            text.push_str(line.trim_end());
            text.push('\n');
            line_no += 1;
        }
        // scoped targets, with layout (blanks, a newline, a comment) between the dot and the name: the location is that of
        // the NAME; positions are found by searching the finished text for the (unique) name
        let mut scoped: Vec<String> = Vec::new();
        if r.chance(1, 2) {
            for _ in 0..r.range(1, 2) {
                k += 1;
                let name = format!("zs{}q", k);
                let gap = *r.pick(&["", " ", "   ", "\t", "\n      ", " ; note\n  ", "\u{a0}"]);
                let lead = if r.chance(1, 2) { format!("let zp{} = \"{}\" ", k, r.pick(&texts)) } else { String::new() };
                text.push_str(&format!("  {}node @m.{}{}\n", lead, gap, name));
                scoped.push(name);
            }
            text = text.replacen("(module) @_m {", "(module) @m {", 1);
        }
        text.push_str("}\n");
        for name in &scoped {
            let at = text.find(name.as_str()).unwrap();
            let line = text[..at].matches('\n').count() + 1;
            let col = text[..at].rsplit('\n').next().unwrap().chars().count() + 1;
            nodes.push((name.clone(), line, col));
        }
        let file = match load(&text) {
            Ok(Ok(f)) => f,
            other => {
                rep.fail("direct", "C15 location program rejected", true, json!({"tsg": text, "result": format!("{:?}", other.map(|x| x.map(|_| "file")))}));
                continue;
            }
        };
        let source = gen_source(&mut r, true, false);
        let info = crate::tree::TreeInfo::new(&source.tree);
        let loaded = Loaded { program: Program { text: text.clone(), header: String::new(), stanzas: vec![text.clone()], globals: vec![], stanza_count: 1, has_fault: false, features: vec![], static_fault: None }, file };
        let mi = crate::execx::model_input(&loaded.file, &source.tree, &source.src, &info);
        runner.set_tree(&info, &source.src);
        runner.table = crate::oracle::OracleTable::new();
        let case = Case { tsg: &text, loaded: &loaded, source: &source, info: &info, mi: &mi };
        rep.case(&format!("{}\u{0}{}", text, source.src), true);
        for lazy in [false, true] {
            let mode = if lazy { "lazy" } else { "strict" };
            let res = runner.check_mode(rep, &case, &RunCfg { lazy, globals: vec![], outer_globals: vec![], debug: Some((DBG.0.into(), DBG.1.into(), DBG.2.into())), cancel_at: None }, true, false);
            rep.count(&format!("location-stream:{}:{}", mode, res.class));
            if res.class != "ok" {
                continue;
            }
            let g = res.run.graph.as_ref().unwrap();
            let gl = g.as_list().unwrap();
            let attr = |attrs: &Sexp, key: &str| -> Option<String> {
                attrs.as_list().unwrap().iter().find(|kv| kv.as_list().unwrap()[0].as_str() == Some(key)).map(|kv| kv.as_list().unwrap()[1].pretty())
            };
            let mut var_of_node: Vec<Option<String>> = Vec::new();
            for nd in &gl[1..] {
                let nl = nd.as_list().unwrap();
                let var = attr(&nl[0], DBG.1);
                let loc = attr(&nl[0], DBG.0);
                var_of_node.push(var.clone());
                let found = nodes.iter().find(|(name, _, _)| var.as_deref() == Some(&format!("(str \"{}\")", name))
                    || var.as_deref().map(|v| v.ends_with(&format!(".{}\")", name))).unwrap_or(false));
                match found {
                    None => rep.fail("direct", &format!("C15 {}: a node's variable attribute names no `node` statement of the program", mode), true,
                        json!({"tsg": text, "source": source.src, "variable": var, "graph": g.pretty()})),
                    Some((name, l, c)) => {
                        let want = format!("(str \"line {} column {}\")", l, c);
                        if loc.as_deref() != Some(&want) {
                            rep.fail("direct", &format!("C15 {}: the location attribute of a node is not the 1-based line and character column of its variable in the DSL text", mode), true,
                                json!({"tsg": text, "source": source.src, "variable": name, "expected": want, "actual": loc}));
                        } else {
                            rep.count("location-stream:node-location-checked");
                        }
                    }
                }
            }
            // edges: the location of an `edge` statement that created it
            for (ni, nd) in gl[1..].iter().enumerate() {
                let nl = nd.as_list().unwrap();
                for e in nl[1].as_list().unwrap() {
                    let el = e.as_list().unwrap();
                    let sink = el[0].pretty().parse::<usize>().unwrap_or(usize::MAX);
                    let loc = attr(&el[1], DBG.0);
                    let (a, b) = (var_of_node.get(ni).cloned().flatten(), var_of_node.get(sink).cloned().flatten());
                    let unq = |s: Option<String>| s.map(|x| x.trim_start_matches("(str \"").trim_end_matches("\")").to_string());
                    let (a, b) = (unq(a), unq(b));
                    let wants: Vec<String> = edges.iter().filter(|e| Some(&e.2) == a.as_ref() && Some(&e.3) == b.as_ref()).map(|e| format!("(str \"line {} column {}\")", e.0, e.1)).collect();
                    if wants.is_empty() || !wants.iter().any(|w| Some(w) == loc.as_ref()) {
                        rep.fail("direct", &format!("C15 {}: the location attribute of an edge is not the position of an `edge` statement that created it", mode), true,
                            json!({"tsg": text, "source": source.src, "from": a, "to": b, "expected_one_of": wants, "actual": loc}));
                    } else {
                        rep.count("location-stream:edge-location-checked");
                    }
                }
            }
        }
    }
}
