//! C15 — debug attributes are correct and do not otherwise change the outcome.
//! Direct oracle: run {plain, debug with fresh names} x {strict, lazy}; success must coincide and the
//! graph with the three attributes removed must equal the plain graph. Correspondence: the model with
//! the same configuration (so the debug attribute values themselves are checked).
use crate::execx::RunCfg;
use crate::gen::dsl::Opts;
use crate::props::runner::*;
use crate::report::Report;
use crate::sexp::{self, Sexp};
use serde_json::json;

const DBG: (&str, &str, &str) = ("dbg_location", "dbg_variable", "dbg_match");

fn strip(g: &Sexp) -> Sexp {
    let strip_attrs = |a: &Sexp| -> Sexp {
        sexp::list(a.as_list().unwrap().iter().filter(|kv| {
            let k = kv.as_list().unwrap()[0].as_str().unwrap();
            k != DBG.0 && k != DBG.1 && k != DBG.2
        }).cloned().collect())
    };
    let l = g.as_list().unwrap();
    let mut out = vec![l[0].clone()];
    for n in &l[1..] {
        let nl = n.as_list().unwrap();
        let edges = sexp::list(nl[1].as_list().unwrap().iter().map(|e| {
            let el = e.as_list().unwrap();
            sexp::list(vec![el[0].clone(), strip_attrs(&el[1])])
        }).collect());
        out.push(sexp::list(vec![strip_attrs(&nl[0]), edges]));
    }
    sexp::list(out)
}

pub fn run(rep: &mut Report, tier: &str, seed: u64) {
    rep.rule = "generated programs (incl. programs creating the same edge from several statements and matches) x sources x {strict, lazy} x \
                {no debug attributes, debug attributes with fresh names}; non-trivial = at least one match; distinct by (program, source)".to_string();
    rep.correspondence = "exec with debug configuration: outcome and graph (incl. the debug attribute values) equal between implementation and model".to_string();
    let n_programs = if tier == "thorough" { 2500 } else { 150 };
    let mut runner = Runner::new("C15");
    campaign(rep, &mut runner, seed, n_programs, 2, false,
        &|pi, r| Opts { fragment: false, fault_pct: if pi % 5 == 4 { 100 } else { 0 }, max_stanzas: 4, allow_print: false, universal: r.chance(1, 2), probe: false, scoped_heavy: false, keywordish_names: false, static_fault: 0 },
        &mut |rep, runner, case, r, _pi| {
            let globals = crate::props::common::supply_globals(r, &case.loaded.program);
            for lazy in [false, true] {
                let mode = if lazy { "lazy" } else { "strict" };
                let plain = runner.check_mode(rep, case, &RunCfg { lazy, globals: globals.clone(), outer_globals: vec![], debug: None, cancel_at: None }, true, false);
                let dbg = runner.check_mode(rep, case, &RunCfg { lazy, globals: globals.clone(), outer_globals: vec![], debug: Some((DBG.0.into(), DBG.1.into(), DBG.2.into())), cancel_at: None }, true, false);
                if plain.class == "panic" || dbg.class == "panic" {
                    continue;
                }
                let replay = json!({"tsg": case.tsg, "source": case.source.src, "mode": mode,
                    "plain": plain.run.outcome.pretty(), "debug": dbg.run.outcome.pretty(),
                    "plain_graph": plain.run.graph.as_ref().map(|g| g.pretty()), "debug_graph": dbg.run.graph.as_ref().map(|g| g.pretty())});
                if (plain.class == "ok") != (dbg.class == "ok") {
                    rep.fail("direct", &format!("C15 {}: debug attributes change whether execution succeeds ({} vs {})", mode, plain.class, dbg.class), true, replay);
                } else if plain.class == "ok" {
                    let stripped = strip(dbg.run.graph.as_ref().unwrap());
                    if Some(&stripped) != plain.run.graph.as_ref() {
                        rep.fail("direct", &format!("C15 {}: graph with debug attributes removed differs from the plain graph", mode), true, replay);
                    } else {
                        rep.count("direct:neutral");
                    }
                }
            }
        });
}
