//! C16 — globals are required unless defaulted, list-typed when declared, read-only.
//! Exhaustive over small declaration sets x quantifier x default x supply pattern x mode. Direct oracle: the
//! expected outcome is computed from the declarations (first faulty declaration decides) and the effective
//! values are read back from the graph; the caller's `Variables` must be unchanged. Correspondence: model.
use crate::execx::{model_input, RunCfg, GLOBALS_CHANGED};
use crate::gen::dsl::Program;
use crate::props::common::{load, Loaded, Source};
use crate::props::runner::*;
use crate::report::Report;
use crate::tree::{parse_python, TreeInfo};
use crate::values::value_sexp;
use serde_json::json;
use std::collections::BTreeSet;
use tree_sitter_graph::graph::Value;

#[derive(Clone, Copy, Debug, PartialEq)]
enum Q {
    One,
    Opt,
    Star,
    Plus,
}

fn supplies() -> Vec<(&'static str, Option<Value>)> {
    vec![
        ("absent", None),
        ("null", Some(Value::Null)),
        ("bool", Some(Value::Boolean(true))),
        ("int", Some(Value::Integer(7))),
        ("str", Some(Value::String("sv".into()))),
        ("list", Some(Value::List(vec![Value::String("a".into()), Value::Integer(1)]))),
        ("empty-list", Some(Value::List(vec![]))),
        ("set", Some(Value::Set([Value::Integer(2)].into_iter().collect::<BTreeSet<_>>()))),
    ]
}

pub fn run(rep: &mut Report, tier: &str, seed: u64) {
    let _ = seed;
    rep.rule = "exhaustive product: 1-2 (quick) / 1-3 (thorough) global declarations x quantifier in {none,?,*,+} x default present/absent x supply in \
                {absent, null, bool, int, string, list, empty list, set} x supplied directly / through an enclosing Variables x {strict, lazy}; the program reads every \
                global at block depth 0, inside if, for, scan arm and a shorthand body; plus the static read-only rules; non-trivial = at least one global supplied or defaulted; \
                distinct by (declarations, supply pattern, nesting)".to_string();
    rep.correspondence = "exec with globals: outcome (incl. error variant) and graph equal between implementation and model".to_string();
    let max_decls = if tier == "thorough" { 3 } else { 2 };
    let mut runner = Runner::new("C16");
    let src_text = "x = 1\n".to_string();
    let tree = parse_python(&src_text);
    let source = Source { src: src_text, tree };
    let info = TreeInfo::new(&source.tree);
    runner.set_tree(&info, &source.src);
    let quants = [Q::One, Q::Opt, Q::Star, Q::Plus];
    let sup = supplies();
    // enumerate declaration tuples
    let mut decl_sets: Vec<Vec<(Q, bool)>> = Vec::new();
    for n in 1..=max_decls {
        let per = quants.len() * 2;
        let total = per.pow(n as u32);
        for code in 0..total {
            let mut c = code;
            let mut ds = Vec::new();
            for _ in 0..n {
                let d = c % per;
                c /= per;
                ds.push((quants[d / 2], d % 2 == 1));
            }
            decl_sets.push(ds);
        }
    }
    let mut case_no = 0usize;
    // every declaration set twice: with the probing stanza, and as a file WITHOUT stanzas (the pre-check of the globals
    // runs whether or not anything will be executed)
    for (ds, stanzaless) in decl_sets.iter().map(|d| (d, false)).chain(decl_sets.iter().map(|d| (d, true))) {
        // program
        let mut text = String::new();
        for (i, (q, dflt)) in ds.iter().enumerate() {
            let qs = match q { Q::One => "", Q::Opt => "?", Q::Star => "*", Q::Plus => "+" };
            text.push_str(&format!("global G{}{}{}\n", i, qs, if *dflt { " = \"dflt\"" } else { "" }));
        }
        text.push_str("attribute sh = p => shv = p, shg = G0\n");
        if !stanzaless {
        text.push_str("(module) @m {\n  node n\n  attr (n) top = @m\n");
        for i in 0..ds.len() {
            text.push_str(&format!("  attr (n) g{} = G{}\n", i, i));
        }
        // a declared quantifier keeps its meaning whether or not the global also has a default: `?` may be tested with
        // some / none, `*` and `+` may be iterated
        for (i, (q, dflt)) in ds.iter().enumerate() {
            match q {
                // (a defaulted list global holds the default STRING when unsupplied: iterating it fails, rightly)
                Q::Star | Q::Plus if *dflt => {}
                Q::Opt => text.push_str(&format!("  if some G{} {{\n    attr (n) some{} = 1\n  }} elif none G{} {{\n    attr (n) none{} = 1\n  }}\n", i, i, i, i)),
                Q::Star | Q::Plus => text.push_str(&format!("  for zg{} in G{} {{\n  }}\n", i, i)),
                Q::One => {}
            }
        }
        }
        if !stanzaless { text.push_str("  if #true {\n    attr (n) in_if = G0\n    for x in [1] {\n      attr (n) in_for = G0\n      scan \"ab\" {\n        \"a\" {\n          attr (n) in_scan = G0, sh = 1\n        }\n      }\n    }\n  }\n}\n"); }
        if stanzaless {
            rep.count("stanza-less-file");
        }
        let file = match load(&text) {
            Ok(Ok(f)) => f,
            other => {
                rep.fail("direct", "C16 declaration program rejected", true, json!({"tsg": text, "result": format!("{:?}", other.map(|x| x.map(|_| "file")))}));
                continue;
            }
        };
        let loaded = Loaded { program: Program { text: text.clone(), header: String::new(), stanzas: vec![text.clone()], globals: vec![], stanza_count: 1, has_fault: false, features: vec![], static_fault: None }, file };
        let mi = model_input(&loaded.file, &source.tree, &source.src, &info);
        // supply patterns: product for <= 2 declarations, a diagonal + sampled product beyond
        let n = ds.len();
        let total = sup.len().pow(n as u32);
        let step = if n >= 3 { 7 } else { 1 };
        let mut code = 0;
        while code < total {
            let mut c = code;
            let mut supplied: Vec<Option<Value>> = Vec::new();
            let mut label = Vec::new();
            for _ in 0..n {
                let s = &sup[c % sup.len()];
                c /= sup.len();
                supplied.push(s.1.clone());
                label.push(s.0);
            }
            code += step;
            for nest_mode in [0usize, 1, 2] {
                // 0: one flat set; 1: odd-indexed globals in the enclosing set; 2: as 1, and the enclosing set ALSO holds every inner
                // name with another value (the inner set shadows it: the supplied value is the inner one)
                let nested = nest_mode != 0;
                case_no += 1;
                let key = format!("{:?} {:?} {} {}", ds, label, nest_mode, stanzaless);
                rep.case(&key, supplied.iter().any(|s| s.is_some()) || ds.iter().any(|d| d.1));
                if rep.samples.len() < 3 && case_no % 97 == 0 {
                    rep.sample(json!({"tsg": text, "supplied": label, "nested": nested}));
                }
                let all: Vec<(String, Value)> = supplied.iter().enumerate().filter_map(|(i, v)| v.clone().map(|v| (format!("G{}", i), v))).collect();
                // nested: odd-indexed globals live in the enclosing set
                let (inner, outer): (Vec<_>, Vec<_>) = if nested {
                    let mut o = vec![("unrelated".to_string(), Value::Integer(0))];
                    let mut inn = Vec::new();
                    for (i, kv) in all.iter().enumerate() {
                        if i % 2 == 0 { o.push(kv.clone()) } else { inn.push(kv.clone()) }
                    }
                    if nest_mode == 2 {
                        for kv in &inn {
                            o.push((kv.0.clone(), Value::String("shadowed-value-of-the-enclosing-set".into())));
                        }
                        rep.count("nested-set-shadows-enclosing-set");
                    }
                    (inn, o)
                } else {
                    (all.clone(), vec![])
                };
                // expected outcome
                let mut expect = "ok".to_string();
                for (i, (q, dflt)) in ds.iter().enumerate() {
                    match &supplied[i] {
                        None => {
                            if !*dflt {
                                expect = "err:MissingGlobalVariable".to_string();
                                break;
                            }
                        }
                        Some(v) => {
                            if matches!(q, Q::Star | Q::Plus) && !matches!(v, Value::List(_)) {
                                expect = "err:ExpectedList".to_string();
                                break;
                            }
                        }
                    }
                }
                let case = Case { tsg: &text, loaded: &loaded, source: &source, info: &info, mi: &mi };
                for lazy in [false, true] {
                    let mode = if lazy { "lazy" } else { "strict" };
                    GLOBALS_CHANGED.with(|c| c.set(false));
                    let cfg = RunCfg { lazy, globals: inner.clone(), outer_globals: outer.clone(), debug: None, cancel_at: None };
                    let res = runner.check_mode(rep, &case, &cfg, true, false);
                    let replay = json!({"tsg": text, "supplied": label, "nested": nest_mode, "mode": mode, "expected": expect, "observed": res.run.outcome.pretty()});
                    if GLOBALS_CHANGED.with(|c| c.get()) {
                        rep.fail("direct", &format!("C16 {}: execution changed the caller's variable set", mode), true, replay.clone());
                    }
                    if res.class != expect {
                        rep.fail("direct", &format!("C16 {}: expected {}, got {}", mode, expect, res.class), true, replay.clone());
                        continue;
                    }
                    if expect == "ok" && !stanzaless {
                        // effective values read back from node 0
                        let g = res.run.graph.as_ref().unwrap();
                        let attrs = g.as_list().unwrap()[1].as_list().unwrap()[0].as_list().unwrap().clone();
                        let get = |k: &str| attrs.iter().find(|kv| kv.as_list().unwrap()[0].as_str() == Some(k)).map(|kv| kv.as_list().unwrap()[1].clone());
                        for (i, (_q, _d)) in ds.iter().enumerate() {
                            let want = match &supplied[i] {
                                Some(v) => value_sexp(v, &crate::values::no_syn),
                                None => value_sexp(&Value::String("dflt".into()), &crate::values::no_syn),
                            };
                            if get(&format!("g{}", i)) != Some(want.clone()) {
                                rep.fail("direct", &format!("C16 {}: a global does not evaluate to its effective value", mode), true, replay.clone());
                            }
                            if i == 0 {
                                for k in ["in_if", "in_for", "in_scan", "shg"] {
                                    if get(k) != Some(want.clone()) {
                                        rep.fail("direct", &format!("C16 {}: a global has a different value inside a nested block ({})", mode, k), true, replay.clone());
                                    }
                                }
                            }
                        }
                        rep.count("effective-values-checked");
                    }
                }
            }
        }
    }
    // read-only at run time: bindings the checker never sees (shorthand parameters and the variables of
    // comprehensions inside shorthand bodies) cannot take the name of a global either
    let dynamic = [
        ("global G0\nattribute sh = G0 => shv = G0\n(module) @m {\n  node n\n  attr (n) top = @m, sh = 1\n}\n", true),
        ("global G0 = \"dflt\"\nattribute sh = G0 => shv = G0\n(module) @m {\n  node n\n  attr (n) top = @m, sh = 1\n}\n", false),
        ("global G0\nattribute sh = p => shv = [ G0 for G0 in [p] ]\n(module) @m {\n  node n\n  attr (n) top = @m, sh = 1\n}\n", true),
        ("global G0?\nattribute sh = p => shv = { G0 for G0 in [p, 2] }\n(module) @m {\n  node n\n  attr (n) top = @m, sh = 1\n}\n", true),
        ("global G0\nglobal G1*\nattribute sh = G1 => shv = 1\nattribute sh2 = q => sh = q\n(module) @m {\n  node n\n  attr (n) top = @m, sh2 = G0\n}\n", true),
    ];
    for (text, supply) in dynamic {
        let file = match load(text) {
            Ok(Ok(f)) => f,
            other => {
                rep.fail("direct", "C16 shorthand program rejected", true, json!({"tsg": text, "result": format!("{:?}", other.map(|x| x.map(|_| "file")))}));
                continue;
            }
        };
        rep.case(text, true);
        let loaded = Loaded { program: Program { text: text.to_string(), header: String::new(), stanzas: vec![text.to_string()], globals: vec![], stanza_count: 1, has_fault: false, features: vec![], static_fault: None }, file };
        let mi = model_input(&loaded.file, &source.tree, &source.src, &info);
        let case = Case { tsg: text, loaded: &loaded, source: &source, info: &info, mi: &mi };
        let mut globals = Vec::new();
        if supply {
            globals.push(("G0".to_string(), Value::String("supplied".into())));
        }
        if text.contains("global G1*") {
            globals.push(("G1".to_string(), Value::List(vec![Value::Integer(1)])));
        }
        for lazy in [false, true] {
            let mode = if lazy { "lazy" } else { "strict" };
            let cfg = RunCfg { lazy, globals: globals.clone(), outer_globals: vec![], debug: None, cancel_at: None };
            let res = runner.check_mode(rep, &case, &cfg, true, false);
            if res.class != "err:DuplicateVariable" {
                rep.fail("direct", &format!("C16 {}: a binding with the name of a global was accepted at run time (expected DuplicateVariable, got {})", mode, res.class), true,
                    json!({"tsg": text, "mode": mode, "observed": res.run.outcome.pretty()}));
            } else {
                rep.count("runtime-hiding-rejected");
            }
        }
    }
    // static read-only rules
    let statics = [
        ("global g\nglobal g\n(module) @_m { }", "Duplicate global variable"),
        ("global g\n(module) @_m { let g = 1 }", "Cannot hide global variable"),
        ("global g\n(module) @_m { var g = 1 }", "Cannot hide global variable"),
        ("global g\n(module) @_m { node g }", "Cannot hide global variable"),
        ("global g\n(module) @_m { for g in [1] { } }", "Cannot hide global variable"),
        ("global g\n(module) @_m { let _x = [ g for g in [1] ] }", "Cannot hide global variable"),
        ("global g\n(module) @_m { set g = 1 }", "Cannot set global variable"),
        ("global g\n(module) @_m { if #true { scan \"a\" { \"a\" { let g = 1 } } } }", "Cannot hide global variable"),
    ];
    for (text, want) in statics {
        rep.case(text, true);
        match load(text) {
            Ok(Err(msg)) if msg.contains(want) => rep.count("static-rule-rejected"),
            other => rep.fail("direct", &format!("C16 static rule not enforced: {}", want), true, json!({"tsg": text, "result": format!("{:?}", other.map(|x| x.map(|_| "accepted")))})),
        }
    }
}
