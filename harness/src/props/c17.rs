//! C17 — graph, attribute and variable containers behave like their map/set models.
//! Correspondence: operation sequences replayed on the real containers and on the Lean model
//! (`CGraph`, `Attrs`, `GlobalsM`), observation by observation.
use crate::driver::Driver;
use crate::report::Report;
use crate::rng::Rng;
use crate::sexp::{self, Sexp};
use crate::values::{gen_value, gnode_ref, no_syn, value_sexp};
use serde_json::json;
use tree_sitter_graph::graph::{Attributes, Graph, Value};
use tree_sitter_graph::{Identifier, Variables};

const KEYS: &[&str] = &["a", "b", "c", "name", "k-1", "_x", "\u{e9}"];

pub fn attrs_sexp(a: &Attributes) -> Sexp {
    attrs_sexp_syn(a, &no_syn)
}

pub fn attrs_sexp_syn(a: &Attributes, syn: &dyn Fn(&tree_sitter_graph::graph::SyntaxNodeRef) -> usize) -> Sexp {
    let mut items: Vec<(String, Sexp)> = a.iter().map(|(k, v)| (k.as_str().to_string(), value_sexp(v, syn))).collect();
    items.sort_by(|x, y| x.0.cmp(&y.0));
    sexp::list(items.into_iter().map(|(k, v)| sexp::list(vec![sexp::st(&k), v])).collect())
}

pub fn graph_sexp_nosyn(g: &Graph) -> Sexp {
    graph_sexp_syn(g, &no_syn)
}

pub fn graph_sexp_syn(g: &Graph, syn: &dyn Fn(&tree_sitter_graph::graph::SyntaxNodeRef) -> usize) -> Sexp {
    let mut nodes = vec![sexp::atom("graph")];
    for n in g.iter_nodes() {
        let node = &g[n];
        let edges: Vec<Sexp> = node.iter_edges().map(|(sink, e)| sexp::list(vec![sexp::nat(sink.index()), attrs_sexp_syn(&e.attributes, syn)])).collect();
        nodes.push(sexp::list(vec![attrs_sexp_syn(&node.attributes, syn), sexp::list(edges)]));
    }
    sexp::list(nodes)
}

/// source whose tree has different nodes of the same kind starting at the same position (`a + b + c`, `x.y.z`)
const SYN_SRC: &str = "q = a + b + c\nw = x.y.z\n";

#[derive(Clone, Debug)]
enum GOp {
    AddNode,
    AddEdge(usize, usize),
    GetEdge(usize, usize),
    EdgeAttrAdd(usize, usize, String, Value),
    /// `add_edge`, then an attribute through the reference `add_edge` RETURNED (new or existing edge): two model operations
    AddEdgeRefAttr(usize, usize, String, Value),
    NodeAttrAdd(usize, String, Value),
    /// attribute whose value is (a reference to) the syntax node with this pre-order index of `SYN_SRC`'s tree
    NodeAttrAddSyn(usize, String, usize),
    EdgeAttrAddSyn(usize, usize, String, usize),
    NodeAttrGet(usize, String),
    NodeAttrs(usize),
    IterNodes,
    IterEdges(usize),
    NodeCount,
    EdgeCount(usize),
}

fn gop_sexp(op: &GOp) -> Sexp {
    use GOp::*;
    match op {
        AddNode => sexp::tagged("add-node", vec![]),
        AddEdge(s, t) => sexp::tagged("add-edge", vec![sexp::nat(*s), sexp::nat(*t)]),
        AddEdgeRefAttr(s, t, _, _) => sexp::tagged("add-edge", vec![sexp::nat(*s), sexp::nat(*t)]),
        GetEdge(s, t) => sexp::tagged("get-edge", vec![sexp::nat(*s), sexp::nat(*t)]),
        EdgeAttrAdd(s, t, k, v) => sexp::tagged("edge-attr-add", vec![sexp::nat(*s), sexp::nat(*t), sexp::st(k), value_sexp(v, &no_syn)]),
        NodeAttrAdd(n, k, v) => sexp::tagged("node-attr-add", vec![sexp::nat(*n), sexp::st(k), value_sexp(v, &no_syn)]),
        NodeAttrAddSyn(n, k, ix) => sexp::tagged("node-attr-add", vec![sexp::nat(*n), sexp::st(k), sexp::tagged("syn", vec![sexp::nat(*ix)])]),
        EdgeAttrAddSyn(s, t, k, ix) => sexp::tagged("edge-attr-add", vec![sexp::nat(*s), sexp::nat(*t), sexp::st(k), sexp::tagged("syn", vec![sexp::nat(*ix)])]),
        NodeAttrGet(n, k) => sexp::tagged("node-attr-get", vec![sexp::nat(*n), sexp::st(k)]),
        NodeAttrs(n) => sexp::tagged("node-attrs", vec![sexp::nat(*n)]),
        IterNodes => sexp::tagged("iter-nodes", vec![]),
        IterEdges(n) => sexp::tagged("iter-edges", vec![sexp::nat(*n)]),
        NodeCount => sexp::tagged("node-count", vec![]),
        EdgeCount(n) => sexp::tagged("edge-count", vec![sexp::nat(*n)]),
    }
}

fn gen_gops(r: &mut Rng, len: usize) -> Vec<GOp> {
    let mut ops = vec![GOp::AddNode];
    let mut n = 1usize;
    // values to re-use so that equal / different re-assignments both occur
    let pool: Vec<Value> = (0..6).map(|_| gen_value(r, 2, 3)).collect();
    while ops.len() < len {
        let node = r.below(n);
        let sink = r.below(n + 3);
        let key = r.pick(KEYS).to_string();
        let val = if r.chance(2, 3) { r.pick(&pool).clone() } else { gen_value(r, 2, n) };
        match r.below(22) {
            0 | 1 => {
                if n < 14 {
                    ops.push(GOp::AddNode);
                    n += 1;
                }
            }
            2 | 3 | 4 => ops.push(GOp::AddEdge(node, sink)),
            5 => {
                // burst of edges from one source: leaves the inline small-vector (> 8 edges)
                let k = r.range(3, 12);
                for _ in 0..k {
                    let s = r.below(n + 6);
                    ops.push(GOp::AddEdge(node, s));
                }
            }
            6 | 7 => ops.push(GOp::GetEdge(node, sink)),
            8 | 9 | 10 => ops.push(GOp::EdgeAttrAdd(node, sink, key, val)),
            11 | 12 | 13 => {
                // one attribute value in six is a syntax node; the pool is small so that equal and different nodes (of the
                // same kind, at the same position) meet on one attribute name
                if r.chance(1, 6) {
                    // mostly nodes that share kind and start position with another node, on few (node, key) pairs
                    let dups = syn_dups();
                    let ix = if !dups.is_empty() && r.chance(4, 5) { *r.pick(&dups) } else { r.below(syn_count()) };
                    let key = r.pick(&KEYS[..2]).to_string();
                    let node = r.below(n.min(2));
                    if r.chance(2, 3) { ops.push(GOp::NodeAttrAddSyn(node, key, ix)) } else { ops.push(GOp::EdgeAttrAddSyn(node, sink, key, ix)) }
                } else {
                    ops.push(GOp::NodeAttrAdd(node, key, val))
                }
            }
            20 | 21 => ops.push(GOp::AddEdgeRefAttr(node, sink, key, val)),
            14 => ops.push(GOp::NodeAttrGet(node, key)),
            15 => ops.push(GOp::NodeAttrs(node)),
            16 => ops.push(GOp::IterNodes),
            17 => ops.push(GOp::IterEdges(node)),
            18 => ops.push(GOp::NodeCount),
            _ => ops.push(GOp::EdgeCount(node)),
        }
    }
    ops
}

/// pre-order indices of the nodes of `SYN_SRC` that share kind and start position with another node
fn syn_dups() -> Vec<usize> {
    let tree = crate::tree::parse_python(SYN_SRC);
    let info = crate::tree::TreeInfo::new(&tree);
    let key = |n: &tree_sitter::Node| (n.kind_id(), n.start_byte());
    (0..info.nodes.len()).filter(|i| info.nodes.iter().enumerate().any(|(j, m)| j != *i && key(m) == key(&info.nodes[*i]))).collect()
}

fn syn_count() -> usize {
    let tree = crate::tree::parse_python(SYN_SRC);
    crate::tree::TreeInfo::new(&tree).nodes.len()
}

fn run_gops(ops: &[GOp]) -> (Vec<Sexp>, Sexp, usize) {
    let tree = crate::tree::parse_python(SYN_SRC);
    let info = crate::tree::TreeInfo::new(&tree);
    // pre-order index of a syntax node reference: by kind-independent position in `info.nodes` (looked up through its id)
    let mut g = Graph::new();
    let mut refs = Vec::new();
    let mut obs = Vec::new();
    let mut max_edges = 0;
    let t = |s: &str| sexp::tagged(s, vec![]);
    // GraphNodeRef for an arbitrary index (possibly not a node of `g`), via a scratch graph
    let gref = |i: usize| match gnode_ref(i) {
        Value::GraphNode(r) => r,
        _ => unreachable!(),
    };
    for op in ops {
        use GOp::*;
        let o = match op {
            AddNode => {
                let r = g.add_graph_node();
                refs.push(r);
                sexp::tagged("node", vec![sexp::nat(r.index())])
            }
            AddEdge(s, k) => match g[refs[*s]].add_edge(gref(*k)) {
                Ok(_) => t("new"),
                Err(_) => t("existing"),
            },
            AddEdgeRefAttr(s, k, key, v) => {
                let (first, e) = match g[refs[*s]].add_edge(gref(*k)) {
                    Ok(e) => (t("new"), e),
                    Err(e) => (t("existing"), e),
                };
                obs.push(first);
                match e.attributes.add(Identifier::from(key.as_str()), v.clone()) {
                    Ok(()) => t("ok"),
                    Err(_) => t("conflict"),
                }
            }
            GetEdge(s, k) => match g[refs[*s]].get_edge(gref(*k)) {
                None => t("none"),
                Some(e) => sexp::tagged("some", vec![attrs_sexp_syn(&e.attributes, &|s| info.index_of(&g[*s]))]),
            },
            EdgeAttrAdd(s, k, key, v) => match g[refs[*s]].get_edge_mut(gref(*k)) {
                None => t("no-edge"),
                Some(e) => match e.attributes.add(Identifier::from(key.as_str()), v.clone()) {
                    Ok(()) => t("ok"),
                    Err(_) => t("conflict"),
                },
            },
            NodeAttrAdd(n, key, v) => match g[refs[*n]].attributes.add(Identifier::from(key.as_str()), v.clone()) {
                Ok(()) => t("ok"),
                Err(_) => t("conflict"),
            },
            NodeAttrAddSyn(n, key, ix) => {
                let sref = g.add_syntax_node(info.nodes[*ix]);
                match g[refs[*n]].attributes.add(Identifier::from(key.as_str()), Value::from(sref)) {
                    Ok(()) => t("ok"),
                    Err(_) => t("conflict"),
                }
            }
            EdgeAttrAddSyn(s, k, key, ix) => {
                let sref = g.add_syntax_node(info.nodes[*ix]);
                match g[refs[*s]].get_edge_mut(gref(*k)) {
                    None => t("no-edge"),
                    Some(e) => match e.attributes.add(Identifier::from(key.as_str()), Value::from(sref)) {
                        Ok(()) => t("ok"),
                        Err(_) => t("conflict"),
                    },
                }
            }
            NodeAttrGet(n, key) => match g[refs[*n]].attributes.get(key.as_str()) {
                None => t("none"),
                Some(v) => sexp::tagged("some", vec![value_sexp(v, &|s| info.index_of(&g[*s]))]),
            },
            NodeAttrs(n) => attrs_sexp_syn(&g[refs[*n]].attributes, &|s| info.index_of(&g[*s])),
            IterNodes => sexp::list(g.iter_nodes().map(|r| sexp::nat(r.index())).collect()),
            IterEdges(n) => sexp::list(
                g[refs[*n]].iter_edges().map(|(sink, e)| sexp::list(vec![sexp::nat(sink.index()), attrs_sexp_syn(&e.attributes, &|s| info.index_of(&g[*s]))])).collect(),
            ),
            NodeCount => sexp::nat(g.node_count()),
            EdgeCount(n) => sexp::nat(g[refs[*n]].edge_count()),
        };
        obs.push(o);
    }
    for n in g.iter_nodes() {
        max_edges = max_edges.max(g[n].edge_count());
    }
    let final_graph = graph_sexp_syn(&g, &|s| info.index_of(&g[*s]));
    (obs, final_graph, max_edges)
}

#[derive(Clone, Debug)]
enum VOp {
    Push,
    Pop,
    Add(String, Value),
    GetAt(usize, String),
    Remove(String),
    Clear,
    IterAt(usize),
    IsEmptyAt(usize),
}

fn vop_sexp(op: &VOp) -> Sexp {
    use VOp::*;
    match op {
        Push => sexp::tagged("push", vec![]),
        Pop => sexp::tagged("pop", vec![]),
        Add(k, v) => sexp::tagged("add", vec![sexp::st(k), value_sexp(v, &no_syn)]),
        GetAt(l, k) => sexp::tagged("get-at", vec![sexp::nat(*l), sexp::st(k)]),
        Remove(k) => sexp::tagged("remove", vec![sexp::st(k)]),
        Clear => sexp::tagged("clear", vec![]),
        IterAt(l) => sexp::tagged("iter-at", vec![sexp::nat(*l)]),
        IsEmptyAt(l) => sexp::tagged("is-empty-at", vec![sexp::nat(*l)]),
    }
}

fn gen_vops(r: &mut Rng, len: usize) -> Vec<VOp> {
    let mut ops = Vec::new();
    let mut depth = 0usize;
    while ops.len() < len {
        let key = r.pick(KEYS).to_string();
        let lvl = r.below(depth + 1);
        match r.below(16) {
            0 | 1 => {
                if depth < 4 {
                    ops.push(VOp::Push);
                    depth += 1;
                }
            }
            2 => {
                if depth > 0 {
                    ops.push(VOp::Pop);
                    depth -= 1;
                }
            }
            3 | 4 | 5 | 6 => ops.push(VOp::Add(key, gen_value(r, 2, 0))),
            7 | 8 | 9 | 10 => ops.push(VOp::GetAt(lvl, key)),
            11 => ops.push(VOp::Remove(key)),
            12 => {
                if r.chance(1, 3) {
                    ops.push(VOp::Clear)
                }
            }
            13 | 14 => ops.push(VOp::IterAt(lvl)),
            _ => ops.push(VOp::IsEmptyAt(lvl)),
        }
    }
    ops
}

fn vars_iter_sexp(v: &Variables) -> Sexp {
    let mut items: Vec<(String, Sexp)> = v.iter().map(|(k, v)| (k.as_str().to_string(), value_sexp(v, &no_syn))).collect();
    items.sort_by(|x, y| x.0.cmp(&y.0));
    sexp::list(items.into_iter().map(|(k, v)| sexp::list(vec![sexp::st(&k), v])).collect())
}

/// runs ops on one level; `anc` = enclosing sets, outermost first. Returns at Pop / end of ops.
fn run_level<'p>(anc: &[&'p Variables<'p>], ops: &[VOp], pos: &mut usize, obs: &mut Vec<Sexp>) {
    let t = |s: &str| sexp::tagged(s, vec![]);
    let mut cur = match anc.last() {
        Some(p) => Variables::nested(p),
        None => Variables::new(),
    };
    while *pos < ops.len() {
        let op = &ops[*pos];
        *pos += 1;
        match op {
            VOp::Push => {
                obs.push(t("ok"));
                let mut anc2: Vec<&Variables> = anc.iter().map(|x| *x).collect();
                anc2.push(&cur);
                run_level(&anc2, ops, pos, obs);
            }
            VOp::Pop => {
                obs.push(t("ok"));
                return;
            }
            VOp::Add(k, v) => obs.push(match cur.add(Identifier::from(k.as_str()), v.clone()) {
                Ok(()) => t("ok"),
                Err(_) => t("dup"),
            }),
            VOp::GetAt(l, k) => {
                let id = Identifier::from(k.as_str());
                let r = if *l == 0 { cur.get(&id) } else { anc[anc.len() - *l].get(&id) };
                obs.push(match r {
                    None => t("none"),
                    Some(v) => sexp::tagged("some", vec![value_sexp(v, &no_syn)]),
                });
            }
            VOp::Remove(k) => {
                cur.remove(&Identifier::from(k.as_str()));
                obs.push(t("ok"));
            }
            VOp::Clear => {
                cur.clear();
                obs.push(t("ok"));
            }
            VOp::IterAt(l) => obs.push(if *l == 0 { vars_iter_sexp(&cur) } else { vars_iter_sexp(anc[anc.len() - *l]) }),
            VOp::IsEmptyAt(l) => obs.push(sexp::boolean(if *l == 0 { cur.is_empty() } else { anc[anc.len() - *l].is_empty() })),
        }
    }
}

pub fn run(rep: &mut Report, tier: &str, seed: u64) {
    rep.rule = "random operation sequences over the public Graph/GraphNode/Attributes/Variables API (see C17 quantifier), \
                replayed on the Lean container model; a case is non-trivial when it has >= 10 operations; distinct by hash of the op list"
        .to_string();
    rep.correspondence = "ops-graph / ops-vars: per-operation observations and final graph dump equal between src/graph.rs, src/variables.rs and Tsg.Base.Graph / Tsg.Base.Vars".to_string();
    let (n_graph, n_vars, len) = if tier == "thorough" { (6000, 4000, 200) } else { (300, 200, 200) };
    let mut drv = Driver::spawn();
    let root = Rng::new(seed);
    for i in 0..n_graph {
        let mut r = root.fork(i as u64);
        let l = if i % 4 == 0 { len } else { r.range(5, len) };
        let ops = gen_gops(&mut r, l);
        let req = sexp::tagged("ops-graph", ops.iter().flat_map(|op| match op {
            GOp::AddEdgeRefAttr(s, k, key, v) => vec![gop_sexp(&GOp::AddEdge(*s, *k)), gop_sexp(&GOp::EdgeAttrAdd(*s, *k, key.clone(), v.clone()))],
            other => vec![gop_sexp(other)],
        }).collect());
        let (obs, dump, max_edges) = run_gops(&ops);
        let expected = sexp::list(vec![sexp::list(obs), dump]).to_text();
        let got = drv.ask_text(&req);
        rep.case(&req.to_text(), ops.len() >= 10);
        rep.count("graph-sequences");
        rep.count_n("graph-ops", ops.len());
        if max_edges > 8 {
            rep.count("graph-sequences-with-node-over-8-edges");
        }
        if i < 1 {
            rep.sample(json!({"kind": "ops-graph", "ops": req.pretty()}));
        }
        if expected != got {
            rep.fail(
                "disagreement",
                "C17 graph container ops: model and implementation differ",
                true,
                json!({"request": req.to_text(), "request_pretty": req.pretty(), "implementation": expected, "model": got}),
            );
        }
    }
    for i in 0..n_vars {
        let mut r = root.fork(1_000_000 + i as u64);
        let l = r.range(5, len);
        let ops = gen_vops(&mut r, l);
        let req = sexp::tagged("ops-vars", ops.iter().map(vop_sexp).collect());
        let mut obs = Vec::new();
        let mut pos = 0;
        // a Pop at depth 0 is never generated, so one top-level call consumes all ops
        run_level(&[], &ops, &mut pos, &mut obs);
        let expected = sexp::list(obs).to_text();
        let got = drv.ask_text(&req);
        rep.case(&req.to_text(), ops.len() >= 10);
        rep.count("vars-sequences");
        rep.count_n("vars-ops", ops.len());
        if i < 1 {
            rep.sample(json!({"kind": "ops-vars", "ops": req.pretty()}));
        }
        if expected != got {
            rep.fail(
                "disagreement",
                "C17 variable set ops: model and implementation differ",
                true,
                json!({"request": req.to_text(), "request_pretty": req.pretty(), "implementation": expected, "model": got}),
            );
        }
    }
}
