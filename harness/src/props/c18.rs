//! C18 — syntax-error discovery returns exactly the outermost error and missing nodes.
//! Direct oracle: a recursive walk over `Node::children` (flagged nodes not inside a flagged node, document order).
//! Correspondence: `ParseError::all/first` vs the model's cursor machine; both displays vs the model's text.
//! The owning variants (`into_first`, `into_all`) are queried after being moved to another thread.
use crate::driver::Driver;
use crate::gen::python;
use crate::report::Report;
use crate::rng::Rng;
use crate::sexp::{self, Sexp};
use crate::tree::{parse_python, TreeInfo};
use serde_json::json;
use std::panic::{catch_unwind, AssertUnwindSafe};
use std::path::Path;
use tree_sitter::Node;
use tree_sitter_graph::parse_error::ParseError;

pub fn expected_outermost<'t>(node: Node<'t>, out: &mut Vec<(bool, Node<'t>)>) {
    if node.is_error() {
        out.push((false, node));
        return;
    }
    if node.is_missing() {
        out.push((true, node));
        return;
    }
    let mut c = node.walk();
    let kids: Vec<Node<'t>> = node.children(&mut c).collect();
    for k in kids {
        expected_outermost(k, out);
    }
}

fn perr_sexp(e: &ParseError, info: &TreeInfo) -> Sexp {
    match e {
        ParseError::Missing(n) => sexp::tagged("missing", vec![sexp::nat(info.index_of(n))]),
        ParseError::Unexpected(n) => sexp::tagged("unexpected", vec![sexp::nat(info.index_of(n))]),
    }
}

pub fn run(rep: &mut Report, tier: &str, seed: u64) {
    rep.rule = "generated and corpus Python sources with 0-6 injected syntax faults (deleted / duplicated characters and tokens, unbalanced brackets, stray characters, \
                faults at file start/end and on later lines, non-ASCII text); non-trivial = the tree has at least one error; distinct by source text".to_string();
    rep.correspondence = "perrors / perror-display: ParseError::all, ::first, display and display_pretty equal the model's (cursor machine over the exported tree; Excerpt)".to_string();
    let n = if tier == "thorough" { 8000 } else { 400 };
    let mut drv = Driver::spawn();
    let root = Rng::new(seed);
    for ci in 0..n {
        let mut r = root.fork(ci as u64);
        let base = python::gen_source(&mut r);
        let faults = if ci % 5 == 0 { 0 } else { r.range(1, 6) };
        let src = python::inject_faults(&mut r, &base, faults);
        // a small corpus runs first: an ERROR node immediately followed (no byte in between) by a zero-width MISSING node,
        // a MISSING node right before an ERROR node, adjacent ERROR nodes
        const ADJACENT: &[&str] = &[
            "def f():\n    for i\n: in range(3): print(i)\n",
            "def f():\n    \u{e9} = 1\n    if x\n,:\n        return 1\n",
            "for i in range(3:{): print(i)\n",
            "x = (1 2\ny = [3 4\n",
            "class A(:\n    def g(self:\n        pass\n",
        ];
        let src = if ci < ADJACENT.len() { ADJACENT[ci].to_string() } else { src };
        let tree = parse_python(&src);
        let info = TreeInfo::new(&tree);
        let mut exp = Vec::new();
        expected_outermost(tree.root_node(), &mut exp);
        rep.case(&src, !exp.is_empty());
        rep.count_n("expected-errors", exp.len());
        if exp.iter().any(|e| e.0) {
            rep.count("trees-with-missing-nodes");
        }
        if rep.samples.len() < 3 && !exp.is_empty() {
            rep.sample(json!({"source": src, "errors": exp.len()}));
        }
        // tree-sitter contract behind the has_error() shortcut: an ERROR/MISSING node implies has_error() on the root.
        // The converse does not hold (a zero-width MISSING token of a hidden rule, e.g. `(MISSING _newline)`, sets
        // has_error() without being a node of the API tree): that is only counted.
        if !exp.is_empty() && !tree.root_node().has_error() {
            rep.fail("oracle-contract", "tree-sitter: an ERROR/MISSING node exists but root.has_error() is false", false, json!({"source": src}));
        }
        if exp.is_empty() && tree.root_node().has_error() {
            rep.count("observation:has_error-without-a-visible-error-node");
        }
        let expected: Vec<Sexp> = exp.iter().map(|(m, n)| sexp::tagged(if *m { "missing" } else { "unexpected" }, vec![sexp::nat(info.index_of(n))])).collect();
        // implementation
        let all = catch_unwind(AssertUnwindSafe(|| ParseError::all(&tree).iter().map(|e| perr_sexp(e, &info)).collect::<Vec<_>>()));
        let first = catch_unwind(AssertUnwindSafe(|| ParseError::first(&tree).map(|e| perr_sexp(&e, &info))));
        let (all, first) = match (all, first) {
            (Ok(a), Ok(f)) => (a, f),
            _ => {
                rep.fail("impl-panic", "C18 ParseError::all/first panics", true, json!({"source": src}));
                continue;
            }
        };
        if all != expected {
            rep.fail("direct", "C18 ParseError::all differs from the outermost ERROR/MISSING nodes in document order", true,
                json!({"source": src, "all": all.iter().map(|x| x.pretty()).collect::<Vec<_>>(), "expected": expected.iter().map(|x| x.pretty()).collect::<Vec<_>>()}));
        }
        if first != expected.first().cloned() {
            rep.fail("direct", "C18 ParseError::first is not the first outermost error", true, json!({"source": src}));
        }
        // owning variants, moved to another thread before being queried
        {
            let t1 = tree.clone();
            let t2 = tree.clone();
            let bundle_all = ParseError::into_all(t1);
            let bundle_first = ParseError::into_first(t2);
            let h = std::thread::spawn(move || {
                let a: Vec<(bool, usize, usize)> = bundle_all.errors().iter().map(|e| (matches!(e, ParseError::Missing(_)), e.node().start_byte(), e.node().end_byte())).collect();
                let f = bundle_first.error().as_ref().map(|e| (matches!(e, ParseError::Missing(_)), e.node().start_byte(), e.node().end_byte()));
                let _t = bundle_all.into_tree();
                (a, f)
            });
            match h.join() {
                Ok((a, f)) => {
                    let want: Vec<(bool, usize, usize)> = exp.iter().map(|(m, n)| (*m, n.start_byte(), n.end_byte())).collect();
                    if a != want || f != want.first().cloned() {
                        rep.fail("direct", "C18 into_all / into_first differ after being moved to another thread", true, json!({"source": src}));
                    } else {
                        rep.count("moved-bundles-checked");
                    }
                }
                Err(_) => rep.fail("impl-panic", "C18 owning bundle panics on another thread", true, json!({"source": src})),
            }
        }
        // model
        drv.ask(&sexp::tagged("set-tree", vec![info.to_sexp(&src)]));
        let model = drv.ask(&sexp::tagged("perrors", vec![]));
        let want = sexp::tagged("perrors", vec![sexp::list(all.clone()), match &first { Some(f) => sexp::tagged("some", vec![f.clone()]), None => sexp::tagged("none", vec![]) }]);
        if model != want {
            rep.fail("disagreement", "C18 parse errors: model and implementation differ", true, json!({"source": src, "implementation": want.pretty(), "model": model.pretty()}));
        }
        // displays
        let errs = ParseError::all(&tree);
        for e in errs.iter().take(8) {
            let path = Path::new("dir/file.py");
            let plain = catch_unwind(AssertUnwindSafe(|| format!("{}", e.display(path, &src))));
            let pretty = catch_unwind(AssertUnwindSafe(|| format!("{}", e.display_pretty(path, &src))));
            let (kind, node) = match e {
                ParseError::Missing(n) => ("missing", n),
                ParseError::Unexpected(n) => ("unexpected", n),
            };
            let (plain, pretty) = match (plain, pretty) {
                (Ok(a), Ok(b)) => (a, b),
                _ => {
                    rep.fail("impl-panic", "C18 displaying a parse error panics", true, json!({"source": src, "node": info.index_of(node)}));
                    continue;
                }
            };
            rep.count("displays");
            let pos = format!("{}:{}", node.start_position().row + 1, node.start_position().column + 1);
            if !plain.contains(&pos) {
                rep.fail("direct", "C18 plain display does not cite the node's line and column", true, json!({"source": src, "display": plain, "position": pos}));
            }
            if node.byte_range().len() > 0 && !pretty.contains(&format!(":{}:", node.start_position().row + 1)) {
                rep.fail("direct", "C18 pretty display does not cite the node's line", true, json!({"source": src, "display": pretty}));
            }
            let model = drv.ask(&sexp::tagged("perror-display", vec![sexp::atom(kind), sexp::nat(info.index_of(node)), sexp::st("dir/file.py")]));
            let want = sexp::tagged("display", vec![sexp::tagged("some", vec![sexp::st(&plain)]), sexp::tagged("some", vec![sexp::st(&pretty)])]);
            if model != want {
                rep.fail("disagreement", "C18 parse error display: model and implementation differ", true,
                    json!({"source": src, "node": info.index_of(node), "implementation": want.pretty(), "model": model.pretty()}));
            }
        }
    }
}
