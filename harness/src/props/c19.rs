//! C19 — the command-line tool reports exactly what the library computes.
//! The real binary (built with `--features cli` from /repo's working tree) runs in a staged offline environment
//! on generated (DSL, Python) pairs x option sets. Direct oracle: exit status, stdout and the `--output` file against
//! the library called in-process; correspondence: the decision model `Cli.outcome`.
use crate::driver::Driver;
use crate::gen::dsl::{gen_program, Opts};
use crate::gen::python;
use crate::props::common::{load, pool};
use crate::report::Report;
use crate::rng::Rng;
use crate::sexp::{self, Sexp};
use crate::tree::parse_python;
use serde_json::{json, Value as J};
use std::process::Command;
use tree_sitter_graph::functions::Functions;
use tree_sitter_graph::graph::Value;
use tree_sitter_graph::parse_error::ParseError;
use tree_sitter_graph::{ExecutionConfig, Identifier, NoCancellation, Variables};

const ENVD: &str = "/verif/cli-env";
const BIN: &str = "/verif/harness/target-cli/debug/tree-sitter-graph";

/// syntax-node ids are addresses: rename them by order of first appearance
fn normalise_ids(j: &mut J, map: &mut Vec<u64>) {
    match j {
        J::Object(m) => {
            if m.get("type") == Some(&J::String("syntaxNode".into())) {
                if let Some(id) = m.get("id").and_then(|x| x.as_u64()) {
                    let pos = match map.iter().position(|x| *x == id) {
                        Some(p) => p,
                        None => {
                            map.push(id);
                            map.len() - 1
                        }
                    };
                    m.insert("id".into(), J::from(pos as u64));
                }
            }
            // iterate in key order (serde_json's default map is sorted)
            for (_, v) in m.iter_mut() {
                normalise_ids(v, map);
            }
        }
        J::Array(xs) => xs.iter_mut().for_each(|x| normalise_ids(x, map)),
        _ => {}
    }
}

struct Lib {
    load_ok: bool,
    source_has_errors: bool,
    exec_ok: bool,
    pretty: String,
    json: J,
    /// the MODEL's pretty rendering of the library's graph (`Pretty.pretty`), when the driver answered
    model_pretty: Option<String>,
    /// does the library's JSON of its graph equal the MODEL's JSON of the same graph (`J.ofGraph`)? The CLI prints the library's
    model_json_agrees: Option<bool>,
}

fn library(tsg: &str, src: &str, lazy: bool, globals: &[(String, String)], drv: &mut Driver) -> Lib {
    let mut lib = Lib { load_ok: false, source_has_errors: false, exec_ok: false, pretty: String::new(), json: J::Null, model_pretty: None, model_json_agrees: None };
    let file = match load(tsg) {
        Ok(Ok(f)) => f,
        _ => return lib,
    };
    lib.load_ok = true;
    let tree = parse_python(src);
    // the harness's own recursive walk (not parse_error.rs): does the tree contain an ERROR or MISSING node?
    let mut flagged = Vec::new();
    crate::props::c18::expected_outermost(tree.root_node(), &mut flagged);
    lib.source_has_errors = !flagged.is_empty();
    let _ = ParseError::all(&tree);
    let functions = Functions::stdlib();
    let mut gl = Variables::new();
    for (k, v) in globals {
        if gl.add(Identifier::from(k.as_str()), Value::String(v.clone())).is_err() {
            return lib;
        }
    }
    let config = ExecutionConfig::new(&functions, &gl).lazy(lazy);
    let r = std::panic::catch_unwind(std::panic::AssertUnwindSafe(|| file.execute(&tree, src, &config, &NoCancellation).map(|g| {
        // the pretty form is also rendered by the model from the exported graph: the CLI's text is compared with both
        let info = crate::tree::TreeInfo::new(&tree);
        drv.ask(&sexp::tagged("set-tree", vec![info.to_sexp(src)]));
        let gs = crate::export::graph_sexp(&g, Some(&info));
        let mp = drv.ask(&sexp::tagged("pretty", vec![gs.clone()]));
        let jv = serde_json::to_value(&g).unwrap();
        let mj = drv.ask(&sexp::tagged("json", vec![gs]));
        let agrees = crate::props::c14::json_sexp(&jv, &info) == mj;
        (format!("{}", g.pretty_print()), jv, mp.as_str().map(|x| x.to_string()), agrees)
    })));
    if let Ok(Ok((p, mut j, mp, agrees))) = r {
        lib.exec_ok = true;
        lib.model_pretty = mp;
        lib.model_json_agrees = Some(agrees);
        lib.pretty = p;
        normalise_ids(&mut j, &mut Vec::new());
        lib.json = j;
    }
    lib
}

pub fn run(rep: &mut Report, tier: &str, seed: u64) {
    rep.rule = "generated (DSL file, Python source) pairs incl. rejected files (a mutated keyword), failing executions (missing globals, injected faults) and sources \
                with syntax errors x option sets over --lazy --json --output --quiet --allow-parse-errors and 0-3 --global (incl. a malformed and a repeated one); \
                non-trivial = the tool exits 0 for at least one option set of the pair; distinct by (DSL, source, argv)".to_string();
    rep.correspondence = "cli: exit status zero?, kind of stdout (nothing / pretty / JSON) and presence of the --output file equal Cli.outcome applied to the library's results".to_string();
    let (n_pairs, n_opts) = if tier == "thorough" { (300, 24) } else { (40, 10) };
    if !std::path::Path::new(BIN).exists() {
        rep.fail("disagreement", "C19 the CLI binary was not built", false, json!({"expected": BIN}));
        return;
    }
    let mut drv = Driver::spawn();
    let root = Rng::new(seed);
    let pool = pool();
    let work = format!("{}/work/run-{}", ENVD, std::process::id());
    std::fs::create_dir_all(&work).expect("work dir");
    for pi in 0..n_pairs {
        let mut r = root.fork(pi as u64);
        crate::gen::dsl::NO_SYNTAX_NODE_SETS.with(|c| c.set(true));
        let opts = Opts { fragment: true, fault_pct: if pi % 6 == 5 { 100 } else { 0 }, max_stanzas: 3, allow_print: false, universal: false, probe: false, scoped_heavy: false, keywordish_names: false, static_fault: 0 };
        let program = gen_program(&mut r, &pool, &opts);
        let mut tsg = program.text.clone();
        if pi % 3 == 1 || pi % 13 == 12 {
            // a stanza that observes the extent of the whole file: the CLI must run on the file's bytes as they are
            tsg.push_str("(module) @cm {\n  node cmn\n  attr (cmn) erow = (end-row @cm), ecol = (end-column @cm), text = (source-text @cm)\n}\n");
        }
        if pi % 3 == 2 {
            // values of every shape in the printed graph: strings after the first position of a list, nested lists, sets, null
            tsg.push_str("(module) @_lm {\n  node lmn\n  attr (lmn) names = [\"a\", \"b c\", \"d\"], nested = [1, [\"u\", \"v\"]], mixed = [#true, \"x\", #null], aset = {\"p\", \"q\"}, quoted = \"q\\\"t\"\n}\n");
        }
        if !program.globals.is_empty() {
            // every string global is also written into the graph as it was supplied: a value that is altered on its way from the
            // command line (one that contains `=`, an empty one, a non-ASCII one) shows in the output
            let reads: Vec<String> = program.globals.iter().enumerate().filter(|(_, g)| !g.1).map(|(i, g)| format!("gv{} = {}", i, g.0)).collect();
            if !reads.is_empty() {
                tsg.push_str(&format!("(module) @_gm {{\n  node gmn\n  attr (gmn) {}\n}}\n", reads.join(", ")));
            }
        }
        if pi % 5 == 3 && program.globals.is_empty() {
            // a file with ONE stanza on which the two modes legitimately number the graph nodes differently (a `node` statement
            // creates its node at once in both modes, a `(node)` call only when its value is needed in lazy mode): `--lazy` must
            // be honoured whatever the file looks like
            tsg = "(module) @_m {\n  let a = (node)\n  node b\n  attr (b) k = 1\n  attr (a) j = 2\n}\n".to_string();
        }
        if pi % 7 == 6 {
            tsg = tsg.replacen("node ", "nodde ", 1); // rejected file
        }
        let base = python::gen_small_source(&mut r);
        // sources with syntax errors: random damage, and sources whose ONLY fault is a MISSING token or node
        // (error recovery inserted a zero-width node; there is no ERROR node)
        const MISSING_ONLY: &[&str] = &["def f(:\n    pass\n", "def f(x=1:\n    pass\n", "for x in :\n    pass\n", "x = [1, 2\n", "f(1, 2\n", "class A(B:\n    pass\n", "x = {1: 2\n"];
        let src = if pi % 8 == 7 { format!("{}{}", r.pick(MISSING_ONLY), if r.chance(1, 2) { base.as_str() } else { "" }) } else if pi % 4 == 3 { python::inject_faults(&mut r, &base, 1) } else { base };
        // blank sources still have a (module) node: the program runs on them like on any other source
        let src = if pi % 13 == 12 { r.pick(&["", "\n", "   \n\n", "\t"]).to_string() } else { src };
        // a third of the sources do not end in a newline (or end in blanks / a carriage return)
        let src = match pi % 6 {
            1 => src.trim_end_matches('\n').to_string(),
            4 => format!("{}  ", src.trim_end_matches('\n')),
            _ => src,
        };
        let tsg_path = format!("{}/rules.tsg", work);
        let src_path = format!("{}/source.py", work);
        std::fs::write(&tsg_path, &tsg).unwrap();
        std::fs::write(&src_path, &src).unwrap();
        let mut any_zero = false;
        for oi in 0..n_opts {
            let lazy = r.chance(1, 2);
            let quiet = r.chance(1, 3);
            let jsonf = r.chance(1, 2);
            let allow = r.chance(1, 2);
            let output = jsonf && r.chance(1, 2) || (oi == n_opts - 1 && !jsonf && pi % 10 == 0);
            // globals: supply the declared ones (strings), sometimes omit / malformed / repeated
            let mut gargs: Vec<String> = Vec::new();
            for (name, is_list) in &program.globals {
                if *is_list || r.chance(3, 4) {
                    let v = *r.pick(&["v", "a=b", "", "caf\u{e9}", "k=v&x=y", "Zm9v=="]);
                    gargs.push(format!("{}={}", name, if oi == 0 { "a=b" } else { v }));
                }
            }
            match r.below(10) {
                0 => gargs.push("novalue".to_string()),
                1 => {
                    if let Some(g) = gargs.first().cloned() {
                        gargs.push(g)
                    }
                }
                2 => gargs.push("extra=1".to_string()),
                _ => {}
            }
            let out_path = format!("{}/out-{}.json", work, oi);
            let _ = std::fs::remove_file(&out_path);
            // the destination may exist already (an earlier, longer document): the file must hold exactly the new one
            let mut stale_text: Option<String> = None;
            if output && r.chance(1, 2) {
                let stale = format!("{{\"stale\": \"{}\"}}\n", "x".repeat(r.range(10, 200000)));
                let _ = std::fs::write(&out_path, &stale);
                stale_text = Some(stale);
                rep.count("output-file-pre-existing");
            }
            let mut argv: Vec<String> = vec![tsg_path.clone(), src_path.clone()];
            if lazy { argv.push("--lazy".into()) }
            if quiet { argv.push("--quiet".into()) }
            if jsonf { argv.push("--json".into()) }
            if allow { argv.push("--allow-parse-errors".into()) }
            if output {
                argv.push("--output".into());
                argv.push(out_path.clone());
            }
            for g in &gargs {
                argv.push("--global".into());
                argv.push(g.clone());
            }
            let outp = Command::new(BIN)
                .args(&argv)
                .env("HOME", format!("{}/home", ENVD))
                .env("XDG_CONFIG_HOME", format!("{}/home/.config", ENVD))
                .env("XDG_CACHE_HOME", format!("{}/home/.cache", ENVD))
                .current_dir(&work)
                .output()
                .expect("spawn cli");
            let exit_zero = outp.status.success();
            let stdout = String::from_utf8_lossy(&outp.stdout).to_string();
            let stderr = String::from_utf8_lossy(&outp.stderr).to_string();
            any_zero |= exit_zero;
            rep.count(if exit_zero { "exit:zero" } else { "exit:nonzero" });
            // library
            let globals_parsed: Option<Vec<(String, String)>> = gargs.iter().map(|g| g.split_once('=').map(|(a, b)| (a.to_string(), b.to_string()))).collect();
            let lib = match &globals_parsed {
                Some(gl) => library(&tsg, &src, lazy, gl, &mut drv),
                None => library(&tsg, &src, lazy, &[], &mut drv),
            };
            let key = format!("{}\u{0}{}\u{0}{:?}", tsg, src, &argv[2..]);
            rep.case(&key, true);
            if rep.samples.len() < 3 && exit_zero {
                rep.sample(json!({"argv": &argv[2..], "tsg": tsg, "source": src, "stdout": stdout.chars().take(200).collect::<String>()}));
            }
            // observed result in the model's terms
            // "written" = the destination exists and is not the untouched stale file put there before the run
            let file_written = std::path::Path::new(&out_path).exists()
                && match &stale_text { Some(st) => std::fs::read_to_string(&out_path).map(|t| &t != st).unwrap_or(true), None => true };
            let stdout_kind = if stdout.is_empty() {
                "nothing"
            } else if jsonf && serde_json::from_str::<J>(&stdout).is_ok() {
                "json"
            } else {
                "pretty"
            };
            let observed = sexp::tagged("cli-result", vec![sexp::boolean(exit_zero), sexp::atom(stdout_kind), sexp::boolean(file_written)]);
            // an empty graph prints nothing in pretty form: the model says `pretty`, the observation `nothing`
            let req = sexp::tagged("cli", vec![sexp::boolean(lazy), sexp::boolean(quiet), sexp::boolean(jsonf), sexp::boolean(allow), sexp::boolean(output),
                sexp::list(gargs.iter().map(|g| sexp::st(g)).collect()), sexp::boolean(lib.load_ok), sexp::boolean(lib.source_has_errors), sexp::boolean(lib.exec_ok)]);
            let model = drv.ask(&req);
            let model_adj = if model == sexp::tagged("cli-result", vec![sexp::boolean(true), sexp::atom("pretty"), sexp::boolean(false)]) && lib.pretty.is_empty() {
                sexp::tagged("cli-result", vec![sexp::boolean(true), sexp::atom("nothing"), sexp::boolean(false)])
            } else {
                model.clone()
            };
            let replay = json!({"argv": &argv[2..], "tsg": tsg, "source": src, "exit_zero": exit_zero, "stdout": stdout.chars().take(400).collect::<String>(),
                "stderr": stderr.chars().take(400).collect::<String>(), "observed": observed.pretty(), "model": model.pretty(),
                "library": {"load_ok": lib.load_ok, "source_has_errors": lib.source_has_errors, "exec_ok": lib.exec_ok}});
            if observed != model_adj {
                rep.fail("disagreement", &format!("C19 CLI behaviour differs from the decision model: observed {} / model {}", observed.to_text(), model.to_text()), true, replay.clone());
                continue;
            }
            // contents
            if exit_zero {
                if !jsonf && !quiet && stdout != lib.pretty {
                    rep.fail("direct", "C19 the printed graph differs from the library's pretty_print()", true, replay.clone());
                }
                // ... and from the model's rendering of the graph the library computed (the library's printer is shared with the CLI)
                if !jsonf && !quiet {
                    if let Some(mp) = &lib.model_pretty {
                        if &stdout != mp {
                            rep.fail("disagreement", "C19 the printed graph differs from the model's rendering of the library's graph", true, replay.clone());
                        } else {
                            rep.count("printed-graph-equals-model-rendering");
                        }
                    }
                }
                let check_json = |text: &str| -> bool {
                    match serde_json::from_str::<J>(text) {
                        Ok(mut j) => {
                            normalise_ids(&mut j, &mut Vec::new());
                            j == lib.json
                        }
                        Err(_) => false,
                    }
                };
                if jsonf && !check_json(&stdout) {
                    rep.fail("direct", "C19 the JSON on stdout differs from the library's serialisation", true, replay.clone());
                }
                // ... and the library's serialisation (shared with the CLI) is the model's JSON of the graph the library computed
                if jsonf {
                    match lib.model_json_agrees {
                        Some(false) => rep.fail("disagreement", "C19 the JSON the CLI prints (the library's) differs from the model's JSON of the library's graph", true, replay.clone()),
                        Some(true) => rep.count("printed-json-equals-model-json"),
                        None => {}
                    }
                }
                if jsonf && output {
                    let text = std::fs::read_to_string(&out_path).unwrap_or_default();
                    if !check_json(&text) {
                        rep.fail("direct", "C19 the JSON in the --output file differs from the library's serialisation", true, replay.clone());
                    }
                }
                rep.count("contents-checked");
            } else {
                if stderr.is_empty() {
                    rep.fail("direct", "C19 non-zero exit without a diagnostic", true, replay.clone());
                }
            }
            let _ = std::fs::remove_file(&out_path);
        }
        if any_zero {
            rep.nontrivial.insert(crate::report::hash_of(&format!("{}\u{0}{}", tsg, src)));
        }
    }
    let _ = std::fs::remove_dir_all(&work);
    let _ = Sexp::Atom(String::new());
}
