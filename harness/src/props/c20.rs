//! C20 — execution errors identify the failing statement, stanza and matched node.
//! Correspondence (hard): the whole chain of error contexts (statement / stanza / source locations and node
//! kind of every `StatementContext`) equals the model's. Direct oracle: shape of the top-level error and
//! the pretty rendering citing the lines.
use crate::execx::RunCfg;
use crate::gen::dsl::Opts;
use crate::props::runner::*;
use crate::report::Report;
use crate::sexp::Sexp;
use serde_json::json;
use std::path::Path;

use tree_sitter_graph::ast::Statement;
use tree_sitter_graph::{Context, ExecutionError, Location};

fn stmt_location(s: &Statement) -> Location {
    match s {
        Statement::DeclareImmutable(x) => x.location,
        Statement::DeclareMutable(x) => x.location,
        Statement::Assign(x) => x.location,
        Statement::CreateGraphNode(x) => x.location,
        Statement::AddGraphNodeAttribute(x) => x.location,
        Statement::CreateEdge(x) => x.location,
        Statement::AddEdgeAttribute(x) => x.location,
        Statement::Scan(x) => x.location,
        Statement::Print(x) => x.location,
        Statement::If(x) => x.location,
        Statement::ForIn(x) => x.location,
    }
}

/// the text (`Display`) of every statement of the file that starts at `loc`
fn stmt_texts_at(stmts: &[Statement], loc: &Location, out: &mut Vec<String>) {
    for s in stmts {
        let l = stmt_location(s);
        if l.row == loc.row && l.column == loc.column {
            out.push(format!("{}", s));
        }
        match s {
            Statement::Scan(x) => x.arms.iter().for_each(|a| stmt_texts_at(&a.statements, loc, out)),
            Statement::If(x) => x.arms.iter().for_each(|a| stmt_texts_at(&a.statements, loc, out)),
            Statement::ForIn(x) => stmt_texts_at(&x.statements, loc, out),
            _ => {}
        }
    }
}

/// (location, text) of every statement, nested ones included
fn all_stmts(stmts: &[Statement], out: &mut Vec<(Sexp, String)>) {
    for s in stmts {
        out.push((crate::astx::loc(&stmt_location(s)), format!("{}", s)));
        match s {
            Statement::Scan(x) => x.arms.iter().for_each(|a| all_stmts(&a.statements, out)),
            Statement::If(x) => x.arms.iter().for_each(|a| all_stmts(&a.statements, out)),
            Statement::ForIn(x) => all_stmts(&x.statements, out),
            _ => {}
        }
    }
}

/// every statement context of an error, outermost first
fn statement_contexts(e: &ExecutionError, out: &mut Vec<tree_sitter_graph::StatementContext>) {
    if let ExecutionError::InContext(ctx, cause) = e {
        if let Context::Statement(v) = ctx {
            for c in v {
                out.push(c.clone());
            }
        }
        statement_contexts(cause, out);
    }
}

/// Pretty rendering (implementation only): every statement context of the error is rendered with its three excerpts — the
/// statement and its stanza in the DSL file, the matched node in the source file — and the statement named by a context
/// is the statement written at the cited location of THIS file.
fn check_pretty(rep: &mut Report, file: &tree_sitter_graph::ast::File, tsg: &str, source: &crate::props::common::Source, globals: &[(String, tree_sitter_graph::graph::Value)]) {
    let functions = tree_sitter_graph::functions::Functions::stdlib();
    let mut gl = tree_sitter_graph::Variables::new();
    for (k, v) in globals {
        gl.add(tree_sitter_graph::Identifier::from(k.as_str()), v.clone()).unwrap();
    }
    for lazy in [false, true] {
        let config = tree_sitter_graph::ExecutionConfig::new(&functions, &gl).lazy(lazy);
        let r = std::panic::catch_unwind(std::panic::AssertUnwindSafe(|| {
            match file.execute(&source.tree, &source.src, &config, &tree_sitter_graph::NoCancellation) {
                Ok(_) => None,
                Err(e) => {
                    let mut ctxs = Vec::new();
                    statement_contexts(&e, &mut ctxs);
                    Some((format!("{}", e), format!("{}", e.display_pretty(Path::new("src.py"), &source.src, Path::new("rules.tsg"), tsg)), ctxs))
                }
            }
        }));
        match r {
            Ok(Some((_plain, pretty, ctxs))) => {
                rep.count("pretty-rendered");
                for c in &ctxs {
                    let (text, loc) = (&c.statement, &c.statement_location);
                    let mut at = Vec::new();
                    for st in &file.stanzas {
                        stmt_texts_at(&st.statements, loc, &mut at);
                    }
                    rep.count("statement-texts-checked");
                    if !at.contains(text) {
                        rep.fail("direct", "C20 the statement text in an error context is not the statement at the cited location", true,
                            json!({"tsg": tsg, "source": source.src, "lazy": lazy, "context_statement": text, "location": format!("{}", loc), "statements_there": at}));
                    }
                    // the three excerpts of THIS context: headers `path:row:column:` (1-based) and the kind of the matched node
                    let want = [
                        format!("rules.tsg:{}:{}:", c.statement_location.row + 1, c.statement_location.column + 1),
                        format!("rules.tsg:{}:{}:", c.stanza_location.row + 1, c.stanza_location.column + 1),
                        format!("src.py:{}:{}:", c.source_location.row + 1, c.source_location.column + 1),
                        format!("matching ({}) node", c.node_kind),
                    ];
                    rep.count("pretty-context-excerpts-checked");
                    for w in &want {
                        if !pretty.contains(w.as_str()) {
                            rep.fail("direct", "C20 pretty rendering does not show an excerpt of one of the error's statement contexts", true,
                                json!({"tsg": tsg, "source": source.src, "lazy": lazy, "missing": w, "pretty": pretty}));
                            break;
                        }
                    }
                }
                // one "in stanza" and one "matching (..) node" block per context
                let n_stanza = pretty.matches("in stanza\n").count();
                let n_node = pretty.matches(") node\n").count();
                if n_stanza != ctxs.len() || n_node != ctxs.len() {
                    rep.fail("direct", "C20 pretty rendering shows fewer or more stanza / node excerpts than the error has statement contexts", true,
                        json!({"tsg": tsg, "source": source.src, "lazy": lazy, "contexts": ctxs.len(), "stanza_blocks": n_stanza, "node_blocks": n_node, "pretty": pretty}));
                }
                // errors raised while executing a stanza carry a context and must cite the DSL and source lines
                if _plain.starts_with("Error executing") && !(pretty.contains("rules.tsg:") && pretty.contains("src.py:")) {
                    rep.fail("direct", "C20 pretty rendering does not cite the DSL file", true, json!({"tsg": tsg, "source": source.src, "pretty": pretty}));
                }
            }
            Ok(None) => {}
            Err(_) => rep.fail("impl-panic", "C20 rendering an execution error panics", true, json!({"tsg": tsg, "source": source.src, "lazy": lazy})),
        }
    }
}

fn first_stmt_ctx(o: &Sexp) -> Option<Vec<Sexp>> {
    // (err (in-stmt (ctx...) cause))
    let e = &o.as_list()?[1];
    if e.tag() == Some("in-stmt") {
        Some(e.as_list()?[1].as_list()?.clone())
    } else {
        None
    }
}

pub fn run(rep: &mut Report, tier: &str, seed: u64) {
    rep.rule = "generated programs with one injected runtime fault (type error, unknown function, wrong arity...) plus naturally failing programs \
                (conflicting attributes, duplicate/undefined scoped variables, undefined edges) x sources x {strict, lazy}; \
                non-trivial = the run failed; distinct by (program, source)".to_string();
    rep.correspondence = "exec: on failure the whole error-context chain equals the model's".to_string();
    let n_programs = if tier == "thorough" { 3000 } else { 200 };
    let mut runner = Runner::new("C20");
    campaign(rep, &mut runner, seed, n_programs, 2, false,
        &|pi, r| Opts { fragment: false, fault_pct: if pi % 4 != 0 { 100 } else { 0 }, max_stanzas: 4, allow_print: false, universal: r.chance(1, 2), probe: false, scoped_heavy: false, keywordish_names: false, static_fault: 0 },
        &mut |rep, runner, case, r, _pi| {
            let globals = crate::props::common::supply_globals(r, &case.loaded.program);
            for lazy in [false, true] {
                let mode = if lazy { "lazy" } else { "strict" };
                let res = runner.check_mode(rep, case, &RunCfg { lazy, globals: globals.clone(), outer_globals: vec![], debug: None, cancel_at: None }, true, true);
                if !res.class.starts_with("err:") || res.class == "err:MissingGlobalVariable" || res.class == "err:ExpectedList" && first_stmt_ctx(&res.run.outcome).is_none() {
                    continue;
                }
                rep.count("failing-runs");
                let replay = json!({"tsg": case.tsg, "source": case.source.src, "mode": mode, "error": res.run.outcome.pretty()});
                match first_stmt_ctx(&res.run.outcome) {
                    None => rep.fail("direct", &format!("C20 {}: execution error without a statement context ({})", mode, res.class), true, replay),
                    Some(ctxs) => {
                        if res.class == "err:DuplicateAttribute" && lazy || res.class == "err:DuplicateVariable" && lazy {
                            rep.count(&format!("contexts-in-conflict:{}", ctxs.len()));
                        }
                        for c in &ctxs {
                            let cl = c.as_list().unwrap();
                            // stanza location must be the start of one of the file's stanzas
                            let stanza_ok = case.loaded.file.stanzas.iter().any(|s| crate::astx::loc(&s.range.start) == cl[1]);
                            if !stanza_ok {
                                rep.fail("direct", &format!("C20 {}: context names a stanza location that is no stanza's start", mode), true, replay.clone());
                            }
                            // source location / kind must be those of some node of the tree
                            let node_ok = case.info.nodes.iter().any(|n| {
                                crate::sexp::list(vec![crate::sexp::nat(n.start_position().row), crate::sexp::nat(n.start_position().column)]) == cl[2]
                                    && crate::sexp::st(n.kind()) == cl[3]
                            });
                            if !node_ok {
                                rep.fail("direct", &format!("C20 {}: context names a node kind/position not in the tree", mode), true, replay.clone());
                            }
                        }
                    }
                }
            }
            check_pretty(rep, &case.loaded.file, case.tsg, case.source, &globals);
        });
    // faults in the SCOPE of a scoped definition (not a syntax node), found when lazy evaluation forces the variable: whether a
    // reader triggers the forcing or nothing reads it, the error cites the DEFINING statement
    for (tsg, src) in [
        ("(module) @_m {\n  node n\n  let n.v = 1\n}\n", "pass\n"),
        ("(module) @_m {\n  node n\n  let n.v = 1\n}\n(identifier) @id {\n  node x\n  attr (x) a = @id.v\n}\n", "a = b\n"),
        ("(module) @_m {\n  if #true {\n    let (plus 1 2).v = 1\n  }\n}\n", "pass\n"),
        ("(identifier) @id {\n  let (source-text @id).w = @id\n}\n", "x\ny\n"),
    ] {
        if let Some(classes) = fixed_case_ctx(rep, &mut runner, tsg, src, &[None], true) {
            if classes.iter().any(|c| c == "ok") {
                rep.fail("direct", "C20 a scoped definition whose scope is not a syntax node did not make execution fail", true, json!({"tsg": tsg, "source": src, "outcomes": classes}));
            }
        }
    }
    conflict_stream(rep, &mut runner, tier, seed);
    dead_value_stream(rep, &mut runner, tier, seed);
    per_match_fault_stream(rep, &mut runner, tier, seed);
}

/// Two-sided conflicts with other definitions in between: a duplicate scoped variable (or attribute) whose two
/// conflicting statements are separated by definitions of the SAME name on other nodes, in the same stanza or in
/// stanzas between them. The error must name the two statements that conflict, not their neighbours.
fn conflict_stream(rep: &mut Report, runner: &mut Runner, tier: &str, seed: u64) {
    use crate::gen::dsl::Program;
    use crate::props::common::{gen_source, load, Loaded};
    let n = if tier == "thorough" { 600 } else { 60 };
    let root = crate::rng::Rng::new(seed ^ 0xc0f1);
    for i in 0..n {
        let mut r = root.fork(i as u64);
        let v = *r.pick(&["v", "val", "kind"]);
        let w = if r.chance(1, 3) { *r.pick(&["w", "other"]) } else { v };
        let (a, b, c) = (r.below(9), r.below(9), 10 + r.below(9));
        let text = match r.below(7) {
            // the two conflicting statements are ONE statement of one stanza, executed for two different matches (lazy): each
            // context has its own matched node
            5 => format!("inherit .shared\n(module) @m {{\n  node @m.shared\n  let @m.{w} = {a}\n}}\n(identifier) @id {{\n  attr (@id.shared) {v} = (source-text @id)\n}}\n"),
            6 => format!("inherit .mod\n(module) @m {{\n  let @m.mod = @m\n}}\n[(identifier) (integer) (pass_statement)] @x {{\n  let @x.mod.{v} = (start-column @x)\n}}\n(string) @s {{\n  let @s.{w} = {b}\n}}\n"),
            0 => format!("(module) @m {{\n  let @m.{v} = {a}\n}}\n(identifier) @id {{\n  let @id.{w} = {b}\n}}\n(module) @m2 {{\n  let @m2.{v} = {c}\n}}\n"),
            1 => format!("(module (_) @s) @m {{\n  let @m.{v} = {a}\n  let @s.{w} = {b}\n  let @m.{v} = {c}\n}}\n"),
            2 => format!("(module) @m {{\n  var @m.{v} = {a}\n}}\n(identifier) @id {{\n  let @id.{w} = (source-text @id)\n}}\n(integer) @i {{\n  let @i.{w} = {b}\n}}\n(module) @m2 {{\n  if #true {{\n    let @m2.{v} = {c}\n  }}\n}}\n"),
            3 => format!("(module) @m {{\n  node @m.n\n  attr (@m.n) {v} = {a}\n}}\n(identifier) @id {{\n  node @id.n\n  attr (@id.n) {w} = {b}\n}}\n(module) @m2 {{\n  attr (@m2.n) {v} = {c}\n}}\n"),
            _ => format!("(module (_) @s) @_m {{\n  let @s.{w} = {b}\n}}\n(module) @m1 {{\n  let @m1.{v} = {a}\n  for x in [1, 2] {{\n    let @m1.{v} = {c}\n  }}\n}}\n"),
        };
        let file = match load(&text) {
            Ok(Ok(f)) => f,
            other => {
                rep.fail("direct", "C20 conflict program rejected", true, json!({"tsg": text, "result": format!("{:?}", other.map(|x| x.map(|_| "file")))}));
                continue;
            }
        };
        let source = gen_source(&mut r, true, false);
        let info = crate::tree::TreeInfo::new(&source.tree);
        let loaded = Loaded { program: Program { text: text.clone(), header: String::new(), stanzas: vec![text.clone()], globals: vec![], stanza_count: 1, has_fault: false, features: vec![], static_fault: None }, file };
        let mi = crate::execx::model_input(&loaded.file, &source.tree, &source.src, &info);
        runner.set_tree(&info, &source.src);
        runner.table = crate::oracle::OracleTable::new();
        runner.table.arm_sets = crate::astx::scan_arm_sets(&loaded.file);
        let case = Case { tsg: &text, loaded: &loaded, source: &source, info: &info, mi: &mi };
        rep.case(&format!("{}\u{0}{}", text, source.src), true);
        check_pretty(rep, &loaded.file, &text, &source, &[]);
        for lazy in [false, true] {
            let res = runner.check_mode(rep, &case, &RunCfg { lazy, globals: vec![], outer_globals: vec![], debug: None, cancel_at: None }, true, true);
            rep.count(&format!("conflict-stream:{}:{}", if lazy { "lazy" } else { "strict" }, res.class));
            if lazy && (res.class == "err:DuplicateVariable" || res.class == "err:DuplicateAttribute") {
                // direct: the two statements named are two statements that assign the conflicting name
                if let Some(ctxs) = first_stmt_ctx(&res.run.outcome) {
                    rep.count(&format!("conflict-stream:contexts:{}", ctxs.len()));
                    let key = format!(".{} =", v);
                    let key2 = format!(" {} =", v);
                    let mut all: Vec<(Sexp, String)> = Vec::new();
                    for stz in &loaded.file.stanzas {
                        all_stmts(&stz.statements, &mut all);
                    }
                    for c in &ctxs {
                        let at = &c.as_list().unwrap()[0];
                        let st: String = all.iter().filter(|(l, _)| l == at).map(|(_, t)| t.clone()).collect::<Vec<_>>().join(" / ");
                        if w != v && !(st.contains(&key) || st.contains(&key2)) {
                            rep.fail("direct", "C20 lazy: a conflict names a statement that does not assign the conflicting name", true,
                                json!({"tsg": text, "source": source.src, "named": st, "conflicting_name": v, "error": res.run.outcome.pretty()}));
                        }
                    }
                }
            }
        }
    }
}

/// Values nothing asks for: a local or scoped variable bound to a failing expression and never read (or read only by
/// another unread variable). Strict evaluation fails at the statement; lazy evaluation fails when the leftover thunks and
/// scoped variables are forced at the end — in both modes the error must cite the statement that bound the value.
fn dead_value_stream(rep: &mut Report, runner: &mut Runner, tier: &str, seed: u64) {
    use crate::gen::dsl::Program;
    use crate::props::common::{gen_source, load, Loaded};
    let n = if tier == "thorough" { 600 } else { 60 };
    let root = crate::rng::Rng::new(seed ^ 0xdead);
    for i in 0..n {
        let mut r = root.fork(i as u64);
        let bad = *r.pick(&["(plus \"a\" 1)", "(no-such-function 1)", "(format \"{}{}\" 1)", "[ (plus \"a\" 1) ]", "(replace \"abc\" \"(\" \"x\")", "(source-text 3)"]);
        let binding = match r.below(5) {
            0 => format!("let dead = {}", bad),
            1 => format!("let dead = {}\n  let dead2 = dead", bad),
            2 => format!("var dead = 1\n  set dead = {}", bad),
            3 => format!("let @m.dead = {}", bad),
            _ => format!("let dead = [ {} for zq in [1, 2] ]", bad),
        };
        let wrapped = match r.below(5) {
            0 | 1 => format!("  {}\n", binding),
            2 => format!("  if #true {{\n  {}\n  }}\n", binding),
            3 => format!("  for zi in [1] {{\n  {}\n  }}\n", binding),
            _ => format!("  scan \"ab\" {{\n    \"a\" {{\n  {}\n    }}\n  }}\n", binding),
        };
        let before = if r.chance(1, 2) { "  node live\n  attr (live) ok = 1\n" } else { "" };
        let after = if r.chance(1, 2) { "  node live2\n  attr (live2) ok = 2\n" } else { "" };
        let cap = if binding.contains("@m.") { "@m" } else { "@_m" };
        let text = format!("(module) {} {{\n{}{}{}}}\n", cap, before, wrapped, after);
        let file = match load(&text) {
            Ok(Ok(f)) => f,
            other => {
                rep.fail("direct", "C20 dead-value program rejected", true, json!({"tsg": text, "result": format!("{:?}", other.map(|x| x.map(|_| "file")))}));
                continue;
            }
        };
        let source = gen_source(&mut r, true, false);
        let info = crate::tree::TreeInfo::new(&source.tree);
        let loaded = Loaded { program: Program { text: text.clone(), header: String::new(), stanzas: vec![text.clone()], globals: vec![], stanza_count: 1, has_fault: false, features: vec![], static_fault: None }, file };
        let mi = crate::execx::model_input(&loaded.file, &source.tree, &source.src, &info);
        runner.set_tree(&info, &source.src);
        runner.table = crate::oracle::OracleTable::new();
        runner.table.arm_sets = crate::astx::scan_arm_sets(&loaded.file);
        if mi.n_matches == 0 {
            // a source whose root is not a `module` (the whole tree is an ERROR node): the stanza does not run at all
            rep.count("dead-value-stream:no-match");
            continue;
        }
        let case = Case { tsg: &text, loaded: &loaded, source: &source, info: &info, mi: &mi };
        rep.case(&format!("{}\u{0}{}", text, source.src), true);
        for lazy in [false, true] {
            let mode = if lazy { "lazy" } else { "strict" };
            let res = runner.check_mode(rep, &case, &RunCfg { lazy, globals: vec![], outer_globals: vec![], debug: None, cancel_at: None }, true, true);
            rep.count(&format!("dead-value-stream:{}:{}", mode, res.class));
            if res.class == "ok" || res.class == "panic" {
                rep.fail("direct", &format!("C20 {}: a value that fails to evaluate and that nothing reads did not make execution fail", mode), true,
                    json!({"tsg": text, "source": source.src, "outcome": res.run.outcome.pretty()}));
                continue;
            }
            // direct: the error cites a statement of the program that mentions the dead variable
            match first_stmt_ctx(&res.run.outcome) {
                None => rep.fail("direct", &format!("C20 {}: the error of a value nothing reads carries no statement context", mode), true,
                    json!({"tsg": text, "source": source.src, "error": res.run.outcome.pretty()})),
                Some(ctxs) => {
                    let mut all: Vec<(Sexp, String)> = Vec::new();
                    for stz in &loaded.file.stanzas {
                        all_stmts(&stz.statements, &mut all);
                    }
                    let named: Vec<String> = ctxs.iter().map(|c| {
                        let at = &c.as_list().unwrap()[0];
                        all.iter().filter(|(l, _)| l == at).map(|(_, t)| t.clone()).collect::<Vec<_>>().join(" / ")
                    }).collect();
                    if !named.iter().any(|t| t.contains("dead") || t.contains("scan") || t.contains("if") || t.contains("for")) {
                        rep.fail("direct", &format!("C20 {}: the error of a value nothing reads cites a statement that neither binds it nor encloses the binding", mode), true,
                            json!({"tsg": text, "source": source.src, "named": named, "error": res.run.outcome.pretty()}));
                    } else {
                        rep.count("dead-value-stream:context-checked");
                    }
                }
            }
        }
    }
}

/// A statement that fails for SOME matches only (an optional capture that is absent on some nodes): the error must cite the
/// node of the match in which it failed, not the node of the first match that executed the statement.
fn per_match_fault_stream(rep: &mut Report, runner: &mut Runner, tier: &str, seed: u64) {
    use crate::gen::dsl::Program;
    use crate::props::common::{load, Loaded, Source};
    let n = if tier == "thorough" { 300 } else { 30 };
    let root = crate::rng::Rng::new(seed ^ 0x9e7a);
    for i in 0..n {
        let mut r = root.fork(i as u64);
        let body = match r.below(5) {
            0 => "  node n\n  let rt = (source-text @ret)\n  attr (n) rt = rt\n".to_string(),
            1 => "  let rt = (source-text @ret)\n".to_string(),
            2 => "  let @f.rt = (source-text @ret)\n".to_string(),
            3 => "  for zi in [1] {\n    let rt = (node-type @ret)\n    node n\n    attr (n) rt = rt\n  }\n".to_string(),
            _ => "  node n\n  var rt = \"none\"\n  set rt = (source-text @ret)\n  attr (n) rt = rt\n".to_string(),
        };
        let cap = if body.contains("@f.") { "@f" } else { "@_f" };
        let text = format!("(function_definition return_type: (_)? @ret) {} {{\n{}}}\n", cap, body);
        // the first function has a return type; at least one later function has none
        let k = r.range(2, 5);
        let bad = r.range(1, k - 1);
        let mut src = String::new();
        let mut first_lacking = usize::MAX;
        for j in 0..k {
            let with_ret = j != bad && (j == 0 || r.chance(2, 3));
            if !with_ret && first_lacking == usize::MAX {
                first_lacking = j;
            }
            src.push_str(&format!("def f{}(){}:\n    pass\n", j, if with_ret { " -> int" } else { "" }));
        }
        let file = match load(&text) {
            Ok(Ok(f)) => f,
            other => {
                rep.fail("direct", "C20 per-match-fault program rejected", true, json!({"tsg": text, "result": format!("{:?}", other.map(|x| x.map(|_| "file")))}));
                continue;
            }
        };
        let source = Source { tree: crate::tree::parse_python(&src), src };
        let info = crate::tree::TreeInfo::new(&source.tree);
        let loaded = Loaded { program: Program { text: text.clone(), header: String::new(), stanzas: vec![text.clone()], globals: vec![], stanza_count: 1, has_fault: false, features: vec![], static_fault: None }, file };
        let mi = crate::execx::model_input(&loaded.file, &source.tree, &source.src, &info);
        runner.set_tree(&info, &source.src);
        runner.table = crate::oracle::OracleTable::new();
        let case = Case { tsg: &text, loaded: &loaded, source: &source, info: &info, mi: &mi };
        rep.case(&format!("{}\u{0}{}", text, source.src), true);
        for lazy in [false, true] {
            let mode = if lazy { "lazy" } else { "strict" };
            let res = runner.check_mode(rep, &case, &RunCfg { lazy, globals: vec![], outer_globals: vec![], debug: None, cancel_at: None }, true, true);
            rep.count(&format!("per-match-fault-stream:{}:{}", mode, res.class));
            if res.class == "ok" || res.class == "panic" {
                rep.fail("direct", &format!("C20 {}: a statement that fails for one match did not make execution fail", mode), true,
                    json!({"tsg": text, "source": source.src, "outcome": res.run.outcome.pretty()}));
                continue;
            }
            // direct: the cited node is the first function WITHOUT a return type (row 2 * its index)
            let rendered = res.run.outcome.pretty();
            let want_row = 2 * first_lacking;
            match first_stmt_ctx(&res.run.outcome) {
                None => rep.fail("direct", &format!("C20 {}: the error carries no statement context", mode), true, json!({"tsg": text, "source": source.src, "error": rendered})),
                Some(ctxs) => {
                    // a statement context is (stmt-loc stanza-loc src-loc kind): the source location is the third component
                    let ok = ctxs.iter().any(|c| c.as_list().map(|l| l.len() >= 3 && l[2].pretty() == format!("({} 0)", want_row)).unwrap_or(false));
                    if !ok {
                        rep.fail("direct", &format!("C20 {}: the error does not cite the node of the match in which the statement failed", mode), true,
                            json!({"tsg": text, "source": source.src, "expected_source_position": format!("({} 0)", want_row), "error": rendered}));
                    } else {
                        rep.count("per-match-fault-stream:node-checked");
                    }
                }
            }
        }
    }
}
