//! Shared driver of execution-based checks: generate (program, source) pairs, load, export.
use crate::execx::{model_input, ModelInput};
use crate::gen::dsl::{self, Opts, Pattern, Program};
use crate::gen::python;
use crate::report::Report;
use crate::rng::Rng;
use crate::tree::{parse_python, python as python_lang, TreeInfo};
use std::panic::{catch_unwind, AssertUnwindSafe};
use tree_sitter::Tree;
use tree_sitter_graph::ast::File;
use tree_sitter_graph::graph::Value;

pub struct Loaded {
    pub program: Program,
    pub file: File,
}

pub fn load(text: &str) -> Result<Result<File, String>, ()> {
    catch_unwind(AssertUnwindSafe(|| File::from_str(python_lang(), text).map_err(|e| format!("{}", e)))).map_err(|_| ())
}

pub fn pool() -> Vec<Pattern> {
    dsl::pattern_pool(&python_lang())
}

/// values for the program's declared globals
pub fn supply_globals(r: &mut Rng, program: &Program) -> Vec<(String, Value)> {
    let mut out = Vec::new();
    for (name, is_list) in &program.globals {
        if *is_list {
            let n = r.below(3);
            out.push((name.clone(), Value::List((0..n).map(|i| Value::String(format!("g{}", i))).collect())));
        } else if r.chance(3, 4) {
            out.push((name.clone(), Value::String(r.pick(&["gv", "caf\u{e9}", ""]).to_string())));
        }
        // else: rely on the default, or provoke MissingGlobalVariable
    }
    out
}

/// generate programs until `n` are accepted by the loader (rejections are counted)
thread_local! {
    /// generated programs the implementation refused to load (text, message)
    pub static REJECTED: std::cell::RefCell<Vec<(String, String)>> = std::cell::RefCell::new(Vec::new());
}

thread_local! {
    /// generated programs the implementation loaded (text, exported AST), for the end-of-run comparison with the model's loader
    pub static ACCEPTED: std::cell::RefCell<Vec<(String, crate::sexp::Sexp)>> = std::cell::RefCell::new(Vec::new());
}

/// The generators mean their programs to be accepted; when the implementation rejects one, the model's loader decides
/// whether that is the generator's fault (both reject: counted) or a difference between implementation and model.
pub fn check_rejected(rep: &mut Report) {
    let items: Vec<(String, String)> = REJECTED.with(|l| std::mem::take(&mut *l.borrow_mut()));
    let accepted: Vec<(String, crate::sexp::Sexp)> = ACCEPTED.with(|l| std::mem::take(&mut *l.borrow_mut()));
    if items.is_empty() && accepted.is_empty() {
        return;
    }
    let mut drv = crate::driver::Driver::spawn();
    // The execution models run on the AST exported from the implementation's own parser and checker; a change there that
    // alters the AST consistently would move implementation and model together. So the text of (up to 100) accepted
    // programs is also loaded by the MODEL's parser and checker, and the two resolved ASTs must be equal.
    for (text, ast) in accepted {
        rep.alive();
        let verdict = crate::props::c06::model_load(&mut drv, &text);
        let want = crate::sexp::tagged("loaded", vec![ast]);
        if verdict != want {
            rep.fail("disagreement", "the resolved AST of a generated program differs between the implementation's loader and the model's", false,
                serde_json::json!({"tsg": text, "model": verdict.pretty().chars().take(3000).collect::<String>(), "implementation": want.pretty().chars().take(3000).collect::<String>()}));
        } else {
            rep.count("accepted-program-ast-equals-model-loader");
        }
    }
    for (text, msg) in items {
        rep.alive();
        let verdict = crate::props::c06::model_load(&mut drv, &text);
        if verdict.tag() == Some("loaded") {
            rep.fail("disagreement", "a generated program is rejected by the implementation and accepted by the model's loader", false,
                serde_json::json!({"tsg": text, "implementation": msg, "model": "loaded"}));
        } else {
            rep.count("rejected-by-both-implementation-and-model");
        }
    }
}

pub fn gen_loaded(rep: &mut Report, r: &mut Rng, pool: &[Pattern], opts: &Opts) -> Option<Loaded> {
    for _ in 0..20 {
        let program = dsl::gen_program(r, pool, opts);
        rep.count("programs-generated");
        match load(&program.text) {
            Ok(Ok(file)) => {
                rep.count("programs-accepted");
                // kept for the end of the run: the model's loader must produce the same resolved AST (see `check_rejected`)
                ACCEPTED.with(|l| {
                    let mut l = l.borrow_mut();
                    if l.len() < 100 {
                        l.push((program.text.clone(), crate::astx::file(&file)));
                    }
                });
                for f in &program.features {
                    rep.count(&format!("feature:{}", f));
                }
                rep.count_n("stanzas", program.stanza_count);
                return Some(Loaded { program, file });
            }
            Ok(Err(msg)) => {
                let kind: String = msg.split(|c: char| c.is_ascii_digit() || c == '@' || c == '/').next().unwrap_or("").trim().chars().take(40).collect();
                rep.count(&format!("rejected:{}", kind));
                // kept for the end of the run: the model's loader must reject it too (see `check_rejected`)
                REJECTED.with(|l| {
                    let mut l = l.borrow_mut();
                    if l.len() < 60 {
                        l.push((program.text.clone(), msg.clone()));
                    }
                });
            }
            Err(()) => rep.count("loader-panic"),
        }
    }
    None
}

pub struct Source {
    pub src: String,
    pub tree: Tree,
}

/// programs with sibling-tuple patterns get a source with one very wide node (where tree-sitter has many matches in
/// progress at once), sized so that the run stays within the model's reach
pub fn wide_source_for(program: &Program) -> Option<Source> {
    if !program.features.iter().any(|f| *f == "sibling-tuples") {
        return None;
    }
    let k = if program.text.contains("@t3") { 0 } else if program.text.contains("@p2") { 1 } else { 2 };
    let src = python::WIDE[k].to_string();
    let tree = parse_python(&src);
    Some(Source { src, tree })
}

pub fn gen_source(r: &mut Rng, small: bool, faulty: bool) -> Source {
    let base = if small { python::gen_small_source(r) } else { python::gen_source(r) };
    let src = if faulty { python::inject_faults(r, &base, 1) } else { base };
    let tree = parse_python(&src);
    Source { src, tree }
}

pub fn export<'t>(file: &File, source: &'t Source) -> (TreeInfo<'t>, ModelInput) {
    let info = TreeInfo::new(&source.tree);
    let mi = model_input(file, &source.tree, &source.src, &info);
    (info, mi)
}
