pub mod c17;
