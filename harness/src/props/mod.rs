pub mod c01;
pub mod c02;
pub mod c13;
pub mod c14;
pub mod c17;
pub mod common;
