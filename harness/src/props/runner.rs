//! Shared machinery of the execution-based checks: one (program, source) case at a time, with the
//! model/implementation comparison factored out.
use crate::driver::Driver;
use crate::execx::{impl_as_result, run_impl, run_model, ImplRun, ModelInput, RunCfg};
use crate::gen::dsl::{Opts, Pattern};
use crate::oracle::OracleTable;
use crate::props::c01::{outcome_class, result_parts};
use crate::props::common::*;
use crate::report::Report;
use crate::rng::Rng;
use crate::sexp::{self, Sexp};
use crate::tree::TreeInfo;
use serde_json::json;

/// above this many cancellation polls the model comparison is skipped (see `check_mode`)
pub const MODEL_POLL_LIMIT: usize = 12000;

pub struct Runner {
    pub drv: Driver,
    pub table: OracleTable,
    pub pool: Vec<Pattern>,
    pub prop: String,
}

pub struct Case<'a> {
    pub tsg: &'a str,
    pub loaded: &'a Loaded,
    pub source: &'a Source,
    pub info: &'a TreeInfo<'a>,
    pub mi: &'a ModelInput,
}

pub struct ModeResult {
    pub class: String,
    pub run: ImplRun,
    /// the model's `(result outcome graph polls)` if it returned one
    pub model: Option<Sexp>,
}

impl Runner {
    pub fn new(prop: &str) -> Runner {
        Runner { drv: Driver::spawn(), table: OracleTable::new(), pool: pool(), prop: prop.to_string() }
    }

    pub fn set_tree(&mut self, info: &TreeInfo, src: &str) {
        self.drv.ask(&sexp::tagged("set-tree", vec![info.to_sexp(src)]));
    }

    /// runs the implementation and the model with `cfg`; reports hard disagreements:
    /// outcome class (ok / failed / panic) and, on success, the whole graph.
    /// `variant_hard`: the error variant must agree too; `ctx_hard`: the whole context chain.
    pub fn check_mode(&mut self, rep: &mut Report, case: &Case, cfg: &RunCfg, variant_hard: bool, ctx_hard: bool) -> ModeResult {
        let t0 = std::time::Instant::now();
        let ir = run_impl(&case.loaded.file, &case.source.tree, &case.source.src, case.info, cfg);
        let t1 = std::time::Instant::now();
        // the model is an executable specification, quadratic in the number of deferred statements: very large
        // runs (thousands of loop iterations) are checked by the direct oracles only
        if ir.polls > MODEL_POLL_LIMIT {
            rep.count("model-comparison-skipped:run-too-large");
            let class = outcome_class(&ir.outcome);
            if class == "panic" {
                rep.fail("impl-panic", &format!("{} {} execution panics (model not run: large case)", self.prop, if cfg.lazy { "lazy" } else { "strict" }), true,
                    json!({"tsg": case.tsg, "source": case.source.src, "mode": if cfg.lazy { "lazy" } else { "strict" }}));
            }
            rep.count(&format!("{}:{}", if cfg.lazy { "lazy" } else { "strict" }, class));
            return ModeResult { class, run: ir, model: None };
        }
        let model = run_model(&mut self.drv, &mut self.table, case.mi, cfg);
        rep.count_n("time-ms:implementation", (t1 - t0).as_millis() as usize);
        let model_ms = t1.elapsed().as_millis() as usize;
        rep.count_n("time-ms:model", model_ms);
        if model_ms > 2000 {
            rep.count("slow-model-cases(>2s)");
            if let Ok(path) = std::env::var("TSG_SLOW_LOG") {
                use std::io::Write;
                if let Ok(mut f) = std::fs::OpenOptions::new().create(true).append(true).open(path) {
                    let _ = writeln!(f, "=== {} ms lazy={}\n{}\n--- source\n{}", model_ms, cfg.lazy, case.tsg, case.source.src);
                }
            }
        }
        let class = outcome_class(&ir.outcome);
        let mode = if cfg.lazy { "lazy" } else { "strict" };
        let p = self.prop.clone();
        let replay = json!({"tsg": case.tsg, "source": case.source.src, "mode": mode, "debug": format!("{:?}", cfg.debug), "cancel_at": cfg.cancel_at,
            "globals": format!("{:?}", cfg.globals.iter().map(|g| &g.0).collect::<Vec<_>>()),
            "implementation": impl_as_result(&ir).pretty(), "model": model.pretty()});
        let mut model_res = None;
        match result_parts(&model) {
            None if model.as_atom() == Some("model-too-slow") => rep.count("model-comparison-given-up:time-budget"),
            None => rep.fail("disagreement", &format!("{} {} model did not return a result: {}", p, mode, model.to_text().chars().take(60).collect::<String>()), false, replay),
            Some((mo, mg, _)) => {
                model_res = Some(model.clone());
                let mclass = outcome_class(mo);
                if class == "panic" {
                    rep.fail("impl-panic", &format!("{} {} execution panics (model: {})", p, mode, mclass), true, replay);
                } else if (class == "ok") != (mclass == "ok") {
                    rep.fail("disagreement", &format!("{} {}: implementation {} / model {}", p, mode, class, mclass), true, replay);
                } else if class == "ok" && ir.graph.as_ref() != Some(mg) {
                    rep.fail("disagreement", &format!("{} {}: graphs differ", p, mode), true, replay);
                } else if class != "ok" && class != mclass {
                    if variant_hard {
                        rep.fail("disagreement", &format!("{} {}: error variant implementation {} / model {}", p, mode, class, mclass), true, replay);
                    } else {
                        rep.count(&format!("soft:{}-error-variant-differs:{}/{}", mode, class, mclass));
                    }
                } else if class != "ok" && ctx_hard && &ir.outcome != mo {
                    rep.fail("disagreement", &format!("{} {}: error context chains differ ({})", p, mode, class), true, replay);
                }
            }
        }
        rep.count(&format!("{}:{}", mode, class));
        ModeResult { class, run: ir, model: model_res }
    }
}

/// iterate generated (program, source) cases
pub fn campaign(
    rep: &mut Report,
    runner: &mut Runner,
    seed: u64,
    n_programs: usize,
    trees_per: usize,
    small_sources: bool,
    opts_of: &dyn Fn(usize, &mut Rng) -> Opts,
    body: &mut dyn FnMut(&mut Report, &mut Runner, &Case, &mut Rng, usize),
) {
    let root = Rng::new(seed);
    for pi in 0..n_programs {
        let mut r = root.fork(pi as u64);
        let opts = opts_of(pi, &mut r);
        let pool = runner.pool.clone();
        let loaded = match gen_loaded(rep, &mut r, &pool, &opts) {
            Some(l) => l,
            None => continue,
        };
        for ti in 0..trees_per {
            let source = gen_source(&mut r, small_sources || ti % 2 == 1, false);
            let source = if ti == 0 { crate::props::common::wide_source_for(&loaded.program).unwrap_or(source) } else { source };
            // one program in six also runs on a source full of aliased nodes (their `kind` is the alias, everywhere)
            let source = if ti + 1 == trees_per && pi % 6 == 4 {
                let src = crate::gen::python::ALIASED[(pi / 6) % crate::gen::python::ALIASED.len()].to_string();
                let tree = crate::tree::parse_python(&src);
                crate::props::common::Source { src, tree }
            } else {
                source
            };
            let (info, mi) = export(&loaded.file, &source);
            runner.set_tree(&info, &source.src);
            // the oracle table travels with every request: keep it per case
            rep.count_n("regex-oracle-questions", runner.table.rx_asked + runner.table.rp_asked);
            runner.table = OracleTable::new();
            runner.table.arm_sets = crate::astx::scan_arm_sets(&loaded.file);
            let key = format!("{}\u{0}{}", loaded.program.text, source.src);
            rep.case(&key, mi.n_matches > 0);
            rep.count_n("matches", mi.n_matches);
            if pi < 2 && ti == 0 {
                rep.sample(json!({"tsg": loaded.program.text, "source": source.src}));
            }
            let case = Case { tsg: &loaded.program.text, loaded: &loaded, source: &source, info: &info, mi: &mi };
            body(rep, runner, &case, &mut r, pi);
        }
    }
    rep.count_n("regex-oracle-questions", runner.table.rx_asked + runner.table.rp_asked);
}

pub fn parts(model: &Option<Sexp>) -> Option<(Sexp, Sexp, usize)> {
    let m = model.as_ref()?;
    let (o, g, p) = result_parts(m)?;
    Some((o.clone(), g.clone(), p.as_atom()?.parse().ok()?))
}

/// a hand-written (program, source) pair: each mode x each debug configuration given, against the model (error variant hard).
/// Returns the outcome classes in the order run; `None` when the implementation does not load the program.
pub fn fixed_case(rep: &mut Report, runner: &mut Runner, tsg: &str, src: &str, debugs: &[Option<(String, String, String)>]) -> Option<Vec<String>> {
    fixed_case_ctx(rep, runner, tsg, src, debugs, false)
}

/// as `fixed_case`; `ctx_hard`: the whole chain of error contexts must equal the model's
pub fn fixed_case_ctx(rep: &mut Report, runner: &mut Runner, tsg: &str, src: &str, debugs: &[Option<(String, String, String)>], ctx_hard: bool) -> Option<Vec<String>> {
    use crate::gen::dsl::Program;
    use crate::props::common::{load, Loaded, Source};
    let file = match load(tsg) {
        Ok(Ok(f)) => f,
        other => {
            rep.fail("direct", &format!("{} a hand-written program is not loaded", runner.prop), true,
                json!({"tsg": tsg, "result": format!("{:?}", other.map(|x| x.map(|_| "file")))}));
            return None;
        }
    };
    let source = Source { src: src.to_string(), tree: crate::tree::parse_python(src) };
    let info = TreeInfo::new(&source.tree);
    let loaded = Loaded { program: Program { text: tsg.to_string(), header: String::new(), stanzas: vec![tsg.to_string()], globals: vec![], stanza_count: 1, has_fault: false, features: vec![], static_fault: None }, file };
    let mi = crate::execx::model_input(&loaded.file, &source.tree, &source.src, &info);
    runner.set_tree(&info, &source.src);
    runner.table = OracleTable::new();
    runner.table.arm_sets = crate::astx::scan_arm_sets(&loaded.file);
    let case = Case { tsg, loaded: &loaded, source: &source, info: &info, mi: &mi };
    rep.case(&format!("{}\u{0}{}", tsg, src), true);
    rep.count("hand-written-case");
    let mut classes = Vec::new();
    for debug in debugs {
        for lazy in [false, true] {
            let res = runner.check_mode(rep, &case, &RunCfg { lazy, globals: vec![], outer_globals: vec![], debug: debug.clone(), cancel_at: None }, true, ctx_hard);
            classes.push(res.class);
        }
    }
    Some(classes)
}
