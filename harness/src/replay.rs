//! `tsg-verif replay FILE`: re-runs the input recorded in a replay file on the implementation and on the model
//! and prints both sides. Understands the replay shapes written by the checks:
//!   {"tsg": .., "source": .., ["mode": "strict"|"lazy"]}   execution (both modes when no mode is given)
//!   {"text": ..} | {"tsg": ..} without source                loading
//!   {"case": {...}} wrappers of the above (C05)
use crate::driver::Driver;
use crate::execx::{impl_as_result, run_impl, run_model, RunCfg};
use crate::oracle::OracleTable;
use crate::props::c06::{load_result_sexp, model_load, real_load};
use crate::props::common::{export, Loaded, Source};
use crate::tree::parse_python;
use serde_json::Value as J;

fn find<'a>(j: &'a J, key: &str) -> Option<&'a J> {
    match j {
        J::Object(m) => {
            if let Some(v) = m.get(key) {
                return Some(v);
            }
            for (_, v) in m {
                if let Some(x) = find(v, key) {
                    return Some(x);
                }
            }
            None
        }
        _ => None,
    }
}

pub fn run(path: &str) -> i32 {
    let text = std::fs::read_to_string(path).expect("cannot read replay file");
    let j: J = serde_json::from_str(&text).expect("replay file is not JSON");
    let j = j.get("replay").cloned().unwrap_or(j);
    let tsg = find(&j, "tsg").or_else(|| find(&j, "text")).and_then(|v| v.as_str()).map(|s| s.to_string());
    let source = find(&j, "source").and_then(|v| v.as_str()).map(|s| s.to_string());
    let mode = find(&j, "mode").and_then(|v| v.as_str()).map(|s| s.to_string());
    let tsg = match tsg {
        Some(t) => t,
        None => {
            println!("no `tsg` or `text` field in {}: this replay names a proof obligation or a non-textual input; see its `detail`", path);
            return 2;
        }
    };
    let mut drv = Driver::spawn();
    println!("--- load");
    let real = match real_load(&tsg) {
        Ok(r) => r,
        Err(()) => {
            println!("implementation: PANIC while loading");
            return 1;
        }
    };
    let want = load_result_sexp(&real);
    let t0 = std::time::Instant::now();
    let model = model_load(&mut drv, &tsg);
    println!("implementation: {}", want.to_text().chars().take(300).collect::<String>());
    println!("model ({} ms):  {}", t0.elapsed().as_millis(), model.to_text().chars().take(300).collect::<String>());
    let mut rc = if want == model { 0 } else { 1 };
    println!("load verdicts {}", if rc == 0 { "AGREE" } else { "DIFFER" });
    let (file, source) = match (real, source) {
        (Ok(f), Some(s)) => (f, s),
        _ => return rc,
    };
    let src = Source { tree: parse_python(&source), src: source };
    let program = crate::gen::dsl::Program { text: tsg.clone(), header: String::new(), stanzas: vec![], globals: vec![], stanza_count: 0, has_fault: false, features: vec![], static_fault: None };
    let loaded = Loaded { program, file };
    let (info, mi) = export(&loaded.file, &src);
    drv.ask(&crate::sexp::tagged("set-tree", vec![info.to_sexp(&src.src)]));
    for lazy in [false, true] {
        let m = if lazy { "lazy" } else { "strict" };
        if let Some(want_mode) = &mode {
            if want_mode != m {
                continue;
            }
        }
        let cfg = RunCfg { lazy, globals: vec![], outer_globals: vec![], debug: None, cancel_at: None };
        let mut table = OracleTable::new();
        table.arm_sets = crate::astx::scan_arm_sets(&loaded.file);
        let t0 = std::time::Instant::now();
        let ir = run_impl(&loaded.file, &src.tree, &src.src, &info, &cfg);
        let t1 = std::time::Instant::now();
        let model = run_model(&mut drv, &mut table, &mi, &cfg);
        let t2 = std::time::Instant::now();
        let ires = impl_as_result(&ir);
        println!("--- execute {} (globals are not replayed: none supplied)", m);
        println!("implementation ({} ms): {}", (t1 - t0).as_millis(), ir.outcome.to_text().chars().take(300).collect::<String>());
        let mo = crate::props::c01::result_parts(&model).map(|p| p.0.to_text()).unwrap_or_else(|| model.to_text());
        println!("model ({} ms, {} oracle round trips): {}", (t2 - t1).as_millis(), table.rx_asked + table.rp_asked, mo.chars().take(300).collect::<String>());
        let same = crate::props::c01::result_parts(&model).map(|(o, g, _)| o == &ir.outcome && Some(g) == ir.graph.as_ref()).unwrap_or(false);
        println!("outcome and graph {}", if same { "AGREE" } else { "DIFFER" });
        if !same {
            rc = 1;
            println!("implementation result: {}", ires.pretty().chars().take(3000).collect::<String>());
            println!("model result: {}", model.pretty().chars().take(3000).collect::<String>());
        }
    }
    rc
}
