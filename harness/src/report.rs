//! Per-run report: what was covered, failures with replay files. Consumed by /verif/check.
use serde_json::{json, Value as J};
use std::collections::{BTreeMap, HashSet};
use std::hash::{Hash, Hasher};

pub struct Failure {
    /// "disagreement" (model vs implementation), "direct" (property oracle on the implementation),
    /// "impl-panic", "oracle-contract"
    pub kind: String,
    /// stable, specific description used to match known findings
    pub signature: String,
    /// true when the replay is a concrete input on which the property fails
    pub failing_input: bool,
    pub replay: J,
}

pub struct Report {
    pub prop: String,
    pub tier: String,
    pub seed: u64,
    pub evaluations: usize,
    pub nontrivial: HashSet<u64>,
    pub samples: Vec<J>,
    pub hist: BTreeMap<String, usize>,
    pub failures: Vec<Failure>,
    pub rule: String,
    pub notes: Vec<String>,
    pub correspondence: String,
    start: std::time::Instant,
    /// (time of the last registered case, its key, cases so far): read by the hang watchdog
    heartbeat: std::sync::Arc<std::sync::Mutex<(std::time::Instant, String, usize)>>,
}

/// the heartbeat of the current run, reachable from the driver and the oracle loop
static GLOBAL_HB: std::sync::OnceLock<std::sync::Arc<std::sync::Mutex<(std::time::Instant, String, usize)>>> = std::sync::OnceLock::new();
/// true while the harness waits for the MODEL (the Lean driver): that time is not the implementation's
pub static IN_DRIVER: std::sync::atomic::AtomicBool = std::sync::atomic::AtomicBool::new(false);

/// progress that is not a finished case (a round trip to the model): the hang watchdog watches the IMPLEMENTATION, which
/// runs in-process between two such beats
pub fn beat() {
    if let Some(hb) = GLOBAL_HB.get() {
        if let Ok(mut g) = hb.lock() {
            g.0 = std::time::Instant::now();
        }
    }
}

/// where the harness report goes (set by main before the run; the hang watchdog writes a minimal report there)
pub static OUT_PATH: std::sync::OnceLock<String> = std::sync::OnceLock::new();

/// no case may take longer than this (seconds): an in-process hang of the implementation would otherwise stall the check
pub const HANG_LIMIT_S: u64 = 300;

fn spawn_watchdog(prop: String, tier: String, seed: u64, hb: std::sync::Arc<std::sync::Mutex<(std::time::Instant, String, usize)>>) {
    std::thread::spawn(move || loop {
        std::thread::sleep(std::time::Duration::from_secs(2));
        let (t, key, n) = { let g = hb.lock().unwrap(); (g.0, g.1.clone(), g.2) };
        if IN_DRIVER.load(std::sync::atomic::Ordering::SeqCst) {
            // waiting for the model: not the implementation's time (the check's overall time limit still applies)
            continue;
        }
        if t.elapsed().as_secs() > HANG_LIMIT_S {
            std::fs::create_dir_all("/verif/replays").ok();
            let path = format!("/verif/replays/{}-{}-hang.json", prop, seed);
            let signature = format!("no case finished within {} s: the implementation does not terminate (or takes unboundedly long) on an input of this run", HANG_LIMIT_S);
            let mut parts = key.splitn(2, '\u{0}');
            let first = parts.next().unwrap_or("").to_string();
            let second = parts.next().unwrap_or("").to_string();
            let body = json!({
                "property": prop, "seed": seed, "tier": tier, "kind": "hang", "signature": signature, "failing_input": true,
                "case": {"last_registered_case": {"tsg_or_key": first, "source": second}, "cases_before": n,
                         "note": "the input that does not terminate is this case or the one generated right after it; the run is deterministic: re-run the same check with the same seed to reproduce"},
            });
            std::fs::write(&path, serde_json::to_string_pretty(&body).unwrap()).ok();
            println!("FAIL property={} kind=hang failing_input=true replay={} signature={}", prop, path, signature);
            if let Some(out) = OUT_PATH.get() {
                let rep = json!({
                    "property_id": prop, "tier": tier, "seed": seed, "evaluations": n, "distinct_nontrivial": 0,
                    "rule": "(run aborted by the hang watchdog)", "samples": [], "distribution": {"aborted:hang": 1},
                    "failures": [{"kind": "hang", "signature": signature, "failing_input": true, "replay": path}],
                    "notes": ["aborted by the hang watchdog"], "correspondence": "", "harness_wall_s": 0.0,
                });
                std::fs::write(out, serde_json::to_string_pretty(&rep).unwrap()).ok();
            }
            std::process::exit(1);
        }
    });
}

pub fn hash_of<T: Hash>(t: &T) -> u64 {
    let mut h = std::collections::hash_map::DefaultHasher::new();
    t.hash(&mut h);
    h.finish()
}

impl Report {
    pub fn new(prop: &str, tier: &str, seed: u64) -> Report {
        let heartbeat = std::sync::Arc::new(std::sync::Mutex::new((std::time::Instant::now(), String::new(), 0usize)));
        spawn_watchdog(prop.to_string(), tier.to_string(), seed, heartbeat.clone());
        let _ = GLOBAL_HB.set(heartbeat.clone());
        Report {
            prop: prop.to_string(),
            tier: tier.to_string(),
            seed,
            evaluations: 0,
            nontrivial: HashSet::new(),
            samples: Vec::new(),
            hist: BTreeMap::new(),
            failures: Vec::new(),
            rule: String::new(),
            notes: Vec::new(),
            correspondence: String::new(),
            start: std::time::Instant::now(),
            heartbeat,
        }
    }
    /// tell the hang watchdog that the run is alive (long phases between two cases)
    pub fn alive(&self) {
        if let Ok(mut g) = self.heartbeat.lock() {
            g.0 = std::time::Instant::now();
        }
    }
    pub fn count(&mut self, key: &str) {
        *self.hist.entry(key.to_string()).or_insert(0) += 1;
    }
    pub fn count_n(&mut self, key: &str, n: usize) {
        *self.hist.entry(key.to_string()).or_insert(0) += n;
    }
    /// record one evaluated case; `key` identifies it for distinctness; `nontrivial` per the rule
    pub fn case(&mut self, key: &str, nontrivial: bool) {
        self.evaluations += 1;
        if let Ok(mut g) = self.heartbeat.lock() {
            *g = (std::time::Instant::now(), key.chars().take(20000).collect(), self.evaluations);
        }
        if nontrivial {
            self.nontrivial.insert(hash_of(&key));
        }
    }
    pub fn sample(&mut self, j: J) {
        if self.samples.len() < 4 {
            self.samples.push(j);
        }
    }
    pub fn fail(&mut self, kind: &str, signature: &str, failing_input: bool, replay: J) {
        // keep at most a handful of failures per signature to bound output
        let same = self.failures.iter().filter(|f| f.signature == signature).count();
        if same >= 3 {
            self.count(&format!("suppressed-duplicate-failure:{}", signature));
            return;
        }
        self.failures.push(Failure {
            kind: kind.to_string(),
            signature: signature.to_string(),
            failing_input,
            replay,
        });
    }
    /// write the harness part of the evidence and the replay files; returns number of failures
    pub fn finish(&mut self, out: &str) -> usize {
        // on how many model runs the executable contracts of the panic-freedom theorems held (observation, never an alarm)
        for (k, n) in crate::execx::take_contract_counts() {
            self.count_n(&k, n);
        }
        let mut fails = Vec::new();
        std::fs::create_dir_all("/verif/replays").ok();
        for (i, f) in self.failures.iter().enumerate() {
            let path = format!("/verif/replays/{}-{}-{}.json", self.prop, self.seed, i);
            let body = json!({
                "property": self.prop,
                "seed": self.seed,
                "tier": self.tier,
                "kind": f.kind,
                "signature": f.signature,
                "failing_input": f.failing_input,
                "unchecked": if f.failing_input { J::Null } else { J::String(self.correspondence.clone()) },
                "case": f.replay,
            });
            std::fs::write(&path, serde_json::to_string_pretty(&body).unwrap()).ok();
            println!(
                "FAIL property={} kind={} failing_input={} replay={} signature={}",
                self.prop, f.kind, f.failing_input, path, f.signature
            );
            fails.push(json!({"kind": f.kind, "signature": f.signature, "failing_input": f.failing_input, "replay": path}));
        }
        let body = json!({
            "property_id": self.prop,
            "tier": self.tier,
            "seed": self.seed,
            "evaluations": self.evaluations,
            "distinct_nontrivial": self.nontrivial.len(),
            "rule": self.rule,
            "samples": self.samples,
            "distribution": self.hist,
            "failures": fails,
            "notes": self.notes,
            "correspondence": self.correspondence,
            "harness_wall_s": self.start.elapsed().as_secs_f64(),
        });
        std::fs::write(out, serde_json::to_string_pretty(&body).unwrap()).expect("write harness report");
        self.failures.len()
    }
}
