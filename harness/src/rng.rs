//! Deterministic PRNG (splitmix64); every random choice of a run derives from VERIF_SEED.
#[derive(Clone)]
pub struct Rng(pub u64);

impl Rng {
    pub fn new(seed: u64) -> Rng {
        Rng(seed ^ 0x9E37_79B9_7F4A_7C15)
    }
    /// independent stream for case `i`
    pub fn fork(&self, i: u64) -> Rng {
        let mut r = Rng(self.0 ^ i.wrapping_mul(0xD6E8_FEB8_6659_FD93).wrapping_add(0x2545_F491_4F6C_DD1D));
        r.next();
        r
    }
    pub fn next(&mut self) -> u64 {
        self.0 = self.0.wrapping_add(0x9E37_79B9_7F4A_7C15);
        let mut z = self.0;
        z = (z ^ (z >> 30)).wrapping_mul(0xBF58_476D_1CE4_E5B9);
        z = (z ^ (z >> 27)).wrapping_mul(0x94D0_49BB_1331_11EB);
        z ^ (z >> 31)
    }
    pub fn below(&mut self, n: usize) -> usize {
        if n == 0 {
            0
        } else {
            (self.next() % n as u64) as usize
        }
    }
    pub fn range(&mut self, lo: usize, hi: usize) -> usize {
        lo + self.below(hi - lo + 1)
    }
    pub fn chance(&mut self, num: usize, den: usize) -> bool {
        self.below(den) < num
    }
    pub fn pick<'a, T>(&mut self, xs: &'a [T]) -> &'a T {
        &xs[self.below(xs.len())]
    }
    pub fn shuffle<T>(&mut self, xs: &mut Vec<T>) {
        for i in (1..xs.len()).rev() {
            let j = self.below(i + 1);
            xs.swap(i, j);
        }
    }
}
