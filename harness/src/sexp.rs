//! S-expressions: wire format shared with the Lean driver (see lean/Tsg/Base/Sexp.lean).
use std::fmt::Write;

#[derive(Clone, Debug, PartialEq, Eq)]
pub enum Sexp {
    Atom(String),
    Str(String),
    List(Vec<Sexp>),
}

pub fn atom(s: &str) -> Sexp {
    Sexp::Atom(s.to_string())
}
pub fn st(s: &str) -> Sexp {
    Sexp::Str(s.to_string())
}
pub fn nat(n: usize) -> Sexp {
    Sexp::Atom(n.to_string())
}
pub fn boolean(b: bool) -> Sexp {
    Sexp::Atom(if b { "true" } else { "false" }.to_string())
}
pub fn list(xs: Vec<Sexp>) -> Sexp {
    Sexp::List(xs)
}
/// `(tag x1 x2 ...)`
pub fn tagged(tag: &str, mut xs: Vec<Sexp>) -> Sexp {
    let mut v = vec![atom(tag)];
    v.append(&mut xs);
    Sexp::List(v)
}

impl Sexp {
    pub fn write(&self, out: &mut String) {
        match self {
            Sexp::Atom(s) => out.push_str(s),
            Sexp::Str(s) => {
                out.push('"');
                for b in s.as_bytes() {
                    write!(out, "{:02x}", b).unwrap();
                }
                out.push('"');
            }
            Sexp::List(xs) => {
                out.push('(');
                let mut first = true;
                for x in xs {
                    if !first {
                        out.push(' ');
                    }
                    first = false;
                    x.write(out);
                }
                out.push(')');
            }
        }
    }
    pub fn to_text(&self) -> String {
        let mut s = String::new();
        self.write(&mut s);
        s
    }
    /// human-readable rendering (strings shown as text), for replay files and evidence samples
    pub fn pretty(&self) -> String {
        match self {
            Sexp::Atom(s) => s.clone(),
            Sexp::Str(s) => format!("{:?}", s),
            Sexp::List(xs) => format!("({})", xs.iter().map(|x| x.pretty()).collect::<Vec<_>>().join(" ")),
        }
    }
    pub fn as_list(&self) -> Option<&Vec<Sexp>> {
        match self {
            Sexp::List(xs) => Some(xs),
            _ => None,
        }
    }
    pub fn as_atom(&self) -> Option<&str> {
        match self {
            Sexp::Atom(s) => Some(s),
            _ => None,
        }
    }
    pub fn as_str(&self) -> Option<&str> {
        match self {
            Sexp::Str(s) => Some(s),
            _ => None,
        }
    }
    pub fn tag(&self) -> Option<&str> {
        self.as_list().and_then(|l| l.first()).and_then(|a| a.as_atom())
    }
}

pub fn parse(text: &str) -> Option<Sexp> {
    let bytes = text.as_bytes();
    let mut pos = 0;
    let r = parse_at(bytes, &mut pos)?;
    skip_ws(bytes, &mut pos);
    if pos == bytes.len() {
        Some(r)
    } else {
        None
    }
}

fn skip_ws(b: &[u8], pos: &mut usize) {
    while *pos < b.len() && (b[*pos] as char).is_ascii_whitespace() {
        *pos += 1;
    }
}

fn parse_at(b: &[u8], pos: &mut usize) -> Option<Sexp> {
    skip_ws(b, pos);
    if *pos >= b.len() {
        return None;
    }
    match b[*pos] {
        b'(' => {
            *pos += 1;
            let mut xs = Vec::new();
            loop {
                skip_ws(b, pos);
                if *pos >= b.len() {
                    return None;
                }
                if b[*pos] == b')' {
                    *pos += 1;
                    return Some(Sexp::List(xs));
                }
                xs.push(parse_at(b, pos)?);
            }
        }
        b')' => None,
        b'"' => {
            *pos += 1;
            let start = *pos;
            while *pos < b.len() && b[*pos] != b'"' {
                *pos += 1;
            }
            let hex = &b[start..*pos];
            *pos += 1;
            if hex.len() % 2 != 0 {
                return None;
            }
            let mut bytes = Vec::new();
            for ch in hex.chunks(2) {
                let s = std::str::from_utf8(ch).ok()?;
                bytes.push(u8::from_str_radix(s, 16).ok()?);
            }
            Some(Sexp::Str(String::from_utf8(bytes).ok()?))
        }
        _ => {
            let start = *pos;
            while *pos < b.len() && !(b[*pos] as char).is_ascii_whitespace() && b[*pos] != b'(' && b[*pos] != b')' && b[*pos] != b'"' {
                *pos += 1;
            }
            Some(Sexp::Atom(std::str::from_utf8(&b[start..*pos]).ok()?.to_string()))
        }
    }
}
