//! Export of tree-sitter syntax trees: pre-order node table, id -> index map, wire encoding.
use crate::sexp::{self, Sexp};
use std::collections::HashMap;
use tree_sitter::{Node, Parser, Tree};

pub fn python() -> tree_sitter::Language {
    tree_sitter_python::LANGUAGE.into()
}

pub fn parse_python(src: &str) -> Tree {
    let mut parser = Parser::new();
    parser.set_language(&python()).unwrap();
    parser.parse(src, None).expect("tree-sitter parse")
}

pub struct TreeInfo<'t> {
    /// nodes in pre-order
    pub nodes: Vec<Node<'t>>,
    /// `node.id() as u32` -> pre-order index
    pub index_of_id: HashMap<u32, usize>,
    pub parent: Vec<Option<usize>>,
    pub children: Vec<Vec<usize>>,
    /// false if two nodes share a truncated id (the identity assumption of DESIGN 4.2 is broken)
    pub ids_injective: bool,
}

impl<'t> TreeInfo<'t> {
    pub fn new(tree: &'t Tree) -> TreeInfo<'t> {
        let mut info = TreeInfo { nodes: Vec::new(), index_of_id: HashMap::new(), parent: Vec::new(), children: Vec::new(), ids_injective: true };
        info.visit(tree.root_node(), None);
        info
    }

    fn visit(&mut self, node: Node<'t>, parent: Option<usize>) -> usize {
        let idx = self.nodes.len();
        self.nodes.push(node);
        self.parent.push(parent);
        self.children.push(Vec::new());
        if self.index_of_id.insert(node.id() as u32, idx).is_some() {
            self.ids_injective = false;
        }
        let mut cursor = node.walk();
        let kids: Vec<Node<'t>> = node.children(&mut cursor).collect();
        for k in kids {
            let ci = self.visit(k, Some(idx));
            self.children[idx].push(ci);
        }
        idx
    }

    pub fn index_of(&self, node: &Node) -> usize {
        *self.index_of_id.get(&(node.id() as u32)).expect("node not in tree table")
    }

    pub fn to_sexp(&self, source: &str) -> Sexp {
        let mut items = vec![sexp::atom("tree"), sexp::st(source)];
        for (i, n) in self.nodes.iter().enumerate() {
            items.push(sexp::list(vec![
                sexp::st(n.kind()),
                sexp::boolean(n.is_named()),
                sexp::nat(n.start_position().row),
                sexp::nat(n.start_position().column),
                sexp::nat(n.end_position().row),
                sexp::nat(n.end_position().column),
                sexp::nat(n.start_byte()),
                sexp::nat(n.end_byte()),
                sexp::boolean(n.is_error()),
                sexp::boolean(n.is_missing()),
                sexp::boolean(n.has_error()),
                match self.parent[i] {
                    Some(p) => sexp::nat(p),
                    None => sexp::atom("none"),
                },
                sexp::list(self.children[i].iter().map(|c| sexp::nat(*c)).collect()),
            ]));
        }
        sexp::list(items)
    }

    /// contract checks on tree-sitter's answers that the model relies on (DESIGN 4.4)
    pub fn contract_violations(&self) -> Vec<String> {
        let mut out = Vec::new();
        if !self.ids_injective {
            out.push("node ids not injective after truncation to u32".to_string());
        }
        for (i, n) in self.nodes.iter().enumerate() {
            let named = self.children[i].iter().filter(|c| self.nodes[**c].is_named()).count();
            if named != n.named_child_count() {
                out.push(format!("named_child_count mismatch at node {} ({})", i, n.kind()));
            }
            match (n.parent(), self.parent[i]) {
                (None, None) => {}
                (Some(p), Some(pi)) => {
                    if self.index_of_id.get(&(p.id() as u32)) != Some(&pi) {
                        out.push(format!("parent() differs from cursor parent at node {} ({})", i, n.kind()));
                    }
                }
                _ => out.push(format!("parent() presence differs at node {}", i)),
            }
        }
        out
    }
}
