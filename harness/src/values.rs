//! Random `graph::Value`s (no syntax nodes here) and their wire encoding.
use crate::rng::Rng;
use crate::sexp::{self, Sexp};
use std::collections::BTreeSet;
use tree_sitter_graph::graph::Value;

pub const STRINGS: &[&str] = &[
    "", "a", "b", "ab", "foo", "x y", "{}", "{{", "}}", "{", "}", "a{}b", "q\"uote", "back\\slash", "tab\tnew\nline",
    "caf\u{e9}", "\u{3bb}x", "\u{65e5}\u{672c}", "\u{1F600}", "\0nul", "\u{1}ctl\u{7f}", "a.b*c", "[x]+", "(", "0", "-",
];

pub fn gen_string(r: &mut Rng) -> String {
    if r.chance(1, 6) {
        // random short string over a small alphabet incl. braces and non-ASCII
        let alpha = ['a', 'b', '{', '}', ' ', '"', '\\', '\u{e9}', '\n', 'Z', '0'];
        let n = r.below(6);
        (0..n).map(|_| *r.pick(&alpha)).collect()
    } else {
        r.pick(STRINGS).to_string()
    }
}

pub fn gen_int(r: &mut Rng) -> u32 {
    match r.below(8) {
        0 => 0,
        1 => 1,
        2 => u32::MAX,
        3 => u32::MAX - 1,
        4 => 1 << 31,
        _ => r.below(50) as u32,
    }
}

/// `gnodes`: number of graph nodes that may be referenced (0 = none)
pub fn gen_value(r: &mut Rng, depth: usize, gnodes: usize) -> Value {
    let top = if depth == 0 { 5 } else { 7 };
    match r.below(top + if gnodes > 0 { 1 } else { 0 }) {
        0 => Value::Null,
        1 => Value::Boolean(r.chance(1, 2)),
        2 => Value::Integer(gen_int(r)),
        3 | 4 => Value::String(gen_string(r)),
        5 if depth > 0 => {
            let n = r.below(4);
            Value::List((0..n).map(|_| gen_value(r, depth - 1, gnodes)).collect())
        }
        6 if depth > 0 => {
            let n = r.below(4);
            Value::Set((0..n).map(|_| gen_value(r, depth - 1, gnodes)).collect::<BTreeSet<_>>())
        }
        _ => {
            if gnodes > 0 {
                // GraphNodeRef has no public constructor: values come from a scratch graph
                crate::values::gnode_ref(r.below(gnodes))
            } else {
                Value::Null
            }
        }
    }
}

/// a `Value::GraphNode(i)` obtained through the public API (scratch graph)
pub fn gnode_ref(i: usize) -> Value {
    let mut g = tree_sitter_graph::graph::Graph::new();
    let mut last = g.add_graph_node();
    for _ in 0..i {
        last = g.add_graph_node();
    }
    Value::GraphNode(last)
}

/// wire encoding; `syn` maps a syntax node reference to its model id (pre-order index)
pub fn value_sexp(v: &Value, syn: &dyn Fn(&tree_sitter_graph::graph::SyntaxNodeRef) -> usize) -> Sexp {
    match v {
        Value::Null => sexp::tagged("null", vec![]),
        Value::Boolean(b) => sexp::tagged("bool", vec![sexp::boolean(*b)]),
        Value::Integer(n) => sexp::tagged("int", vec![sexp::nat(*n as usize)]),
        Value::String(s) => sexp::tagged("str", vec![sexp::st(s)]),
        Value::List(vs) => sexp::tagged("list", vs.iter().map(|x| value_sexp(x, syn)).collect()),
        Value::Set(vs) => {
            // canonical order = the model's order (Val.cmp); syntax nodes are ordered by model id
            let mut xs: Vec<Sexp> = vs.iter().map(|x| value_sexp(x, syn)).collect();
            xs.sort_by(|a, b| cmp_val_sexp(a, b));
            sexp::tagged("set", xs)
        }
        Value::SyntaxNode(n) => sexp::tagged("syn", vec![sexp::nat(syn(n))]),
        Value::GraphNode(n) => sexp::tagged("gnode", vec![sexp::nat(n.index())]),
    }
}

pub fn no_syn(_: &tree_sitter_graph::graph::SyntaxNodeRef) -> usize {
    panic!("unexpected syntax node")
}

fn rank(tag: &str) -> usize {
    match tag {
        "null" => 0,
        "bool" => 1,
        "int" => 2,
        "str" => 3,
        "list" => 4,
        "set" => 5,
        "syn" => 6,
        _ => 7,
    }
}

/// the model's `Val.cmp` on encoded values
pub fn cmp_val_sexp(a: &Sexp, b: &Sexp) -> std::cmp::Ordering {
    use std::cmp::Ordering::*;
    let (la, lb) = (a.as_list().unwrap(), b.as_list().unwrap());
    let (ta, tb) = (la[0].as_atom().unwrap(), lb[0].as_atom().unwrap());
    if ta != tb {
        return rank(ta).cmp(&rank(tb));
    }
    match ta {
        "null" => Equal,
        "bool" => (la[1].as_atom() == Some("true")).cmp(&(lb[1].as_atom() == Some("true"))),
        "int" | "syn" | "gnode" => {
            let x: u64 = la[1].as_atom().unwrap().parse().unwrap();
            let y: u64 = lb[1].as_atom().unwrap().parse().unwrap();
            x.cmp(&y)
        }
        "str" => la[1].as_str().unwrap().cmp(lb[1].as_str().unwrap()),
        _ => {
            let (xs, ys) = (&la[1..], &lb[1..]);
            for (x, y) in xs.iter().zip(ys.iter()) {
                let c = cmp_val_sexp(x, y);
                if c != Equal {
                    return c;
                }
            }
            xs.len().cmp(&ys.len())
        }
    }
}
