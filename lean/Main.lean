import Tsg.Driver.Ops
import Tsg.Driver.Fn
import Tsg.Driver.GraphIO
import Tsg.Driver.Exec
import Tsg.Driver.PErr
import Tsg.Driver.CliIO
import Tsg.Driver.AstOut

open Driver

structure DState where
  tree : Tree := default

def handle (st : DState) (req : Sexp) : DState × Sexp :=
  match req with
  | .list (.atom "ops-graph" :: ops) => (st, runGraphOps ops)
  | .list (.atom "ops-vars" :: ops) => (st, runVarsOps ops)
  | .list [.atom "set-tree", t] =>
    match Tree.ofSexp t with
    | some tr => ({ st with tree := tr }, .list [.atom "ok", Sexp.ofNat tr.nodes.size])
    | none => (st, .list [.atom "bad-request"])
  | .list (.atom "fn" :: rest) => (st, handleFn st.tree rest)
  | .list (.atom "exec" :: rest) => (st, handleExec st.tree rest)
  | .list (.atom "contracts" :: rest) => (st, handleContracts st.tree rest)
  | .list (.atom "parse" :: rest) => (st, handleParse rest)
  | .list (.atom "load" :: rest) => (st, handleLoad rest)
  | .list (.atom "cli" :: rest) => (st, handleCli rest)
  | .list [.atom "perrors"] => (st, handlePErrors st.tree)
  | .list (.atom "perror-display" :: rest) => (st, handlePErrorDisplay st.tree rest)
  | .list (.atom "excerpt" :: rest) => (st, handleExcerpt rest)
  | .list (.atom "json" :: rest) => (st, handleJson rest)
  | .list (.atom "pretty" :: rest) => (st, handlePretty st.tree rest)
  | .list [.atom "ping"] => (st, .atom "pong")
  | _ => (st, .list [.atom "bad-request"])

partial def loop (hin hout : IO.FS.Stream) (st : DState) : IO Unit := do
  let line ← hin.getLine
  if line.isEmpty then return ()
  let (st', out) := match Sexp.parse line with
    | some req => let (s, r) := handle st req; (s, r.toStr)
    | none => (st, "(bad-sexp)")
  hout.putStrLn out
  hout.flush
  loop hin hout st'

def main : IO Unit := do
  loop (← IO.getStdin) (← IO.getStdout) {}
