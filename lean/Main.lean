import Tsg.Driver.Ops

open Driver

def handle (req : Sexp) : Sexp :=
  match req with
  | .list (.atom "ops-graph" :: ops) => runGraphOps ops
  | .list (.atom "ops-vars" :: ops) => runVarsOps ops
  | .list [.atom "ping"] => .atom "pong"
  | _ => .list [.atom "bad-request"]

partial def loop (hin hout : IO.FS.Stream) : IO Unit := do
  let line ← hin.getLine
  if line.isEmpty then return ()
  let out := match Sexp.parse line with
    | some req => (handle req).toStr
    | none => "(bad-sexp)"
  hout.putStrLn out
  hout.flush
  loop hin hout

def main : IO Unit := do
  loop (← IO.getStdin) (← IO.getStdout)
