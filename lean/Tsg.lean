import Tsg.Base.Sexp
import Tsg.Base.Value
import Tsg.Base.Graph
import Tsg.Base.Vars
import Tsg.Driver.Ops
