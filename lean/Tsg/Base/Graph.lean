/-
  Model of `graph::Graph`, `GraphNode`, `Edge`, `Attributes` (src/graph.rs:35-329).

  * `Attributes.values : HashMap<Identifier, Value>`  ↦ association list with unique keys
    (iteration order of the hash map is never observable through the model: every consumer sorts
    or compares as a map).
  * `GraphNode.outgoing_edges : SmallVec<[(u32, Edge); 8]>` kept sorted by sink through
    `binary_search_by_key` + `insert` ↦ list of `(sink, attrs)` with sorted insertion.
  * `Graph.graph_nodes : Vec<GraphNode>` ↦ list; a graph-node reference is its index.
-/
import Tsg.Base.Value

abbrev Attrs := List (String × Val)

namespace Attrs

def get (a : Attrs) (k : String) : Option Val := a.lookup k

def replace : Attrs → String → Val → Attrs
  | [], _, _ => []
  | (k', v') :: rest, k, v => if k' = k then (k, v) :: rest else (k', v') :: replace rest k v

/-- `Attributes::add` (graph.rs:278-293): `true` in the second component means `Err(old)`;
in that case the new value has been stored (the code overwrites and reports). -/
def add (a : Attrs) (k : String) (v : Val) : Attrs × Bool :=
  match a.lookup k with
  | none => (a ++ [(k, v)], false)
  | some old => if old = v then (a, false) else (replace a k v, true)

def keys (a : Attrs) : List String := a.map (·.1)

/-- attributes in ascending name order (`keys.sort_by(|a, b| a.cmp(b))` in `Display for Attributes`) -/
def sorted (a : Attrs) : Attrs := a.mergeSort (fun x y => decide (x.1 ≤ y.1))

end Attrs

structure GNode where
  edges : List (Nat × Attrs) := []
  attrs : Attrs := []
  deriving Repr, Inhabited

namespace GNode

/-- position/insert as `binary_search_by_key` + `insert` do on a sorted vector:
returns the new edge list and whether the edge is new -/
def insertEdge : List (Nat × Attrs) → Nat → List (Nat × Attrs) × Bool
  | [], sink => ([(sink, [])], true)
  | (s, a) :: rest, sink =>
    if sink < s then ((sink, []) :: (s, a) :: rest, true)
    else if sink = s then ((s, a) :: rest, false)
    else
      let (rest', isNew) := insertEdge rest sink
      ((s, a) :: rest', isNew)

/-- `GraphNode::add_edge`: `true` = `Ok` (new edge), `false` = `Err` (existed) -/
def addEdge (n : GNode) (sink : Nat) : GNode × Bool :=
  let (es, isNew) := insertEdge n.edges sink
  ({ n with edges := es }, isNew)

/-- `GraphNode::get_edge` -/
def getEdge (n : GNode) (sink : Nat) : Option Attrs := n.edges.lookup sink

def setEdgeAttrs : List (Nat × Attrs) → Nat → Attrs → List (Nat × Attrs)
  | [], _, _ => []
  | (s, a) :: rest, sink, new => if s = sink then (s, new) :: rest else (s, a) :: setEdgeAttrs rest sink new

def edgeCount (n : GNode) : Nat := n.edges.length

end GNode

structure CGraph where
  nodes : List GNode := []
  deriving Repr, Inhabited

namespace CGraph

def empty : CGraph := {}

def nodeCount (g : CGraph) : Nat := g.nodes.length

/-- `Graph::add_graph_node` -/
def addGraphNode (g : CGraph) : CGraph × Nat :=
  ({ nodes := g.nodes ++ [{}] }, g.nodes.length)

def node? (g : CGraph) (i : Nat) : Option GNode := g.nodes[i]?

def setNode (g : CGraph) (i : Nat) (n : GNode) : CGraph := { nodes := g.nodes.set i n }

/-- `graph[src].add_edge(sink)`; `none` when `src` is not a node (the Rust index panics) -/
def addEdge (g : CGraph) (src sink : Nat) : Option (CGraph × Bool) :=
  match g.node? src with
  | none => none
  | some n =>
    let (n', isNew) := n.addEdge sink
    some (g.setNode src n', isNew)

def getEdge (g : CGraph) (src sink : Nat) : Option Attrs :=
  match g.node? src with
  | none => none
  | some n => n.getEdge sink

/-- `graph[node].attributes.add(k, v)` -/
def addNodeAttr (g : CGraph) (i : Nat) (k : String) (v : Val) : Option (CGraph × Bool) :=
  match g.node? i with
  | none => none
  | some n =>
    let (a, conflict) := Attrs.add n.attrs k v
    some (g.setNode i { n with attrs := a }, conflict)

/-- `graph[src].get_edge_mut(sink).attributes.add(k, v)`; inner `none` = edge does not exist -/
def addEdgeAttr (g : CGraph) (src sink : Nat) (k : String) (v : Val) : Option (Option (CGraph × Bool)) :=
  match g.node? src with
  | none => none
  | some n =>
    match n.getEdge sink with
    | none => some none
    | some ea =>
      let (a, conflict) := Attrs.add ea k v
      some (some (g.setNode src { n with edges := GNode.setEdgeAttrs n.edges sink a }, conflict))

end CGraph
