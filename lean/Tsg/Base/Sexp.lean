/-
  S-expressions: the wire format between the Rust harness and the Lean driver.

    sexp ::= atom | '"' HEX* '"' | '(' sexp* ')'

  Strings are hex-encoded UTF-8 bytes so that arbitrary text survives the line protocol.
  Model file: no Mathlib imports (the driver is a compiled executable).
-/

inductive Sexp where
  | atom (s : String)
  | str (s : String)
  | list (xs : List Sexp)
  deriving Repr, Inhabited

namespace Sexp

def hexDigit (n : Nat) : Char :=
  if n < 10 then Char.ofNat (48 + n) else Char.ofNat (87 + n)

def hexVal (c : Char) : Option Nat :=
  if '0' ≤ c ∧ c ≤ '9' then some (c.toNat - 48)
  else if 'a' ≤ c ∧ c ≤ 'f' then some (c.toNat - 87)
  else if 'A' ≤ c ∧ c ≤ 'F' then some (c.toNat - 55)
  else none

def hexEncode (s : String) : String :=
  String.ofList (s.toUTF8.toList.flatMap fun b => [hexDigit (b.toNat / 16), hexDigit (b.toNat % 16)])

def hexDecodeBytes : List Char → Option (List UInt8)
  | [] => some []
  | [_] => none
  | a :: b :: rest =>
    match hexVal a, hexVal b, hexDecodeBytes rest with
    | some x, some y, some bs => some (UInt8.ofNat (x * 16 + y) :: bs)
    | _, _, _ => none

def hexDecode (cs : List Char) : Option String :=
  match hexDecodeBytes cs with
  | some bs => String.fromUTF8? (ByteArray.mk bs.toArray)
  | none => none

mutual
partial def toStr : Sexp → String
  | .atom s => s
  | .str s => "\"" ++ hexEncode s ++ "\""
  | .list xs => "(" ++ " ".intercalate (xs.map toStr) ++ ")"
end

/-- tokens: `(`, `)`, quoted hex string, atom -/
inductive Tok where
  | lp | rp | str (s : String) | atom (s : String)

partial def tokenize (cs : List Char) (acc : Array Tok) : Option (Array Tok) :=
  match cs with
  | [] => some acc
  | c :: rest =>
    if c = ' ' ∨ c = '\n' ∨ c = '\r' ∨ c = '\t' then tokenize rest acc
    else if c = '(' then tokenize rest (acc.push .lp)
    else if c = ')' then tokenize rest (acc.push .rp)
    else if c = '"' then
      let hex := rest.takeWhile (· ≠ '"')
      let rest' := (rest.dropWhile (· ≠ '"')).drop 1
      match hexDecode hex with
      | some s => tokenize rest' (acc.push (.str s))
      | none => none
    else
      let isAtomCh := fun (ch : Char) => ¬ (ch = ' ' ∨ ch = '(' ∨ ch = ')' ∨ ch = '"' ∨ ch = '\n' ∨ ch = '\r' ∨ ch = '\t')
      let a := cs.takeWhile isAtomCh
      let rest' := cs.dropWhile isAtomCh
      tokenize rest' (acc.push (.atom (String.ofList a)))

/-- parse one sexp starting at token index `i`; returns the sexp and the next index -/
partial def parseAt (toks : Array Tok) (i : Nat) : Option (Sexp × Nat) :=
  match toks[i]? with
  | none => none
  | some .rp => none
  | some (.str s) => some (.str s, i + 1)
  | some (.atom s) => some (.atom s, i + 1)
  | some .lp =>
    let rec go (j : Nat) (acc : Array Sexp) : Option (Sexp × Nat) :=
      match toks[j]? with
      | none => none
      | some .rp => some (.list acc.toList, j + 1)
      | some _ =>
        match parseAt toks j with
        | some (x, j') => go j' (acc.push x)
        | none => none
    go (i + 1) #[]

def parse (line : String) : Option Sexp :=
  match tokenize line.toList #[] with
  | none => none
  | some toks =>
    match parseAt toks 0 with
    | some (x, j) => if j = toks.size then some x else none
    | none => none

-- helpers for decoding

def nat? : Sexp → Option Nat
  | .atom s => s.toNat?
  | _ => none

def string? : Sexp → Option String
  | .str s => some s
  | _ => none

def atom? : Sexp → Option String
  | .atom s => some s
  | _ => none

def list? : Sexp → Option (List Sexp)
  | .list xs => some xs
  | _ => none

def ofNat (n : Nat) : Sexp := .atom (toString n)
def ofBool (b : Bool) : Sexp := .atom (if b then "true" else "false")

def bool? : Sexp → Option Bool
  | .atom "true" => some true
  | .atom "false" => some false
  | _ => none

end Sexp
