/-
  The exported tree-sitter syntax tree. The harness walks the real tree in pre-order and sends,
  per node, everything the DSL semantics can observe. A syntax node is identified by its pre-order
  index (the harness maps `node.id() as u32` to this index and checks injectivity per tree).
-/
import Tsg.Base.Value

structure TNode where
  kind : String
  named : Bool
  startRow : Nat
  startCol : Nat
  endRow : Nat
  endCol : Nat
  startByte : Nat
  endByte : Nat
  isError : Bool
  isMissing : Bool
  hasError : Bool
  parent : Option Nat
  children : List Nat
  deriving Repr, Inhabited

structure Tree where
  nodes : Array TNode
  source : String
  deriving Inhabited

namespace Tree

def node? (t : Tree) (i : Nat) : Option TNode := t.nodes[i]?

/-- `&source[node.byte_range()]`; `none` when the range is not on character boundaries -/
def sliceBytes (s : String) (b e : Nat) : Option String :=
  String.fromUTF8? (s.toUTF8.extract b e)

def namedChildren (t : Tree) (n : TNode) : List Nat :=
  n.children.filter fun c => match t.node? c with
    | some cn => cn.named
    | none => false

/-- `Display for SyntaxNodeRef` (graph.rs:668-678) -/
def synShow (t : Tree) (id : Nat) : String :=
  match t.node? id with
  | some n => "[syntax node " ++ n.kind ++ " (" ++ toString (n.startRow + 1) ++ ", " ++ toString (n.startCol + 1) ++ ")]"
  | none => "[syntax node ?]"

/-- chain of proper ancestors, nearest first; `fuel` bounds the walk by the node count -/
def ancestorsAux (t : Tree) : Nat → Nat → List Nat
  | 0, _ => []
  | fuel + 1, i =>
    match t.node? i with
    | some n =>
      match n.parent with
      | some p => p :: ancestorsAux t fuel p
      | none => []
    | none => []

def ancestors (t : Tree) (i : Nat) : List Nat := ancestorsAux t t.nodes.size i

/-! wire format -/

def tnodeOfSexp : Sexp → Option TNode
  | .list [.str kind, named, sr, sc, er, ec, sb, eb, isErr, isMiss, hasErr, parent, .list children] => do
    let named ← named.bool?
    let sr ← sr.nat?; let sc ← sc.nat?; let er ← er.nat?; let ec ← ec.nat?
    let sb ← sb.nat?; let eb ← eb.nat?
    let isErr ← isErr.bool?; let isMiss ← isMiss.bool?; let hasErr ← hasErr.bool?
    let parent := match parent with
      | .atom "none" => none
      | p => p.nat?
    let children ← children.mapM Sexp.nat?
    pure { kind, named, startRow := sr, startCol := sc, endRow := er, endCol := ec, startByte := sb, endByte := eb,
           isError := isErr, isMissing := isMiss, hasError := hasErr, parent, children }
  | _ => none

/-- `(tree "source" node...)` -/
def ofSexp : Sexp → Option Tree
  | .list (.atom "tree" :: .str src :: nodes) => do
    let ns ← nodes.mapM tnodeOfSexp
    pure { nodes := ns.toArray, source := src }
  | _ => none

end Tree
