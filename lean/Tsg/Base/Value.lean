/-
  Model of `graph::Value` (src/graph.rs:331-345): variants, derived `Ord`, `Display`, `Debug`.
  Sets are `BTreeSet<Value>`: modelled as lists kept strictly sorted by `Val.cmp`.
  Syntax-node references are modelled by a node id (index into the exported tree); their
  kind/position (used only by Display) come from a lookup function.
-/
import Tsg.Base.Sexp

inductive Val where
  | null | bool (b : Bool) | int (n : Nat) | str (s : String)
  | list (vs : List Val) | set (vs : List Val) | syn (id : Nat) | gnode (ix : Nat)
  deriving Repr, Inhabited

namespace Val

mutual
def decEq : (a b : Val) → Decidable (a = b)
  | .null, .null => isTrue rfl
  | .bool a, .bool b => if h : a = b then isTrue (by rw [h]) else isFalse (by intro h'; cases h'; exact h rfl)
  | .int a, .int b => if h : a = b then isTrue (by rw [h]) else isFalse (by intro h'; cases h'; exact h rfl)
  | .str a, .str b => if h : a = b then isTrue (by rw [h]) else isFalse (by intro h'; cases h'; exact h rfl)
  | .syn a, .syn b => if h : a = b then isTrue (by rw [h]) else isFalse (by intro h'; cases h'; exact h rfl)
  | .gnode a, .gnode b => if h : a = b then isTrue (by rw [h]) else isFalse (by intro h'; cases h'; exact h rfl)
  | .list a, .list b => match decEqList a b with
      | isTrue h => isTrue (by rw [h])
      | isFalse h => isFalse (by intro h'; cases h'; exact h rfl)
  | .set a, .set b => match decEqList a b with
      | isTrue h => isTrue (by rw [h])
      | isFalse h => isFalse (by intro h'; cases h'; exact h rfl)
  | .null, .bool _ | .null, .int _ | .null, .str _ | .null, .list _ | .null, .set _ | .null, .syn _ | .null, .gnode _ => isFalse (by intro h; cases h)
  | .bool _, .null | .bool _, .int _ | .bool _, .str _ | .bool _, .list _ | .bool _, .set _ | .bool _, .syn _ | .bool _, .gnode _ => isFalse (by intro h; cases h)
  | .int _, .null | .int _, .bool _ | .int _, .str _ | .int _, .list _ | .int _, .set _ | .int _, .syn _ | .int _, .gnode _ => isFalse (by intro h; cases h)
  | .str _, .null | .str _, .bool _ | .str _, .int _ | .str _, .list _ | .str _, .set _ | .str _, .syn _ | .str _, .gnode _ => isFalse (by intro h; cases h)
  | .list _, .null | .list _, .bool _ | .list _, .int _ | .list _, .str _ | .list _, .set _ | .list _, .syn _ | .list _, .gnode _ => isFalse (by intro h; cases h)
  | .set _, .null | .set _, .bool _ | .set _, .int _ | .set _, .str _ | .set _, .list _ | .set _, .syn _ | .set _, .gnode _ => isFalse (by intro h; cases h)
  | .syn _, .null | .syn _, .bool _ | .syn _, .int _ | .syn _, .str _ | .syn _, .list _ | .syn _, .set _ | .syn _, .gnode _ => isFalse (by intro h; cases h)
  | .gnode _, .null | .gnode _, .bool _ | .gnode _, .int _ | .gnode _, .str _ | .gnode _, .list _ | .gnode _, .set _ | .gnode _, .syn _ => isFalse (by intro h; cases h)
def decEqList : (a b : List Val) → Decidable (a = b)
  | [], [] => isTrue rfl
  | [], _ :: _ => isFalse (by intro h; cases h)
  | _ :: _, [] => isFalse (by intro h; cases h)
  | x :: xs, y :: ys =>
    match decEq x y, decEqList xs ys with
    | isTrue h1, isTrue h2 => isTrue (by rw [h1, h2])
    | isFalse h1, _ => isFalse (by intro h; cases h; exact h1 rfl)
    | _, isFalse h2 => isFalse (by intro h; cases h; exact h2 rfl)
end

instance : DecidableEq Val := decEq

/-- rank of the variant in the derived `Ord` (declaration order in graph.rs) -/
def rank : Val → Nat
  | .null => 0 | .bool _ => 1 | .int _ => 2 | .str _ => 3
  | .list _ => 4 | .set _ => 5 | .syn _ => 6 | .gnode _ => 7

mutual
/-- the derived `Ord` of `Value` -/
def cmp : Val → Val → Ordering
  | .null, .null => .eq
  | .bool a, .bool b => compare a b
  | .int a, .int b => compare a b
  | .str a, .str b => compare a b
  | .list a, .list b => cmpList a b
  | .set a, .set b => cmpList a b
  | .syn a, .syn b => compare a b
  | .gnode a, .gnode b => compare a b
  | a, b => compare a.rank b.rank
/-- lexicographic order on lists (Rust's `Ord for Vec<T>` and `BTreeSet<T>`) -/
def cmpList : List Val → List Val → Ordering
  | [], [] => .eq
  | [], _ :: _ => .lt
  | _ :: _, [] => .gt
  | x :: xs, y :: ys =>
    match cmp x y with
    | .eq => cmpList xs ys
    | o => o
end

/-- `BTreeSet::insert` on the sorted-list representation -/
def setInsert (v : Val) : List Val → List Val
  | [] => [v]
  | x :: xs =>
    match cmp v x with
    | .lt => v :: x :: xs
    | .eq => x :: xs
    | .gt => x :: setInsert v xs

/-- collecting an iterator into a `BTreeSet` -/
def setOfList (vs : List Val) : List Val := vs.foldl (fun acc v => setInsert v acc) []

def isNull : Val → Bool
  | .null => true
  | _ => false

/-! ### Display / Debug (graph.rs:495-583, 668-719) -/

/-- Rust `char::escape_debug` as used by `<str as Debug>`: exact for ASCII; non-ASCII characters
are assumed printable and not Grapheme_Extend (the harness only generates such characters). -/
def escapeDebugChar (c : Char) : List Char :=
  if c = '\x00' then ['\\', '0']
  else if c = '\t' then ['\\', 't']
  else if c = '\r' then ['\\', 'r']
  else if c = '\n' then ['\\', 'n']
  else if c = '\\' then ['\\', '\\']
  else if c = '"' then ['\\', '"']
  else if c.toNat < 32 ∨ c.toNat = 127 then
    ['\\', 'u', '{'] ++ (Nat.toDigits 16 c.toNat) ++ ['}']
  else [c]

def strDebug (s : String) : String :=
  String.ofList (['"'] ++ s.toList.flatMap escapeDebugChar ++ ['"'])

def commaSep : List String → String
  | [] => ""
  | [x] => x
  | x :: xs => x ++ ", " ++ commaSep xs

mutual
/-- `impl Display for Value`; `syn` renders a syntax node reference -/
def display (syn : Nat → String) : Val → String
  | .null => "#null"
  | .bool true => "#true"
  | .bool false => "#false"
  | .int n => toString n
  | .str s => s
  | .list vs => "[" ++ commaSep (displayList syn vs) ++ "]"
  | .set vs => "{" ++ commaSep (displayList syn vs) ++ "}"
  | .syn id => syn id
  | .gnode ix => "[graph node " ++ toString ix ++ "]"
def displayList (syn : Nat → String) : List Val → List String
  | [] => []
  | v :: vs => display syn v :: displayList syn vs
end

mutual
/-- `impl Debug for Value` -/
def debug (syn : Nat → String) : Val → String
  | .null => "#null"
  | .bool true => "#true"
  | .bool false => "#false"
  | .int n => toString n
  | .str s => strDebug s
  | .list vs => "[" ++ commaSep (debugList syn vs) ++ "]"
  | .set vs => "{" ++ commaSep (debugList syn vs) ++ "}"
  | .syn id => syn id
  | .gnode ix => "[graph node " ++ toString ix ++ "]"
def debugList (syn : Nat → String) : List Val → List String
  | [] => []
  | v :: vs => debug syn v :: debugList syn vs
end

/-! ### wire format -/

mutual
def toSexp : Val → Sexp
  | .null => .list [.atom "null"]
  | .bool b => .list [.atom "bool", Sexp.ofBool b]
  | .int n => .list [.atom "int", Sexp.ofNat n]
  | .str s => .list [.atom "str", .str s]
  | .list vs => .list (.atom "list" :: toSexpList vs)
  | .set vs => .list (.atom "set" :: toSexpList vs)
  | .syn id => .list [.atom "syn", Sexp.ofNat id]
  | .gnode ix => .list [.atom "gnode", Sexp.ofNat ix]
def toSexpList : List Val → List Sexp
  | [] => []
  | v :: vs => toSexp v :: toSexpList vs
end

mutual
partial def ofSexp : Sexp → Option Val
  | .list [.atom "null"] => some .null
  | .list [.atom "bool", b] => b.bool?.map .bool
  | .list [.atom "int", n] => n.nat?.map .int
  | .list [.atom "str", .str s] => some (.str s)
  | .list [.atom "syn", n] => n.nat?.map .syn
  | .list [.atom "gnode", n] => n.nat?.map .gnode
  | .list (.atom "list" :: xs) => (ofSexpList xs).map .list
  | .list (.atom "set" :: xs) => (ofSexpList xs).map (fun vs => .set (setOfList vs))
  | _ => none
partial def ofSexpList : List Sexp → Option (List Val)
  | [] => some []
  | x :: xs =>
    match ofSexp x, ofSexpList xs with
    | some v, some vs => some (v :: vs)
    | _, _ => none
end

end Val
