/-
  Model of `variables.rs`: `VariableMap` (nested mutable environments) and `Globals`
  (nested immutable environments, exported as `Variables`).
-/
import Tsg.Base.Value

inductive VarErr where
  | alreadyDefined | undefined | immutable
  deriving Repr, DecidableEq, Inhabited

/-- one `VariableMap.values`: name ↦ (value, mutable) -/
abbrev Frame (V : Type) := List (String × V × Bool)

/-- a `VariableMap` together with its chain of `context`s, innermost first -/
abbrev Frames (V : Type) := List (Frame V)

namespace Frames
variable {V : Type}

def get : Frames V → String → Option V
  | [], _ => none
  | f :: rest, k =>
    match f.lookup k with
    | some (v, _) => some v
    | none => get rest k

/-- `VariableMap::add` (variables.rs:86-95) on the innermost frame -/
def add : Frames V → String → V → Bool → Except VarErr (Frames V)
  | [], _, _, _ => .error .undefined    -- no frame: never happens (there is always one map)
  | f :: rest, k, v, m =>
    match f.lookup k with
    | some _ => .error .alreadyDefined
    | none => .ok ((f ++ [(k, v, m)]) :: rest)

def frameSet (f : Frame V) (k : String) (v : V) : Frame V :=
  f.map fun e => if e.1 = k then (k, v, e.2.2) else e

/-- `VariableMap::set` (variables.rs:97-118) -/
def set : Frames V → String → V → Except VarErr (Frames V)
  | [], _, _ => .error .undefined
  | f :: rest, k, v =>
    match f.lookup k with
    | some (_, true) => .ok (frameSet f k v :: rest)
    | some (_, false) => .error .immutable
    | none =>
      match set rest k v with
      | .ok rest' => .ok (f :: rest')
      | .error e => .error e

/-- `VariableMap::clear` -/
def clear : Frames V → Frames V
  | [] => []
  | _ :: rest => [] :: rest

/-- `VariableMap::nested` -/
def push (fs : Frames V) : Frames V := [] :: fs

def pop : Frames V → Frames V
  | [] => []
  | _ :: rest => rest

end Frames

/-- `Globals`: innermost layer first -/
abbrev GlobalsM := List (List (String × Val))

namespace GlobalsM

def get : GlobalsM → String → Option Val
  | [], _ => none
  | l :: rest, k =>
    match l.lookup k with
    | some v => some v
    | none => get rest k

def add : GlobalsM → String → Val → Except VarErr GlobalsM
  | [], _, _ => .error .undefined
  | l :: rest, k, v =>
    match l.lookup k with
    | some _ => .error .alreadyDefined
    | none => .ok ((l ++ [(k, v)]) :: rest)

def remove : GlobalsM → String → GlobalsM
  | [], _ => []
  | l :: rest, k => (l.filter (·.1 ≠ k)) :: rest

def clear : GlobalsM → GlobalsM
  | [] => []
  | _ :: rest => [] :: rest

def isEmpty : GlobalsM → Bool
  | [] => true
  | l :: _ => l.isEmpty

/-- `Globals::iter`: own layer only -/
def iter : GlobalsM → List (String × Val)
  | [] => []
  | l :: _ => l

def nested (g : GlobalsM) : GlobalsM := [] :: g

end GlobalsM
