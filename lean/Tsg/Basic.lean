def hello := "world"
