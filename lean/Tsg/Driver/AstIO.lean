/-
  Decoding of the AST, matches and globals sent by the harness; encoding of run results.
-/
import Tsg.Syntax.Ast
import Tsg.Sem.Strict
import Tsg.Driver.GraphIO
import Tsg.Driver.Oracle

namespace Driver

def locOfSexp : Sexp → Option Loc
  | .list [r, c] => do pure { row := ← r.nat?, col := ← c.nat? }
  | _ => none

def quantOfSexp : Sexp → Option Quant
  | .atom "zero" => some .zero
  | .atom "opt" => some .zeroOrOne
  | .atom "star" => some .zeroOrMore
  | .atom "one" => some .one
  | .atom "plus" => some .oneOrMore
  | _ => none

mutual
partial def exprOfSexp : Sexp → Option Expr
  | .list [.atom "false"] => some .falseLit
  | .list [.atom "null"] => some .nullLit
  | .list [.atom "true"] => some .trueLit
  | .list [.atom "int", n] => n.nat?.map .int
  | .list [.atom "str", .str s] => some (.str s)
  | .list (.atom "list" :: es) => (exprsOfSexp es).map .list
  | .list (.atom "set" :: es) => (exprsOfSexp es).map .set
  | .list [.atom "lcomp", el, .str v, vl, value, l] => do
    pure (.listComp (← exprOfSexp el) v (← locOfSexp vl) (← exprOfSexp value) (← locOfSexp l))
  | .list [.atom "scomp", el, .str v, vl, value, l] => do
    pure (.setComp (← exprOfSexp el) v (← locOfSexp vl) (← exprOfSexp value) (← locOfSexp l))
  | .list [.atom "cap", .str name, q, fi, si, l] => do
    pure (.capture name (← quantOfSexp q) (← fi.nat?) (← si.nat?) (← locOfSexp l))
  | .list [.atom "var", .str name, l] => do pure (.var name (← locOfSexp l))
  | .list [.atom "svar", scope, .str name, l] => do pure (.scopedVar (← exprOfSexp scope) name (← locOfSexp l))
  | .list (.atom "call" :: .str fn :: args) => (exprsOfSexp args).map (.call fn)
  | .list [.atom "rcap", n] => n.nat?.map .regexCap
  | _ => none
partial def exprsOfSexp : List Sexp → Option (List Expr)
  | [] => some []
  | x :: xs => do
    let e ← exprOfSexp x
    let es ← exprsOfSexp xs
    pure (e :: es)
end

def varOfSexp : Sexp → Option Var
  | .list [.atom "uv", .str name, l] => do pure (.unscoped name (← locOfSexp l))
  | .list [.atom "sv", scope, .str name, l] => do pure (.scopedV (← exprOfSexp scope) name (← locOfSexp l))
  | _ => none

def attrsEOfSexp : Sexp → Option (List AttrE)
  | .list as => as.mapM fun
    | .list [.str name, e] => (exprOfSexp e).map fun e => (name, e)
    | _ => none
  | _ => none

def condOfSexp : Sexp → Option Cond
  | .list [.atom "some", e, l] => do pure (.some (← exprOfSexp e) (← locOfSexp l))
  | .list [.atom "none", e, l] => do pure (.none (← exprOfSexp e) (← locOfSexp l))
  | .list [.atom "bool", e, l] => do pure (.bool (← exprOfSexp e) (← locOfSexp l))
  | _ => none

mutual
partial def stmtOfSexp : Sexp → Option Stmt
  | .list [.atom "let", v, e, l] => do pure (.declImm (← varOfSexp v) (← exprOfSexp e) (← locOfSexp l))
  | .list [.atom "varS", v, e, l] => do pure (.declMut (← varOfSexp v) (← exprOfSexp e) (← locOfSexp l))
  | .list [.atom "setS", v, e, l] => do pure (.assign (← varOfSexp v) (← exprOfSexp e) (← locOfSexp l))
  | .list [.atom "node", v, l] => do pure (.createNode (← varOfSexp v) (← locOfSexp l))
  | .list [.atom "attrn", e, as, l] => do pure (.attrNode (← exprOfSexp e) (← attrsEOfSexp as) (← locOfSexp l))
  | .list [.atom "edge", a, b, l] => do pure (.createEdge (← exprOfSexp a) (← exprOfSexp b) (← locOfSexp l))
  | .list [.atom "attre", a, b, as, l] => do
    pure (.attrEdge (← exprOfSexp a) (← exprOfSexp b) (← attrsEOfSexp as) (← locOfSexp l))
  | .list [.atom "scan", e, .list arms, l] => do
    let arms ← arms.mapM fun
      | .list [.str re, .list body, al] => do
        pure (re, ← stmtsOfSexp body, ← locOfSexp al)
      | _ => none
    pure (.scan (← exprOfSexp e) arms (← locOfSexp l))
  | .list [.atom "print", .list es, l] => do pure (.print (← exprsOfSexp es) (← locOfSexp l))
  | .list [.atom "if", .list arms, l] => do
    let arms ← arms.mapM fun
      | .list [.list conds, .list body, al] => do
        pure (← conds.mapM condOfSexp, ← stmtsOfSexp body, ← locOfSexp al)
      | _ => none
    pure (.ifS arms (← locOfSexp l))
  | .list [.atom "for", .str v, vl, e, .list body, l] => do
    pure (.forIn v (← locOfSexp vl) (← exprOfSexp e) (← stmtsOfSexp body) (← locOfSexp l))
  | _ => none
partial def stmtsOfSexp : List Sexp → Option (List Stmt)
  | [] => some []
  | x :: xs => do
    let s ← stmtOfSexp x
    let ss ← stmtsOfSexp xs
    pure (s :: ss)
end

def stanzaOfSexp : Sexp → Option Stanza
  | .list [.atom "stanza", .list stmts, a, b, s, e, .list caps] => do
    let caps ← caps.mapM fun
      | .list [.str n, q] => (quantOfSexp q).map fun q => (n, q)
      | _ => none
    pure { stmts := ← stmtsOfSexp stmts, fullMatchStanzaIx := ← a.nat?, fullMatchFileIx := ← b.nat?,
           rangeStart := ← locOfSexp s, rangeEnd := ← locOfSexp e, captures := caps }
  | _ => none

def fileOfSexp : Sexp → Option File
  | .list [.atom "file", .list globals, .list (.atom "inherited" :: inh), .list stanzas, .list shorthands] => do
    let globals ← globals.mapM fun
      | .list [.str name, q, d, l] => do
        let d ← match d with
          | .list [.atom "none"] => some none
          | .list [.atom "some", .str s] => some (some s)
          | _ => none
        pure ({ name, quant := ← quantOfSexp q, default := d, loc := ← locOfSexp l } : Global)
      | _ => none
    let inh ← inh.mapM Sexp.string?
    let stanzas ← stanzas.mapM stanzaOfSexp
    let shorthands ← shorthands.mapM fun
      | .list [.str name, .str v, vl, as, l] => do
        pure ({ name, var := v, varLoc := ← locOfSexp vl, attrs := ← attrsEOfSexp as, loc := ← locOfSexp l } : Shorthand)
      | _ => none
    pure { globals, inherited := inh, stanzas, shorthands }
  | _ => none

def matchOfSexp : Sexp → Option QMatch
  | .list [.atom "match", pi, .list caps] => do
    let caps ← caps.mapM fun
      | .list [.str n, .list nodes] => (nodes.mapM Sexp.nat?).map fun ns => (n, ns)
      | _ => none
    pure { patternIx := ← pi.nat?, caps }
  | _ => none

def optStr : Sexp → Option (Option String)
  | .list [.atom "none"] => some none
  | .list [.atom "some", .str s] => some (some s)
  | _ => none

def optNat : Sexp → Option (Option Nat)
  | .atom "none" => some none
  | n => n.nat?.map some

def locSexp (l : Loc) : Sexp := .list [Sexp.ofNat l.row, Sexp.ofNat l.col]

def xerrSexp : XErr → Sexp
  | .base k label => .list [.atom "base", .atom k.name, .str label]
  | .inCtx (.stmt cs) cause =>
    .list [.atom "in-stmt", .list (cs.map fun c => .list [locSexp c.stmtLoc, locSexp c.stanzaLoc, locSexp c.srcLoc, .str c.nodeKind]),
           xerrSexp cause]
  | .inCtx (.other _) cause => .list [.atom "in-other", xerrSexp cause]

def outcomeSexp : Option Fail → Sexp
  | none => .list [.atom "ok"]
  | some (.err e) => .list [.atom "err", xerrSexp e]
  | some (.panic site) => .list [.atom "panic", .str site]
  | some (.need q) => needSexp q
  | some .outOfFuel => .list [.atom "out-of-fuel"]

end Driver
