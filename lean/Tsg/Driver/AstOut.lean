/-
  Encoding of ASTs in the wire format of harness/src/astx.rs (the inverse of Tsg/Driver/AstIO.lean).
-/
import Tsg.Syntax.Ast
import Tsg.Syntax.Parser
import Tsg.Syntax.Checker
import Tsg.Syntax.Load
import Tsg.Driver.AstIO

namespace Driver

def quantSexp : Quant → Sexp
  | .zero => .atom "zero" | .zeroOrOne => .atom "opt" | .zeroOrMore => .atom "star"
  | .one => .atom "one" | .oneOrMore => .atom "plus"

mutual
partial def exprSexp : Expr → Sexp
  | .falseLit => .list [.atom "false"]
  | .nullLit => .list [.atom "null"]
  | .trueLit => .list [.atom "true"]
  | .int n => .list [.atom "int", Sexp.ofNat n]
  | .str s => .list [.atom "str", .str s]
  | .list es => .list (.atom "list" :: es.map exprSexp)
  | .set es => .list (.atom "set" :: es.map exprSexp)
  | .listComp el v vl value l => .list [.atom "lcomp", exprSexp el, .str v, locSexp vl, exprSexp value, locSexp l]
  | .setComp el v vl value l => .list [.atom "scomp", exprSexp el, .str v, locSexp vl, exprSexp value, locSexp l]
  | .capture name q fi si l => .list [.atom "cap", .str name, quantSexp q, Sexp.ofNat fi, Sexp.ofNat si, locSexp l]
  | .var name l => .list [.atom "var", .str name, locSexp l]
  | .scopedVar scope name l => .list [.atom "svar", exprSexp scope, .str name, locSexp l]
  | .call fn args => .list (.atom "call" :: .str fn :: args.map exprSexp)
  | .regexCap n => .list [.atom "rcap", Sexp.ofNat n]
end

def varSexp : Var → Sexp
  | .unscoped name l => .list [.atom "uv", .str name, locSexp l]
  | .scopedV scope name l => .list [.atom "sv", exprSexp scope, .str name, locSexp l]

def attrsESexp (as : List AttrE) : Sexp := .list (as.map fun (n, e) => .list [.str n, exprSexp e])

def condSexp : Cond → Sexp
  | .some e l => .list [.atom "some", exprSexp e, locSexp l]
  | .none e l => .list [.atom "none", exprSexp e, locSexp l]
  | .bool e l => .list [.atom "bool", exprSexp e, locSexp l]

mutual
partial def stmtSexp : Stmt → Sexp
  | .declImm v e l => .list [.atom "let", varSexp v, exprSexp e, locSexp l]
  | .declMut v e l => .list [.atom "varS", varSexp v, exprSexp e, locSexp l]
  | .assign v e l => .list [.atom "setS", varSexp v, exprSexp e, locSexp l]
  | .createNode v l => .list [.atom "node", varSexp v, locSexp l]
  | .attrNode e as l => .list [.atom "attrn", exprSexp e, attrsESexp as, locSexp l]
  | .createEdge a b l => .list [.atom "edge", exprSexp a, exprSexp b, locSexp l]
  | .attrEdge a b as l => .list [.atom "attre", exprSexp a, exprSexp b, attrsESexp as, locSexp l]
  | .scan e arms l =>
    .list [.atom "scan", exprSexp e, .list (arms.map fun (re, body, al) => .list [.str re, .list (body.map stmtSexp), locSexp al]), locSexp l]
  | .print es l => .list [.atom "print", .list (es.map exprSexp), locSexp l]
  | .ifS arms l =>
    .list [.atom "if", .list (arms.map fun (cs, body, al) => .list [.list (cs.map condSexp), .list (body.map stmtSexp), locSexp al]), locSexp l]
  | .forIn v vl e body l => .list [.atom "for", .str v, locSexp vl, exprSexp e, .list (body.map stmtSexp), locSexp l]
end

def stanzaSexp (s : Stanza) : Sexp :=
  .list [.atom "stanza", .list (s.stmts.map stmtSexp), Sexp.ofNat s.fullMatchStanzaIx, Sexp.ofNat s.fullMatchFileIx,
    locSexp s.rangeStart, locSexp s.rangeEnd, .list (s.captures.map fun (n, q) => .list [.str n, quantSexp q])]

def fileSexp (f : File) : Sexp :=
  let globals := f.globals.map fun g =>
    .list [.str g.name, quantSexp g.quant,
      (match g.default with | none => .list [.atom "none"] | some d => .list [.atom "some", .str d]), locSexp g.loc]
  let inh := f.inherited.mergeSort (fun a b => decide (a ≤ b))
  let shs := f.shorthands.mergeSort (fun a b => decide (a.name ≤ b.name))
  .list [.atom "file", .list globals, .list (.atom "inherited" :: inh.map .str), .list (f.stanzas.map stanzaSexp),
    .list (shs.map fun s => .list [.str s.name, .str s.var, locSexp s.varLoc, attrsESexp s.attrs, locSexp s.loc])]

def perrSexpP : PErrK → Sexp
  | .expectedQuantifier l => .list [.atom "ExpectedQuantifier", locSexp l]
  | .expectedToken t l => .list [.atom "ExpectedToken", .str t, locSexp l]
  | .expectedVariable l => .list [.atom "ExpectedVariable", locSexp l]
  | .expectedUnscopedVariable l => .list [.atom "ExpectedUnscopedVariable", locSexp l]
  | .invalidRegex re l => .list [.atom "InvalidRegex", .str re, locSexp l]
  | .invalidRegexCapture l => .list [.atom "InvalidRegexCapture", locSexp l]
  | .invalidIntegerConstant t l => .list [.atom "InvalidIntegerConstant", .str t, locSexp l]
  | .queryError r c o => .list [.atom "QueryError", Sexp.ofNat r, Sexp.ofNat c, Sexp.ofNat o]
  | .unexpectedCharacter ch w l => .list [.atom "UnexpectedCharacter", .str (String.singleton ch), .str w, locSexp l]
  | .unexpectedEOF l => .list [.atom "UnexpectedEOF", locSexp l]
  | .unexpectedKeyword k l => .list [.atom "UnexpectedKeyword", .str k, locSexp l]
  | .unexpectedLiteral k l => .list [.atom "UnexpectedLiteral", .str k, locSexp l]
  | .unexpectedQueryPatterns l => .list [.atom "UnexpectedQueryPatterns", locSexp l]

/-- oracle table of the parser: `(poracle (q "text" <ans>)... (r "pattern" bool)... (c "ch" ws alpha alnum)...)` -/
structure POracleTable where
  qs : List (String × QueryAns) := []
  rs : List (String × Bool) := []
  cs : List (Char × Bool × Bool × Bool) := []
  /-- `(n "pattern" bool)`: does the regex match the empty string -/
  ns : List (String × Bool) := []

def POracleTable.toOracle (t : POracleTable) : POracle where
  query := fun s => t.qs.lookup s
  regexValid := fun s => t.rs.lookup s
  charClass := fun c => (t.cs.lookup c).getD (false, false, false)
  fuel := 0

def poracleOfSexp : Sexp → Option POracleTable
  | .list (.atom "poracle" :: es) => es.foldlM (fun (t : POracleTable) e =>
      match e with
      | .list [.atom "q", .str text, .list [.atom "valid", n, .list caps]] => do
        let caps ← caps.mapM fun
          | .list [.str c, q] => (quantOfSexp q).map fun q => (c, q)
          | _ => none
        pure { t with qs := (text, .valid (← n.nat?) caps) :: t.qs }
      | .list [.atom "q", .str text, .list [.atom "binding-panic"]] =>
        pure { t with qs := (text, .bindingPanic) :: t.qs }
      | .list [.atom "q", .str text, .list [.atom "invalid", r, c, o]] => do
        pure { t with qs := (text, .invalid (← r.nat?) (← c.nat?) (← o.nat?)) :: t.qs }
      | .list [.atom "r", .str p, b] => do pure { t with rs := (p, ← b.bool?) :: t.rs }
      | .list [.atom "n", .str p, b] => do pure { t with ns := (p, ← b.bool?) :: t.ns }
      | .list [.atom "c", .str ch, a, b, c] => do
        match ch.toList with
        | [x] => pure { t with cs := (x, ← a.bool?, ← b.bool?, ← c.bool?) :: t.cs }
        | _ => none
      | _ => none) {}
  | _ => none

/-- `(parse "text" (poracle ...))` → `(parsed <file>)` | `(parse-error <err>)` | `(need ...)` -/
def handleParse : List Sexp → Sexp
  | [.str text, orc] =>
    match poracleOfSexp orc with
    | none => .list [.atom "bad-request"]
    | some t =>
      match Parser.parse t.toOracle text with
      | .ok f => .list [.atom "parsed", fileSexp f]
      | .error (.err e) => .list [.atom "parse-error", perrSexpP e]
      | .error (.need (.query q)) => .list [.atom "need", .atom "q", .str q]
      | .error (.need (.regex p)) => .list [.atom "need", .atom "r", .str p]
      | .error .outOfFuel => .list [.atom "out-of-fuel"]
      | .error (.panic s) => .list [.atom "panic", .str s]
  | _ => .list [.atom "bad-request"]

def varErrName : VarErrK → String
  | .cannotAssignImmutable => "CannotAssignImmutableVariable"
  | .alreadyDefined => "VariableAlreadyDefined"
  | .undefined => "UndefinedVariable"

def cerrSexp : CheckErrK → Sexp
  | .cannotHideGlobalVariable n l => .list [.atom "CannotHideGlobalVariable", .str n, locSexp l]
  | .cannotSetGlobalVariable n l => .list [.atom "CannotSetGlobalVariable", .str n, locSexp l]
  | .duplicateGlobalVariable n l => .list [.atom "DuplicateGlobalVariable", .str n, locSexp l]
  | .expectedListValue l => .list [.atom "ExpectedListValue", locSexp l]
  | .expectedLocalValue l => .list [.atom "ExpectedLocalValue", locSexp l]
  | .expectedOptionalValue l => .list [.atom "ExpectedOptionalValue", locSexp l]
  | .nullableRegex re l => .list [.atom "NullableRegex", .str re, locSexp l]
  | .undefinedSyntaxCapture n l => .list [.atom "UndefinedSyntaxCapture", .str n, locSexp l]
  | .undefinedVariable n l => .list [.atom "UndefinedVariable", .str n, locSexp l]
  | .unusedCaptures ns l => .list [.atom "UnusedCaptures", .str ns, locSexp l]
  | .variable e n l => .list [.atom "Variable", .atom (varErrName e), .str n, locSexp l]

/-- `(load "text" (poracle ...))` = `File::from_str`: parse, then check.
    → `(loaded <file>)` | `(parse-error <err>)` | `(check-error <err>)` | `(need ...)` -/
def handleLoad : List Sexp → Sexp
  | [.str text, orc] =>
    match poracleOfSexp orc with
    | none => .list [.atom "bad-request"]
    | some t =>
      match Loader.load t.toOracle (fun p => t.ns.lookup p) text with
      | .loaded f => .list [.atom "loaded", fileSexp f]
      | .parseError e => .list [.atom "parse-error", perrSexpP e]
      | .checkError e => .list [.atom "check-error", cerrSexp e]
      | .needQuery q => .list [.atom "need", .atom "q", .str q]
      | .needRegex p => .list [.atom "need", .atom "r", .str p]
      | .needNullable p => .list [.atom "need", .atom "n", .str p]
      | .outOfFuel => .list [.atom "out-of-fuel"]
      | .panic s => .list [.atom "panic", .str s]
  | _ => .list [.atom "bad-request"]

end Driver
