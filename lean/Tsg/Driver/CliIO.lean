import Tsg.Out.Cli

namespace Driver

/-- `(cli lazy quiet json allow output ("global"...) loadOk sourceHasErrors execOk)` -/
def handleCli : List Sexp → Sexp
  | [lz, q, j, a, out, .list gs, l, p, e] =>
    match lz.bool?, q.bool?, j.bool?, a.bool?, out.bool?, gs.mapM Sexp.string?, l.bool?, p.bool?, e.bool? with
    | some lz, some q, some j, some a, some out, some gs, some l, some p, some e =>
      let r := Cli.outcome { lazy := lz, quiet := q, json := j, allowParseErrors := a, output := out, globals := gs }
        { loadOk := l, sourceHasErrors := p, execOk := e }
      .list [.atom "cli-result", Sexp.ofBool r.exitZero,
        .atom (match r.stdout with | .nothing => "nothing" | .pretty => "pretty" | .json => "json"),
        Sexp.ofBool r.outFile]
    | _, _, _, _, _, _, _, _, _ => .list [.atom "bad-request"]
  | _ => .list [.atom "bad-request"]

end Driver
