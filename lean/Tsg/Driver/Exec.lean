import Tsg.Driver.AstIO
import Tsg.Driver.Ops
import Tsg.Sem.Lazy
import Tsg.Sem.Contracts

namespace Driver

structure ExecReq where
  lazy : Bool
  file : File
  matchLists : List (List QMatch)
  merged : List QMatch
  globals : GlobalsM
  locAttr : Option String
  varAttr : Option String
  matchAttr : Option String
  cancelAt : Option Nat
  graph0 : CGraph
  oracle : OracleTable
  fuel : Nat

/-- `(exec mode file (matches...) (merged...) (globals) (debug l v m) cancelAt graph oracle fuel)` -/
def execReqOfSexp : List Sexp → Option ExecReq
  | [.atom mode, file, .list ms, .list merged, globals, .list [.atom "debug", l, v, m], cancel, g0, orc, fuel] => do
    let file ← fileOfSexp file
    let matchLists ← ms.mapM fun
      | .list xs => xs.mapM matchOfSexp
      | _ => none
    let merged ← merged.mapM matchOfSexp
    let layerOf := fun (kvs : List Sexp) => kvs.mapM fun
      | .list [.str k, v] => (Val.ofSexp v).map fun v => (k, v)
      | _ => none
    -- `(layers inner outer ...)` = nested `Variables`; a plain list = a single set
    let globals ← match globals with
      | .list (.atom "layers" :: ls) => ls.mapM fun
        | .list kvs => layerOf kvs
        | _ => none
      | .list kvs => (layerOf kvs).map fun l => [l]
      | _ => none
    pure { lazy := mode == "lazy", file, matchLists, merged, globals,
           locAttr := ← optStr l, varAttr := ← optStr v, matchAttr := ← optStr m,
           cancelAt := ← optNat cancel, graph0 := ← graphOfSexp g0, oracle := ← oracleOfSexp orc,
           fuel := ← fuel.nat? }
  | _ => none

def runResultSexp (r : RunResult) : Sexp :=
  match r.outcome with
  | some (.need q) => needSexp q
  | o => .list [.atom "result", outcomeSexp o, graphSexp r.graph, Sexp.ofNat r.polls]

def handleExec (t : Tree) (args : List Sexp) : Sexp :=
  match execReqOfSexp args with
  | none => .list [.atom "bad-request"]
  | some r =>
    if r.lazy then
      runResultSexp (Lazy.run r.file t r.oracle.toOracle r.globals r.locAttr r.varAttr r.matchAttr
        r.cancelAt r.fuel 100000 r.merged r.graph0)
    else
      runResultSexp (Strict.run r.file t r.oracle.toOracle r.globals r.locAttr r.varAttr r.matchAttr
        r.cancelAt r.fuel r.matchLists r.graph0)

/-- `(contracts <the arguments of exec>)`: the executable contracts of the panic-freedom theorems on this request:
`(contracts tree-ok globals-wf strict-matches-ok merged-matches-ok)` -/
def handleContracts (t : Tree) (args : List Sexp) : Sexp :=
  match execReqOfSexp args with
  | none => .list [.atom "bad-request"]
  | some r =>
    let b := fun (x : Bool) => Sexp.atom (if x then "true" else "false")
    .list [.atom "contracts", b (Contracts.treeOKB t), b (Contracts.globalsWfB r.graph0.nodes.length r.globals),
           b (Contracts.strictMatchesOKB t r.file.stanzas r.matchLists), b (Contracts.mergedAllOKB t r.file.stanzas r.merged)]

end Driver
