import Tsg.Sem.Stdlib
import Tsg.Driver.Oracle

namespace Driver

/-- `(fn "name" (args...) nodeCount (oracle ...))` against the current tree -/
def handleFn (t : Tree) : List Sexp → Sexp
  | [.str name, .list args, n, orc] =>
    match args.mapM Val.ofSexp, n.nat?, oracleOfSexp orc with
    | some vs, some n, some tbl =>
      let g : CGraph := { nodes := List.replicate n {} }
      match Stdlib.call tbl.toOracle t name vs g with
      | .ok v g' => .list [.atom "ok", v.toSexp, Sexp.ofNat g'.nodeCount]
      | .err k => .list [.atom "err", .atom k.name]
      | .panic s => .list [.atom "panic", .atom s]
      | .need q => needSexp q
    | _, _, _ => .list [.atom "bad-request"]
  | _ => .list [.atom "bad-request"]

end Driver
