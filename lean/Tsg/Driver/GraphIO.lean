import Tsg.Base.Graph
import Tsg.Out.Json
import Tsg.Out.Pretty

namespace Driver

def attrsOfSexp : Sexp → Option Attrs
  | .list kvs => kvs.mapM fun
    | .list [.str k, v] => (Val.ofSexp v).map fun v => (k, v)
    | _ => none
  | _ => none

def edgesOfSexp : Sexp → Option (List (Nat × Attrs))
  | .list es => es.mapM fun
    | .list [s, a] => do
      let s ← s.nat?
      let a ← attrsOfSexp a
      pure (s, a)
    | _ => none
  | _ => none

/-- `(graph (attrs edges)...)` -/
def graphOfSexp : Sexp → Option CGraph
  | .list (.atom "graph" :: ns) => do
    let nodes ← ns.mapM fun
      | .list [a, es] => do
        let a ← attrsOfSexp a
        let es ← edgesOfSexp es
        pure ({ edges := es, attrs := a } : GNode)
      | _ => none
    pure { nodes := nodes }
  | _ => none

def handleJson : List Sexp → Sexp
  | [g] =>
    match graphOfSexp g with
    | some g => (J.ofGraph g).toSexp
    | none => .list [.atom "bad-request"]
  | _ => .list [.atom "bad-request"]

def handlePretty (t : Tree) : List Sexp → Sexp
  | [g] =>
    match graphOfSexp g with
    | some g => .str (Pretty.pretty t.synShow g)
    | none => .list [.atom "bad-request"]
  | _ => .list [.atom "bad-request"]

end Driver
