/-
  Driver handlers for container operation sequences (property C17) and graph dumps.
-/
import Tsg.Base.Graph
import Tsg.Base.Vars

namespace Driver

def sortAttrs (a : Attrs) : Attrs := a.sorted

def attrsSexp (a : Attrs) : Sexp :=
  .list ((sortAttrs a).map fun (k, v) => .list [.str k, v.toSexp])

def edgesSexp (es : List (Nat × Attrs)) : Sexp :=
  .list (es.map fun (s, a) => .list [Sexp.ofNat s, attrsSexp a])

def graphSexp (g : CGraph) : Sexp :=
  .list (.atom "graph" :: g.nodes.map fun n => .list [attrsSexp n.attrs, edgesSexp n.edges])

def panicS (site : String) : Sexp := .list [.atom "panic", .atom site]

/-- one graph operation: new graph and observation -/
def graphOp (g : CGraph) : Sexp → CGraph × Sexp
  | .list [.atom "add-node"] =>
    let (g', i) := g.addGraphNode
    (g', .list [.atom "node", Sexp.ofNat i])
  | .list [.atom "add-edge", s, t] =>
    match s.nat?, t.nat? with
    | some s, some t =>
      match g.addEdge s t with
      | some (g', true) => (g', .list [.atom "new"])
      | some (g', false) => (g', .list [.atom "existing"])
      | none => (g, panicS "index")
    | _, _ => (g, .atom "bad-op")
  | .list [.atom "get-edge", s, t] =>
    match s.nat?, t.nat? with
    | some s, some t =>
      match g.node? s with
      | none => (g, panicS "index")
      | some n =>
        match n.getEdge t with
        | none => (g, .list [.atom "none"])
        | some a => (g, .list [.atom "some", attrsSexp a])
    | _, _ => (g, .atom "bad-op")
  | .list [.atom "edge-attr-add", s, t, .str k, v] =>
    match s.nat?, t.nat?, Val.ofSexp v with
    | some s, some t, some v =>
      match g.addEdgeAttr s t k v with
      | none => (g, panicS "index")
      | some none => (g, .list [.atom "no-edge"])
      | some (some (g', false)) => (g', .list [.atom "ok"])
      | some (some (g', true)) => (g', .list [.atom "conflict"])
    | _, _, _ => (g, .atom "bad-op")
  | .list [.atom "node-attr-add", n, .str k, v] =>
    match n.nat?, Val.ofSexp v with
    | some n, some v =>
      match g.addNodeAttr n k v with
      | none => (g, panicS "index")
      | some (g', false) => (g', .list [.atom "ok"])
      | some (g', true) => (g', .list [.atom "conflict"])
    | _, _ => (g, .atom "bad-op")
  | .list [.atom "node-attr-get", n, .str k] =>
    match n.nat? with
    | some n =>
      match g.node? n with
      | none => (g, panicS "index")
      | some nd =>
        match nd.attrs.get k with
        | none => (g, .list [.atom "none"])
        | some v => (g, .list [.atom "some", v.toSexp])
    | none => (g, .atom "bad-op")
  | .list [.atom "node-attrs", n] =>
    match n.nat? with
    | some n =>
      match g.node? n with
      | none => (g, panicS "index")
      | some nd => (g, attrsSexp nd.attrs)
    | none => (g, .atom "bad-op")
  | .list [.atom "iter-nodes"] => (g, .list ((List.range g.nodeCount).map Sexp.ofNat))
  | .list [.atom "iter-edges", n] =>
    match n.nat? with
    | some n =>
      match g.node? n with
      | none => (g, panicS "index")
      | some nd => (g, edgesSexp nd.edges)
    | none => (g, .atom "bad-op")
  | .list [.atom "node-count"] => (g, Sexp.ofNat g.nodeCount)
  | .list [.atom "edge-count", n] =>
    match n.nat? with
    | some n =>
      match g.node? n with
      | none => (g, panicS "index")
      | some nd => (g, Sexp.ofNat nd.edgeCount)
    | none => (g, .atom "bad-op")
  | _ => (g, .atom "bad-op")

def runGraphOps (ops : List Sexp) : Sexp :=
  let (g, obs) := ops.foldl (fun (acc : CGraph × Array Sexp) op =>
    let (g', o) := graphOp acc.1 op
    (g', acc.2.push o)) (CGraph.empty, #[])
  .list [.list obs.toList, graphSexp g]

def varsSexp (l : List (String × Val)) : Sexp :=
  .list ((l.mergeSort (fun x y => decide (x.1 ≤ y.1))).map fun (k, v) => .list [.str k, v.toSexp])

/-- operations on a stack of nested `Variables`; level 0 is the innermost set -/
def varsOp (g : GlobalsM) : Sexp → GlobalsM × Sexp
  | .list [.atom "push"] => (g.nested, .list [.atom "ok"])
  | .list [.atom "pop"] =>
    match g with
    | _ :: rest@(_ :: _) => (rest, .list [.atom "ok"])
    | _ => (g, .atom "bad-op")
  | .list [.atom "add", .str k, v] =>
    match Val.ofSexp v with
    | some v =>
      match g.add k v with
      | .ok g' => (g', .list [.atom "ok"])
      | .error _ => (g, .list [.atom "dup"])
    | none => (g, .atom "bad-op")
  | .list [.atom "get-at", lvl, .str k] =>
    match lvl.nat? with
    | some lvl =>
      match GlobalsM.get (g.drop lvl) k with
      | none => (g, .list [.atom "none"])
      | some v => (g, .list [.atom "some", v.toSexp])
    | none => (g, .atom "bad-op")
  | .list [.atom "remove", .str k] => (g.remove k, .list [.atom "ok"])
  | .list [.atom "clear"] => (g.clear, .list [.atom "ok"])
  | .list [.atom "iter-at", lvl] =>
    match lvl.nat? with
    | some lvl => (g, varsSexp (GlobalsM.iter (g.drop lvl)))
    | none => (g, .atom "bad-op")
  | .list [.atom "is-empty-at", lvl] =>
    match lvl.nat? with
    | some lvl => (g, Sexp.ofBool (GlobalsM.isEmpty (g.drop lvl)))
    | none => (g, .atom "bad-op")
  | _ => (g, .atom "bad-op")

def runVarsOps (ops : List Sexp) : Sexp :=
  let (_, obs) := ops.foldl (fun (acc : GlobalsM × Array Sexp) op =>
    let (g', o) := varsOp acc.1 op
    (g', acc.2.push o)) (([[]] : GlobalsM), #[])
  .list obs.toList

end Driver
