/-
  Decoding of oracle tables sent by the harness, and encoding of NEED answers.
-/
import Tsg.Sem.Error
import Std.Data.HashMap

namespace Driver

structure OracleTable where
  rx : Std.HashMap (String × String × Nat) (Option RMatch) := {}
  rp : Std.HashMap (String × String × String) (Option String) := {}

def OracleTable.toOracle (t : OracleTable) : Oracle where
  regexAt := fun p s i => t.rx[(p, s, i)]?
  replaceAll := fun p x r => t.rp[(p, x, r)]?

def groupOfSexp : Sexp → Option (Option String)
  | .list [.atom "none"] => some none
  | .list [.atom "some", .str s] => some (some s)
  | _ => none

def rmatchOfSexp : Sexp → Option (Option RMatch)
  | .list [.atom "none"] => some none
  | .list [.atom "some", a, b, .list gs] => do
    let a ← a.nat?; let b ← b.nat?
    let gs ← gs.mapM groupOfSexp
    pure (some { start := a, stop := b, groups := gs })
  | _ => none

def oracleEntry (t : OracleTable) : Sexp → Option OracleTable
  | .list [.atom "rx", .str p, .str s, i, res] => do
    let i ← i.nat?
    let r ← rmatchOfSexp res
    pure { t with rx := t.rx.insertIfNew (p, s, i) r }
  | .list [.atom "rp", .str p, .str x, .str r, .list [.atom "invalid"]] =>
    some { t with rp := t.rp.insertIfNew (p, x, r) none }
  | .list [.atom "rp", .str p, .str x, .str r, .list [.atom "ok", .str out]] =>
    some { t with rp := t.rp.insertIfNew (p, x, r) (some out) }
  | _ => none

/-- `(oracle entry...)` -/
def oracleOfSexp : Sexp → Option OracleTable
  | .list (.atom "oracle" :: es) => es.foldlM oracleEntry {}
  | _ => none

def needSexp : Need → Sexp
  | .regexAt p s i => .list [.atom "need", .atom "rx", .str p, .str s, Sexp.ofNat i]
  | .replaceAll p t r => .list [.atom "need", .atom "rp", .str p, .str t, .str r]

end Driver
