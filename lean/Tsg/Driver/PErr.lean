import Tsg.Out.ParseErrors

namespace Driver
open ParseErrors

def perrSexp : PErr → Sexp
  | .unexpected id => .list [.atom "unexpected", Sexp.ofNat id]
  | .missing id => .list [.atom "missing", Sexp.ofNat id]

/-- `(perrors)`: all and first parse errors of the current tree -/
def handlePErrors (t : Tree) : Sexp :=
  let rt := ofTree t (t.nodes.size + 1) 0
  .list [.atom "perrors", .list ((findAll rt).map perrSexp),
    match findFirst rt with
    | some e => .list [.atom "some", perrSexp e]
    | none => .list [.atom "none"]]

def optStrSexp : Option String → Sexp
  | some s => .list [.atom "some", .str s]
  | none => .list [.atom "none"]

/-- `(perror-display kind id "path")` -/
def handlePErrorDisplay (t : Tree) : List Sexp → Sexp
  | [.atom kind, id, .str path] =>
    match id.nat? with
    | some id =>
      let e := if kind == "missing" then PErr.missing id else PErr.unexpected id
      .list [.atom "display", optStrSexp (displayPlain t path e), optStrSexp (displayPretty t path e)]
    | none => .list [.atom "bad-request"]
  | _ => .list [.atom "bad-request"]

/-- `(excerpt "path" "source" row colStart colEnd indent)` -/
def handleExcerpt : List Sexp → Sexp
  | [.str path, .str source, row, cs, ce, indent] =>
    match row.nat?, cs.nat?, ce.nat?, indent.nat? with
    | some r, some a, some b, some i => .str (Excerpt.render path source r a b i)
    | _, _, _, _ => .list [.atom "bad-request"]
  | _ => .list [.atom "bad-request"]

end Driver
