/-
  Model of the decision logic of the command-line tool (src/bin/tree-sitter-graph/main.rs:75-154),
  after argument parsing: given the options and what the library computes, what the process does.
  `clap`, the grammar loader and the process plumbing are not modelled.
-/
import Tsg.Base.Sexp

structure CliOpts where
  lazy : Bool
  quiet : Bool
  json : Bool
  allowParseErrors : Bool
  /-- `--output FILE` (clap only accepts it together with `--json`) -/
  output : Bool
  /-- the raw `--global` arguments -/
  globals : List String
  deriving Repr, DecidableEq, Inhabited

/-- what the library computes for the given files in the selected mode -/
structure LibResults where
  loadOk : Bool
  /-- `ParseError::all(&tree)` is non-empty -/
  sourceHasErrors : Bool
  execOk : Bool
  deriving Repr, DecidableEq, Inhabited

inductive CliStdout where
  | nothing | pretty | json
  deriving Repr, DecidableEq, Inhabited

structure CliResult where
  exitZero : Bool
  stdout : CliStdout
  /-- the JSON was written to the `--output` file -/
  outFile : Bool
  deriving Repr, DecidableEq, Inhabited

namespace Cli

/-- `kv.split_once('=')`: the name is everything before the first `=` -/
def globalName (kv : String) : Option String :=
  if kv.toList.contains '=' then some (String.ofList (kv.toList.takeWhile (· ≠ '='))) else none

/-- every `--global` is `name=value` and no name repeats (`Variables::add` fails on a duplicate) -/
def globalsOk : List String → List String → Bool
  | _, [] => true
  | seen, kv :: rest =>
    match globalName kv with
    | none => false
    | some n => if seen.contains n then false else globalsOk (n :: seen) rest

def cliFailure : CliResult := { exitZero := false, stdout := .nothing, outFile := false }

def outcome (o : CliOpts) (r : LibResults) : CliResult :=
  if o.output && !o.json then cliFailure                       -- rejected by clap (`requires("json")`)
  else if !globalsOk [] o.globals then cliFailure
  else if !r.loadOk then cliFailure
  else if !o.allowParseErrors && r.sourceHasErrors then cliFailure
  else if !r.execOk then cliFailure
  else if o.json then
    -- `Graph::display_json`: `path.map_or(stdout().write_all(..), |path| ..)` evaluates its first argument
    -- eagerly, so the JSON goes to stdout in both cases and additionally into the `--output` file
    { exitZero := true, stdout := .json, outFile := o.output }
  else if !o.quiet then { exitZero := true, stdout := .pretty, outFile := false }
  else { exitZero := true, stdout := .nothing, outFile := false }

end Cli
