/-
  Model of the `Serialize` impls in src/graph.rs (Graph, GraphNode, edges, Attributes, Value) as an
  abstract JSON tree, and of a decoder that reads that JSON back.
  JSON text escaping is `serde_json`'s business (oracle); object key order of attribute maps is the
  hash map's iteration order and is never relied upon (the decoder reads objects as association
  lists; the correspondence compares objects with sorted keys).
-/
import Tsg.Base.Graph

inductive J where
  | null
  | bool (b : Bool)
  | num (n : Nat)
  | str (s : String)
  | arr (xs : List J)
  | obj (kvs : List (String × J))
  deriving Repr, Inhabited

namespace J

mutual
/-- `impl Serialize for Value` (graph.rs:585-637): a map with a "type" tag -/
def ofVal : Val → J
  | .null => .obj [("type", .str "null")]
  | .bool b => .obj [("type", .str "bool"), ("bool", .bool b)]
  | .int n => .obj [("type", .str "int"), ("int", .num n)]
  | .str s => .obj [("type", .str "string"), ("string", .str s)]
  | .list vs => .obj [("type", .str "list"), ("values", .arr (ofVals vs))]
  | .set vs => .obj [("type", .str "set"), ("values", .arr (ofVals vs))]
  | .syn id => .obj [("type", .str "syntaxNode"), ("id", .num id)]
  | .gnode ix => .obj [("type", .str "graphNode"), ("id", .num ix)]
def ofVals : List Val → List J
  | [] => []
  | v :: vs => ofVal v :: ofVals vs
end

/-- `impl Serialize for Attributes`: a map name ↦ value -/
def ofAttrs (a : Attrs) : J := .obj (a.map fun (k, v) => (k, ofVal v))

def ofEdge (e : Nat × Attrs) : J := .obj [("sink", .num e.1), ("attrs", ofAttrs e.2)]

/-- `SerializeGraphNode`: `{"id": index, "edges": [...], "attrs": {...}}` -/
def ofNode (i : Nat) (n : GNode) : J :=
  .obj [("id", .num i), ("edges", .arr (n.edges.map ofEdge)), ("attrs", ofAttrs n.attrs)]

def ofNodes : Nat → List GNode → List J
  | _, [] => []
  | i, n :: ns => ofNode i n :: ofNodes (i + 1) ns

/-- `impl Serialize for Graph`: the sequence of nodes in index order -/
def ofGraph (g : CGraph) : J := .arr (ofNodes 0 g.nodes)

/-! ### decoding -/

mutual
def toVal : J → Option Val
  | .obj [("type", .str "null")] => some .null
  | .obj [("type", .str "bool"), ("bool", .bool b)] => some (.bool b)
  | .obj [("type", .str "int"), ("int", .num n)] => some (.int n)
  | .obj [("type", .str "string"), ("string", .str s)] => some (.str s)
  | .obj [("type", .str "list"), ("values", .arr xs)] => (toVals xs).map .list
  | .obj [("type", .str "set"), ("values", .arr xs)] => (toVals xs).map .set
  | .obj [("type", .str "syntaxNode"), ("id", .num id)] => some (.syn id)
  | .obj [("type", .str "graphNode"), ("id", .num ix)] => some (.gnode ix)
  | _ => none
def toVals : List J → Option (List Val)
  | [] => some []
  | x :: xs =>
    match toVal x, toVals xs with
    | some v, some vs => some (v :: vs)
    | _, _ => none
end

def toAttrsList : List (String × J) → Option Attrs
  | [] => some []
  | (k, j) :: rest =>
    match toVal j, toAttrsList rest with
    | some v, some a => some ((k, v) :: a)
    | _, _ => none

def toAttrs : J → Option Attrs
  | .obj kvs => toAttrsList kvs
  | _ => none

def toEdge : J → Option (Nat × Attrs)
  | .obj [("sink", .num s), ("attrs", a)] => (toAttrs a).map fun a => (s, a)
  | _ => none

def toEdges : List J → Option (List (Nat × Attrs))
  | [] => some []
  | x :: xs =>
    match toEdge x, toEdges xs with
    | some e, some es => some (e :: es)
    | _, _ => none

/-- decodes one node; the `id` must be the node's position -/
def toNode (i : Nat) : J → Option GNode
  | .obj [("id", .num id), ("edges", .arr es), ("attrs", a)] =>
    if id = i then
      match toEdges es, toAttrs a with
      | some es, some a => some { edges := es, attrs := a }
      | _, _ => none
    else none
  | _ => none

def toNodes : Nat → List J → Option (List GNode)
  | _, [] => some []
  | i, x :: xs =>
    match toNode i x, toNodes (i + 1) xs with
    | some n, some ns => some (n :: ns)
    | _, _ => none

def toGraph : J → Option CGraph
  | .arr xs => (toNodes 0 xs).map fun ns => { nodes := ns }
  | _ => none

/-! ### wire format (object keys sorted, as `serde_json::Value` keeps them) -/

mutual
partial def toSexp : J → Sexp
  | .null => .atom "jnull"
  | .bool b => .list [.atom "jbool", Sexp.ofBool b]
  | .num n => .list [.atom "jnum", Sexp.ofNat n]
  | .str s => .list [.atom "jstr", .str s]
  | .arr xs => .list (.atom "jarr" :: xs.map toSexp)
  | .obj kvs =>
    let sorted := kvs.mergeSort (fun x y => decide (x.1 ≤ y.1))
    .list (.atom "jobj" :: sorted.map fun (k, v) => .list [.str k, toSexp v])
end

end J
