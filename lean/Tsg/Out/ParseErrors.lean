/-
  Model of `parse_error.rs`: `find_errors` (the tree-cursor walk, lines 173-214) as a machine over a
  zipper, the specification `outermost`, the two `Display`s and `Excerpt`.
-/
import Tsg.Base.Tree

/-- what `find_errors` looks at in a node -/
structure PInfo where
  id : Nat
  isError : Bool
  isMissing : Bool
  deriving Repr, DecidableEq, Inhabited

/-- syntax tree as seen by a `TreeCursor` -/
inductive RTree where
  | node (info : PInfo) (children : List RTree)
  deriving Repr, Inhabited

namespace RTree
def info : RTree → PInfo
  | node i _ => i
def children : RTree → List RTree
  | node _ cs => cs
end RTree

inductive PErr where
  | unexpected (id : Nat)
  | missing (id : Nat)
  deriving Repr, DecidableEq, Inhabited

namespace ParseErrors

/-- `ParseError` for a flagged node (ERROR takes precedence, as in the `if … else if`) -/
def flag (i : PInfo) : Option PErr :=
  if i.isError then some (.unexpected i.id)
  else if i.isMissing then some (.missing i.id)
  else none

mutual
/-- **Specification**: flagged nodes in document (pre-)order that are not inside another reported node -/
def outermost : RTree → List PErr
  | .node i cs =>
    match flag i with
    | some e => [e]
    | none => outermostList cs
def outermostList : List RTree → List PErr
  | [] => []
  | t :: ts => outermost t ++ outermostList ts
end

/-- cursor position: the focused node with its children, and per open ancestor the remaining right
siblings of the node on the path together with the parent -/
structure Cursor where
  focus : RTree
  stack : List (List RTree × RTree)
  deriving Inhabited

mutual
/-- the loop of `find_errors` (all-errors mode); `fuel` bounds the iterations -/
def walkAll : Nat → Cursor → Bool → List PErr → List PErr
  | 0, _, _, acc => acc
  | fuel + 1, c, did, acc =>
    -- `if node.is_error() {..} else if node.is_missing() {..}`
    match flag c.focus.info with
    | some e => moveOn fuel c (acc ++ [e])        -- did_visit_children = true
    | none =>
      if did then moveOn fuel c acc
      else
        match c.focus.children with
        | k :: ks => walkAll fuel { focus := k, stack := (ks, c.focus) :: c.stack } false acc   -- goto_first_child
        | [] => walkAll fuel c true acc
/-- the `did_visit_children` branch: next sibling, else parent, else stop -/
def moveOn : Nat → Cursor → List PErr → List PErr
  | fuel, c, acc =>
    match c.stack with
    | [] => acc
    | (r :: rs, p) :: st => walkAll fuel { focus := r, stack := (rs, p) :: st } false acc
    | ([], p) :: st => walkAll fuel { focus := p, stack := st } true acc
end

mutual
/-- first-error mode: `break` at the first reported node -/
def walkFirst : Nat → Cursor → Bool → Option PErr
  | 0, _, _ => none
  | fuel + 1, c, did =>
    match flag c.focus.info with
    | some e => some e
    | none =>
      if did then moveOnFirst fuel c
      else
        match c.focus.children with
        | k :: ks => walkFirst fuel { focus := k, stack := (ks, c.focus) :: c.stack } false
        | [] => walkFirst fuel c true
def moveOnFirst : Nat → Cursor → Option PErr
  | fuel, c =>
    match c.stack with
    | [] => none
    | (r :: rs, p) :: st => walkFirst fuel { focus := r, stack := (rs, p) :: st } false
    | ([], p) :: st => walkFirst fuel { focus := p, stack := st } true
end

mutual
def size : RTree → Nat
  | .node _ cs => 1 + sizeList cs
def sizeList : List RTree → Nat
  | [] => 0
  | t :: ts => size t + sizeList ts
end

/-- `has_error()` of the root: some flagged node exists (tree-sitter's contract, checked by the harness) -/
def hasError (t : RTree) : Bool := !(outermost t).isEmpty

/-- `find_errors(tree, errors, false)` -/
def findAll (t : RTree) : List PErr :=
  if hasError t then walkAll (2 * size t + 1) { focus := t, stack := [] } false [] else []

/-- `find_errors(tree, errors, true)` followed by `into_iter().next()` -/
def findFirst (t : RTree) : Option PErr :=
  if hasError t then walkFirst (2 * size t + 1) { focus := t, stack := [] } false else none

/-- the rose tree of an exported tree (fuel = node count bounds the depth) -/
def ofTree (t : Tree) : Nat → Nat → RTree
  | 0, i => .node { id := i, isError := false, isMissing := false } []
  | fuel + 1, i =>
    match t.node? i with
    | none => .node { id := i, isError := false, isMissing := false } []
    | some n => .node { id := i, isError := n.isError, isMissing := n.isMissing } (n.children.map (ofTree t fuel))

end ParseErrors

/-! ### Excerpt and the two displays -/

namespace Excerpt

/-- `str::lines()`: split after every `\n`; a line that ended in `\n` also loses a `\r` before it; the
text after the last `\n` is a line only if it is non-empty (and keeps a trailing `\r`) -/
def linesOf (s : String) : List String :=
  let parts := s.splitOn "\n"
  let stripCR := fun (l : String) => if l.endsWith "\r" then (l.dropEnd 1).toString else l
  let body := parts.dropLast.map stripCR
  match parts.getLast? with
  | some "" => body
  | some l => body ++ [l]
  | none => body

def repeatStr (s : String) (n : Nat) : String := String.join (List.replicate n s)

/-- number of decimal digits: `((row + 1) as f64).log10() as usize + 1` -/
def gutterWidth (row : Nat) : Nat := (toString (row + 1)).length

/-- `Excerpt::from_source` + `Display` (parse_error.rs:368-428), without terminal colours -/
def render (path source : String) (row colStart colEnd indent : Nat) : String :=
  let line := (linesOf source)[row]?
  let colEnd := min colEnd (match line with | some l => l.utf8ByteSize | none => 0)
  let header := repeatStr " " indent ++ path ++ ":" ++ toString (row + 1) ++ ":" ++ toString (colStart + 1) ++ ":\n"
  match line with
  | some l =>
    header ++ repeatStr " " indent ++ toString (row + 1) ++ " | " ++ l ++ "\n" ++
      repeatStr " " indent ++ repeatStr " " (gutterWidth row) ++ " | " ++ repeatStr " " colStart ++
      repeatStr "^" (colEnd - colStart) ++ "\n"
  | none => header ++ repeatStr " " indent ++ "<missing source>\n"

end Excerpt

namespace ParseErrors

/-- text of the node up to the first newline -/
def firstLineOf (s : String) : String := String.ofList (s.toList.takeWhile (· ≠ '\n'))

/-- `ParseErrorDisplay` (parse_error.rs:95-128), after the slicing repair -/
def displayPlain (t : Tree) (path : String) (e : PErr) : Option String :=
  let (id, what) := match e with
    | .missing id => (id, "missing syntax")
    | .unexpected id => (id, "unexpected syntax")
  match t.node? id with
  | none => none
  | some n =>
    let head := path ++ ":" ++ toString (n.startRow + 1) ++ ":" ++ toString (n.startCol + 1) ++ ": " ++ what
    if n.startByte = n.endByte then some (head ++ "\n")
    else
      match Tree.sliceBytes t.source n.startByte n.endByte with
      | none => none
      | some txt => some (head ++ ": " ++ firstLineOf txt)

/-- `ParseErrorDisplayPretty` (parse_error.rs:136-171) -/
def displayPretty (t : Tree) (path : String) (e : PErr) : Option String :=
  let (id, what) := match e with
    | .missing id => (id, "missing syntax")
    | .unexpected id => (id, "unexpected syntax")
  match t.node? id with
  | none => none
  | some n =>
    if n.startByte = n.endByte then some (what ++ "\n\n")
    else
      match Tree.sliceBytes t.source n.startByte n.endByte with
      | none => none
      | some txt =>
        let endCol := n.startCol + (firstLineOf txt).length
        some (what ++ "\n" ++ Excerpt.render path t.source n.startRow n.startCol endCol 0)

end ParseErrors
