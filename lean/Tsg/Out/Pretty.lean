/-
  Model of `Graph::pretty_print` (graph.rs:75-93) and `Display for Attributes` (graph.rs:309-319).
-/
import Tsg.Base.Graph
import Tsg.Base.Tree

namespace Pretty

def attrLine (syn : Nat → String) (kv : String × Val) : String :=
  "  " ++ kv.1 ++ ": " ++ Val.debug syn kv.2 ++ "\n"

/-- `Display for Attributes`: one line per attribute, names ascending -/
def attrLines (syn : Nat → String) (a : Attrs) : List String := a.sorted.map (attrLine syn)

def edgeBlock (syn : Nat → String) (src : Nat) (e : Nat × Attrs) : List String :=
  ("edge " ++ toString src ++ " -> " ++ toString e.1 ++ "\n") :: attrLines syn e.2

def nodeBlock (syn : Nat → String) (i : Nat) (n : GNode) : List String :=
  ("node " ++ toString i ++ "\n") :: attrLines syn n.attrs ++ n.edges.flatMap (edgeBlock syn i)

def nodeBlocks (syn : Nat → String) : Nat → List GNode → List String
  | _, [] => []
  | i, n :: ns => nodeBlock syn i n ++ nodeBlocks syn (i + 1) ns

/-- the lines of the pretty-printed graph -/
def lines (syn : Nat → String) (g : CGraph) : List String := nodeBlocks syn 0 g.nodes

def pretty (syn : Nat → String) (g : CGraph) : String := String.join (lines syn g)

end Pretty
