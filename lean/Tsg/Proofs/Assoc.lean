/-
  Association-list lemmas used by the scoped-variable stores.
-/
namespace Assoc
variable {κ β : Type} [DecidableEq κ]

theorem lookup_append_single (l : List (κ × β)) (k k2 : κ) (v : β) :
    (l ++ [(k, v)]).lookup k2 = (l.lookup k2).or (if k2 = k then some v else none) := by
  rw [List.lookup_append]
  congr 1
  by_cases h : k2 = k
  · subst h; simp [List.lookup_cons]
  · have : (k2 == k) = false := by simp [h]
    simp [List.lookup_cons, this, h]

theorem lookup_mapReplace (l : List (κ × β)) (k k2 : κ) (v : β) :
    (l.map fun e => if e.1 = k then (k, v) else e).lookup k2 =
      if k2 = k then (l.lookup k).map (fun _ => v) else l.lookup k2 := by
  induction l with
  | nil => simp
  | cons p rest ih =>
    obtain ⟨a, b⟩ := p
    by_cases hak : a = k
    · subst hak
      by_cases hk2 : k2 = a
      · subst hk2; simp [List.lookup_cons]
      · have : (k2 == a) = false := by simp [hk2]
        simp [List.lookup_cons, this, hk2, ih]
    · by_cases hk2 : k2 = k
      · subst hk2
        have h1 : (k2 == a) = false := by simp [Ne.symm hak]
        simp [List.lookup_cons, hak, h1, ih]
      · simp only [List.map_cons, hak, if_false, List.lookup_cons, hk2]
        cases (k2 == a) <;> simp [ih, hk2]

end Assoc
