/-
  Facts about the checker model: the variable environment (`VariableMap`), locality, used captures,
  block discipline.
-/
import Tsg.Syntax.Checker

namespace Checker

/-! ### the variable environment -/

def keys (sc : Scope) : List String := sc.map (·.1)
/-- which names each open scope declares -/
def shape (sc : Scopes) : List (List String) := sc.map keys

theorem lookup_isSome_iff_mem_keys (sc : Scope) (name : String) : (sc.lookup name).isSome ↔ name ∈ keys sc := by
  induction sc with
  | nil => simp [keys]
  | cons p sc ih =>
    obtain ⟨k, v⟩ := p
    simp only [List.lookup, keys, List.map_cons, List.mem_cons]
    by_cases h : name = k
    · subst h; simp
    · have : (name == k) = false := by simpa using h
      simp only [this]
      simp only [keys] at ih
      rw [ih]; simp [h]

/-- `add` fails exactly when the innermost scope already has the name; outer scopes do not matter -/
theorem scopesAdd_error_iff (sc : Scope) (rest : Scopes) (name : String) (v : VRes) (m : Bool) :
    (∃ e, scopesAdd (sc :: rest) name v m = .error e) ↔ name ∈ keys sc := by
  rw [← lookup_isSome_iff_mem_keys]
  simp only [scopesAdd]
  cases sc.lookup name <;> simp

theorem scopesAdd_error_kind (scs : Scopes) (name : String) (v : VRes) (m : Bool) (e : VarErrK) (hne : scs ≠ [])
    (h : scopesAdd scs name v m = .error e) : e = .alreadyDefined := by
  cases scs with
  | nil => exact absurd rfl hne
  | cons sc rest =>
    simp only [scopesAdd] at h
    cases hl : sc.lookup name <;> simp [hl] at h
    exact h.symm

/-- after a successful `add` the name resolves to the new value (shadowing any outer binding) -/
theorem scopesGet_add (scs scs' : Scopes) (name : String) (v : VRes) (m : Bool)
    (h : scopesAdd scs name v m = .ok scs') : scopesGet scs' name = some v := by
  cases scs with
  | nil => simp [scopesAdd] at h
  | cons sc rest =>
    simp only [scopesAdd] at h
    cases hl : sc.lookup name <;> simp [hl] at h
    subst h
    simp [scopesGet, List.lookup]

/-- … and every other name resolves as before -/
theorem scopesGet_add_other (scs scs' : Scopes) (name other : String) (v : VRes) (m : Bool)
    (h : scopesAdd scs name v m = .ok scs') (hne : other ≠ name) : scopesGet scs' other = scopesGet scs other := by
  cases scs with
  | nil => simp [scopesAdd] at h
  | cons sc rest =>
    simp only [scopesAdd] at h
    cases hl : sc.lookup name <;> simp [hl] at h
    subst h
    have : (other == name) = false := by simpa using hne
    simp [scopesGet, List.lookup, this]

theorem shape_add (scs scs' : Scopes) (name : String) (v : VRes) (m : Bool)
    (h : scopesAdd scs name v m = .ok scs') :
    ∃ sc rest, scs = sc :: rest ∧ shape scs' = (name :: keys sc) :: shape rest := by
  cases scs with
  | nil => simp [scopesAdd] at h
  | cons sc rest =>
    simp only [scopesAdd] at h
    cases hl : sc.lookup name <;> simp [hl] at h
    subst h
    exact ⟨sc, rest, rfl, by simp [shape, keys]⟩

theorem keys_scopeReplace (sc : Scope) (name : String) (v : CVar) : keys (scopeReplace sc name v) = keys sc := by
  induction sc with
  | nil => rfl
  | cons p sc ih =>
    obtain ⟨k, old⟩ := p
    simp only [scopeReplace, List.map_cons, keys] at *
    split <;> simp [ih]

/-- `set` never changes which names are declared where -/
theorem shape_set (scs scs' : Scopes) (name : String) (v : VRes) (h : scopesSet scs name v = .ok scs') :
    shape scs' = shape scs := by
  induction scs generalizing scs' with
  | nil => simp [scopesSet] at h
  | cons sc rest ih =>
    simp only [scopesSet] at h
    cases hl : sc.lookup name with
    | some old =>
      simp only [hl] at h
      split at h
      · simp only [Except.ok.injEq] at h; subst h
        simp [shape, keys_scopeReplace]
      · simp at h
    | none =>
      simp only [hl] at h
      cases hr : scopesSet rest name v with
      | ok rest' =>
        simp only [hr, Except.ok.injEq] at h; subst h
        simp only [shape, List.map_cons] at *
        rw [ih rest' hr]
      | error e => simp [hr] at h

/-- the nearest declaration of a name: its mutability flag -/
def nearestMutable : Scopes → String → Option Bool
  | [], _ => none
  | sc :: rest, name =>
    match sc.lookup name with
    | some v => some v.mutable
    | none => nearestMutable rest name

/-- **`set` is decided by the nearest declaration**: undeclared → UndefinedVariable, immutable →
    CannotAssignImmutableVariable, mutable → success -/
theorem scopesSet_outcome (scs : Scopes) (name : String) (v : VRes) :
    match nearestMutable scs name with
    | none => scopesSet scs name v = .error .undefined
    | some false => scopesSet scs name v = .error .cannotAssignImmutable
    | some true => ∃ scs', scopesSet scs name v = .ok scs' := by
  induction scs with
  | nil => simp [nearestMutable, scopesSet]
  | cons sc rest ih =>
    simp only [nearestMutable, scopesSet]
    cases hl : sc.lookup name with
    | some old =>
      simp only
      cases hm : old.mutable <;> simp [hm]
    | none =>
      simp only
      cases hn : nearestMutable rest name with
      | none => simp only [hn] at ih; simp [ih]
      | some b =>
        cases b with
        | false => simp only [hn] at ih; simp [ih]
        | true =>
          simp only [hn] at ih
          obtain ⟨r', hr⟩ := ih
          exact ⟨sc :: r', by simp [hr]⟩

theorem lookup_scopeReplace_same (sc : Scope) (name : String) (v : CVar) (h : (sc.lookup name).isSome) :
    (scopeReplace sc name v).lookup name = some v := by
  induction sc with
  | nil => simp at h
  | cons p sc ih =>
    obtain ⟨k, old⟩ := p
    simp only [scopeReplace, List.map_cons]
    by_cases hk : k = name
    · subst hk; simp [List.lookup]
    · have h1 : (name == k) = false := by simpa using (Ne.symm hk)
      simp only [hk, if_false, List.lookup, h1]
      simp only [List.lookup, h1] at h
      exact ih h

/-- after a successful `set` the name resolves to the new value -/
theorem scopesGet_set (scs scs' : Scopes) (name : String) (v : VRes) (h : scopesSet scs name v = .ok scs') :
    scopesGet scs' name = some v := by
  induction scs generalizing scs' with
  | nil => simp [scopesSet] at h
  | cons sc rest ih =>
    simp only [scopesSet] at h
    cases hl : sc.lookup name with
    | some old =>
      simp only [hl] at h
      split at h
      · simp only [Except.ok.injEq] at h; subst h
        simp [scopesGet, lookup_scopeReplace_same sc name _ (by simp [hl])]
      · simp at h
    | none =>
      simp only [hl] at h
      cases hr : scopesSet rest name v with
      | ok rest' =>
        simp only [hr, Except.ok.injEq] at h; subst h
        simp [scopesGet, hl, ih rest' hr]
      | error e => simp [hr] at h

/-! ### locality -/

/-- the recorded locality of a name: globals first, then the nearest local declaration -/
def locEnv (c : CCtx) (sc : Scopes) (name : String) : Option Bool :=
  match c.globals.lookup name with
  | some v => some v.isLocal
  | none => (scopesGet sc name).map (·.isLocal)

mutual
/-- SPECIFICATION of non-locality: the expression mentions, in a position that contributes to its value, a scoped
variable or a variable recorded as non-local. Comprehension variables are local inside the element expression (their
source is required to be local). -/
def taints (ρ : String → Option Bool) : Expr → Bool
  | .falseLit | .nullLit | .trueLit | .int _ | .str _ | .regexCap _ | .capture _ _ _ _ _ => false
  | .var name _ => ρ name == some false
  | .scopedVar _ _ _ => true
  | .list es => taintsL ρ es
  | .set es => taintsL ρ es
  | .call _ es => taintsL ρ es
  | .listComp elem v _ _ _ => taints (fun n => if n = v then some true else ρ n) elem
  | .setComp elem v _ _ _ => taints (fun n => if n = v then some true else ρ n) elem
def taintsL (ρ : String → Option Bool) : List Expr → Bool
  | [] => false
  | e :: es => taints ρ e || taintsL ρ es
end

theorem unscopedGet_ok (c : CCtx) (sc : Scopes) (name : String) (l : Loc) (r : ERes)
    (h : unscopedGet c sc name l = .ok r) : locEnv c sc name = some r.isLocal ∧ r.used = [] := by
  simp only [unscopedGet] at h
  simp only [locEnv]
  cases hg : c.globals.lookup name with
  | some v => simp only [hg, Except.ok.injEq] at h; subst h; simp
  | none =>
    simp only [hg] at h
    cases hs : scopesGet sc name with
    | some v => simp only [hs, Except.ok.injEq] at h; subst h; simp
    | none => simp [hs, errC] at h

/-- environment seen by the element of a comprehension -/
theorem locEnv_comp (c : CCtx) (sc sc' : Scopes) (v : String) (vl : Loc) (rv : VRes) (hloc : rv.isLocal = true)
    (h : unscopedAdd c ([] :: sc) v vl rv false = .ok sc') :
    locEnv c sc' = fun n => if n = v then some true else locEnv c sc n := by
  simp only [unscopedAdd] at h
  split at h
  · simp [errC] at h
  · next hg =>
    simp only [Bool.false_eq_true, if_false] at h
    cases ha : scopesAdd ([] :: sc) v rv false with
    | error e => simp [ha, errC] at h
    | ok s2 =>
      simp only [ha, Except.ok.injEq] at h; subst h
      funext n
      have hgn : c.globals.lookup v = none := by
        cases hx : c.globals.lookup v with
        | none => rfl
        | some _ => simp [hx] at hg
      by_cases hn : n = v
      · subst hn
        simp [locEnv, hgn, scopesGet_add _ _ _ _ _ ha, hloc]
      · simp only [hn, if_false, locEnv]
        rw [scopesGet_add_other _ _ _ _ _ _ ha hn]
        simp [scopesGet]

mutual
/-- **locality = absence of taint**, for every expression form -/
theorem checkExpr_local (c : CCtx) (sc : Scopes) (e e' : Expr) (r : ERes) (h : checkExpr c sc e = .ok (e', r)) :
    r.isLocal = !taints (locEnv c sc) e := by
  cases e with
  | falseLit => simp [checkExpr] at h; obtain ⟨_, rfl⟩ := h; simp [taints]
  | nullLit => simp [checkExpr] at h; obtain ⟨_, rfl⟩ := h; simp [taints]
  | trueLit => simp [checkExpr] at h; obtain ⟨_, rfl⟩ := h; simp [taints]
  | int n => simp [checkExpr] at h; obtain ⟨_, rfl⟩ := h; simp [taints]
  | str s => simp [checkExpr] at h; obtain ⟨_, rfl⟩ := h; simp [taints]
  | regexCap i => simp [checkExpr] at h; obtain ⟨_, rfl⟩ := h; simp [taints]
  | list es =>
    simp only [checkExpr] at h
    cases hx : checkExprs c sc es with
    | error err => simp [hx] at h
    | ok p =>
      obtain ⟨es', loc, used⟩ := p
      simp only [hx, Except.ok.injEq, Prod.mk.injEq] at h
      obtain ⟨_, rfl⟩ := h
      simp [taints, checkExprs_local c sc es es' loc used hx]
  | set es =>
    simp only [checkExpr] at h
    cases hx : checkExprs c sc es with
    | error err => simp [hx] at h
    | ok p =>
      obtain ⟨es', loc, used⟩ := p
      simp only [hx, Except.ok.injEq, Prod.mk.injEq] at h
      obtain ⟨_, rfl⟩ := h
      simp [taints, checkExprs_local c sc es es' loc used hx]
  | call f es =>
    simp only [checkExpr] at h
    cases hx : checkExprs c sc es with
    | error err => simp [hx] at h
    | ok p =>
      obtain ⟨es', loc, used⟩ := p
      simp only [hx, Except.ok.injEq, Prod.mk.injEq] at h
      obtain ⟨_, rfl⟩ := h
      simp [taints, checkExprs_local c sc es es' loc used hx]
  | listComp elem v vl value l =>
    simp only [checkExpr] at h
    cases hv : checkExpr c sc value with
    | error err => simp [hv] at h
    | ok p =>
      obtain ⟨value', rv⟩ := p
      simp only [hv] at h
      split at h
      · simp [errC] at h
      · next hloc =>
        split at h
        · simp [errC] at h
        · cases ha : unscopedAdd c ([] :: sc) v vl rv.toV false with
          | error err => simp [ha] at h
          | ok sc' =>
            simp only [ha] at h
            cases he : checkExpr c sc' elem with
            | error err => simp [he] at h
            | ok q =>
              obtain ⟨elem', re⟩ := q
              simp only [he, Except.ok.injEq, Prod.mk.injEq] at h
              obtain ⟨_, rfl⟩ := h
              have := checkExpr_local c sc' elem elem' re he
              rw [locEnv_comp c sc sc' v vl rv.toV (by simpa [ERes.toV] using hloc) ha] at this
              simpa [taints] using this
  | setComp elem v vl value l =>
    simp only [checkExpr] at h
    cases hv : checkExpr c sc value with
    | error err => simp [hv] at h
    | ok p =>
      obtain ⟨value', rv⟩ := p
      simp only [hv] at h
      split at h
      · simp [errC] at h
      · next hloc =>
        split at h
        · simp [errC] at h
        · cases ha : unscopedAdd c ([] :: sc) v vl rv.toV false with
          | error err => simp [ha] at h
          | ok sc' =>
            simp only [ha] at h
            cases he : checkExpr c sc' elem with
            | error err => simp [he] at h
            | ok q =>
              obtain ⟨elem', re⟩ := q
              simp only [he, Except.ok.injEq, Prod.mk.injEq] at h
              obtain ⟨_, rfl⟩ := h
              have := checkExpr_local c sc' elem elem' re he
              rw [locEnv_comp c sc sc' v vl rv.toV (by simpa [ERes.toV] using hloc) ha] at this
              simpa [taints] using this
  | capture name q fi si l =>
    simp only [checkExpr] at h
    split at h
    · simp [errC] at h
    · split at h
      · simp at h
      · simp only [Except.ok.injEq, Prod.mk.injEq] at h
        obtain ⟨_, rfl⟩ := h
        simp [taints]
  | var name l =>
    simp only [checkExpr] at h
    cases hg : unscopedGet c sc name l with
    | error err => simp [hg] at h
    | ok r0 =>
      simp only [hg, Except.ok.injEq, Prod.mk.injEq] at h
      obtain ⟨_, rfl⟩ := h
      obtain ⟨h1, _⟩ := unscopedGet_ok c sc name l r0 hg
      simp only [taints, h1]
      cases r0.isLocal <;> simp
  | scopedVar scope name l =>
    simp only [checkExpr] at h
    cases hx : checkExpr c sc scope with
    | error err => simp [hx] at h
    | ok p =>
      simp only [hx, Except.ok.injEq, Prod.mk.injEq] at h
      obtain ⟨_, rfl⟩ := h
      simp [taints]

theorem checkExprs_local (c : CCtx) (sc : Scopes) (es es' : List Expr) (loc : Bool) (used : List String)
    (h : checkExprs c sc es = .ok (es', loc, used)) : loc = !taintsL (locEnv c sc) es := by
  cases es with
  | nil => simp [checkExprs] at h; obtain ⟨_, rfl, _⟩ := h; simp [taintsL]
  | cons e es =>
    simp only [checkExprs] at h
    cases he : checkExpr c sc e with
    | error err => simp [he] at h
    | ok p =>
      obtain ⟨e', r⟩ := p
      simp only [he] at h
      cases hes : checkExprs c sc es with
      | error err => simp [hes] at h
      | ok q =>
        obtain ⟨es2, loc2, used2⟩ := q
        simp only [hes, Except.ok.injEq, Prod.mk.injEq] at h
        obtain ⟨_, rfl, _⟩ := h
        rw [checkExpr_local c sc e e' r he, checkExprs_local c sc es es2 loc2 used2 hes]
        simp [taintsL]
end

end Checker
