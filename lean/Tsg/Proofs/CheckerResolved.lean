/-
  What the checker guarantees about the captures of the statements it returns: every capture expression names a
  capture of the stanza's own query (the interpreters' `capture:unresolved` site is unreachable on checked stanzas).
-/
import Tsg.Proofs.CheckerStmt
import Tsg.Proofs.StrictSafeInterp

namespace Checker
open StrictSafe

def Res (caps : List (String × Quant)) (names : List String) : Prop := ∀ n ∈ names, (caps.lookup n).isSome

theorem Res.nil (caps : List (String × Quant)) : Res caps [] := fun _ h => by cases h
theorem Res.append {caps : List (String × Quant)} {a b : List String} (ha : Res caps a) (hb : Res caps b) : Res caps (a ++ b) := by
  intro n hn
  rcases List.mem_append.mp hn with h | h
  · exact ha n h
  · exact hb n h

theorem lookup_of_findIdx? (caps : List (String × Quant)) (name : String) (i : Nat)
    (h : caps.findIdx? (·.1 = name) = some i) : (caps.lookup name).isSome := by
  induction caps generalizing i with
  | nil => simp at h
  | cons p rest ih =>
    obtain ⟨k, q⟩ := p
    simp only [List.lookup]
    by_cases hk : name = k
    · subst hk; simp
    · have : (name == k) = false := by simp [hk]
      rw [this]
      simp only [List.findIdx?_cons] at h
      have hk' : ¬ (k = name) := fun e => hk e.symm
      simp only [hk', decide_false, Bool.false_eq_true, if_false] at h
      cases hr : rest.findIdx? (·.1 = name) with
      | none => simp [hr] at h
      | some j => exact ih j hr

mutual
theorem checkExpr_resolved (c : CCtx) (sc : Scopes) (e e' : Expr) (r : ERes) (h : checkExpr c sc e = .ok (e', r)) :
    Res c.stanzaCaps (exprCaps e') := by
  cases e with
  | falseLit => simp [checkExpr] at h; obtain ⟨rfl, _⟩ := h; simp [exprCaps, Res.nil]
  | nullLit => simp [checkExpr] at h; obtain ⟨rfl, _⟩ := h; simp [exprCaps, Res.nil]
  | trueLit => simp [checkExpr] at h; obtain ⟨rfl, _⟩ := h; simp [exprCaps, Res.nil]
  | int n => simp [checkExpr] at h; obtain ⟨rfl, _⟩ := h; simp [exprCaps, Res.nil]
  | str s => simp [checkExpr] at h; obtain ⟨rfl, _⟩ := h; simp [exprCaps, Res.nil]
  | regexCap i => simp [checkExpr] at h; obtain ⟨rfl, _⟩ := h; simp [exprCaps, Res.nil]
  | list es =>
    simp only [checkExpr] at h
    cases hx : checkExprs c sc es with
    | error err => simp [hx] at h
    | ok p =>
      obtain ⟨es', loc, used⟩ := p
      simp only [hx, Except.ok.injEq, Prod.mk.injEq] at h
      obtain ⟨rfl, _⟩ := h
      simpa [exprCaps] using checkExprs_resolved c sc es es' loc used hx
  | set es =>
    simp only [checkExpr] at h
    cases hx : checkExprs c sc es with
    | error err => simp [hx] at h
    | ok p =>
      obtain ⟨es', loc, used⟩ := p
      simp only [hx, Except.ok.injEq, Prod.mk.injEq] at h
      obtain ⟨rfl, _⟩ := h
      simpa [exprCaps] using checkExprs_resolved c sc es es' loc used hx
  | call f es =>
    simp only [checkExpr] at h
    cases hx : checkExprs c sc es with
    | error err => simp [hx] at h
    | ok p =>
      obtain ⟨es', loc, used⟩ := p
      simp only [hx, Except.ok.injEq, Prod.mk.injEq] at h
      obtain ⟨rfl, _⟩ := h
      simpa [exprCaps] using checkExprs_resolved c sc es es' loc used hx
  | listComp elem v vl value l =>
    simp only [checkExpr] at h
    cases hv : checkExpr c sc value with
    | error err => simp [hv] at h
    | ok p =>
      obtain ⟨value', rv⟩ := p
      simp only [hv] at h
      split at h
      · simp [errC] at h
      · split at h
        · simp [errC] at h
        · cases ha : unscopedAdd c ([] :: sc) v vl rv.toV false with
          | error err => simp [ha] at h
          | ok sc' =>
            simp only [ha] at h
            cases he : checkExpr c sc' elem with
            | error err => simp [he] at h
            | ok q =>
              obtain ⟨elem', re⟩ := q
              simp only [he, Except.ok.injEq, Prod.mk.injEq] at h
              obtain ⟨rfl, _⟩ := h
              simp only [exprCaps]
              exact (checkExpr_resolved c sc' elem elem' re he).append (checkExpr_resolved c sc value value' rv hv)
  | setComp elem v vl value l =>
    simp only [checkExpr] at h
    cases hv : checkExpr c sc value with
    | error err => simp [hv] at h
    | ok p =>
      obtain ⟨value', rv⟩ := p
      simp only [hv] at h
      split at h
      · simp [errC] at h
      · split at h
        · simp [errC] at h
        · cases ha : unscopedAdd c ([] :: sc) v vl rv.toV false with
          | error err => simp [ha] at h
          | ok sc' =>
            simp only [ha] at h
            cases he : checkExpr c sc' elem with
            | error err => simp [he] at h
            | ok q =>
              obtain ⟨elem', re⟩ := q
              simp only [he, Except.ok.injEq, Prod.mk.injEq] at h
              obtain ⟨rfl, _⟩ := h
              simp only [exprCaps]
              exact (checkExpr_resolved c sc' elem elem' re he).append (checkExpr_resolved c sc value value' rv hv)
  | capture name q fi si l =>
    simp only [checkExpr] at h
    split at h
    · simp [errC] at h
    · rename_i six hsix
      split at h
      · simp at h
      · simp only [Except.ok.injEq, Prod.mk.injEq] at h
        obtain ⟨rfl, _⟩ := h
        intro n hn
        simp only [exprCaps] at hn
        split at hn
        · cases hn
        · simp at hn; subst hn; exact lookup_of_findIdx? _ _ _ hsix
  | var name l =>
    simp only [checkExpr] at h
    cases hg : unscopedGet c sc name l with
    | error err => simp [hg] at h
    | ok r0 =>
      simp only [hg, Except.ok.injEq, Prod.mk.injEq] at h
      obtain ⟨rfl, _⟩ := h
      simp [exprCaps, Res.nil]
  | scopedVar scope name l =>
    simp only [checkExpr] at h
    cases hx : checkExpr c sc scope with
    | error err => simp [hx] at h
    | ok p =>
      obtain ⟨scope', r0⟩ := p
      simp only [hx, Except.ok.injEq, Prod.mk.injEq] at h
      obtain ⟨rfl, _⟩ := h
      simpa [exprCaps] using checkExpr_resolved c sc scope scope' r0 hx

theorem checkExprs_resolved (c : CCtx) (sc : Scopes) (es es' : List Expr) (loc : Bool) (used : List String)
    (h : checkExprs c sc es = .ok (es', loc, used)) : Res c.stanzaCaps (exprsCaps es') := by
  cases es with
  | nil => simp [checkExprs] at h; obtain ⟨rfl, _, _⟩ := h; simp [exprsCaps, Res.nil]
  | cons e es =>
    simp only [checkExprs] at h
    cases he : checkExpr c sc e with
    | error err => simp [he] at h
    | ok p =>
      obtain ⟨e', r⟩ := p
      simp only [he] at h
      cases hes : checkExprs c sc es with
      | error err => simp [hes] at h
      | ok q =>
        obtain ⟨es2, loc2, used2⟩ := q
        simp only [hes, Except.ok.injEq, Prod.mk.injEq] at h
        obtain ⟨rfl, _, _⟩ := h
        simp only [exprsCaps]
        exact (checkExpr_resolved c sc e e' r he).append (checkExprs_resolved c sc es es2 loc2 used2 hes)
end


theorem varAdd_resolved (c : CCtx) (sc sc' : Scopes) (v v' : Var) (val : VRes) (m : Bool) (u : List String)
    (h : varAdd c sc v val m = .ok (v', sc', u)) : Res c.stanzaCaps (varCaps v') := by
  cases v with
  | unscoped name l =>
    simp only [varAdd] at h
    cases ha : unscopedAdd c sc name l val m with
    | error e => simp [ha] at h
    | ok sc1 => simp only [ha, Except.ok.injEq, Prod.mk.injEq] at h; obtain ⟨rfl, _, _⟩ := h; simp [varCaps, Res.nil]
  | scopedV scope name l =>
    simp only [varAdd] at h
    cases hx : checkExpr c sc scope with
    | error e => simp [hx] at h
    | ok p =>
      obtain ⟨scope', r⟩ := p
      simp only [hx, Except.ok.injEq, Prod.mk.injEq] at h
      obtain ⟨rfl, _, _⟩ := h
      simpa [varCaps] using checkExpr_resolved c sc scope scope' r hx

theorem varSet_resolved (c : CCtx) (sc sc' : Scopes) (v v' : Var) (val : VRes) (u : List String)
    (h : varSet c sc v val = .ok (v', sc', u)) : Res c.stanzaCaps (varCaps v') := by
  cases v with
  | unscoped name l =>
    simp only [varSet] at h
    cases ha : unscopedSet c sc name l val with
    | error e => simp [ha] at h
    | ok sc1 => simp only [ha, Except.ok.injEq, Prod.mk.injEq] at h; obtain ⟨rfl, _, _⟩ := h; simp [varCaps, Res.nil]
  | scopedV scope name l =>
    simp only [varSet] at h
    cases hx : checkExpr c sc scope with
    | error e => simp [hx] at h
    | ok p =>
      obtain ⟨scope', r⟩ := p
      simp only [hx, Except.ok.injEq, Prod.mk.injEq] at h
      obtain ⟨rfl, _, _⟩ := h
      simpa [varCaps] using checkExpr_resolved c sc scope scope' r hx

theorem checkAttrs_resolved (c : CCtx) (sc : Scopes) : ∀ (as as' : List AttrE) (u : List String),
    checkAttrs c sc as = .ok (as', u) → Res c.stanzaCaps (attrsCaps as')
  | [], as', u, h => by simp [checkAttrs] at h; obtain ⟨rfl, _⟩ := h; simp [attrsCaps, Res.nil]
  | (name, e) :: rest, as', u, h => by
    simp only [checkAttrs] at h
    cases he : checkExpr c sc e with
    | error err => simp [he] at h
    | ok p =>
      obtain ⟨e', r⟩ := p
      simp only [he] at h
      cases hr : checkAttrs c sc rest with
      | error err => simp [hr] at h
      | ok q =>
        obtain ⟨rest', used⟩ := q
        simp only [hr, Except.ok.injEq, Prod.mk.injEq] at h
        obtain ⟨rfl, _⟩ := h
        simp only [attrsCaps]
        exact (checkExpr_resolved c sc e e' r he).append (checkAttrs_resolved c sc rest rest' used hr)

theorem checkCond_resolved (c : CCtx) (sc : Scopes) (cd cd' : Cond) (u : List String)
    (h : checkCond c sc cd = .ok (cd', u)) : Res c.stanzaCaps (condCaps cd') := by
  cases cd with
  | some e l =>
    simp only [checkCond] at h
    cases he : checkExpr c sc e with
    | error err => simp [he] at h
    | ok p =>
      obtain ⟨e', r⟩ := p
      simp only [he] at h
      split at h
      · simp [errC] at h
      · split at h
        · simp [errC] at h
        · simp only [Except.ok.injEq, Prod.mk.injEq] at h
          obtain ⟨rfl, _⟩ := h
          simpa [condCaps] using checkExpr_resolved c sc e e' r he
  | none e l =>
    simp only [checkCond] at h
    cases he : checkExpr c sc e with
    | error err => simp [he] at h
    | ok p =>
      obtain ⟨e', r⟩ := p
      simp only [he] at h
      split at h
      · simp [errC] at h
      · split at h
        · simp [errC] at h
        · simp only [Except.ok.injEq, Prod.mk.injEq] at h
          obtain ⟨rfl, _⟩ := h
          simpa [condCaps] using checkExpr_resolved c sc e e' r he
  | bool e l =>
    simp only [checkCond] at h
    cases he : checkExpr c sc e with
    | error err => simp [he] at h
    | ok p =>
      obtain ⟨e', r⟩ := p
      simp only [he] at h
      split at h
      · simp [errC] at h
      · simp only [Except.ok.injEq, Prod.mk.injEq] at h
        obtain ⟨rfl, _⟩ := h
        simpa [condCaps] using checkExpr_resolved c sc e e' r he

theorem checkConds_resolved (c : CCtx) (sc : Scopes) : ∀ (cds cds' : List Cond) (u : List String),
    checkConds c sc cds = .ok (cds', u) → Res c.stanzaCaps (condsCaps cds')
  | [], cds', u, h => by simp [checkConds] at h; obtain ⟨rfl, _⟩ := h; simp [condsCaps, Res.nil]
  | cd :: rest, cds', u, h => by
    simp only [checkConds] at h
    cases hc : checkCond c sc cd with
    | error err => simp [hc] at h
    | ok p =>
      obtain ⟨cd', u1⟩ := p
      simp only [hc] at h
      cases hr : checkConds c sc rest with
      | error err => simp [hr] at h
      | ok q =>
        obtain ⟨rest', used⟩ := q
        simp only [hr, Except.ok.injEq, Prod.mk.injEq] at h
        obtain ⟨rfl, _⟩ := h
        simp only [condsCaps]
        exact (checkCond_resolved c sc cd cd' u1 hc).append (checkConds_resolved c sc rest rest' used hr)


mutual
theorem checkStmt_resolved (c : CCtx) (sc sc' : Scopes) (st st' : Stmt) (u : List String)
    (h : checkStmt c sc st = .ok (st', sc', u)) : Res c.stanzaCaps (stmtCaps st') := by
  cases st with
  | declImm v e l =>
    simp only [checkStmt] at h
    cases he : checkExpr c sc e with
    | error err => simp [he] at h
    | ok p =>
      obtain ⟨e', r⟩ := p
      simp only [he] at h
      cases hv : varAdd c sc v r.toV false with
      | error err => simp [hv] at h
      | ok q =>
        obtain ⟨v', sc1, u1⟩ := q
        simp only [hv, Except.ok.injEq, Prod.mk.injEq] at h
        obtain ⟨rfl, _, _⟩ := h
        simp only [stmtCaps]
        exact (checkExpr_resolved c sc e e' r he).append (varAdd_resolved c sc sc1 v v' _ _ u1 hv)
  | declMut v e l =>
    simp only [checkStmt] at h
    cases he : checkExpr c sc e with
    | error err => simp [he] at h
    | ok p =>
      obtain ⟨e', r⟩ := p
      simp only [he] at h
      cases hv : varAdd c sc v r.toV true with
      | error err => simp [hv] at h
      | ok q =>
        obtain ⟨v', sc1, u1⟩ := q
        simp only [hv, Except.ok.injEq, Prod.mk.injEq] at h
        obtain ⟨rfl, _, _⟩ := h
        simp only [stmtCaps]
        exact (checkExpr_resolved c sc e e' r he).append (varAdd_resolved c sc sc1 v v' _ _ u1 hv)
  | assign v e l =>
    simp only [checkStmt] at h
    cases he : checkExpr c sc e with
    | error err => simp [he] at h
    | ok p =>
      obtain ⟨e', r⟩ := p
      simp only [he] at h
      cases hv : varSet c sc v r.toV with
      | error err => simp [hv] at h
      | ok q =>
        obtain ⟨v', sc1, u1⟩ := q
        simp only [hv, Except.ok.injEq, Prod.mk.injEq] at h
        obtain ⟨rfl, _, _⟩ := h
        simp only [stmtCaps]
        exact (checkExpr_resolved c sc e e' r he).append (varSet_resolved c sc sc1 v v' _ u1 hv)
  | createNode v l =>
    simp only [checkStmt] at h
    cases hv : varAdd c sc v { isLocal := true, quant := .one } false with
    | error err => simp [hv] at h
    | ok q =>
      obtain ⟨v', sc1, u1⟩ := q
      simp only [hv, Except.ok.injEq, Prod.mk.injEq] at h
      obtain ⟨rfl, _, _⟩ := h
      simp only [stmtCaps]
      exact varAdd_resolved c sc sc1 v v' _ _ u1 hv
  | attrNode n attrs l =>
    simp only [checkStmt] at h
    cases he : checkExpr c sc n with
    | error err => simp [he] at h
    | ok p =>
      obtain ⟨n', r⟩ := p
      simp only [he] at h
      cases ha : checkAttrs c sc attrs with
      | error err => simp [ha] at h
      | ok q =>
        obtain ⟨attrs', u1⟩ := q
        simp only [ha, Except.ok.injEq, Prod.mk.injEq] at h
        obtain ⟨rfl, _, _⟩ := h
        simp only [stmtCaps]
        exact (checkExpr_resolved c sc n n' r he).append (checkAttrs_resolved c sc attrs attrs' u1 ha)
  | createEdge a b l =>
    simp only [checkStmt] at h
    cases ha : checkExpr c sc a with
    | error err => simp [ha] at h
    | ok p =>
      obtain ⟨a', ra⟩ := p
      simp only [ha] at h
      cases hb : checkExpr c sc b with
      | error err => simp [hb] at h
      | ok q =>
        obtain ⟨b', rb⟩ := q
        simp only [hb, Except.ok.injEq, Prod.mk.injEq] at h
        obtain ⟨rfl, _, _⟩ := h
        simp only [stmtCaps]
        exact (checkExpr_resolved c sc a a' ra ha).append (checkExpr_resolved c sc b b' rb hb)
  | attrEdge a b attrs l =>
    simp only [checkStmt] at h
    cases ha : checkExpr c sc a with
    | error err => simp [ha] at h
    | ok p =>
      obtain ⟨a', ra⟩ := p
      simp only [ha] at h
      cases hb : checkExpr c sc b with
      | error err => simp [hb] at h
      | ok q =>
        obtain ⟨b', rb⟩ := q
        simp only [hb] at h
        cases hat : checkAttrs c sc attrs with
        | error err => simp [hat] at h
        | ok q2 =>
          obtain ⟨attrs', u1⟩ := q2
          simp only [hat, Except.ok.injEq, Prod.mk.injEq] at h
          obtain ⟨rfl, _, _⟩ := h
          simp only [stmtCaps]
          exact (checkExpr_resolved c sc a a' ra ha).append ((checkExpr_resolved c sc b b' rb hb).append (checkAttrs_resolved c sc attrs attrs' u1 hat))
  | scan e arms l =>
    simp only [checkStmt] at h
    cases he : checkExpr c sc e with
    | error err => simp [he] at h
    | ok p =>
      obtain ⟨e', r⟩ := p
      simp only [he] at h
      split at h
      · simp [errC] at h
      · cases har : checkScanArms c sc arms with
        | error err => simp [har] at h
        | ok q =>
          obtain ⟨arms', sc1, u1⟩ := q
          simp only [har, Except.ok.injEq, Prod.mk.injEq] at h
          obtain ⟨rfl, _, _⟩ := h
          simp only [stmtCaps]
          exact (checkExpr_resolved c sc e e' r he).append (checkScanArms_resolved c sc sc1 arms arms' u1 har)
  | print es l =>
    simp only [checkStmt] at h
    cases he : checkExprs c sc es with
    | error err => simp [he] at h
    | ok p =>
      obtain ⟨es', loc, u1⟩ := p
      simp only [he, Except.ok.injEq, Prod.mk.injEq] at h
      obtain ⟨rfl, _, _⟩ := h
      simp only [stmtCaps]
      exact checkExprs_resolved c sc es es' loc u1 he
  | ifS arms l =>
    simp only [checkStmt] at h
    cases har : checkIfArms c sc arms with
    | error err => simp [har] at h
    | ok q =>
      obtain ⟨arms', sc1, u1⟩ := q
      simp only [har, Except.ok.injEq, Prod.mk.injEq] at h
      obtain ⟨rfl, _, _⟩ := h
      simp only [stmtCaps]
      exact checkIfArms_resolved c sc sc1 arms arms' u1 har
  | forIn v vl e body l =>
    simp only [checkStmt] at h
    cases he : checkExpr c sc e with
    | error err => simp [he] at h
    | ok p =>
      obtain ⟨e', r⟩ := p
      simp only [he] at h
      split at h
      · simp [errC] at h
      · split at h
        · simp [errC] at h
        · cases ha : unscopedAdd c ([] :: sc) v vl r.toV false with
          | error err => simp [ha] at h
          | ok sc1 =>
            simp only [ha] at h
            cases hb : checkStmts c sc1 body with
            | error err => simp [hb] at h
            | ok q =>
              obtain ⟨body', sc2, u1⟩ := q
              simp only [hb, Except.ok.injEq, Prod.mk.injEq] at h
              obtain ⟨rfl, _, _⟩ := h
              simp only [stmtCaps]
              exact (checkExpr_resolved c sc e e' r he).append (checkStmts_resolved c sc1 sc2 body body' u1 hb)

theorem checkStmts_resolved (c : CCtx) (sc sc' : Scopes) (ss ss' : List Stmt) (u : List String)
    (h : checkStmts c sc ss = .ok (ss', sc', u)) : Res c.stanzaCaps (stmtsCaps ss') := by
  cases ss with
  | nil => simp [checkStmts] at h; obtain ⟨rfl, _, _⟩ := h; simp [stmtsCaps, Res.nil]
  | cons s rest =>
    simp only [checkStmts] at h
    cases hs : checkStmt c sc s with
    | error err => simp [hs] at h
    | ok p =>
      obtain ⟨s', sc1, u1⟩ := p
      simp only [hs] at h
      cases hr : checkStmts c sc1 rest with
      | error err => simp [hr] at h
      | ok q =>
        obtain ⟨rest', sc2, used⟩ := q
        simp only [hr, Except.ok.injEq, Prod.mk.injEq] at h
        obtain ⟨rfl, _, _⟩ := h
        simp only [stmtsCaps]
        exact (checkStmt_resolved c sc sc1 s s' u1 hs).append (checkStmts_resolved c sc1 sc2 rest rest' used hr)

theorem checkScanArms_resolved (c : CCtx) (sc sc' : Scopes) (arms arms' : List (String × List Stmt × Loc)) (u : List String)
    (h : checkScanArms c sc arms = .ok (arms', sc', u)) : Res c.stanzaCaps (scanArmsCaps arms') := by
  cases arms with
  | nil => simp [checkScanArms] at h; obtain ⟨rfl, _, _⟩ := h; simp [scanArmsCaps, Res.nil]
  | cons a rest =>
    obtain ⟨re, body, al⟩ := a
    simp only [checkScanArms] at h
    split at h
    · simp at h
    · simp [errC] at h
    · cases hb : checkStmts c ([] :: sc) body with
      | error err => simp [hb] at h
      | ok p =>
        obtain ⟨body', sc1, u1⟩ := p
        simp only [hb] at h
        cases hr : checkScanArms c sc1.tail rest with
        | error err => simp [hr] at h
        | ok q =>
          obtain ⟨rest', sc2, used⟩ := q
          simp only [hr, Except.ok.injEq, Prod.mk.injEq] at h
          obtain ⟨rfl, _, _⟩ := h
          simp only [scanArmsCaps]
          exact (checkStmts_resolved c ([] :: sc) sc1 body body' u1 hb).append (checkScanArms_resolved c sc1.tail sc2 rest rest' used hr)

theorem checkIfArms_resolved (c : CCtx) (sc sc' : Scopes) (arms arms' : List (List Cond × List Stmt × Loc)) (u : List String)
    (h : checkIfArms c sc arms = .ok (arms', sc', u)) : Res c.stanzaCaps (ifArmsCaps arms') := by
  cases arms with
  | nil => simp [checkIfArms] at h; obtain ⟨rfl, _, _⟩ := h; simp [ifArmsCaps, Res.nil]
  | cons a rest =>
    obtain ⟨conds, body, al⟩ := a
    simp only [checkIfArms] at h
    cases hc : checkConds c sc conds with
    | error err => simp [hc] at h
    | ok p0 =>
      obtain ⟨conds', uc⟩ := p0
      simp only [hc] at h
      cases hb : checkStmts c ([] :: sc) body with
      | error err => simp [hb] at h
      | ok p =>
        obtain ⟨body', sc1, u1⟩ := p
        simp only [hb] at h
        cases hr : checkIfArms c sc1.tail rest with
        | error err => simp [hr] at h
        | ok q =>
          obtain ⟨rest', sc2, used⟩ := q
          simp only [hr, Except.ok.injEq, Prod.mk.injEq] at h
          obtain ⟨rfl, _, _⟩ := h
          simp only [ifArmsCaps]
          exact (checkConds_resolved c sc conds conds' uc hc).append
            ((checkStmts_resolved c ([] :: sc) sc1 body body' u1 hb).append (checkIfArms_resolved c sc1.tail sc2 rest rest' used hr))
end

/-- a checked stanza satisfies the interpreters' contract -/
theorem checkStanza_stanzaOK (globals : List (String × VRes)) (fileCaps : List String) (nullable : String → Option Bool)
    (st st' : Stanza) (h : checkStanza globals fileCaps nullable st = .ok st') : StanzaOK st' := by
  simp only [checkStanza] at h
  split at h
  · simp at h
  · cases hs : checkStmts { globals, stanzaCaps := st.captures, fileCaps, nullable } [[]] st.stmts with
    | error e => simp [hs] at h
    | ok p =>
      obtain ⟨stmts', sc', used⟩ := p
      simp only [hs] at h
      split at h
      · simp only [Except.ok.injEq] at h
        subst h
        exact checkStmts_resolved _ _ _ _ _ _ hs
      · simp [errC] at h

theorem checkStanzas_stanzaOK (globals : List (String × VRes)) (fileCaps : List String) (nullable : String → Option Bool) :
    ∀ (sts sts' : List Stanza), checkStanzas globals fileCaps nullable sts = .ok sts' → ∀ st ∈ sts', StanzaOK st
  | [], sts', h => by simp [checkStanzas] at h; subst h; intro st hst; cases hst
  | st :: rest, sts', h => by
    simp only [checkStanzas] at h
    cases hs : checkStanza globals fileCaps nullable st with
    | error e => simp [hs] at h
    | ok st1 =>
      simp only [hs] at h
      cases hr : checkStanzas globals fileCaps nullable rest with
      | error e => simp [hr] at h
      | ok rest' =>
        simp only [hr, Except.ok.injEq] at h
        subst h
        intro x hx
        simp only [List.mem_cons] at hx
        rcases hx with rfl | hx
        · exact checkStanza_stanzaOK globals fileCaps nullable st x hs
        · exact checkStanzas_stanzaOK globals fileCaps nullable rest rest' hr x hx

/-- **every stanza of a file the checker accepts satisfies the interpreters' contract**, and the checker leaves the
attribute shorthands as the parser produced them -/
theorem check_stanzasOK (nullable : String → Option Bool) (f f' : File) (h : check nullable f = .ok f') :
    (∀ st ∈ f'.stanzas, StanzaOK st) ∧ f'.shorthands = f.shorthands := by
  simp only [check] at h
  cases hg : checkGlobals f.globals [] with
  | error e => simp [hg] at h
  | ok globals =>
    simp only [hg] at h
    cases hs : checkStanzas globals (fileCaptureNames f) nullable f.stanzas with
    | error e => simp [hs] at h
    | ok stanzas =>
      simp only [hs, Except.ok.injEq] at h
      subst h
      exact ⟨checkStanzas_stanzaOK _ _ _ _ _ hs, rfl⟩

end Checker
