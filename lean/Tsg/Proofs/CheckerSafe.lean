/-
  The checker model has two `panic` sites (`expect("missing capture index for name")`,
  `expect("missing capture index for full match")`); both are unreachable when the merged file query knows every
  capture of every stanza query — which holds by construction for `fileCaptureNames`.
-/
import Tsg.Proofs.Checker

namespace Checker

/-- the result is not a panic -/
def NP {α : Type} (r : Except CFail α) : Prop := ∀ s, r ≠ .error (.panic s)

theorem NP.ok {α : Type} (a : α) : NP (.ok a : Except CFail α) := by intro s h; cases h
theorem NP.err {α : Type} (e : CheckErrK) : NP (errC e : Except CFail α) := by intro s h; cases h
theorem NP.need {α : Type} (p : String) : NP (.error (.needNullable p) : Except CFail α) := by intro s h; cases h

/-- an error passed on from a step that does not panic is not a panic -/
theorem NP.of_error {α β : Type} {r : Except CFail α} {e : CFail} (h : r = .error e) (hr : NP r) :
    NP (.error e : Except CFail β) := by
  intro s hs
  injection hs with hs
  exact hr s (by rw [h, hs])

theorem unscopedGet_np (c : CCtx) (sc : Scopes) (name : String) (l : Loc) : NP (unscopedGet c sc name l) := by
  unfold unscopedGet
  split
  · exact NP.ok _
  · split
    · exact NP.ok _
    · exact NP.err _

theorem unscopedAdd_np (c : CCtx) (sc : Scopes) (name : String) (l : Loc) (v : VRes) (m : Bool) : NP (unscopedAdd c sc name l v m) := by
  unfold unscopedAdd
  split
  · exact NP.err _
  · dsimp only
    split
    · exact NP.ok _
    · exact NP.err _

theorem unscopedSet_np (c : CCtx) (sc : Scopes) (name : String) (l : Loc) (v : VRes) : NP (unscopedSet c sc name l v) := by
  unfold unscopedSet
  split
  · exact NP.err _
  · split
    · exact NP.ok _
    · exact NP.err _

/-- every capture of the stanza query is a capture of the file query -/
def CapsKnown (c : CCtx) : Prop := ∀ n, n ∈ c.stanzaCaps.map (·.1) → n ∈ c.fileCaps

theorem findIdx?_eq_isSome_of_mem (l : List String) (n : String) (h : n ∈ l) : (l.findIdx? (· = n)).isSome := by
  cases hf : l.findIdx? (· = n) with
  | some _ => rfl
  | none =>
    rw [List.findIdx?_eq_none_iff] at hf
    have := hf n h
    simp at this

syntax "np_step " ident ident : tactic
set_option hygiene false in
macro_rules
  | `(tactic| np_step $c $hc) => `(tactic| first
      | exact NP.ok _ | exact NP.err _ | exact NP.need _
      | exact NP.of_error (by assumption) (unscopedGet_np _ _ _ _)
      | exact NP.of_error (by assumption) (unscopedAdd_np _ _ _ _ _ _)
      | exact NP.of_error (by assumption) (unscopedSet_np _ _ _ _ _)
      | exact NP.of_error (by assumption) (checkExpr_np $c $hc _ _)
      | exact NP.of_error (by assumption) (checkExprs_np $c $hc _ _)
      | exact NP.of_error (by assumption) (varAdd_np $c $hc _ _ _ _)
      | exact NP.of_error (by assumption) (varSet_np $c $hc _ _ _)
      | exact NP.of_error (by assumption) (checkAttrs_np $c $hc _ _)
      | exact NP.of_error (by assumption) (checkCond_np $c $hc _ _)
      | exact NP.of_error (by assumption) (checkConds_np $c $hc _ _)
      | exact NP.of_error (by assumption) (checkStmt_np $c $hc _ _)
      | exact NP.of_error (by assumption) (checkStmts_np $c $hc _ _)
      | exact NP.of_error (by assumption) (checkScanArms_np $c $hc _ _)
      | exact NP.of_error (by assumption) (checkIfArms_np $c $hc _ _)
      | split)

syntax "np_auto " ident ident : tactic
macro_rules
  | `(tactic| np_auto $c $hc) => `(tactic| repeat (np_step $c $hc))

mutual
theorem checkExpr_np (c : CCtx) (hc : CapsKnown c) (sc : Scopes) (e : Expr) : NP (checkExpr c sc e) := by
  cases e with
  | falseLit => unfold checkExpr; exact NP.ok _
  | nullLit => unfold checkExpr; exact NP.ok _
  | trueLit => unfold checkExpr; exact NP.ok _
  | int n => unfold checkExpr; exact NP.ok _
  | str s => unfold checkExpr; exact NP.ok _
  | regexCap i => unfold checkExpr; exact NP.ok _
  | list es => unfold checkExpr; np_auto c hc
  | set es => unfold checkExpr; np_auto c hc
  | call f es => unfold checkExpr; np_auto c hc
  | listComp elem v vl value l => unfold checkExpr; np_auto c hc
  | setComp elem v vl value l => unfold checkExpr; np_auto c hc
  | capture name q fi si l =>
    unfold checkExpr
    cases hs : c.stanzaCaps.findIdx? (·.1 = name) with
    | none => exact NP.err _
    | some six =>
      have hmem : name ∈ c.stanzaCaps.map (·.1) := by
        obtain ⟨hlt, hp, _⟩ := List.findIdx?_eq_some_iff_getElem.mp hs
        exact List.mem_map.mpr ⟨c.stanzaCaps[six], List.getElem_mem hlt, by simpa using hp⟩
      have := findIdx?_eq_isSome_of_mem _ _ (hc name hmem)
      cases hf : c.fileCaps.findIdx? (· = name) with
      | none => simp [hf] at this
      | some fix => exact NP.ok _
  | var name l => unfold checkExpr; np_auto c hc
  | scopedVar scope name l => unfold checkExpr; np_auto c hc

theorem checkExprs_np (c : CCtx) (hc : CapsKnown c) (sc : Scopes) (es : List Expr) : NP (checkExprs c sc es) := by
  cases es with
  | nil => unfold checkExprs; exact NP.ok _
  | cons e es => unfold checkExprs; np_auto c hc
end

theorem varAdd_np (c : CCtx) (hc : CapsKnown c) (sc : Scopes) (v : Var) (val : VRes) (m : Bool) : NP (varAdd c sc v val m) := by
  cases v <;> (unfold varAdd; np_auto c hc)

theorem varSet_np (c : CCtx) (hc : CapsKnown c) (sc : Scopes) (v : Var) (val : VRes) : NP (varSet c sc v val) := by
  cases v <;> (unfold varSet; np_auto c hc)

theorem checkAttrs_np (c : CCtx) (hc : CapsKnown c) (sc : Scopes) (as : List AttrE) : NP (checkAttrs c sc as) := by
  induction as with
  | nil => unfold checkAttrs; exact NP.ok _
  | cons a rest ih =>
    obtain ⟨n, e⟩ := a
    unfold checkAttrs
    split
    · np_auto c hc
    · split
      · exact NP.of_error (by assumption) ih
      · exact NP.ok _

theorem checkCond_np (c : CCtx) (hc : CapsKnown c) (sc : Scopes) (cd : Cond) : NP (checkCond c sc cd) := by
  cases cd <;> (unfold checkCond; np_auto c hc)

theorem checkConds_np (c : CCtx) (hc : CapsKnown c) (sc : Scopes) (cds : List Cond) : NP (checkConds c sc cds) := by
  induction cds with
  | nil => unfold checkConds; exact NP.ok _
  | cons cd rest ih =>
    unfold checkConds
    split
    · np_auto c hc
    · split
      · exact NP.of_error (by assumption) ih
      · exact NP.ok _

mutual
theorem checkStmt_np (c : CCtx) (hc : CapsKnown c) (sc : Scopes) (s : Stmt) : NP (checkStmt c sc s) := by
  cases s with
  | declImm v e l => unfold checkStmt; np_auto c hc
  | declMut v e l => unfold checkStmt; np_auto c hc
  | assign v e l => unfold checkStmt; np_auto c hc
  | createNode v l => unfold checkStmt; np_auto c hc
  | attrNode n attrs l => unfold checkStmt; np_auto c hc
  | createEdge a b l => unfold checkStmt; np_auto c hc
  | attrEdge a b attrs l => unfold checkStmt; np_auto c hc
  | scan e arms l => unfold checkStmt; np_auto c hc
  | print es l => unfold checkStmt; np_auto c hc
  | ifS arms l => unfold checkStmt; np_auto c hc
  | forIn v vl e body l => unfold checkStmt; np_auto c hc

theorem checkStmts_np (c : CCtx) (hc : CapsKnown c) (sc : Scopes) (ss : List Stmt) : NP (checkStmts c sc ss) := by
  cases ss with
  | nil => unfold checkStmts; exact NP.ok _
  | cons s rest => unfold checkStmts; np_auto c hc

theorem checkScanArms_np (c : CCtx) (hc : CapsKnown c) (sc : Scopes) (arms : List (String × List Stmt × Loc)) :
    NP (checkScanArms c sc arms) := by
  cases arms with
  | nil => unfold checkScanArms; exact NP.ok _
  | cons arm rest =>
    obtain ⟨re, body, al⟩ := arm
    unfold checkScanArms
    np_auto c hc

theorem checkIfArms_np (c : CCtx) (hc : CapsKnown c) (sc : Scopes) (arms : List (List Cond × List Stmt × Loc)) :
    NP (checkIfArms c sc arms) := by
  cases arms with
  | nil => unfold checkIfArms; exact NP.ok _
  | cons arm rest =>
    obtain ⟨conds, body, al⟩ := arm
    unfold checkIfArms
    np_auto c hc
end

/-! ### the file-level table knows every stanza capture -/

theorem mem_dedup_acc (xs acc : List String) (x : String) (h : x ∈ acc) : x ∈ dedup xs acc := by
  induction xs generalizing acc with
  | nil => simpa [dedup] using h
  | cons y ys ih =>
    simp only [dedup]
    split
    · exact ih acc h
    · exact ih (y :: acc) (List.mem_cons_of_mem _ h)

theorem mem_dedup (xs acc : List String) (x : String) (h : x ∈ xs) : x ∈ dedup xs acc := by
  induction xs generalizing acc with
  | nil => cases h
  | cons y ys ih =>
    simp only [dedup]
    cases List.mem_cons.mp h with
    | inl hxy =>
      subst hxy
      split
      · next hc => exact mem_dedup_acc ys acc x (by simpa using hc)
      · exact mem_dedup_acc ys (x :: acc) x (List.mem_cons_self ..)
    | inr hys =>
      split
      · exact ih acc hys
      · exact ih (y :: acc) hys

theorem capsKnown_file (f : File) (st : Stanza) (hst : st ∈ f.stanzas) (globals : List (String × VRes))
    (nullable : String → Option Bool) :
    CapsKnown { globals, stanzaCaps := st.captures, fileCaps := fileCaptureNames f, nullable } := by
  intro n hn
  unfold fileCaptureNames
  apply mem_dedup
  exact List.mem_flatMap.mpr ⟨st, hst, hn⟩

theorem checkStanza_np (f : File) (st : Stanza) (hst : st ∈ f.stanzas) (globals : List (String × VRes))
    (nullable : String → Option Bool) (hfm : fullMatchName ∈ st.captures.map (·.1)) :
    NP (checkStanza globals (fileCaptureNames f) nullable st) := by
  unfold checkStanza
  have hk := capsKnown_file f st hst globals nullable
  have := findIdx?_eq_isSome_of_mem _ _ (hk fullMatchName hfm)
  cases hf : (fileCaptureNames f).findIdx? (· = fullMatchName) with
  | none => simp [hf] at this
  | some fm =>
    dsimp only
    split
    · exact NP.of_error (by assumption) (checkStmts_np _ hk _ _)
    · split
      · exact NP.ok _
      · exact NP.err _

theorem checkStanzas_np (f : File) (globals : List (String × VRes)) (nullable : String → Option Bool)
    (sts : List Stanza) (hsub : ∀ st ∈ sts, st ∈ f.stanzas) (hfm : ∀ st ∈ sts, fullMatchName ∈ st.captures.map (·.1)) :
    NP (checkStanzas globals (fileCaptureNames f) nullable sts) := by
  induction sts with
  | nil => unfold checkStanzas; exact NP.ok _
  | cons st rest ih =>
    unfold checkStanzas
    split
    · exact NP.of_error (by assumption)
        (checkStanza_np f st (hsub st (List.mem_cons_self ..)) globals nullable (hfm st (List.mem_cons_self ..)))
    · split
      · exact NP.of_error (by assumption)
          (ih (fun s hs => hsub s (List.mem_cons_of_mem _ hs)) (fun s hs => hfm s (List.mem_cons_of_mem _ hs)))
      · exact NP.ok _

theorem checkGlobals_np (gs : List Global) (acc : List (String × VRes)) : NP (checkGlobals gs acc) := by
  induction gs generalizing acc with
  | nil => unfold checkGlobals; exact NP.ok _
  | cons g rest ih =>
    unfold checkGlobals
    split
    · exact NP.err _
    · exact ih _

/-- **the checker never panics** on a file each of whose stanza queries has its full-match capture -/
theorem check_never_panics (nullable : String → Option Bool) (f : File)
    (hfm : ∀ st ∈ f.stanzas, fullMatchName ∈ st.captures.map (·.1)) : NP (check nullable f) := by
  unfold check
  split
  · exact NP.of_error (by assumption) (checkGlobals_np _ _)
  · split
    · exact NP.of_error (by assumption) (checkStanzas_np f _ nullable f.stanzas (fun _ h => h) hfm)
    · exact NP.ok _

end Checker
