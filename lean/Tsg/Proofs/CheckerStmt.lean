/-
  Checker model, statement level: the used-capture set is exactly the set of captures written in the stanza, and
  blocks are properly nested (a statement only adds names to the innermost open scope; a nested block leaves the
  declared names of its enclosing scopes as they were).
-/
import Tsg.Proofs.Checker

namespace Checker

/-! ### captures written in the program text (specification) -/

mutual
def capsOf : Expr → List String
  | .capture name _ _ _ _ => [name]
  | .list es => capsOfL es
  | .set es => capsOfL es
  | .call _ es => capsOfL es
  | .listComp elem _ _ value _ => capsOf value ++ capsOf elem
  | .setComp elem _ _ value _ => capsOf value ++ capsOf elem
  | .scopedVar s _ _ => capsOf s
  | .falseLit | .nullLit | .trueLit | .int _ | .str _ | .regexCap _ | .var _ _ => []
def capsOfL : List Expr → List String
  | [] => []
  | e :: es => capsOf e ++ capsOfL es
end

def capsOfVar : Var → List String
  | .unscoped _ _ => []
  | .scopedV scope _ _ => capsOf scope

def capsOfAttrs : List AttrE → List String
  | [] => []
  | (_, e) :: rest => capsOf e ++ capsOfAttrs rest

def capsOfCond : Cond → List String
  | .some e _ | .none e _ | .bool e _ => capsOf e

def capsOfConds : List Cond → List String
  | [] => []
  | c :: rest => capsOfCond c ++ capsOfConds rest

mutual
def capsOfStmt : Stmt → List String
  | .declImm v e _ => capsOf e ++ capsOfVar v
  | .declMut v e _ => capsOf e ++ capsOfVar v
  | .assign v e _ => capsOf e ++ capsOfVar v
  | .createNode v _ => capsOfVar v
  | .attrNode n attrs _ => capsOf n ++ capsOfAttrs attrs
  | .createEdge a b _ => capsOf a ++ capsOf b
  | .attrEdge a b attrs _ => capsOf a ++ capsOf b ++ capsOfAttrs attrs
  | .scan e arms _ => capsOf e ++ capsOfScanArms arms
  | .print es _ => capsOfL es
  | .ifS arms _ => capsOfIfArms arms
  | .forIn _ _ e body _ => capsOf e ++ capsOfStmts body
def capsOfStmts : List Stmt → List String
  | [] => []
  | s :: rest => capsOfStmt s ++ capsOfStmts rest
def capsOfScanArms : List (String × List Stmt × Loc) → List String
  | [] => []
  | (_, body, _) :: rest => capsOfStmts body ++ capsOfScanArms rest
def capsOfIfArms : List (List Cond × List Stmt × Loc) → List String
  | [] => []
  | (conds, body, _) :: rest => capsOfConds conds ++ capsOfStmts body ++ capsOfIfArms rest
end

mutual
theorem checkExpr_used (c : CCtx) (sc : Scopes) (e e' : Expr) (r : ERes) (h : checkExpr c sc e = .ok (e', r)) :
    r.used = capsOf e := by
  cases e with
  | falseLit => simp [checkExpr] at h; obtain ⟨_, rfl⟩ := h; simp [capsOf]
  | nullLit => simp [checkExpr] at h; obtain ⟨_, rfl⟩ := h; simp [capsOf]
  | trueLit => simp [checkExpr] at h; obtain ⟨_, rfl⟩ := h; simp [capsOf]
  | int n => simp [checkExpr] at h; obtain ⟨_, rfl⟩ := h; simp [capsOf]
  | str s => simp [checkExpr] at h; obtain ⟨_, rfl⟩ := h; simp [capsOf]
  | regexCap i => simp [checkExpr] at h; obtain ⟨_, rfl⟩ := h; simp [capsOf]
  | list es =>
    simp only [checkExpr] at h
    cases hx : checkExprs c sc es with
    | error err => simp [hx] at h
    | ok p =>
      obtain ⟨es', loc, used⟩ := p
      simp only [hx, Except.ok.injEq, Prod.mk.injEq] at h
      obtain ⟨_, rfl⟩ := h
      simp [capsOf, checkExprs_used c sc es es' loc used hx]
  | set es =>
    simp only [checkExpr] at h
    cases hx : checkExprs c sc es with
    | error err => simp [hx] at h
    | ok p =>
      obtain ⟨es', loc, used⟩ := p
      simp only [hx, Except.ok.injEq, Prod.mk.injEq] at h
      obtain ⟨_, rfl⟩ := h
      simp [capsOf, checkExprs_used c sc es es' loc used hx]
  | call f es =>
    simp only [checkExpr] at h
    cases hx : checkExprs c sc es with
    | error err => simp [hx] at h
    | ok p =>
      obtain ⟨es', loc, used⟩ := p
      simp only [hx, Except.ok.injEq, Prod.mk.injEq] at h
      obtain ⟨_, rfl⟩ := h
      simp [capsOf, checkExprs_used c sc es es' loc used hx]
  | listComp elem v vl value l =>
    simp only [checkExpr] at h
    cases hv : checkExpr c sc value with
    | error err => simp [hv] at h
    | ok p =>
      obtain ⟨value', rv⟩ := p
      simp only [hv] at h
      split at h
      · simp [errC] at h
      · split at h
        · simp [errC] at h
        · cases ha : unscopedAdd c ([] :: sc) v vl rv.toV false with
          | error err => simp [ha] at h
          | ok sc' =>
            simp only [ha] at h
            cases he : checkExpr c sc' elem with
            | error err => simp [he] at h
            | ok q =>
              obtain ⟨elem', re⟩ := q
              simp only [he, Except.ok.injEq, Prod.mk.injEq] at h
              obtain ⟨_, rfl⟩ := h
              simp [capsOf, checkExpr_used c sc value value' rv hv, checkExpr_used c sc' elem elem' re he]
  | setComp elem v vl value l =>
    simp only [checkExpr] at h
    cases hv : checkExpr c sc value with
    | error err => simp [hv] at h
    | ok p =>
      obtain ⟨value', rv⟩ := p
      simp only [hv] at h
      split at h
      · simp [errC] at h
      · split at h
        · simp [errC] at h
        · cases ha : unscopedAdd c ([] :: sc) v vl rv.toV false with
          | error err => simp [ha] at h
          | ok sc' =>
            simp only [ha] at h
            cases he : checkExpr c sc' elem with
            | error err => simp [he] at h
            | ok q =>
              obtain ⟨elem', re⟩ := q
              simp only [he, Except.ok.injEq, Prod.mk.injEq] at h
              obtain ⟨_, rfl⟩ := h
              simp [capsOf, checkExpr_used c sc value value' rv hv, checkExpr_used c sc' elem elem' re he]
  | capture name q fi si l =>
    simp only [checkExpr] at h
    split at h
    · simp [errC] at h
    · split at h
      · simp at h
      · simp only [Except.ok.injEq, Prod.mk.injEq] at h
        obtain ⟨_, rfl⟩ := h
        simp [capsOf]
  | var name l =>
    simp only [checkExpr] at h
    cases hg : unscopedGet c sc name l with
    | error err => simp [hg] at h
    | ok r0 =>
      simp only [hg, Except.ok.injEq, Prod.mk.injEq] at h
      obtain ⟨_, rfl⟩ := h
      simp [capsOf, (unscopedGet_ok c sc name l r0 hg).2]
  | scopedVar scope name l =>
    simp only [checkExpr] at h
    cases hx : checkExpr c sc scope with
    | error err => simp [hx] at h
    | ok p =>
      obtain ⟨scope', r0⟩ := p
      simp only [hx, Except.ok.injEq, Prod.mk.injEq] at h
      obtain ⟨_, rfl⟩ := h
      simp [capsOf, checkExpr_used c sc scope scope' r0 hx]

theorem checkExprs_used (c : CCtx) (sc : Scopes) (es es' : List Expr) (loc : Bool) (used : List String)
    (h : checkExprs c sc es = .ok (es', loc, used)) : used = capsOfL es := by
  cases es with
  | nil => simp [checkExprs] at h; obtain ⟨_, _, rfl⟩ := h; simp [capsOfL]
  | cons e es =>
    simp only [checkExprs] at h
    cases he : checkExpr c sc e with
    | error err => simp [he] at h
    | ok p =>
      obtain ⟨e', r⟩ := p
      simp only [he] at h
      cases hes : checkExprs c sc es with
      | error err => simp [hes] at h
      | ok q =>
        obtain ⟨es2, loc2, used2⟩ := q
        simp only [hes, Except.ok.injEq, Prod.mk.injEq] at h
        obtain ⟨_, _, rfl⟩ := h
        rw [checkExpr_used c sc e e' r he, checkExprs_used c sc es es2 loc2 used2 hes]
        simp [capsOfL]
end

/-! ### block discipline -/

/-- `b` declares what `a` declares plus possibly more names in the innermost scope -/
def Grows (a b : List (List String)) : Prop := ∃ h t h', a = h :: t ∧ b = (h' ++ h) :: t

theorem Grows.refl_of_ne {a : List (List String)} (h : a ≠ []) : Grows a a := by
  cases a with
  | nil => exact absurd rfl h
  | cons x t => exact ⟨x, t, [], rfl, rfl⟩

theorem Grows.trans {a b c : List (List String)} (h1 : Grows a b) (h2 : Grows b c) : Grows a c := by
  obtain ⟨h, t, h', rfl, rfl⟩ := h1
  obtain ⟨k, u, k', hk, rfl⟩ := h2
  simp only [List.cons.injEq] at hk
  obtain ⟨rfl, rfl⟩ := hk
  exact ⟨h, t, k' ++ h', rfl, by simp⟩

theorem Grows.ne {a b : List (List String)} (h : Grows a b) : b ≠ [] := by
  obtain ⟨_, _, _, _, rfl⟩ := h; simp

theorem shape_ne {sc : Scopes} (h : sc ≠ []) : shape sc ≠ [] := by
  cases sc with
  | nil => exact absurd rfl h
  | cons _ _ => simp [shape]

theorem ne_of_shape_ne {sc : Scopes} (h : shape sc ≠ []) : sc ≠ [] := by
  intro hc; subst hc; simp [shape] at h

theorem shape_tail (sc : Scopes) : shape sc.tail = (shape sc).tail := by
  cases sc <;> simp [shape]

/-- a nested block that starts from a fresh scope leaves, once popped, exactly the enclosing declarations -/
theorem Grows.pop {sc sc1 : Scopes} (h : Grows (shape ([] :: sc)) (shape sc1)) : shape sc1.tail = shape sc := by
  obtain ⟨x, t, h', h1, h2⟩ := h
  rw [shape_tail, h2]
  simp only [shape, List.map_cons, List.cons.injEq] at h1
  simp [h1.2, shape]

theorem unscopedAdd_grows (c : CCtx) (sc sc' : Scopes) (name : String) (l : Loc) (v : VRes) (m : Bool)
    (h : unscopedAdd c sc name l v m = .ok sc') : Grows (shape sc) (shape sc') := by
  simp only [unscopedAdd] at h
  split at h
  · simp [errC] at h
  · cases ha : scopesAdd sc name (if m then { v with isLocal := false } else v) m with
    | error e => simp [ha, errC] at h
    | ok s2 =>
      simp only [ha, Except.ok.injEq] at h; subst h
      obtain ⟨x, rest, rfl, hs⟩ := shape_add _ _ _ _ _ ha
      exact ⟨keys x, shape rest, [name], by simp [shape], by simpa using hs⟩

theorem unscopedSet_shape (c : CCtx) (sc sc' : Scopes) (name : String) (l : Loc) (v : VRes)
    (h : unscopedSet c sc name l v = .ok sc') : shape sc' = shape sc := by
  simp only [unscopedSet] at h
  split at h
  · simp [errC] at h
  · cases ha : scopesSet sc name { v with isLocal := false } with
    | error e => simp [ha, errC] at h
    | ok s2 =>
      simp only [ha, Except.ok.injEq] at h; subst h
      exact shape_set _ _ _ _ ha

theorem varAdd_spec (c : CCtx) (sc sc' : Scopes) (v v' : Var) (val : VRes) (m : Bool) (u : List String)
    (hne : sc ≠ []) (h : varAdd c sc v val m = .ok (v', sc', u)) :
    u = capsOfVar v ∧ Grows (shape sc) (shape sc') := by
  cases v with
  | unscoped name l =>
    simp only [varAdd] at h
    cases ha : unscopedAdd c sc name l val m with
    | error e => simp [ha] at h
    | ok s2 =>
      simp only [ha, Except.ok.injEq, Prod.mk.injEq] at h
      obtain ⟨_, rfl, rfl⟩ := h
      exact ⟨by simp [capsOfVar], unscopedAdd_grows _ _ _ _ _ _ _ ha⟩
  | scopedV scope name l =>
    simp only [varAdd] at h
    cases hx : checkExpr c sc scope with
    | error e => simp [hx] at h
    | ok p =>
      obtain ⟨scope', r⟩ := p
      simp only [hx, Except.ok.injEq, Prod.mk.injEq] at h
      obtain ⟨_, rfl, rfl⟩ := h
      exact ⟨by simp [capsOfVar, checkExpr_used c sc scope scope' r hx], Grows.refl_of_ne (shape_ne hne)⟩

theorem varSet_spec (c : CCtx) (sc sc' : Scopes) (v v' : Var) (val : VRes) (u : List String)
    (hne : sc ≠ []) (h : varSet c sc v val = .ok (v', sc', u)) :
    u = capsOfVar v ∧ Grows (shape sc) (shape sc') := by
  cases v with
  | unscoped name l =>
    simp only [varSet] at h
    cases ha : unscopedSet c sc name l val with
    | error e => simp [ha] at h
    | ok s2 =>
      simp only [ha, Except.ok.injEq, Prod.mk.injEq] at h
      obtain ⟨_, rfl, rfl⟩ := h
      refine ⟨by simp [capsOfVar], ?_⟩
      rw [unscopedSet_shape _ _ _ _ _ _ ha]
      exact Grows.refl_of_ne (shape_ne hne)
  | scopedV scope name l =>
    simp only [varSet] at h
    cases hx : checkExpr c sc scope with
    | error e => simp [hx] at h
    | ok p =>
      obtain ⟨scope', r⟩ := p
      simp only [hx, Except.ok.injEq, Prod.mk.injEq] at h
      obtain ⟨_, rfl, rfl⟩ := h
      exact ⟨by simp [capsOfVar, checkExpr_used c sc scope scope' r hx], Grows.refl_of_ne (shape_ne hne)⟩

theorem checkAttrs_used (c : CCtx) (sc : Scopes) (as as' : List AttrE) (u : List String)
    (h : checkAttrs c sc as = .ok (as', u)) : u = capsOfAttrs as := by
  induction as generalizing as' u with
  | nil => simp [checkAttrs] at h; obtain ⟨_, rfl⟩ := h; rfl
  | cons a rest ih =>
    obtain ⟨name, e⟩ := a
    simp only [checkAttrs] at h
    cases he : checkExpr c sc e with
    | error err => simp [he] at h
    | ok p =>
      obtain ⟨e', r⟩ := p
      simp only [he] at h
      cases hr : checkAttrs c sc rest with
      | error err => simp [hr] at h
      | ok q =>
        obtain ⟨rest', used⟩ := q
        simp only [hr, Except.ok.injEq, Prod.mk.injEq] at h
        obtain ⟨_, rfl⟩ := h
        simp [capsOfAttrs, checkExpr_used c sc e e' r he, ih rest' used hr]

theorem checkCond_used (c : CCtx) (sc : Scopes) (cd cd' : Cond) (u : List String)
    (h : checkCond c sc cd = .ok (cd', u)) : u = capsOfCond cd := by
  cases cd with
  | some e l =>
    simp only [checkCond] at h
    cases he : checkExpr c sc e with
    | error err => simp [he] at h
    | ok p =>
      obtain ⟨e', r⟩ := p
      simp only [he] at h
      split at h
      · simp [errC] at h
      · split at h
        · simp [errC] at h
        · simp only [Except.ok.injEq, Prod.mk.injEq] at h
          obtain ⟨_, rfl⟩ := h
          simp [capsOfCond, checkExpr_used c sc e e' r he]
  | none e l =>
    simp only [checkCond] at h
    cases he : checkExpr c sc e with
    | error err => simp [he] at h
    | ok p =>
      obtain ⟨e', r⟩ := p
      simp only [he] at h
      split at h
      · simp [errC] at h
      · split at h
        · simp [errC] at h
        · simp only [Except.ok.injEq, Prod.mk.injEq] at h
          obtain ⟨_, rfl⟩ := h
          simp [capsOfCond, checkExpr_used c sc e e' r he]
  | bool e l =>
    simp only [checkCond] at h
    cases he : checkExpr c sc e with
    | error err => simp [he] at h
    | ok p =>
      obtain ⟨e', r⟩ := p
      simp only [he] at h
      split at h
      · simp [errC] at h
      · simp only [Except.ok.injEq, Prod.mk.injEq] at h
        obtain ⟨_, rfl⟩ := h
        simp [capsOfCond, checkExpr_used c sc e e' r he]

theorem checkConds_used (c : CCtx) (sc : Scopes) (cds cds' : List Cond) (u : List String)
    (h : checkConds c sc cds = .ok (cds', u)) : u = capsOfConds cds := by
  induction cds generalizing cds' u with
  | nil => simp [checkConds] at h; obtain ⟨_, rfl⟩ := h; rfl
  | cons cd rest ih =>
    simp only [checkConds] at h
    cases hc : checkCond c sc cd with
    | error err => simp [hc] at h
    | ok p =>
      obtain ⟨cd', u1⟩ := p
      simp only [hc] at h
      cases hr : checkConds c sc rest with
      | error err => simp [hr] at h
      | ok q =>
        obtain ⟨rest', used⟩ := q
        simp only [hr, Except.ok.injEq, Prod.mk.injEq] at h
        obtain ⟨_, rfl⟩ := h
        simp [capsOfConds, checkCond_used c sc cd cd' u1 hc, ih rest' used hr]

mutual

theorem checkStmt_spec (c : CCtx) (sc sc' : Scopes) (s s' : Stmt) (u : List String) (hne : sc ≠ [])
    (h : checkStmt c sc s = .ok (s', sc', u)) : u = capsOfStmt s ∧ Grows (shape sc) (shape sc') := by
  cases s with
  | declImm v e l =>
    simp only [checkStmt] at h
    cases he : checkExpr c sc e with
    | error err => simp [he] at h
    | ok p =>
      obtain ⟨e', r⟩ := p
      simp only [he] at h
      cases hv : varAdd c sc v r.toV false with
      | error err => simp [hv] at h
      | ok q =>
        obtain ⟨v', sc2, u2⟩ := q
        simp only [hv, Except.ok.injEq, Prod.mk.injEq] at h
        obtain ⟨_, rfl, rfl⟩ := h
        obtain ⟨h1, h2⟩ := varAdd_spec c sc sc2 v v' _ _ u2 hne hv
        exact ⟨by simp [capsOfStmt, checkExpr_used c sc e e' r he, h1], h2⟩
  | declMut v e l =>
    simp only [checkStmt] at h
    cases he : checkExpr c sc e with
    | error err => simp [he] at h
    | ok p =>
      obtain ⟨e', r⟩ := p
      simp only [he] at h
      cases hv : varAdd c sc v r.toV true with
      | error err => simp [hv] at h
      | ok q =>
        obtain ⟨v', sc2, u2⟩ := q
        simp only [hv, Except.ok.injEq, Prod.mk.injEq] at h
        obtain ⟨_, rfl, rfl⟩ := h
        obtain ⟨h1, h2⟩ := varAdd_spec c sc sc2 v v' _ _ u2 hne hv
        exact ⟨by simp [capsOfStmt, checkExpr_used c sc e e' r he, h1], h2⟩
  | assign v e l =>
    simp only [checkStmt] at h
    cases he : checkExpr c sc e with
    | error err => simp [he] at h
    | ok p =>
      obtain ⟨e', r⟩ := p
      simp only [he] at h
      cases hv : varSet c sc v r.toV with
      | error err => simp [hv] at h
      | ok q =>
        obtain ⟨v', sc2, u2⟩ := q
        simp only [hv, Except.ok.injEq, Prod.mk.injEq] at h
        obtain ⟨_, rfl, rfl⟩ := h
        obtain ⟨h1, h2⟩ := varSet_spec c sc sc2 v v' _ u2 hne hv
        exact ⟨by simp [capsOfStmt, checkExpr_used c sc e e' r he, h1], h2⟩
  | createNode v l =>
    simp only [checkStmt] at h
    cases hv : varAdd c sc v { isLocal := true, quant := .one } false with
    | error err => simp [hv] at h
    | ok q =>
      obtain ⟨v', sc2, u2⟩ := q
      simp only [hv, Except.ok.injEq, Prod.mk.injEq] at h
      obtain ⟨_, rfl, rfl⟩ := h
      obtain ⟨h1, h2⟩ := varAdd_spec c sc sc2 v v' _ _ u2 hne hv
      exact ⟨by simp [capsOfStmt, h1], h2⟩
  | attrNode n attrs l =>
    simp only [checkStmt] at h
    cases he : checkExpr c sc n with
    | error err => simp [he] at h
    | ok p =>
      obtain ⟨n', r⟩ := p
      simp only [he] at h
      cases ha : checkAttrs c sc attrs with
      | error err => simp [ha] at h
      | ok q =>
        obtain ⟨attrs', u2⟩ := q
        simp only [ha, Except.ok.injEq, Prod.mk.injEq] at h
        obtain ⟨_, rfl, rfl⟩ := h
        exact ⟨by simp [capsOfStmt, checkExpr_used c sc n n' r he, checkAttrs_used c sc attrs attrs' u2 ha],
          Grows.refl_of_ne (shape_ne hne)⟩
  | createEdge a b l =>
    simp only [checkStmt] at h
    cases ha : checkExpr c sc a with
    | error err => simp [ha] at h
    | ok p =>
      obtain ⟨a', ra⟩ := p
      simp only [ha] at h
      cases hb : checkExpr c sc b with
      | error err => simp [hb] at h
      | ok q =>
        obtain ⟨b', rb⟩ := q
        simp only [hb, Except.ok.injEq, Prod.mk.injEq] at h
        obtain ⟨_, rfl, rfl⟩ := h
        exact ⟨by simp [capsOfStmt, checkExpr_used c sc a a' ra ha, checkExpr_used c sc b b' rb hb],
          Grows.refl_of_ne (shape_ne hne)⟩
  | attrEdge a b attrs l =>
    simp only [checkStmt] at h
    cases ha : checkExpr c sc a with
    | error err => simp [ha] at h
    | ok p =>
      obtain ⟨a', ra⟩ := p
      simp only [ha] at h
      cases hb : checkExpr c sc b with
      | error err => simp [hb] at h
      | ok q =>
        obtain ⟨b', rb⟩ := q
        simp only [hb] at h
        cases hat : checkAttrs c sc attrs with
        | error err => simp [hat] at h
        | ok w =>
          obtain ⟨attrs', u2⟩ := w
          simp only [hat, Except.ok.injEq, Prod.mk.injEq] at h
          obtain ⟨_, rfl, rfl⟩ := h
          exact ⟨by simp [capsOfStmt, checkExpr_used c sc a a' ra ha, checkExpr_used c sc b b' rb hb,
            checkAttrs_used c sc attrs attrs' u2 hat], Grows.refl_of_ne (shape_ne hne)⟩
  | scan e arms l =>
    simp only [checkStmt] at h
    cases he : checkExpr c sc e with
    | error err => simp [he] at h
    | ok p =>
      obtain ⟨e', r⟩ := p
      simp only [he] at h
      split at h
      · simp [errC] at h
      · cases ha : checkScanArms c sc arms with
        | error err => simp [ha] at h
        | ok q =>
          obtain ⟨arms', sc2, u2⟩ := q
          simp only [ha, Except.ok.injEq, Prod.mk.injEq] at h
          obtain ⟨_, rfl, rfl⟩ := h
          obtain ⟨h1, h2⟩ := checkScanArms_spec c sc sc2 arms arms' u2 hne ha
          refine ⟨by simp [capsOfStmt, checkExpr_used c sc e e' r he, h1], ?_⟩
          rw [h2]; exact Grows.refl_of_ne (shape_ne hne)
  | print es l =>
    simp only [checkStmt] at h
    cases hx : checkExprs c sc es with
    | error err => simp [hx] at h
    | ok p =>
      obtain ⟨es', loc, u2⟩ := p
      simp only [hx, Except.ok.injEq, Prod.mk.injEq] at h
      obtain ⟨_, rfl, rfl⟩ := h
      exact ⟨by simp [capsOfStmt, checkExprs_used c sc es es' loc u2 hx], Grows.refl_of_ne (shape_ne hne)⟩
  | ifS arms l =>
    simp only [checkStmt] at h
    cases ha : checkIfArms c sc arms with
    | error err => simp [ha] at h
    | ok q =>
      obtain ⟨arms', sc2, u2⟩ := q
      simp only [ha, Except.ok.injEq, Prod.mk.injEq] at h
      obtain ⟨_, rfl, rfl⟩ := h
      obtain ⟨h1, h2⟩ := checkIfArms_spec c sc sc2 arms arms' u2 hne ha
      refine ⟨by simp [capsOfStmt, h1], ?_⟩
      rw [h2]; exact Grows.refl_of_ne (shape_ne hne)
  | forIn v vl e body l =>
    simp only [checkStmt] at h
    cases he : checkExpr c sc e with
    | error err => simp [he] at h
    | ok p =>
      obtain ⟨e', r⟩ := p
      simp only [he] at h
      split at h
      · simp [errC] at h
      · split at h
        · simp [errC] at h
        · cases ha : unscopedAdd c ([] :: sc) v vl r.toV false with
          | error err => simp [ha] at h
          | ok sc1 =>
            simp only [ha] at h
            cases hb : checkStmts c sc1 body with
            | error err => simp [hb] at h
            | ok q =>
              obtain ⟨body', sc2, u2⟩ := q
              simp only [hb, Except.ok.injEq, Prod.mk.injEq] at h
              obtain ⟨_, rfl, rfl⟩ := h
              have g1 := unscopedAdd_grows _ _ _ _ _ _ _ ha
              obtain ⟨h1, g2⟩ := checkStmts_spec c sc1 sc2 body body' u2 (ne_of_shape_ne g1.ne) hb
              refine ⟨by simp [capsOfStmt, checkExpr_used c sc e e' r he, h1], ?_⟩
              rw [Grows.pop (g1.trans g2)]
              exact Grows.refl_of_ne (shape_ne hne)

theorem checkStmts_spec (c : CCtx) (sc sc' : Scopes) (ss ss' : List Stmt) (u : List String) (hne : sc ≠ [])
    (h : checkStmts c sc ss = .ok (ss', sc', u)) : u = capsOfStmts ss ∧ Grows (shape sc) (shape sc') := by
  cases ss with
  | nil =>
    simp only [checkStmts, Except.ok.injEq, Prod.mk.injEq] at h
    obtain ⟨_, rfl, rfl⟩ := h
    exact ⟨rfl, Grows.refl_of_ne (shape_ne hne)⟩
  | cons s rest =>
    simp only [checkStmts] at h
    cases hs : checkStmt c sc s with
    | error err => simp [hs] at h
    | ok p =>
      obtain ⟨s1, sc1, u1⟩ := p
      simp only [hs] at h
      cases hr : checkStmts c sc1 rest with
      | error err => simp [hr] at h
      | ok q =>
        obtain ⟨rest', sc2, u2⟩ := q
        simp only [hr, Except.ok.injEq, Prod.mk.injEq] at h
        obtain ⟨_, rfl, rfl⟩ := h
        obtain ⟨h1, g1⟩ := checkStmt_spec c sc sc1 s s1 u1 hne hs
        obtain ⟨h2, g2⟩ := checkStmts_spec c sc1 _ rest rest' u2 (ne_of_shape_ne g1.ne) hr
        exact ⟨by simp [capsOfStmts, h1, h2], g1.trans g2⟩

theorem checkScanArms_spec (c : CCtx) (sc sc' : Scopes) (arms arms' : List (String × List Stmt × Loc)) (u : List String)
    (hne : sc ≠ []) (h : checkScanArms c sc arms = .ok (arms', sc', u)) :
    u = capsOfScanArms arms ∧ shape sc' = shape sc := by
  cases arms with
  | nil =>
    simp only [checkScanArms, Except.ok.injEq, Prod.mk.injEq] at h
    obtain ⟨_, rfl, rfl⟩ := h
    exact ⟨rfl, rfl⟩
  | cons arm rest =>
    obtain ⟨re, body, al⟩ := arm
    simp only [checkScanArms] at h
    split at h
    · simp at h
    · simp [errC] at h
    · cases hb : checkStmts c ([] :: sc) body with
      | error err => simp [hb] at h
      | ok p =>
        obtain ⟨body', sc1, u1⟩ := p
        simp only [hb] at h
        cases hr : checkScanArms c sc1.tail rest with
        | error err => simp [hr] at h
        | ok q =>
          obtain ⟨rest', sc2, u2⟩ := q
          simp only [hr, Except.ok.injEq, Prod.mk.injEq] at h
          obtain ⟨_, rfl, rfl⟩ := h
          obtain ⟨h1, g1⟩ := checkStmts_spec c ([] :: sc) sc1 body body' u1 (by simp) hb
          have hpop := Grows.pop g1
          have hne1 : sc1.tail ≠ [] := ne_of_shape_ne (by rw [hpop]; exact shape_ne hne)
          obtain ⟨h2, g2⟩ := checkScanArms_spec c sc1.tail _ rest rest' u2 hne1 hr
          exact ⟨by simp [capsOfScanArms, h1, h2], by rw [g2, hpop]⟩

theorem checkIfArms_spec (c : CCtx) (sc sc' : Scopes) (arms arms' : List (List Cond × List Stmt × Loc)) (u : List String)
    (hne : sc ≠ []) (h : checkIfArms c sc arms = .ok (arms', sc', u)) :
    u = capsOfIfArms arms ∧ shape sc' = shape sc := by
  cases arms with
  | nil =>
    simp only [checkIfArms, Except.ok.injEq, Prod.mk.injEq] at h
    obtain ⟨_, rfl, rfl⟩ := h
    exact ⟨rfl, rfl⟩
  | cons arm rest =>
    obtain ⟨conds, body, al⟩ := arm
    simp only [checkIfArms] at h
    cases hc : checkConds c sc conds with
    | error err => simp [hc] at h
    | ok w =>
      obtain ⟨conds', uc⟩ := w
      simp only [hc] at h
      cases hb : checkStmts c ([] :: sc) body with
      | error err => simp [hb] at h
      | ok p =>
        obtain ⟨body', sc1, u1⟩ := p
        simp only [hb] at h
        cases hr : checkIfArms c sc1.tail rest with
        | error err => simp [hr] at h
        | ok q =>
          obtain ⟨rest', sc2, u2⟩ := q
          simp only [hr, Except.ok.injEq, Prod.mk.injEq] at h
          obtain ⟨_, rfl, rfl⟩ := h
          obtain ⟨h1, g1⟩ := checkStmts_spec c ([] :: sc) sc1 body body' u1 (by simp) hb
          have hpop := Grows.pop g1
          have hne1 : sc1.tail ≠ [] := ne_of_shape_ne (by rw [hpop]; exact shape_ne hne)
          obtain ⟨h2, g2⟩ := checkIfArms_spec c sc1.tail _ rest rest' u2 hne1 hr
          exact ⟨by simp [capsOfIfArms, checkConds_used c sc conds conds' uc hc, h1, h2], by rw [g2, hpop]⟩

end

end Checker
