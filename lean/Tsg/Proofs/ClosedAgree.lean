import Tsg.Sem.Lazy
import Tsg.Proofs.Prog
/-
  Strict evaluation and lazy evaluation (build, then force) agree on closed expressions — the core of C02 that can be
  stated without a relation between the two variable stores. Used by Tsg/Props/C02.lean.
-/
namespace ClosedAgree
open Prog Lazy

mutual
/-- the closed expressions: literals, captures, regex captures, lists, sets and function calls of closed expressions — no
variables, no scoped variables, no comprehensions: their value is a function of the match and the graph alone -/
def closedE : Expr → Bool
  | .falseLit | .nullLit | .trueLit | .int _ | .str _ | .regexCap _ | .capture _ _ _ _ _ => true
  | .var _ _ | .scopedVar _ _ _ | .listComp _ _ _ _ _ | .setComp _ _ _ _ _ => false
  | .list es => closedEs es
  | .set es => closedEs es
  | .call _ es => closedEs es
def closedEs : List Expr → Bool
  | [] => true
  | e :: es => closedE e && closedEs es
end

mutual
def depthE : Expr → Nat
  | .list es => depthEs es + 1
  | .set es => depthEs es + 1
  | .call _ es => depthEs es + 1
  | _ => 0
def depthEs : List Expr → Nat
  | [] => 0
  | e :: es => max (depthE e) (depthEs es)
end

/-- `Value::from_nodes` without the machine -/
def fromNodesE (q : Quant) (nodes : List Nat) : Except Fail Val :=
  match q with
  | .zero => .error (.panic "from_nodes:unreachable")
  | .one =>
    match nodes with
    | n :: _ => .ok (.syn n)
    | [] => .error (.err (.base .undefinedCapture ""))
  | .zeroOrMore | .oneOrMore => .ok (.list (nodes.map .syn))
  | .zeroOrOne =>
    match nodes with
    | [] => .ok .null
    | n :: _ => .ok (.syn n)

theorem run_fromNodes {ρ : Type} (q : Quant) (nodes : List Nat) (s : MSt ρ) :
    Prog.run (Strict.fromNodes (ρ := ρ) q nodes) s =
      match fromNodesE q nodes with
      | .ok v => .ok v s
      | .error f => .fail f s := by
  cases q <;> simp only [Strict.fromNodes, fromNodesE] <;> (try cases nodes) <;> rfl

mutual
/-- what lazy evaluation BUILDS for a closed expression (nothing is evaluated yet): captures are resolved at once, calls
are kept as calls -/
def buildE (env : Env) : Expr → Except Fail LVal
  | .falseLit => .ok (.value (.bool false))
  | .nullLit => .ok (.value .null)
  | .trueLit => .ok (.value (.bool true))
  | .int n => .ok (.value (.int n))
  | .str s => .ok (.value (.str s))
  | .list es => (buildEs env es).map .list
  | .set es => (buildEs env es).map .set
  | .call fn es => (buildEs env es).map (.call fn)
  | .capture name q _ _ _ =>
    match q with
    | .zero => .error (.err (.base .undefinedCapture ""))
    | _ =>
      match env.quants.lookup name with
      | some q' => (fromNodesE q' (env.mat.nodes name)).map .value
      | none => .error (.panic "capture:unresolved")
  | .regexCap ix =>
    match env.caps[ix]? with
    | some s => .ok (.value (.str s))
    | none => .error (.err (.base .undefinedRegexCapture ""))
  | _ => .error .outOfFuel
def buildEs (env : Env) : List Expr → Except Fail (List LVal)
  | [] => .ok []
  | e :: es =>
    match buildE env e with
    | .error f => .error f
    | .ok lv =>
      match buildEs env es with
      | .error f => .error f
      | .ok lvs => .ok (lv :: lvs)
end

/-- result of running a program that does not touch the state -/
def stateless {ρ α : Type} (r : Except Fail α) (s : MSt ρ) : Res (MSt ρ) α :=
  match r with
  | .ok a => .ok a s
  | .error f => .fail f s

theorem build_lazyExprs (cfg : Cfg) (fuel ef : Nat) (env : Env) :
    (∀ (e : Expr), closedE e = true → ∀ t, Prog.run (lazyExpr cfg fuel ef env e) t = stateless (buildE env e) t) ∧
    (∀ (_elem : Expr) (_var : String) (_vals : List Val), True) ∧
    (∀ (es : List Expr), closedEs es = true → ∀ t, Prog.run (lazyExprs cfg fuel ef env es) t = stateless (buildEs env es) t) := by
  apply Lazy.lazyExpr.mutual_induct (fuel := fuel) (env := env)
  all_goals (intros; first | trivial | skip)
  all_goals (first | rw [Lazy.lazyExpr.eq_def] | rw [Lazy.lazyExprs.eq_def] | skip)
  all_goals simp only
  case case1 => rfl
  case case2 => rfl
  case case3 => rfl
  case case4 => rfl
  case case5 => rfl
  case case6 es ih hc t =>
    rw [Prog.run_bind, ih (by simpa [closedE] using hc) t]
    simp only [buildE]
    cases buildEs env es <;> rfl
  case case7 es ih hc t =>
    rw [Prog.run_bind, ih (by simpa [closedE] using hc) t]
    simp only [buildE]
    cases buildEs env es <;> rfl
  case case10 => rfl
  case case11 q _ _ _ q' hl hq hc t =>
    cases q with
    | zero => exact (hq rfl).elim
    | _ =>
      simp only [hl, buildE]
      rw [Prog.run_bind, run_fromNodes]
      cases fromNodesE q' _ <;> rfl
  case case12 q _ _ _ hl hq hc t =>
    cases q with
    | zero => exact (hq rfl).elim
    | _ => simp only [hl, buildE]; rfl
  case case15 fn es ih hc t =>
    rw [Prog.run_bind, ih (by simpa [closedE] using hc) t]
    simp only [buildE]
    cases buildEs env es <;> rfl
  case case16 h hc t => simp only [h, buildE]; rfl
  case case17 h hc t => simp only [h, buildE]; rfl
  case case20 => rfl
  case case21 e rest ih1 ih2 hc t =>
    have hc' : closedE e = true ∧ closedEs rest = true := by simpa [closedEs] using hc
    rw [Prog.run_bind, ih1 hc'.1 t]
    simp only [buildEs]
    cases buildE env e with
    | error f => rfl
    | ok lv =>
      simp only [stateless]
      rw [Prog.run_bind, ih2 hc'.2 t]
      cases buildEs env rest <;> rfl


/-! ### strict evaluation against forcing what lazy evaluation built -/

def isFail {σ α : Type} : Res σ α → Prop
  | .fail _ _ => True
  | .ok _ _ => False

/-- both succeed with the same value, equal graphs, untouched private states and still uncancelled — or both fail -/
def Agree {α : Type} (s : MSt SRest) (t : MSt LSt) (r1 : Res (MSt SRest) α) (r2 : Res (MSt LSt) α) : Prop :=
  match r1, r2 with
  | .ok v s', .ok v' t' => v = v' ∧ s'.graph = t'.graph ∧ s'.rest = s.rest ∧ t'.rest = t.rest ∧
      s'.ps.cancelAt = none ∧ t'.ps.cancelAt = none
  | .fail _ _, .fail _ _ => True
  | _, _ => False

theorem agree_ok_ok {α : Type} (s : MSt SRest) (t : MSt LSt) (v v' : α) (s' : MSt SRest) (t' : MSt LSt) :
    Agree s t (.ok v s') (.ok v' t') ↔ (v = v' ∧ s'.graph = t'.graph ∧ s'.rest = s.rest ∧ t'.rest = t.rest ∧
      s'.ps.cancelAt = none ∧ t'.ps.cancelAt = none) := Iff.rfl
theorem agree_fail_fail {α : Type} (s : MSt SRest) (t : MSt LSt) (f f' : Fail) (s' : MSt SRest) (t' : MSt LSt) :
    Agree (α := α) s t (.fail f s') (.fail f' t') := trivial
theorem agree_ok_fail {α : Type} (s : MSt SRest) (t : MSt LSt) (v : α) (f' : Fail) (s' : MSt SRest) (t' : MSt LSt) :
    ¬ Agree s t (.ok v s') (.fail f' t') := fun h => h
theorem agree_fail_ok {α : Type} (s : MSt SRest) (t : MSt LSt) (v : α) (f : Fail) (s' : MSt SRest) (t' : MSt LSt) :
    ¬ Agree s t (.fail f s') (.ok v t') := fun h => h

def bump {ρ : Type} (t : MSt ρ) : MSt ρ := { t with ps := { t.ps with polls := t.ps.polls + 1 } }

theorem run_poll_bind {ρ α : Type} (l : String) (k : Unit → Prog ρ α) (t : MSt ρ) (hc : t.ps.cancelAt = none) :
    Prog.run (pollP l >>= k) t = Prog.run (k ()) (bump t) := by
  obtain ⟨g, r, ⟨polls, c⟩⟩ := t
  simp only at hc; subst hc
  rfl

theorem run_evalL_value (cfg : Cfg) (ef : Nat) (v : Val) (t : MSt LSt) (hc : t.ps.cancelAt = none) :
    Prog.run (evalL cfg (ef + 1) (.value v)) t = .ok v (bump t) := by
  rw [Lazy.evalL.eq_def]
  simp only
  rw [run_poll_bind _ _ t hc]
  rfl

theorem run_evalL_list (cfg : Cfg) (ef : Nat) (es : List LVal) (t : MSt LSt) (hc : t.ps.cancelAt = none) :
    Prog.run (evalL cfg (ef + 1) (.list es)) t = Prog.run (evalLs cfg ef es >>= fun vs => Pure.pure (Val.list vs)) (bump t) := by
  rw [Lazy.evalL.eq_def]
  simp only
  rw [run_poll_bind _ _ t hc]

theorem run_evalL_set (cfg : Cfg) (ef : Nat) (es : List LVal) (t : MSt LSt) (hc : t.ps.cancelAt = none) :
    Prog.run (evalL cfg (ef + 1) (.set es)) t =
      Prog.run (evalLs cfg ef es >>= fun vs => Pure.pure (Val.set (Val.setOfList vs))) (bump t) := by
  rw [Lazy.evalL.eq_def]
  simp only
  rw [run_poll_bind _ _ t hc]

theorem run_evalL_call (cfg : Cfg) (ef : Nat) (fn : String) (es : List LVal) (t : MSt LSt) (hc : t.ps.cancelAt = none) :
    Prog.run (evalL cfg (ef + 1) (.call fn es)) t = Prog.run (evalLs cfg ef es >>= fun vs => callFnL cfg fn vs) (bump t) := by
  rw [Lazy.evalL.eq_def]
  simp only
  rw [run_poll_bind _ _ t hc]

theorem agree_value (s : MSt SRest) (t : MSt LSt) (v : Val) (hg : s.graph = t.graph)
    (h1 : s.ps.cancelAt = none) (h2 : t.ps.cancelAt = none) :
    Agree s t (.ok v s) (.ok v (bump t)) := (agree_ok_ok ..).mpr ⟨rfl, hg, rfl, rfl, h1, h2⟩

theorem run_callFn {ρ : Type} (cfg : Cfg) (fn : String) (vs : List Val) (s : MSt ρ) :
    Prog.run (Strict.callFn (ρ := ρ) cfg fn vs) s =
      match (GraphOp.callFn cfg.oracle cfg.tree fn vs).apply s.graph with
      | (.ok v, g') => .ok v { s with graph := g' }
      | (.error f, g') => .fail f { s with graph := g' } := by
  simp only [Strict.callFn, gopP, Prog.run]
  split <;> simp_all [Prog.run]


theorem bump_graph {ρ : Type} (t : MSt ρ) : (bump t).graph = t.graph := rfl
theorem bump_rest {ρ : Type} (t : MSt ρ) : (bump t).rest = t.rest := rfl
theorem bump_cancel {ρ : Type} (t : MSt ρ) : (bump t).ps.cancelAt = t.ps.cancelAt := rfl

def M1 (cfg : Cfg) (fuel : Nat) (env : Env) (e : Expr) : Prop :=
  closedE e = true →
    (∀ f, buildE env e = .error f → ∀ s, isFail (Prog.run (Strict.evalExpr cfg fuel env e) s)) ∧
    (∀ lv, buildE env e = .ok lv → ∀ ef s t, depthE e < ef → s.graph = t.graph → s.ps.cancelAt = none → t.ps.cancelAt = none →
      Agree s t (Prog.run (Strict.evalExpr cfg fuel env e) s) (Prog.run (evalL cfg ef lv) t))

def M3 (cfg : Cfg) (fuel : Nat) (env : Env) (es : List Expr) : Prop :=
  closedEs es = true →
    (∀ f, buildEs env es = .error f → ∀ s, isFail (Prog.run (Strict.evalExprs cfg fuel env es) s)) ∧
    (∀ lvs, buildEs env es = .ok lvs → ∀ ef s t, depthEs es < ef → s.graph = t.graph → s.ps.cancelAt = none → t.ps.cancelAt = none →
      Agree s t (Prog.run (Strict.evalExprs cfg fuel env es) s) (Prog.run (evalLs cfg ef lvs) t))

/-- a literal-like case: strict returns `v` at once, lazy built `.value v` -/
theorem m1_value (cfg : Cfg) (fuel : Nat) (env : Env) (e : Expr) (v : Val)
    (hb : buildE env e = .ok (.value v)) (hd : depthE e = 0)
    (hs : ∀ s, Prog.run (Strict.evalExpr cfg fuel env e) s = .ok v s) : M1 cfg fuel env e := by
  intro _
  refine ⟨fun f hf => (by rw [hb] at hf; cases hf), ?_⟩
  intro lv hlv ef s t hef hg h1 h2
  rw [hb] at hlv; cases hlv
  obtain ⟨ef', rfl⟩ : ∃ k, ef = k + 1 := ⟨ef - 1, by omega⟩
  rw [hs, run_evalL_value cfg ef' v t h2]
  exact agree_value s t v hg h1 h2

/-- sequencing a list evaluation with a pure wrapper on both sides -/
theorem agree_bind_pure (s : MSt SRest) (t t0 : MSt LSt) (m1 : SM (List Val)) (m2 : LM (List Val)) (w : List Val → Val)
    (s0 : MSt SRest) (tt : MSt LSt) (h : Agree s t (Prog.run m1 s0) (Prog.run m2 tt)) (ht : t.rest = t0.rest) :
    Agree s t0 (Prog.run (m1 >>= fun vs => Pure.pure (w vs)) s0) (Prog.run (m2 >>= fun vs => Pure.pure (w vs)) tt) := by
  rw [Prog.run_bind, Prog.run_bind]
  cases hr1 : Prog.run m1 s0 with
  | ok a s1 =>
    cases hr2 : Prog.run m2 tt with
    | ok b t1 =>
      rw [hr1, hr2] at h
      obtain ⟨hv, hg, h1, h2, hc1, hc2⟩ := (agree_ok_ok ..).mp h
      subst hv
      exact (agree_ok_ok ..).mpr ⟨rfl, hg, h1, h2.trans ht, hc1, hc2⟩
    | fail _ _ => rw [hr1, hr2] at h; exact (agree_ok_fail _ _ _ _ _ _ h).elim
  | fail e s1 =>
    cases hr2 : Prog.run m2 tt with
    | ok _ _ => rw [hr1, hr2] at h; exact (agree_fail_ok _ _ _ _ _ _ h).elim
    | fail _ _ => exact agree_fail_fail ..

theorem agree_exprs (cfg : Cfg) (fuel : Nat) (env : Env) :
    (∀ e, M1 cfg fuel env e) ∧ (∀ (_elem : Expr) (_var : String) (_vals : List Val), True) ∧ (∀ es, M3 cfg fuel env es) := by
  apply Strict.evalExpr.mutual_induct (fuel := fuel) (env := env) (motive1 := M1 cfg fuel env) (motive2 := fun _ _ _ => True)
    (motive3 := M3 cfg fuel env)
  case case1 => exact m1_value cfg fuel env _ _ rfl rfl (fun s => by rw [Strict.evalExpr.eq_def]; rfl)
  case case2 => exact m1_value cfg fuel env _ _ rfl rfl (fun s => by rw [Strict.evalExpr.eq_def]; rfl)
  case case3 => exact m1_value cfg fuel env _ _ rfl rfl (fun s => by rw [Strict.evalExpr.eq_def]; rfl)
  case case4 => intro n; exact m1_value cfg fuel env _ _ rfl rfl (fun s => by rw [Strict.evalExpr.eq_def]; rfl)
  case case5 => intro x; exact m1_value cfg fuel env _ _ rfl rfl (fun s => by rw [Strict.evalExpr.eq_def]; rfl)
  case case6 =>
    intro es ih hc
    have ih := ih (by simpa [closedE] using hc)
    constructor
    · intro f hf s
      have hb : buildEs env es = .error f := by
        simp only [buildE] at hf; cases h : buildEs env es <;> simp [h, Except.map] at hf; subst hf; rfl
      have := ih.1 f hb s
      rw [Strict.evalExpr.eq_def]; simp only
      rw [Prog.run_bind]
      cases hr : Prog.run (Strict.evalExprs cfg fuel env es) s with
      | ok _ _ => rw [hr] at this; exact this.elim
      | fail _ _ => trivial
    · intro lv hlv ef s t hef hg h1 h2
      obtain ⟨lvs, hb, rfl⟩ : ∃ lvs, buildEs env es = .ok lvs ∧ lv = .list lvs := by
        simp only [buildE] at hlv; cases h : buildEs env es <;> simp [h, Except.map] at hlv; exact ⟨_, rfl, hlv.symm⟩
      obtain ⟨ef', rfl⟩ : ∃ k, ef = k + 1 := ⟨ef - 1, by omega⟩
      have hd : depthEs es < ef' := by simp only [depthE] at hef; omega
      have := ih.2 lvs hb ef' s (bump t) hd hg h1 h2
      rw [Strict.evalExpr.eq_def]; simp only
      rw [run_evalL_list cfg ef' lvs t h2]
      exact agree_bind_pure s (bump t) t _ _ Val.list s (bump t) this rfl
  case case7 =>
    intro es ih hc
    have ih := ih (by simpa [closedE] using hc)
    constructor
    · intro f hf s
      have hb : buildEs env es = .error f := by
        simp only [buildE] at hf; cases h : buildEs env es <;> simp [h, Except.map] at hf; subst hf; rfl
      have := ih.1 f hb s
      rw [Strict.evalExpr.eq_def]; simp only
      rw [Prog.run_bind]
      cases hr : Prog.run (Strict.evalExprs cfg fuel env es) s with
      | ok _ _ => rw [hr] at this; exact this.elim
      | fail _ _ => trivial
    · intro lv hlv ef s t hef hg h1 h2
      obtain ⟨lvs, hb, rfl⟩ : ∃ lvs, buildEs env es = .ok lvs ∧ lv = .set lvs := by
        simp only [buildE] at hlv; cases h : buildEs env es <;> simp [h, Except.map] at hlv; exact ⟨_, rfl, hlv.symm⟩
      obtain ⟨ef', rfl⟩ : ∃ k, ef = k + 1 := ⟨ef - 1, by omega⟩
      have hd : depthEs es < ef' := by simp only [depthE] at hef; omega
      have := ih.2 lvs hb ef' s (bump t) hd hg h1 h2
      rw [Strict.evalExpr.eq_def]; simp only
      rw [run_evalL_set cfg ef' lvs t h2]
      exact agree_bind_pure s (bump t) t _ _ (fun vs => Val.set (Val.setOfList vs)) s (bump t) this rfl
  case case8 => intro _ _ _ _ _ _ _ hc; simp [closedE] at hc
  case case9 => intro _ _ _ _ _ _ _ hc; simp [closedE] at hc
  case case10 =>
    intro name fi si loc _
    refine ⟨fun f _ s => ?_, fun lv hlv => by simp [buildE] at hlv⟩
    rw [Strict.evalExpr.eq_def]; trivial
  case case11 =>
    intro name q fi si loc q' hl hq _
    have hbuild : buildE env (.capture name q fi si loc) = (fromNodesE q' (env.mat.nodes name)).map .value := by
      cases q with
      | zero => exact (hq rfl).elim
      | _ => simp only [buildE, hl]
    have hstrict : ∀ s, Prog.run (Strict.evalExpr cfg fuel env (.capture name q fi si loc)) s =
        stateless (fromNodesE q' (env.mat.nodes name)) s := by
      intro s
      rw [Strict.evalExpr.eq_def]
      cases q with
      | zero => exact (hq rfl).elim
      | _ => simp only [hl]; rw [run_fromNodes]; cases fromNodesE q' (env.mat.nodes name) <;> rfl
    constructor
    · intro f hf s
      rw [hbuild] at hf
      rw [hstrict]
      cases h : fromNodesE q' (env.mat.nodes name) with
      | ok v => rw [h] at hf; cases hf
      | error _ => trivial
    · intro lv hlv ef s t hef hg h1 h2
      rw [hbuild] at hlv
      cases h : fromNodesE q' (env.mat.nodes name) with
      | error _ => rw [h] at hlv; cases hlv
      | ok v =>
        rw [h] at hlv; cases hlv
        obtain ⟨ef', rfl⟩ : ∃ k, ef = k + 1 := ⟨ef - 1, by omega⟩
        rw [hstrict, h, run_evalL_value cfg ef' v t h2]
        exact agree_value s t v hg h1 h2
  case case12 =>
    intro name q fi si loc hl hq _
    have hbuild : buildE env (.capture name q fi si loc) = .error (.panic "capture:unresolved") := by
      cases q with
      | zero => exact (hq rfl).elim
      | _ => simp only [buildE, hl]
    refine ⟨fun f _ s => ?_, fun lv hlv => by rw [hbuild] at hlv; cases hlv⟩
    rw [Strict.evalExpr.eq_def]
    cases q with
    | zero => exact (hq rfl).elim
    | _ => simp only [hl]; trivial
  case case13 => intro _ _ hc; simp [closedE] at hc
  case case14 => intro _ _ _ _ hc; simp [closedE] at hc
  case case15 =>
    intro fn es ih hc
    have ih := ih (by simpa [closedE] using hc)
    constructor
    · intro f hf s
      have hb : buildEs env es = .error f := by
        simp only [buildE] at hf; cases h : buildEs env es <;> simp [h, Except.map] at hf; subst hf; rfl
      have := ih.1 f hb s
      rw [Strict.evalExpr.eq_def]; simp only
      rw [Prog.run_bind]
      cases hr : Prog.run (Strict.evalExprs cfg fuel env es) s with
      | ok _ _ => rw [hr] at this; exact this.elim
      | fail _ _ => trivial
    · intro lv hlv ef s t hef hg h1 h2
      obtain ⟨lvs, hb, rfl⟩ : ∃ lvs, buildEs env es = .ok lvs ∧ lv = .call fn lvs := by
        simp only [buildE] at hlv; cases h : buildEs env es <;> simp [h, Except.map] at hlv; exact ⟨_, rfl, hlv.symm⟩
      obtain ⟨ef', rfl⟩ : ∃ k, ef = k + 1 := ⟨ef - 1, by omega⟩
      have hd : depthEs es < ef' := by simp only [depthE] at hef; omega
      have := ih.2 lvs hb ef' s (bump t) hd hg h1 h2
      rw [Strict.evalExpr.eq_def]; simp only
      rw [run_evalL_call cfg ef' fn lvs t h2, Prog.run_bind, Prog.run_bind]
      cases hr1 : Prog.run (Strict.evalExprs cfg fuel env es) s with
      | ok a s1 =>
        cases hr2 : Prog.run (evalLs cfg ef' lvs) (bump t) with
        | ok b t1 =>
          rw [hr1, hr2] at this
          obtain ⟨hv, hg', hr1', hr2', hc1, hc2⟩ := (agree_ok_ok ..).mp this
          subst hv
          simp only [callFnL]
          rw [run_callFn, run_callFn, hg']
          cases hap : (GraphOp.callFn cfg.oracle cfg.tree fn a).apply t1.graph with
          | mk r g' =>
            cases r with
            | ok v => exact (agree_ok_ok ..).mpr ⟨rfl, rfl, hr1', hr2', hc1, hc2⟩
            | error f => exact agree_fail_fail ..
        | fail _ _ => rw [hr1, hr2] at this; exact this.elim
      | fail _ _ =>
        cases hr2 : Prog.run (evalLs cfg ef' lvs) (bump t) with
        | ok _ _ => rw [hr1, hr2] at this; exact this.elim
        | fail _ _ => trivial
  case case16 =>
    intro ix x h
    exact m1_value cfg fuel env _ (.str x) (by simp only [buildE, h]) rfl (fun s => by rw [Strict.evalExpr.eq_def]; simp only [h]; rfl)
  case case17 =>
    intro ix h _
    refine ⟨fun f _ s => ?_, fun lv hlv => by simp [buildE, h] at hlv⟩
    rw [Strict.evalExpr.eq_def]; simp only [h]; trivial
  case case18 => intros; trivial
  case case19 => intros; trivial
  case case20 =>
    intro _
    refine ⟨fun f hf => (by simp [buildEs] at hf), ?_⟩
    intro lvs hl ef s t _ hg h1 h2
    simp only [buildEs] at hl; cases hl
    rw [Strict.evalExprs.eq_def, Lazy.evalLs.eq_def]
    exact (agree_ok_ok ..).mpr ⟨rfl, hg, rfl, rfl, h1, h2⟩
  case case21 =>
    intro e rest ih1 ih3 hc
    have hc' : closedE e = true ∧ closedEs rest = true := by simpa [closedEs] using hc
    have ih1 := ih1 hc'.1
    have ih3 := ih3 hc'.2
    constructor
    · intro f hf s
      rw [Strict.evalExprs.eq_def]; simp only
      rw [Prog.run_bind]
      simp only [buildEs] at hf
      cases hbe : buildE env e with
      | error f1 =>
        have := ih1.1 f1 hbe s
        cases hr : Prog.run (Strict.evalExpr cfg fuel env e) s with
        | ok _ _ => rw [hr] at this; exact this.elim
        | fail _ _ => trivial
      | ok lv =>
        rw [hbe] at hf
        cases hbr : buildEs env rest with
        | ok lvs => rw [hbr] at hf; cases hf
        | error f2 =>
          cases hr : Prog.run (Strict.evalExpr cfg fuel env e) s with
          | fail _ _ => trivial
          | ok v s1 =>
            simp only
            rw [Prog.run_bind]
            have := ih3.1 f2 hbr s1
            cases hr2 : Prog.run (Strict.evalExprs cfg fuel env rest) s1 with
            | ok _ _ => rw [hr2] at this; exact this.elim
            | fail _ _ => trivial
    · intro lvs hl ef s t hd hg h1 h2
      simp only [buildEs] at hl
      cases hbe : buildE env e with
      | error f1 => rw [hbe] at hl; cases hl
      | ok lv =>
        rw [hbe] at hl
        cases hbr : buildEs env rest with
        | error f2 => rw [hbr] at hl; cases hl
        | ok lvr =>
          rw [hbr] at hl; cases hl
          have hd1 : depthE e < ef := by simp only [depthEs] at hd; omega
          have hd2 : depthEs rest < ef := by simp only [depthEs] at hd; omega
          have a1 := ih1.2 lv hbe ef s t hd1 hg h1 h2
          rw [Strict.evalExprs.eq_def, Lazy.evalLs.eq_def]; simp only
          rw [Prog.run_bind, Prog.run_bind]
          cases hr1 : Prog.run (Strict.evalExpr cfg fuel env e) s with
          | fail _ _ =>
            cases hr2 : Prog.run (evalL cfg ef lv) t with
            | ok _ _ => rw [hr1, hr2] at a1; exact a1.elim
            | fail _ _ => trivial
          | ok v s1 =>
            cases hr2 : Prog.run (evalL cfg ef lv) t with
            | fail _ _ => rw [hr1, hr2] at a1; exact a1.elim
            | ok v' t1 =>
              rw [hr1, hr2] at a1
              obtain ⟨hv, hg', hs1, ht1, hc1, hc2⟩ := (agree_ok_ok ..).mp a1
              subst hv
              simp only
              rw [Prog.run_bind, Prog.run_bind]
              have a3 := ih3.2 lvr hbr ef s1 t1 hd2 hg' hc1 hc2
              cases hr3 : Prog.run (Strict.evalExprs cfg fuel env rest) s1 with
              | fail _ _ =>
                cases hr4 : Prog.run (evalLs cfg ef lvr) t1 with
                | ok _ _ => rw [hr3, hr4] at a3; exact a3.elim
                | fail _ _ => trivial
              | ok vs s2 =>
                cases hr4 : Prog.run (evalLs cfg ef lvr) t1 with
                | fail _ _ => rw [hr3, hr4] at a3; exact a3.elim
                | ok vs' t2 =>
                  rw [hr3, hr4] at a3
                  obtain ⟨hv, hg'', hs2, ht2, hc3, hc4⟩ := (agree_ok_ok ..).mp a3
                  subst hv
                  exact (agree_ok_ok ..).mpr ⟨rfl, hg'', hs2.trans hs1, ht2.trans ht1, hc3, hc4⟩


/-- the statement of agreement used by the theorems below -/
def AgreeF {α : Type} (s : MSt SRest) (t : MSt LSt) (r1 : Res (MSt SRest) α) (r2 : Res (MSt LSt) α) : Prop :=
  match r1, r2 with
  | .ok v s', .ok v' t' => v = v' ∧ s'.graph = t'.graph ∧ s'.rest = s.rest ∧ t'.rest = t.rest
  | .fail _ _, .fail _ _ => True
  | _, _ => False

theorem agreeF_post {α β : Type} (s : MSt SRest) (t : MSt LSt) (m1 : SM α) (m2 : LM α) (k : α → Except Fail β)
    (h : AgreeF s t (Prog.run m1 s) (Prog.run m2 t)) :
    AgreeF s t (Prog.run (m1 >>= fun v => Prog.ofExceptF (k v)) s) (Prog.run (m2 >>= fun v => Prog.ofExceptF (k v)) t) := by
  rw [Prog.run_bind, Prog.run_bind]
  cases hr1 : Prog.run m1 s with
  | ok a s1 =>
    cases hr2 : Prog.run m2 t with
    | ok b t1 =>
      rw [hr1, hr2] at h
      obtain ⟨hv, hg, h1, h2⟩ := h
      subst hv
      simp only
      cases k a with
      | ok x => exact ⟨rfl, hg, h1, h2⟩
      | error f => trivial
    | fail _ _ => rw [hr1, hr2] at h; exact h.elim
  | fail e s1 =>
    cases hr2 : Prog.run m2 t with
    | ok _ _ => rw [hr1, hr2] at h; exact h.elim
    | fail _ _ => trivial

/-- **strict and lazy evaluation agree on closed expressions.** For every expression built from literals, captures, regex
captures, list and set literals and function calls (nested to any depth; the calls may create graph nodes), every match,
every pair of machine states holding the same graph, in uncancelled runs with enough evaluation fuel for the expression's
depth: strict evaluation succeeds exactly when lazy evaluation (build, then force) succeeds; the two values are equal, the
two graphs are equal afterwards (calls ran in the same order), and neither touched its variables. When one fails the
other fails (the errors may differ: lazy evaluation resolves every capture before it calls any function). -/
theorem closed_expressions_agree (cfg : Cfg) (fuel ef : Nat) (env : Env) (e : Expr) (hc : closedE e = true)
    (hd : depthE e < ef) (s : MSt SRest) (t : MSt LSt) (hg : s.graph = t.graph)
    (h1 : s.ps.cancelAt = none) (h2 : t.ps.cancelAt = none) :
    AgreeF s t (Prog.run (Strict.evalExpr cfg fuel env e) s) (Prog.run (Lazy.eagerExpr cfg fuel ef env e) t) := by
  have hm := (agree_exprs cfg fuel env).1 e hc
  have hb := (build_lazyExprs cfg fuel ef env).1 e hc t
  unfold Lazy.eagerExpr
  rw [Prog.run_bind, hb]
  cases hbe : buildE env e with
  | error f =>
    simp only [stateless]
    have := hm.1 f hbe s
    cases hr : Prog.run (Strict.evalExpr cfg fuel env e) s with
    | ok _ _ => rw [hr] at this; exact this.elim
    | fail _ _ => trivial
  | ok lv =>
    simp only [stateless]
    have := hm.2 lv hbe ef s t hd hg h1 h2
    cases hr : Prog.run (Strict.evalExpr cfg fuel env e) s with
    | ok v s' =>
      cases hr2 : Prog.run (evalL cfg ef lv) t with
      | ok v' t' =>
        rw [hr, hr2] at this
        obtain ⟨a, b, c, d, _, _⟩ := (agree_ok_ok ..).mp this
        exact ⟨a, b, c, d⟩
      | fail _ _ => rw [hr, hr2] at this; exact (agree_ok_fail _ _ _ _ _ _ this).elim
    | fail _ _ =>
      cases hr2 : Prog.run (evalL cfg ef lv) t with
      | ok _ _ => rw [hr, hr2] at this; exact (agree_fail_ok _ _ _ _ _ _ this).elim
      | fail _ _ => trivial

/-- non-vacuity: a nested closed expression with a call that creates a node -/
example : closedE (.list [.call "node" [], .set [.int 1, .str "a"], .regexCap 0]) = true ∧
    depthE (.list [.call "node" [], .set [.int 1, .str "a"], .regexCap 0]) < 3 := by decide


/-- **conditions agree.** `some e`, `none e` and a boolean `e` over a closed expression take the same branch in both
modes (or fail in both): `if` and `elif` arms are selected alike. -/
theorem closed_conditions_agree (cfg : Cfg) (fuel ef : Nat) (env : Env) (c : Cond) (e : Expr) (l : Loc)
    (hcnd : c = .some e l ∨ c = .none e l ∨ c = .bool e l) (hc : closedE e = true)
    (hd : depthE e < ef) (s : MSt SRest) (t : MSt LSt) (hg : s.graph = t.graph)
    (h1 : s.ps.cancelAt = none) (h2 : t.ps.cancelAt = none) :
    AgreeF s t (Prog.run (Strict.testCond cfg fuel env c) s) (Prog.run (Lazy.testCondL cfg fuel ef env c) t) := by
  have hmain : AgreeF s t (Prog.run (Strict.evalExpr cfg fuel env e) s) (Prog.run (Lazy.eagerExpr cfg fuel ef env e) t) :=
    closed_expressions_agree cfg fuel ef env e hc hd s t hg h1 h2
  rcases hcnd with rfl | rfl | rfl
  · exact agreeF_post s t _ _ (fun v => .ok (!v.isNull)) hmain
  · exact agreeF_post s t _ _ (fun v => .ok v.isNull) hmain
  · have := agreeF_post s t _ _ (fun v => match Stdlib.asBool v with | .ok b => .ok b | .error k => .error (.err (.base k ""))) hmain
    have hf1 : (fun v => (Prog.ofExcept (Stdlib.asBool v) : SM Bool)) =
        fun v => Prog.ofExceptF (match Stdlib.asBool v with | .ok b => .ok b | .error k => .error (.err (.base k ""))) := by
      funext v; simp only [Prog.ofExcept, Prog.ofExceptF, Prog.throwK]; cases Stdlib.asBool v <;> rfl
    have hf2 : (fun v => (Prog.ofExcept (Stdlib.asBool v) : LM Bool)) =
        fun v => Prog.ofExceptF (match Stdlib.asBool v with | .ok b => .ok b | .error k => .error (.err (.base k ""))) := by
      funext v; simp only [Prog.ofExcept, Prog.ofExceptF, Prog.throwK]; cases Stdlib.asBool v <;> rfl
    simp only [Strict.testCond, Lazy.testCondL]
    rw [hf1, hf2]
    exact this


/-! ### a whole `attr` statement on a node, closed values, no shorthands -/

/-- both succeed with equal graphs (still uncancelled), or both fail -/
def AgreeG (r1 : Res (MSt SRest) Unit) (r2 : Res (MSt LSt) Unit) : Prop :=
  match r1, r2 with
  | .ok _ s', .ok _ t' => s'.graph = t'.graph ∧ s'.ps.cancelAt = none ∧ t'.ps.cancelAt = none
  | .fail _ _, .fail _ _ => True
  | _, _ => False

/-- attribute lists whose values are closed expressions and whose names are plain attributes (no shorthand) -/
def closedAttrs (cfg : Cfg) (ef : Nat) (attrs : List AttrE) : Prop :=
  ∀ a ∈ attrs, closedE a.2 = true ∧ depthE a.2 < ef ∧ Strict.findShorthand cfg a.1 = none

def buildAttrs (env : Env) : List AttrE → Except Fail (List (String × LVal))
  | [] => .ok []
  | (name, e) :: rest =>
    match buildE env e with
    | .error f => .error f
    | .ok lv =>
      match buildAttrs env rest with
      | .error f => .error f
      | .ok l => .ok ((name, lv) :: l)

def addPolls {ρ : Type} (t : MSt ρ) (k : Nat) : MSt ρ := { t with ps := { t.ps with polls := t.ps.polls + k } }
theorem addPolls_cancel {ρ : Type} (t : MSt ρ) (k : Nat) : (addPolls t k).ps.cancelAt = t.ps.cancelAt := rfl
theorem addPolls_graph {ρ : Type} (t : MSt ρ) (k : Nat) : (addPolls t k).graph = t.graph := rfl
theorem bump_eq {ρ : Type} (t : MSt ρ) : bump t = addPolls t 1 := rfl
theorem addPolls_add {ρ : Type} (t : MSt ρ) (a b : Nat) : addPolls (addPolls t a) b = addPolls t (a + b) := by
  simp [addPolls, Nat.add_assoc]

/-- collecting the attributes of a statement (lazy): nothing is evaluated, the state only counts polls -/
theorem run_lazyAttrs_closed (cfg : Cfg) (fuel ef : Nat) (env : Env) (attrs : List AttrE) (acc : List (String × LVal))
    (hc : closedAttrs cfg ef attrs) (t : MSt LSt) (ht : t.ps.cancelAt = none) :
    ∃ k, Prog.run (lazyAttrs cfg fuel ef env attrs acc) t =
      match buildAttrs env attrs with
      | .ok l => .ok (acc ++ l) (addPolls t k)
      | .error f => .fail f (addPolls t k) := by
  induction attrs generalizing acc t with
  | nil =>
    refine ⟨0, ?_⟩
    rw [Lazy.lazyAttrs.eq_def]
    simp only [buildAttrs, List.append_nil]
    rfl
  | cons a rest ih =>
    obtain ⟨name, e⟩ := a
    have ha := hc (name, e) (List.mem_cons_self ..)
    have hrest : closedAttrs cfg ef rest := fun b hb => hc b (List.mem_cons_of_mem _ hb)
    rw [Lazy.lazyAttrs.eq_def]
    simp only
    rw [run_poll_bind _ _ t ht, Prog.run_bind, (build_lazyExprs cfg fuel ef env).1 e ha.1 (bump t)]
    simp only [buildAttrs]
    cases hb : buildE env e with
    | error f => exact ⟨1, rfl⟩
    | ok lv =>
      simp only [stateless, ha.2.2]
      obtain ⟨k, hk⟩ := ih (acc ++ [(name, lv)]) hrest (bump t) ht
      refine ⟨1 + k, ?_⟩
      rw [hk, bump_eq, addPolls_add]
      cases buildAttrs env rest with
      | error f => rfl
      | ok l => simp


theorem agreeG_fail_of_fail (r1 : Res (MSt SRest) Unit) (r2 : Res (MSt LSt) Unit) (h1 : isFail r1) (h2 : isFail r2) : AgreeG r1 r2 := by
  cases r1 <;> cases r2 <;> first | trivial | exact h1.elim | exact h2.elim

theorem run_addNodeAttr {ρ : Type} (n : Nat) (k : String) (v : Val) (f : Fail) (s : MSt ρ) :
    Prog.run (gopP (ρ := ρ) (.addNodeAttr n k v f)) s =
      match s.graph.addNodeAttr n k v with
      | none => .ok none s
      | some (g', false) => .ok (some ()) { s with graph := g' }
      | some (g', true) => .fail f { s with graph := g' } := by
  simp only [gopP, Prog.run, GraphOp.apply]
  cases h : s.graph.addNodeAttr n k v with
  | none => rfl
  | some p =>
    obtain ⟨g', c⟩ := p
    cases c <;> rfl

theorem strict_attr_step {β : Type} (n : Nat) (name : String) (v : Val) (k : Unit → SM β) (s1 : MSt SRest) :
    Prog.run (Strict.addAttribute (ρ := SRest) (.node n) name v >>= k) s1 =
      match s1.graph.addNodeAttr n name v with
      | none => .fail (.panic "graph index") s1
      | some (g', false) => Prog.run (k ()) { s1 with graph := g' }
      | some (g', true) => .fail (.err (.base .duplicateAttribute "")) { s1 with graph := g' } := by
  rw [Prog.run_bind]
  simp only [Strict.addAttribute]
  rw [Prog.run_bind, run_addNodeAttr]
  cases hadd : s1.graph.addNodeAttr n name v with
  | none => rfl
  | some p =>
    obtain ⟨g', c⟩ := p
    cases c <;> rfl

def recorded (t : MSt LSt) (key : ElemKey) (dbg : StmtCtx) : MSt LSt :=
  { t with rest := { t.rest with prevDbg := t.rest.prevDbg.filter (·.1 ≠ key) ++ [(key, dbg)] } }

theorem lazy_attr_step (cfg : Cfg) (ef n : Nat) (name : String) (lv : LVal) (dbg : StmtCtx) (l : List (String × LVal)) (t : MSt LSt) :
    Prog.run (evalNodeAttrs cfg ef n dbg ((name, lv) :: l)) t =
      match Prog.run (evalL cfg ef lv) t with
      | .fail f t1 => .fail f t1
      | .ok v t1 =>
        match t1.graph.addNodeAttr n name v with
        | none => .fail (.panic "graph index") (recorded t1 (.nodeAttr n name) dbg)
        | some (g', false) => Prog.run (evalNodeAttrs cfg ef n dbg l) { recorded t1 (.nodeAttr n name) dbg with graph := g' }
        | some (g', true) => .fail (conflictFail (t1.rest.prevDbg.lookup (.nodeAttr n name)) dbg)
            { recorded t1 (.nodeAttr n name) dbg with graph := g' } := by
  rw [evalNodeAttrs, Prog.run_bind]
  cases Prog.run (evalL cfg ef lv) t with
  | fail f t1 => rfl
  | ok v t1 =>
    dsimp only
    rw [Prog.run_bind]
    simp only [recordPrev, primP, Prog.run]
    rw [Prog.run_bind, run_addNodeAttr]
    simp only [recorded]
    cases hadd : t1.graph.addNodeAttr n name v with
    | none => rfl
    | some p =>
      obtain ⟨g', c⟩ := p
      cases c <;> rfl

/-- strict execution of the attribute list against lazy evaluation of what was built from it -/
theorem agree_nodeAttrs (cfg : Cfg) (fuel ef : Nat) (env : Env) (n : Nat) (dbg : StmtCtx) (attrs : List AttrE)
    (hc : closedAttrs cfg ef attrs) (bl : List (String × LVal)) (hb : buildAttrs env attrs = .ok bl)
    (s : MSt SRest) (t : MSt LSt) (hg : s.graph = t.graph) (h1 : s.ps.cancelAt = none) (h2 : t.ps.cancelAt = none) :
    AgreeG (Prog.run (Strict.execAttrs cfg fuel env (.node n) attrs) s) (Prog.run (evalNodeAttrs cfg ef n dbg bl) t) := by
  induction attrs generalizing bl s t with
  | nil =>
    simp only [buildAttrs] at hb; cases hb
    rw [Strict.execAttrs.eq_def]
    exact ⟨hg, h1, h2⟩
  | cons a rest ih =>
    obtain ⟨name, e⟩ := a
    have ha := hc (name, e) (List.mem_cons_self ..)
    have hrest : closedAttrs cfg ef rest := fun b hb => hc b (List.mem_cons_of_mem _ hb)
    simp only [buildAttrs] at hb
    cases hbe : buildE env e with
    | error f => rw [hbe] at hb; cases hb
    | ok lv =>
      rw [hbe] at hb
      cases hbr : buildAttrs env rest with
      | error f => rw [hbr] at hb; cases hb
      | ok l =>
        rw [hbr] at hb; cases hb
        rw [Strict.execAttrs.eq_def]
        simp only [ha.2.2]
        rw [run_poll_bind _ _ s h1, Prog.run_bind, lazy_attr_step]
        have hag := ((agree_exprs cfg fuel env).1 e ha.1).2 lv hbe ef (bump s) t ha.2.1 hg h1 h2
        cases hr1 : Prog.run (Strict.evalExpr cfg fuel env e) (bump s) with
        | fail _ _ =>
          cases hr2 : Prog.run (evalL cfg ef lv) t with
          | ok _ _ => rw [hr1, hr2] at hag; exact (agree_fail_ok _ _ _ _ _ _ hag).elim
          | fail _ _ => trivial
        | ok v s1 =>
          cases hr2 : Prog.run (evalL cfg ef lv) t with
          | fail _ _ => rw [hr1, hr2] at hag; exact (agree_ok_fail _ _ _ _ _ _ hag).elim
          | ok v' t1 =>
            rw [hr1, hr2] at hag
            obtain ⟨hv, hg1, _, _, hc1, hc2⟩ := (agree_ok_ok ..).mp hag
            subst hv
            dsimp only
            rw [strict_attr_step, hg1]
            cases hadd : t1.graph.addNodeAttr n name v with
            | none => trivial
            | some p =>
              obtain ⟨g', c⟩ := p
              cases c with
              | true => trivial
              | false =>
                dsimp only
                exact ih hrest l hbr _ _ rfl hc1 hc2

/-- when building fails (a capture that cannot be resolved), strict execution of the list fails too -/
theorem strict_attrs_fail_of_build (cfg : Cfg) (fuel ef : Nat) (env : Env) (n : Nat) (attrs : List AttrE)
    (hc : closedAttrs cfg ef attrs) (f : Fail) (hb : buildAttrs env attrs = .error f)
    (s : MSt SRest) (h1 : s.ps.cancelAt = none) :
    isFail (Prog.run (Strict.execAttrs cfg fuel env (.node n) attrs) s) := by
  induction attrs generalizing s f with
  | nil => simp [buildAttrs] at hb
  | cons a rest ih =>
    obtain ⟨name, e⟩ := a
    have ha := hc (name, e) (List.mem_cons_self ..)
    have hrest : closedAttrs cfg ef rest := fun b hb => hc b (List.mem_cons_of_mem _ hb)
    rw [Strict.execAttrs.eq_def]
    simp only [ha.2.2]
    rw [run_poll_bind _ _ s h1, Prog.run_bind]
    simp only [buildAttrs] at hb
    cases hbe : buildE env e with
    | error f1 =>
      have := ((agree_exprs cfg fuel env).1 e ha.1).1 f1 hbe (bump s)
      cases hr : Prog.run (Strict.evalExpr cfg fuel env e) (bump s) with
      | ok _ _ => rw [hr] at this; exact this.elim
      | fail _ _ => trivial
    | ok lv =>
      rw [hbe] at hb
      cases hbr : buildAttrs env rest with
      | ok l => rw [hbr] at hb; cases hb
      | error f2 =>
        cases hr : Prog.run (Strict.evalExpr cfg fuel env e) (bump s) with
        | fail _ _ => trivial
        | ok v s1 =>
          dsimp only
          rw [strict_attr_step]
          have hs1 : s1.ps.cancelAt = none := by
            have := Prog.cancelAt_preserved (Strict.evalExpr cfg fuel env e) (bump s)
            rw [hr] at this
            simpa [Prog.Res.st, bump_cancel, h1] using this
          cases hadd : s1.graph.addNodeAttr n name v with
          | none => trivial
          | some p =>
            obtain ⟨g', c⟩ := p
            cases c with
            | true => trivial
            | false =>
              simp only
              exact ih hrest f2 hbr _ hs1


/-- **an `attr` statement on a node, with closed values.** Strict execution applies each attribute as soon as its value is
evaluated; lazy execution first collects the attributes (`lazyAttrs`, at match time) and applies them later
(`evalNodeAttrs`, in the evaluate phase, from any later state `t'` holding the same graph). Both succeed or both fail, and
after success the graphs are equal: same attribute values on the node, same nodes created by `node` calls in the values,
in the same order. -/
theorem closed_node_attrs_agree (cfg : Cfg) (fuel ef : Nat) (env : Env) (n : Nat) (dbg : StmtCtx) (attrs : List AttrE)
    (hc : closedAttrs cfg ef attrs) (s : MSt SRest) (t t' : MSt LSt)
    (hg : s.graph = t'.graph) (h1 : s.ps.cancelAt = none) (h2 : t.ps.cancelAt = none) (h3 : t'.ps.cancelAt = none) :
    match Prog.run (lazyAttrs cfg fuel ef env attrs []) t with
    | .fail _ _ => isFail (Prog.run (Strict.execAttrs cfg fuel env (.node n) attrs) s)
    | .ok built _ => AgreeG (Prog.run (Strict.execAttrs cfg fuel env (.node n) attrs) s)
                            (Prog.run (evalNodeAttrs cfg ef n dbg built) t') := by
  obtain ⟨k, hk⟩ := run_lazyAttrs_closed cfg fuel ef env attrs [] hc t h2
  rw [hk]
  cases hb : buildAttrs env attrs with
  | error f =>
    dsimp only
    exact strict_attrs_fail_of_build cfg fuel ef env n attrs hc f hb s h1
  | ok bl =>
    dsimp only
    rw [List.nil_append]
    exact agree_nodeAttrs cfg fuel ef env n dbg attrs hc bl hb s t' hg h1 h3


/-! ### a whole `attr` statement on an edge -/

theorem run_addEdgeAttr {ρ : Type} (a b : Nat) (k : String) (v : Val) (f : Fail) (s : MSt ρ) :
    Prog.run (gopP (ρ := ρ) (.addEdgeAttr a b k v f)) s =
      match s.graph.addEdgeAttr a b k v with
      | none => .ok none s
      | some none => .ok (some none) s
      | some (some (g', false)) => .ok (some (some ())) { s with graph := g' }
      | some (some (g', true)) => .fail f { s with graph := g' } := by
  simp only [gopP, Prog.run, GraphOp.apply]
  cases h : s.graph.addEdgeAttr a b k v with
  | none => rfl
  | some o =>
    cases o with
    | none => rfl
    | some p =>
      obtain ⟨g', c⟩ := p
      cases c <;> rfl

theorem strict_edge_attr_step {β : Type} (a b : Nat) (name : String) (v : Val) (k : Unit → SM β) (s1 : MSt SRest) :
    Prog.run (Strict.addAttribute (ρ := SRest) (.edge a b) name v >>= k) s1 =
      match s1.graph.addEdgeAttr a b name v with
      | none => .fail (.panic "graph index") s1
      | some none => .fail (.err (.base .undefinedEdge "")) s1
      | some (some (g', false)) => Prog.run (k ()) { s1 with graph := g' }
      | some (some (g', true)) => .fail (.err (.base .duplicateAttribute "")) { s1 with graph := g' } := by
  rw [Prog.run_bind]
  simp only [Strict.addAttribute]
  rw [Prog.run_bind, run_addEdgeAttr]
  cases hadd : s1.graph.addEdgeAttr a b name v with
  | none => rfl
  | some o =>
    cases o with
    | none => rfl
    | some p =>
      obtain ⟨g', c⟩ := p
      cases c <;> rfl

theorem addEdgeAttr_none_iff (g : CGraph) (a b : Nat) (k : String) (v : Val) :
    (g.addEdgeAttr a b k v = none ↔ g.node? a = none) ∧
    (g.addEdgeAttr a b k v = some none ↔ (g.node? a).isSome ∧ g.getEdge a b = none) := by
  simp only [CGraph.addEdgeAttr, CGraph.getEdge]
  cases hn : g.node? a with
  | none => simp
  | some nd =>
    cases he : nd.getEdge b with
    | none => simp [he]
    | some ea => simp [he]


theorem run_read_bind {ρ β : Type} (k : CGraph → Prog ρ β) (t : MSt ρ) :
    Prog.run (gopP (ρ := ρ) .read >>= k) t = Prog.run (k t.graph) t := by
  simp [gopP, Bind.bind, Prog.bind, Prog.run, GraphOp.apply]

theorem lazy_edge_attr_step (cfg : Cfg) (ef a b : Nat) (name : String) (lv : LVal) (dbg : StmtCtx) (l : List (String × LVal)) (t : MSt LSt) :
    Prog.run (evalEdgeAttrs cfg ef a b dbg ((name, lv) :: l)) t =
      match Prog.run (evalL cfg ef lv) t with
      | .fail f t1 => .fail f t1
      | .ok v t1 =>
        match t1.graph.addEdgeAttr a b name v with
        | none => .fail (.panic "graph index") t1
        | some none => .fail (.err (.base .undefinedEdge "")) t1
        | some (some (g', false)) => Prog.run (evalEdgeAttrs cfg ef a b dbg l) { recorded t1 (.edgeAttr a b name) dbg with graph := g' }
        | some (some (g', true)) => .fail (conflictFail (t1.rest.prevDbg.lookup (.edgeAttr a b name)) dbg)
            { recorded t1 (.edgeAttr a b name) dbg with graph := g' } := by
  rw [evalEdgeAttrs, Prog.run_bind]
  cases Prog.run (evalL cfg ef lv) t with
  | fail f t1 => rfl
  | ok v t1 =>
    dsimp only
    rw [run_read_bind]
    have h1 := (addEdgeAttr_none_iff t1.graph a b name v).1
    have h2 := (addEdgeAttr_none_iff t1.graph a b name v).2
    cases hge : t1.graph.getEdge a b with
    | none =>
      dsimp only
      cases hn : t1.graph.node? a with
      | none =>
        have : t1.graph.addEdgeAttr a b name v = none := h1.mpr hn
        rw [this]
        simp [panicAt, Prog.run]
      | some nd =>
        have : t1.graph.addEdgeAttr a b name v = some none := h2.mpr ⟨by simp [hn], hge⟩
        rw [this]
        simp [throwK, Prog.run]
    | some ea =>
      dsimp only
      rw [Prog.run_bind]
      simp only [recordPrev, primP, Prog.run]
      rw [Prog.run_bind, run_addEdgeAttr]
      simp only [recorded]
      cases hadd : t1.graph.addEdgeAttr a b name v with
      | none =>
        have := h1.mp hadd
        simp [CGraph.getEdge, this] at hge
      | some o =>
        cases o with
        | none =>
          have := (h2.mp hadd).2
          rw [this] at hge; cases hge
        | some p =>
          obtain ⟨g', c⟩ := p
          cases c <;> rfl

/-- strict execution of an attribute list on an EDGE against lazy evaluation of what was built from it -/
theorem agree_edgeAttrs (cfg : Cfg) (fuel ef : Nat) (env : Env) (a b : Nat) (dbg : StmtCtx) (attrs : List AttrE)
    (hc : closedAttrs cfg ef attrs) (bl : List (String × LVal)) (hb : buildAttrs env attrs = .ok bl)
    (s : MSt SRest) (t : MSt LSt) (hg : s.graph = t.graph) (h1 : s.ps.cancelAt = none) (h2 : t.ps.cancelAt = none) :
    AgreeG (Prog.run (Strict.execAttrs cfg fuel env (.edge a b) attrs) s) (Prog.run (evalEdgeAttrs cfg ef a b dbg bl) t) := by
  induction attrs generalizing bl s t with
  | nil =>
    simp only [buildAttrs] at hb; cases hb
    rw [Strict.execAttrs.eq_def]
    exact ⟨hg, h1, h2⟩
  | cons x rest ih =>
    obtain ⟨name, e⟩ := x
    have ha := hc (name, e) (List.mem_cons_self ..)
    have hrest : closedAttrs cfg ef rest := fun y hy => hc y (List.mem_cons_of_mem _ hy)
    simp only [buildAttrs] at hb
    cases hbe : buildE env e with
    | error f => rw [hbe] at hb; cases hb
    | ok lv =>
      rw [hbe] at hb
      cases hbr : buildAttrs env rest with
      | error f => rw [hbr] at hb; cases hb
      | ok l =>
        rw [hbr] at hb; cases hb
        rw [Strict.execAttrs.eq_def]
        simp only [ha.2.2]
        rw [run_poll_bind _ _ s h1, Prog.run_bind, lazy_edge_attr_step]
        have hag := ((agree_exprs cfg fuel env).1 e ha.1).2 lv hbe ef (bump s) t ha.2.1 hg h1 h2
        cases hr1 : Prog.run (Strict.evalExpr cfg fuel env e) (bump s) with
        | fail _ _ =>
          cases hr2 : Prog.run (evalL cfg ef lv) t with
          | ok _ _ => rw [hr1, hr2] at hag; exact (agree_fail_ok _ _ _ _ _ _ hag).elim
          | fail _ _ => trivial
        | ok v s1 =>
          cases hr2 : Prog.run (evalL cfg ef lv) t with
          | fail _ _ => rw [hr1, hr2] at hag; exact (agree_ok_fail _ _ _ _ _ _ hag).elim
          | ok v' t1 =>
            rw [hr1, hr2] at hag
            obtain ⟨hv, hg1, _, _, hc1, hc2⟩ := (agree_ok_ok ..).mp hag
            subst hv
            dsimp only
            rw [strict_edge_attr_step, hg1]
            cases hadd : t1.graph.addEdgeAttr a b name v with
            | none => trivial
            | some o =>
              cases o with
              | none => trivial
              | some p =>
                obtain ⟨g', c⟩ := p
                cases c with
                | true => trivial
                | false =>
                  dsimp only
                  exact ih hrest l hbr _ _ rfl hc1 hc2


theorem strict_edge_attrs_fail_of_build (cfg : Cfg) (fuel ef : Nat) (env : Env) (a b : Nat) (attrs : List AttrE)
    (hc : closedAttrs cfg ef attrs) (f : Fail) (hb : buildAttrs env attrs = .error f)
    (s : MSt SRest) (h1 : s.ps.cancelAt = none) :
    isFail (Prog.run (Strict.execAttrs cfg fuel env (.edge a b) attrs) s) := by
  induction attrs generalizing s f with
  | nil => simp [buildAttrs] at hb
  | cons x rest ih =>
    obtain ⟨name, e⟩ := x
    have ha := hc (name, e) (List.mem_cons_self ..)
    have hrest : closedAttrs cfg ef rest := fun y hy => hc y (List.mem_cons_of_mem _ hy)
    rw [Strict.execAttrs.eq_def]
    simp only [ha.2.2]
    rw [run_poll_bind _ _ s h1, Prog.run_bind]
    simp only [buildAttrs] at hb
    cases hbe : buildE env e with
    | error f1 =>
      have := ((agree_exprs cfg fuel env).1 e ha.1).1 f1 hbe (bump s)
      cases hr : Prog.run (Strict.evalExpr cfg fuel env e) (bump s) with
      | ok _ _ => rw [hr] at this; exact this.elim
      | fail _ _ => trivial
    | ok lv =>
      rw [hbe] at hb
      cases hbr : buildAttrs env rest with
      | ok l => rw [hbr] at hb; cases hb
      | error f2 =>
        cases hr : Prog.run (Strict.evalExpr cfg fuel env e) (bump s) with
        | fail _ _ => trivial
        | ok v s1 =>
          dsimp only
          rw [strict_edge_attr_step]
          have hs1 : s1.ps.cancelAt = none := by
            have := Prog.cancelAt_preserved (Strict.evalExpr cfg fuel env e) (bump s)
            rw [hr] at this
            simpa [Prog.Res.st, bump_cancel, h1] using this
          cases hadd : s1.graph.addEdgeAttr a b name v with
          | none => trivial
          | some o =>
            cases o with
            | none => trivial
            | some p =>
              obtain ⟨g', c⟩ := p
              cases c with
              | true => trivial
              | false =>
                dsimp only
                exact ih hrest f2 hbr _ hs1

/-- **an `attr` statement on an EDGE, with closed values and plain names**: as `closed_node_attrs_agree`; an edge that does
not exist when the attributes are applied is `UndefinedEdge` in both modes -/
theorem closed_edge_attrs_agree (cfg : Cfg) (fuel ef : Nat) (env : Env) (a b : Nat) (dbg : StmtCtx) (attrs : List AttrE)
    (hc : closedAttrs cfg ef attrs) (s : MSt SRest) (t t' : MSt LSt)
    (hg : s.graph = t'.graph) (h1 : s.ps.cancelAt = none) (h2 : t.ps.cancelAt = none) (h3 : t'.ps.cancelAt = none) :
    match Prog.run (lazyAttrs cfg fuel ef env attrs []) t with
    | .fail _ _ => isFail (Prog.run (Strict.execAttrs cfg fuel env (.edge a b) attrs) s)
    | .ok built _ => AgreeG (Prog.run (Strict.execAttrs cfg fuel env (.edge a b) attrs) s)
                            (Prog.run (evalEdgeAttrs cfg ef a b dbg built) t') := by
  obtain ⟨k, hk⟩ := run_lazyAttrs_closed cfg fuel ef env attrs [] hc t h2
  rw [hk]
  cases hb : buildAttrs env attrs with
  | error f =>
    dsimp only
    exact strict_edge_attrs_fail_of_build cfg fuel ef env a b attrs hc f hb s h1
  | ok bl =>
    dsimp only
    rw [List.nil_append]
    exact agree_edgeAttrs cfg fuel ef env a b dbg attrs hc bl hb s t' hg h1 h3


/-! ### condition lists -/

/-- the expression a condition tests -/
def condExpr : Cond → Expr
  | .some e _ => e
  | .none e _ => e
  | .bool e _ => e

/-- **condition lists agree.** `if c1, c2, …` evaluates every condition (no short-circuit) in both modes; over closed
expressions the conjunction is the same boolean in both modes, or both fail -/
theorem closed_conds_agree (cfg : Cfg) (fuel ef : Nat) (env : Env) (cs : List Cond)
    (hc : ∀ c ∈ cs, closedE (condExpr c) = true ∧ depthE (condExpr c) < ef)
    (s : MSt SRest) (t : MSt LSt) (hg : s.graph = t.graph) (h1 : s.ps.cancelAt = none) (h2 : t.ps.cancelAt = none) :
    Agree s t (Prog.run (Strict.testConds cfg fuel env cs) s) (Prog.run (Lazy.testCondsL cfg fuel ef env cs) t) := by
  induction cs generalizing s t with
  | nil =>
    simp only [Strict.testConds, Lazy.testCondsL]
    exact (agree_ok_ok ..).mpr ⟨rfl, hg, rfl, rfl, h1, h2⟩
  | cons c rest ih =>
    have hcc := hc c (List.mem_cons_self ..)
    have hrest : ∀ c' ∈ rest, closedE (condExpr c') = true ∧ depthE (condExpr c') < ef := fun c' h => hc c' (List.mem_cons_of_mem _ h)
    simp only [Strict.testConds, Lazy.testCondsL]
    rw [Prog.run_bind, Prog.run_bind]
    have hcond : AgreeF s t (Prog.run (Strict.testCond cfg fuel env c) s) (Prog.run (Lazy.testCondL cfg fuel ef env c) t) := by
      cases c with
      | some e l => exact closed_conditions_agree cfg fuel ef env _ e l (Or.inl rfl) hcc.1 hcc.2 s t hg h1 h2
      | none e l => exact closed_conditions_agree cfg fuel ef env _ e l (Or.inr (Or.inl rfl)) hcc.1 hcc.2 s t hg h1 h2
      | bool e l => exact closed_conditions_agree cfg fuel ef env _ e l (Or.inr (Or.inr rfl)) hcc.1 hcc.2 s t hg h1 h2
    cases hr1 : Prog.run (Strict.testCond cfg fuel env c) s with
    | fail _ _ =>
      cases hr2 : Prog.run (Lazy.testCondL cfg fuel ef env c) t with
      | ok _ _ => rw [hr1, hr2] at hcond; exact hcond.elim
      | fail _ _ => exact agree_fail_fail ..
    | ok b s1 =>
      cases hr2 : Prog.run (Lazy.testCondL cfg fuel ef env c) t with
      | fail _ _ => rw [hr1, hr2] at hcond; exact hcond.elim
      | ok b' t1 =>
        rw [hr1, hr2] at hcond
        obtain ⟨hb, hg1, hs1, ht1⟩ := hcond
        subst hb
        have hc1 : s1.ps.cancelAt = none := by
          have := Prog.cancelAt_preserved (Strict.testCond cfg fuel env c) s
          rw [hr1] at this; simpa [Prog.Res.st, h1] using this
        have hc2 : t1.ps.cancelAt = none := by
          have := Prog.cancelAt_preserved (Lazy.testCondL cfg fuel ef env c) t
          rw [hr2] at this; simpa [Prog.Res.st, h2] using this
        dsimp only
        rw [Prog.run_bind, Prog.run_bind]
        have := ih hrest s1 t1 hg1 hc1 hc2
        cases hr3 : Prog.run (Strict.testConds cfg fuel env rest) s1 with
        | fail _ _ =>
          cases hr4 : Prog.run (Lazy.testCondsL cfg fuel ef env rest) t1 with
          | ok _ _ => rw [hr3, hr4] at this; exact (agree_fail_ok _ _ _ _ _ _ this).elim
          | fail _ _ => exact agree_fail_fail ..
        | ok bs s2 =>
          cases hr4 : Prog.run (Lazy.testCondsL cfg fuel ef env rest) t1 with
          | fail _ _ => rw [hr3, hr4] at this; exact (agree_ok_fail _ _ _ _ _ _ this).elim
          | ok bs' t2 =>
            rw [hr3, hr4] at this
            obtain ⟨hv, hg2, hs2, ht2, hc3, hc4⟩ := (agree_ok_ok ..).mp this
            subst hv
            exact (agree_ok_ok ..).mpr ⟨rfl, hg2, hs2.trans hs1, ht2.trans ht1, hc3, hc4⟩

end ClosedAgree
