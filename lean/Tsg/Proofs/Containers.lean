/-
  Refinement of the concrete container model to the abstract map/set specification.
-/
import Tsg.Spec.Containers
import Tsg.Proofs.Graph

namespace CGraph

/-- representation invariant: every node's edge list is strictly ascending by sink -/
def Inv (g : CGraph) : Prop := ∀ nd ∈ g.nodes, GNode.Sorted nd.edges

theorem AGraph_ext {a b : AGraph} (h1 : a.n = b.n) (h2 : a.nattr = b.nattr) (h3 : a.edge = b.edge) : a = b := by
  cases a; cases b; simp_all

theorem getElem?_none_iff {α} (l : List α) (i : Nat) : l[i]? = none ↔ ¬ i < l.length := by
  simp

theorem lt_of_getElem?_some {α} (l : List α) (i : Nat) (a : α) (h : l[i]? = some a) : i < l.length := by
  obtain ⟨h', _⟩ := List.getElem?_eq_some_iff.mp h
  exact h'

theorem inv_empty : Inv CGraph.empty := by
  intro nd h; simp [CGraph.empty] at h

theorem inv_setNode (g : CGraph) (i : Nat) (nd : GNode) (h : Inv g) (hn : GNode.Sorted nd.edges) :
    Inv (g.setNode i nd) := by
  intro x hx
  simp only [setNode] at hx
  rcases List.mem_or_eq_of_mem_set hx with hx | hx
  · exact h x hx
  · subst hx; exact hn

theorem node_sorted (g : CGraph) (h : Inv g) (i : Nat) (nd : GNode) (hi : g.nodes[i]? = some nd) :
    GNode.Sorted nd.edges := h nd (List.mem_of_getElem? hi)

theorem inv_applyOp (g : CGraph) (op : GOp) (h : Inv g) : Inv (g.applyOp op).1 := by
  cases op with
  | addNode =>
    simp only [applyOp, addGraphNode]
    intro nd hnd
    simp only [List.mem_append, List.mem_singleton] at hnd
    rcases hnd with hnd | hnd
    · exact h nd hnd
    · subst hnd; simp [GNode.Sorted]
  | addEdge s t =>
    simp only [applyOp, addEdge, node?]
    cases hs : g.nodes[s]? with
    | none => simpa using h
    | some nd =>
      simp only [GNode.addEdge]
      exact inv_setNode g s _ h (GNode.sorted_insertEdge _ _ (node_sorted g h s nd hs))
  | nodeAttr n k v =>
    simp only [applyOp, addNodeAttr, node?]
    cases hs : g.nodes[n]? with
    | none => simpa using h
    | some nd => exact inv_setNode g n _ h (node_sorted g h n nd hs)
  | edgeAttr s t k v =>
    simp only [applyOp, addEdgeAttr, node?]
    cases hs : g.nodes[s]? with
    | none => simpa using h
    | some nd =>
      simp only
      cases he : nd.getEdge t with
      | none => simpa using h
      | some ea =>
        exact inv_setNode g s _ h (GNode.sorted_setEdgeAttrs _ _ _ (node_sorted g h s nd hs))

theorem getElem?_setNode (g : CGraph) (i j : Nat) (nd : GNode) :
    (g.setNode i nd).nodes[j]? = if i = j then (g.nodes[j]?).map (fun _ => nd) else g.nodes[j]? := by
  simp only [setNode, List.getElem?_set]
  by_cases h : i = j
  · subst h
    by_cases hl : i < g.nodes.length
    · simp [hl]
    · simp [hl]
  · simp [h]

/-- one concrete step refines one abstract step (state and returned observation) -/
theorem abs_applyOp (g : CGraph) (op : GOp) (h : Inv g) :
    abs (g.applyOp op).1 = ((abs g).step op).1 ∧ (g.applyOp op).2 = ((abs g).step op).2 := by
  cases op with
  | addNode =>
    refine ⟨AGraph_ext ?_ ?_ ?_, ?_⟩
    · simp [applyOp, addGraphNode, abs, AGraph.step]
    · funext i k
      simp only [applyOp, addGraphNode, abs, AGraph.step]
      by_cases hi : i < g.nodes.length
      · simp [List.getElem?_append_left hi]
      · have : g.nodes[i]? = none := by simp; omega
        rw [this]
        by_cases hi2 : i = g.nodes.length
        · subst hi2; simp [Attrs.get]
        · have : (g.nodes ++ [({} : GNode)])[i]? = none := by simp; omega
          rw [this]
    · funext i j
      simp only [applyOp, addGraphNode, abs, AGraph.step]
      by_cases hi : i < g.nodes.length
      · simp [List.getElem?_append_left hi]
      · have : g.nodes[i]? = none := by simp; omega
        rw [this]
        by_cases hi2 : i = g.nodes.length
        · subst hi2; simp [GNode.getEdge]
        · have : (g.nodes ++ [({} : GNode)])[i]? = none := by simp; omega
          rw [this]
    · simp [applyOp, addGraphNode, abs, AGraph.step]
  | addEdge s t =>
    simp only [applyOp, addEdge, node?]
    cases hs : g.nodes[s]? with
    | none =>
      have hlt : ¬ s < g.nodes.length := by simpa using hs
      simp [abs, AGraph.step, hlt]
    | some nd =>
      have hlt : s < g.nodes.length := lt_of_getElem?_some _ _ _ hs
      have hsorted := node_sorted g h s nd hs
      simp only [GNode.addEdge]
      have habs_edge : (abs g).edge s t = (nd.edges.lookup t).map (fun a k => a.get k) := by
        simp [abs, hs, GNode.getEdge]
      cases hl : nd.edges.lookup t with
      | some old =>
        have hnew : (GNode.insertEdge nd.edges t).2 = false := by
          have := (GNode.insertEdge_new_iff nd.edges t hsorted)
          cases hb : (GNode.insertEdge nd.edges t).2 with
          | false => rfl
          | true => rw [this.mp hb] at hl; cases hl
        simp only [AGraph.step, abs, hlt, if_true] at *
        rw [habs_edge, hl]
        simp only [Option.map_some, hnew]
        refine ⟨AGraph_ext ?_ ?_ ?_, by first | rfl | trivial | simp⟩
        · simp [setNode]
        · funext i k
          simp only [getElem?_setNode]
          by_cases his : s = i
          · subst his; simp [hs]
          · simp [his]
        · funext i j
          simp only [getElem?_setNode]
          by_cases his : s = i
          · subst his
            simp only [if_true, hs, Option.map_some, Option.bind_some, GNode.getEdge]
            by_cases hjt : j = t
            · subst hjt
              rw [GNode.lookup_insertEdge_same _ _ hsorted, hl]; simp
            · rw [GNode.lookup_insertEdge_other _ _ _ hjt]
          · simp [his]
      | none =>
        have hnew : (GNode.insertEdge nd.edges t).2 = true :=
          (GNode.insertEdge_new_iff nd.edges t hsorted).mpr hl
        simp only [AGraph.step, abs, hlt, if_true] at *
        rw [habs_edge, hl]
        simp only [Option.map_none, hnew]
        refine ⟨AGraph_ext ?_ ?_ ?_, by first | rfl | trivial | simp⟩
        · simp [setNode]
        · funext i k
          simp only [getElem?_setNode]
          by_cases his : s = i
          · subst his; simp [hs]
          · simp [his]
        · funext i j
          simp only [getElem?_setNode]
          by_cases his : s = i
          · subst his
            simp only [if_true, hs, Option.map_some, Option.bind_some, GNode.getEdge]
            by_cases hjt : j = t
            · subst hjt
              rw [GNode.lookup_insertEdge_same _ _ hsorted, hl]
              simp [Attrs.get]
            · rw [GNode.lookup_insertEdge_other _ _ _ hjt]
              simp [hjt]
          · have : ¬ (i = s ∧ j = t) := by intro hc; exact his hc.1.symm
            simp [his, this]
  | nodeAttr n k v =>
    simp only [applyOp, addNodeAttr, node?]
    cases hs : g.nodes[n]? with
    | none =>
      have hlt : ¬ n < g.nodes.length := by simpa using hs
      simp [abs, AGraph.step, hlt]
    | some nd =>
      have hlt : n < g.nodes.length := lt_of_getElem?_some _ _ _ hs
      simp only [AGraph.step, abs, hlt, if_true]
      refine ⟨AGraph_ext ?_ ?_ ?_, ?_⟩
      · simp [setNode]
      · funext i k'
        simp only [getElem?_setNode]
        by_cases his : n = i
        · subst his
          simp only [if_true, hs, Option.map_some, Option.bind_some]
          by_cases hk : k' = k
          · subst hk; simp [Attrs.get_add_same]
          · simp [hk, Attrs.get_add_other _ _ _ _ hk]
        · have : ¬ (i = n ∧ k' = k) := by intro hc; exact his hc.1.symm
          simp [his, this]
      · funext i j
        simp only [getElem?_setNode]
        by_cases his : n = i
        · subst his; simp [hs, GNode.getEdge]
        · simp [his]
      · simp only [hs, Option.bind_some]
        congr 1
        cases hg : nd.attrs.get k with
        | none =>
          have := Attrs.add_conflict_iff nd.attrs k v
          cases hb : (Attrs.add nd.attrs k v).2 with
          | false => rfl
          | true => rw [hb] at this; obtain ⟨old, ho, _⟩ := this.mp rfl; rw [hg] at ho; cases ho
        | some old =>
          have := Attrs.add_conflict_iff nd.attrs k v
          by_cases ho : old = v
          · subst ho
            cases hb : (Attrs.add nd.attrs k old).2 with
            | false => simp
            | true =>
              rw [hb] at this; obtain ⟨old', ho', hne⟩ := this.mp rfl
              rw [hg] at ho'; cases ho'; exact absurd rfl hne
          · have hb : (Attrs.add nd.attrs k v).2 = true := this.mpr ⟨old, hg, ho⟩
            simp [hb, ho]
  | edgeAttr s t k v =>
    simp only [applyOp, addEdgeAttr, node?]
    cases hs : g.nodes[s]? with
    | none =>
      have hlt : ¬ s < g.nodes.length := by simpa using hs
      simp [abs, AGraph.step, hlt]
    | some nd =>
      have hlt : s < g.nodes.length := lt_of_getElem?_some _ _ _ hs
      have habs_edge : (abs g).edge s t = (nd.edges.lookup t).map (fun a k => a.get k) := by
        simp [abs, hs, GNode.getEdge]
      have hn : s < (abs g).n := hlt
      simp only [AGraph.step, if_pos hn, habs_edge]
      simp only [GNode.getEdge]
      cases hl : nd.edges.lookup t with
      | none => simp
      | some ea =>
        simp only [Option.map_some]
        refine ⟨AGraph_ext ?_ ?_ ?_, ?_⟩
        · simp [abs, setNode]
        · funext i k'
          simp only [abs, getElem?_setNode]
          by_cases his : s = i
          · subst his; simp [hs]
          · simp [his]
        · funext i j
          simp only [abs, getElem?_setNode]
          by_cases his : s = i
          · subst his
            simp only [if_true, hs, Option.map_some, Option.bind_some, GNode.getEdge]
            by_cases hjt : j = t
            · subst hjt
              rw [GNode.lookup_setEdgeAttrs_same _ _ _ (by simp [hl])]
              simp only [Option.map_some, and_self, if_true]
              congr 1
              funext k'
              by_cases hk : k' = k
              · subst hk; simp [Attrs.get_add_same]
              · simp [hk, Attrs.get_add_other _ _ _ _ hk]
            · rw [GNode.lookup_setEdgeAttrs_other _ _ _ _ hjt]
              simp [hjt]
          · have : ¬ (i = s ∧ j = t) := by intro hc; exact his hc.1.symm
            simp [his, this]
        · congr 1
          cases hg : ea.get k with
          | none =>
            have := Attrs.add_conflict_iff ea k v
            cases hb : (Attrs.add ea k v).2 with
            | false => rfl
            | true => rw [hb] at this; obtain ⟨old, ho, _⟩ := this.mp rfl; rw [hg] at ho; cases ho
          | some old =>
            have := Attrs.add_conflict_iff ea k v
            by_cases ho : old = v
            · subst ho
              cases hb : (Attrs.add ea k old).2 with
              | false => simp
              | true =>
                rw [hb] at this; obtain ⟨old', ho', hne⟩ := this.mp rfl
                rw [hg] at ho'; cases ho'; exact absurd rfl hne
            · have hb : (Attrs.add ea k v).2 = true := this.mpr ⟨old, hg, ho⟩
              simp [hb, ho]

end CGraph
