/-
  The executable contract checks imply the contracts the panic-freedom theorems assume.
-/
import Tsg.Sem.Contracts
import Tsg.Proofs.LazySafeRun

namespace Contracts
open StrictSafe (wf wfs TreeOK GlobalsWf MatchOK)

mutual
theorem wfB_sound (n : Nat) : ∀ v, wfB n v = true → wf n v
  | .gnode i, h => by simp only [wfB, decide_eq_true_eq] at h; simpa [wf] using h
  | .list vs, h => by simp only [wfB] at h; simp only [wf]; exact wfsB_sound n vs h
  | .set vs, h => by simp only [wfB] at h; simp only [wf]; exact wfsB_sound n vs h
  | .null, _ => by simp [wf]
  | .bool _, _ => by simp [wf]
  | .int _, _ => by simp [wf]
  | .str _, _ => by simp [wf]
  | .syn _, _ => by simp [wf]
theorem wfsB_sound (n : Nat) : ∀ vs, wfsB n vs = true → wfs n vs
  | [], _ => by simp [wfs]
  | v :: r, h => by
    simp only [wfsB, Bool.and_eq_true] at h
    simp only [wfs]
    exact ⟨wfB_sound n v h.1, wfsB_sound n r h.2⟩
end

theorem treeOKB_sound (t : Tree) (h : treeOKB t = true) : TreeOK t := by
  intro id nd hn
  simp only [treeOKB, List.all_eq_true] at h
  apply h nd
  simp only [Tree.node?] at hn
  have := Array.mem_of_getElem? hn
  exact Array.mem_toList_iff.mpr this

theorem globalsWfB_sound (n : Nat) (g : GlobalsM) (h : globalsWfB n g = true) : GlobalsWf n g := by
  intro l hl e he
  simp only [globalsWfB, List.all_eq_true] at h
  exact wfB_sound n e.2 (h l hl e he)

theorem matchOKB_sound (tree : Tree) (st : Stanza) (m : QMatch) (h : matchOKB tree st m = true) : MatchOK tree st m := by
  simp only [matchOKB, Bool.and_eq_true, List.all_eq_true] at h
  obtain ⟨h1, h2⟩ := h
  constructor
  · intro name q hl
    have hm := StrictSafe.lookup_mem hl
    have := h1 (name, q) hm
    simpa only [bne_iff_ne, ne_eq] using this
  · intro n rest hmn
    rw [hmn] at h2
    exact h2

theorem mergedOKB_sound (tree : Tree) (stanzas : List Stanza) (m : QMatch) (h : mergedOKB tree stanzas m = true) :
    LazySafe.MergedOK tree stanzas m := by
  unfold mergedOKB at h
  cases hs : stanzas[m.patternIx]? with
  | none => rw [hs] at h; cases h
  | some st => rw [hs] at h; exact ⟨st, hs, matchOKB_sound tree st m h⟩

theorem strictMatchesOKB_sound (tree : Tree) (stanzas : List Stanza) (ms : List (List QMatch))
    (h : strictMatchesOKB tree stanzas ms = true) : ∀ p ∈ stanzas.zip ms, ∀ m ∈ p.2, MatchOK tree p.1 m := by
  intro p hp m hm
  simp only [strictMatchesOKB, List.all_eq_true] at h
  exact matchOKB_sound tree p.1 m (h p hp m hm)

theorem mergedAllOKB_sound (tree : Tree) (stanzas : List Stanza) (merged : List QMatch)
    (h : mergedAllOKB tree stanzas merged = true) : ∀ m ∈ merged, LazySafe.MergedOK tree stanzas m := by
  intro m hm
  simp only [mergedAllOKB, List.all_eq_true] at h
  exact mergedOKB_sound tree stanzas m (h m hm)

end Contracts
