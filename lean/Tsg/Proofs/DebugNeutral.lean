/-
  Neutrality of debug attributes for the strict interpreter: every interpreter function under a configuration with
  debug attributes simulates the same function under the configuration without them.
-/
import Tsg.Proofs.DebugSim

namespace DebugSim
open Prog C15 Strict

/-- the same configuration without debug attributes -/
def plainCfg (cfg : Cfg) : Cfg := { cfg with locAttr := none, varAttr := none, matchAttr := none }

theorem Sim.getR (names : List String) : Sim names (Prog.getR : Prog SRest SRest) Prog.getR := Sim.prim names _
theorem Sim.modifyR (names : List String) (f : SRest → SRest) : Sim names (Prog.modifyR f) (Prog.modifyR f) := Sim.prim names _

theorem Sim.fromNodes (names : List String) (q : Quant) (nodes : List Nat) :
    Sim names (fromNodes q nodes : Prog SRest Val) (fromNodes q nodes) := by
  unfold Strict.fromNodes
  cases q <;> (try cases nodes) <;> first | exact Sim.pure names _ | exact Sim.panicAt names _ | exact Sim.throwK names _

theorem Sim.asSyntaxScope (names : List String) (v : Val) : Sim names (asSyntaxScope v) (asSyntaxScope v) := by
  unfold Strict.asSyntaxScope
  cases v <;> first | exact Sim.pure names _ | exact Sim.throwK names _

theorem Sim.asGraphNode (names : List String) (v : Val) : Sim names (asGraphNode v) (asGraphNode v) := by
  unfold Strict.asGraphNode
  cases v <;> first | exact Sim.pure names _ | exact Sim.throwK names _

/-- expressions -/
theorem sim_expr (names : List String) (cfg : Cfg) (fuel : Nat) : ∀ m : Nat,
    (∀ (env : Env) (e : Expr), sizeOf e ≤ m → Sim names (evalExpr cfg fuel env e) (evalExpr (plainCfg cfg) fuel env e)) ∧
    (∀ (env : Env) (es : List Expr), sizeOf es ≤ m → Sim names (evalExprs cfg fuel env es) (evalExprs (plainCfg cfg) fuel env es)) ∧
    (∀ (env : Env) (elem : Expr) (var : String) (vals : List Val), sizeOf elem ≤ m →
      Sim names (evalComp cfg fuel env elem var vals) (evalComp (plainCfg cfg) fuel env elem var vals)) := by
  intro m
  induction m with
  | zero =>
    refine ⟨?_, ?_, ?_⟩
    · intro env e h; cases e <;> simp at h <;> omega
    · intro env es h; cases es <;> simp at h
    · intro env elem var vals h; cases elem <;> simp at h <;> omega
  | succ m ih =>
    obtain ⟨ihE, ihEs, ihC⟩ := ih
    have hC : ∀ (env : Env) (elem : Expr) (var : String) (vals : List Val), sizeOf elem ≤ m + 1 →
        (∀ env', Sim names (evalExpr cfg fuel env' elem) (evalExpr (plainCfg cfg) fuel env' elem)) →
        Sim names (evalComp cfg fuel env elem var vals) (evalComp (plainCfg cfg) fuel env elem var vals) := by
      intro env elem var vals _ hel
      induction vals with
      | nil => rw [evalComp, evalComp]; exact Sim.pure names _
      | cons v rest ihv =>
        rw [evalComp, evalComp]
        exact Sim.bind (Sim.modifyR names _) fun _ =>
          Sim.bind (Sim.prim names _) fun _ =>
            Sim.bind (hel env) fun _ =>
              Sim.bind ihv fun _ => Sim.pure names _
    have hE : ∀ (env : Env) (e : Expr), sizeOf e ≤ m + 1 → Sim names (evalExpr cfg fuel env e) (evalExpr (plainCfg cfg) fuel env e) := by
      intro env e h
      cases e with
      | falseLit | nullLit | trueLit | int _ | str _ => rw [evalExpr, evalExpr]; exact Sim.pure names _
      | list es =>
        rw [evalExpr, evalExpr]
        exact Sim.bind (ihEs env es (by simp at h; omega)) fun _ => Sim.pure names _
      | set es =>
        rw [evalExpr, evalExpr]
        exact Sim.bind (ihEs env es (by simp at h; omega)) fun _ => Sim.pure names _
      | listComp elem var vl value l =>
        rw [evalExpr, evalExpr]
        exact Sim.bind (ihE env value (by simp at h; omega)) fun _ =>
          Sim.bind (Sim.ofExcept names _) fun _ =>
            Sim.bind (Sim.modifyR names _) fun _ =>
              Sim.bind (ihC env elem var _ (by simp at h; omega)) fun _ =>
                Sim.bind (Sim.modifyR names _) fun _ => Sim.pure names _
      | setComp elem var vl value l =>
        rw [evalExpr, evalExpr]
        exact Sim.bind (ihE env value (by simp at h; omega)) fun _ =>
          Sim.bind (Sim.ofExcept names _) fun _ =>
            Sim.bind (Sim.modifyR names _) fun _ =>
              Sim.bind (ihC env elem var _ (by simp at h; omega)) fun _ =>
                Sim.bind (Sim.modifyR names _) fun _ => Sim.pure names _
      | capture name q i1 i2 l =>
        cases q <;> simp only [evalExpr] <;> first
          | exact Sim.throwK names _
          | (split <;> first | exact Sim.fromNodes names _ _ | exact Sim.panicAt names _)
      | var name l => rw [evalExpr, evalExpr]; exact Sim.prim names _
      | scopedVar scope name l =>
        rw [evalExpr, evalExpr]
        refine Sim.bind (ihE env scope (by simp at h; omega)) fun sv =>
          Sim.bind (Sim.asSyntaxScope names _) fun node =>
            Sim.bind (Sim.getR names) fun s => ?_
        show Sim names (match scopedLookup cfg s node name with | some v => Pure.pure v | none => Prog.throwK .undefinedVariable)
          (match scopedLookup (plainCfg cfg) s node name with | some v => Pure.pure v | none => Prog.throwK .undefinedVariable)
        have : scopedLookup (plainCfg cfg) s node name = scopedLookup cfg s node name := rfl
        rw [this]
        cases scopedLookup cfg s node name <;> first | exact Sim.pure names _ | exact Sim.throwK names _
      | call fn args =>
        rw [evalExpr, evalExpr]
        exact Sim.bind (ihEs env args (by simp at h; omega)) fun _ => Sim.gop_callFn names _ _ _ _
      | regexCap ix =>
        rw [evalExpr, evalExpr]
        cases env.caps[ix]? <;> first | exact Sim.pure names _ | exact Sim.throwK names _
    refine ⟨hE, ?_, ?_⟩
    · intro env es h
      cases es with
      | nil => rw [evalExprs, evalExprs]; exact Sim.pure names _
      | cons e rest =>
        rw [evalExprs, evalExprs]
        exact Sim.bind (ihE env e (by simp at h; omega)) fun _ =>
          Sim.bind (ihEs env rest (by simp at h; omega)) fun _ => Sim.pure names _
    · intro env elem var vals h
      exact hC env elem var vals h (fun env' => hE env' elem h)


theorem sim_evalExpr (names : List String) (cfg : Cfg) (fuel : Nat) (env : Env) (e : Expr) :
    Sim names (evalExpr cfg fuel env e) (evalExpr (plainCfg cfg) fuel env e) :=
  (sim_expr names cfg fuel (sizeOf e)).1 env e (Nat.le_refl _)

theorem sim_varAdd (names : List String) (cfg : Cfg) (fuel : Nat) (env : Env) (v : Var) (value : Val) (mutable : Bool) :
    Sim names (varAdd cfg fuel env v value mutable) (varAdd (plainCfg cfg) fuel env v value mutable) := by
  cases v with
  | unscoped name l => exact Sim.prim names _
  | scopedV scope name l =>
    exact Sim.bind (sim_evalExpr names cfg fuel env scope) fun _ =>
      Sim.bind (Sim.asSyntaxScope names _) fun _ => Sim.prim names _

theorem sim_varSet (names : List String) (cfg : Cfg) (fuel : Nat) (env : Env) (v : Var) (value : Val) :
    Sim names (varSet cfg fuel env v value) (varSet (plainCfg cfg) fuel env v value) := by
  cases v with
  | unscoped name l => exact Sim.prim names _
  | scopedV scope name l =>
    exact Sim.bind (sim_evalExpr names cfg fuel env scope) fun _ =>
      Sim.bind (Sim.asSyntaxScope names _) fun _ => Sim.prim names _

theorem sim_testCond (names : List String) (cfg : Cfg) (fuel : Nat) (env : Env) (c : Cond) :
    Sim names (testCond cfg fuel env c) (testCond (plainCfg cfg) fuel env c) := by
  cases c with
  | some e l => exact Sim.bind (sim_evalExpr names cfg fuel env e) fun _ => Sim.pure names _
  | none e l => exact Sim.bind (sim_evalExpr names cfg fuel env e) fun _ => Sim.pure names _
  | bool e l => exact Sim.bind (sim_evalExpr names cfg fuel env e) fun _ => Sim.ofExcept names _

theorem sim_testConds (names : List String) (cfg : Cfg) (fuel : Nat) (env : Env) (cs : List Cond) :
    Sim names (testConds cfg fuel env cs) (testConds (plainCfg cfg) fuel env cs) := by
  induction cs with
  | nil => exact Sim.pure names _
  | cons c rest ih =>
    exact Sim.bind (sim_testCond names cfg fuel env c) fun _ => Sim.bind ih fun _ => Sim.pure names _

theorem sim_evalPrintArgs (names : List String) (cfg : Cfg) (fuel : Nat) (env : Env) (es : List Expr) :
    Sim names (evalPrintArgs cfg fuel env es) (evalPrintArgs (plainCfg cfg) fuel env es) := by
  induction es with
  | nil => exact Sim.pure names _
  | cons e rest ih =>
    cases e <;> first
      | exact ih
      | exact Sim.bind (sim_evalExpr names cfg fuel env _) fun _ => ih

/-- attribute names that are not debug attribute names -/
def AttrsClean (names : List String) (attrs : List AttrE) : Prop := ∀ a ∈ attrs, names.contains a.1 = false

theorem Sim.addAttribute (names : List String) (t : Target) (name : String) (v : Val) (hk : names.contains name = false) :
    Sim names (addAttribute t name v : Prog SRest Unit) (addAttribute t name v) := by
  cases t with
  | node n =>
    refine Sim.bind (Sim.gop_addNodeAttr names n name v _ hk) fun r => ?_
    cases r <;> first | exact Sim.panicAt names _ | exact Sim.pure names _
  | edge src sink =>
    refine Sim.bind (Sim.gop_addEdgeAttr names src sink name v _ hk) fun r => ?_
    cases r with
    | none => exact Sim.panicAt names _
    | some r' => cases r' <;> first | exact Sim.throwK names _ | exact Sim.pure names _

theorem sim_execAttrs (names : List String) (cfg : Cfg) (hsh : ∀ sh ∈ cfg.shorthands, AttrsClean names sh.attrs) :
    ∀ (fuel : Nat) (env : Env) (t : Target) (attrs : List AttrE), AttrsClean names attrs →
      Sim names (execAttrs cfg fuel env t attrs) (execAttrs (plainCfg cfg) fuel env t attrs) := by
  intro fuel
  induction fuel with
  | zero =>
    intro env t attrs hclean
    induction attrs with
    | nil => rw [execAttrs, execAttrs]; exact Sim.pure names _
    | cons a rest ih =>
      obtain ⟨name, e⟩ := a
      rw [execAttrs, execAttrs]
      refine Sim.bind (Sim.poll names _) fun _ => Sim.bind (sim_evalExpr names cfg 0 env e) fun v => ?_
      have hfs : findShorthand (plainCfg cfg) name = findShorthand cfg name := rfl
      rw [hfs]
      cases hf : findShorthand cfg name with
      | some sh => exact Sim.failP names _
      | none =>
        exact Sim.bind (Sim.addAttribute names t name v (hclean (name, e) (by simp))) fun _ =>
          ih (fun a ha => hclean a (by simp [ha]))
  | succ fuel' ihf =>
    intro env t attrs hclean
    induction attrs with
    | nil => rw [execAttrs, execAttrs]; exact Sim.pure names _
    | cons a rest ih =>
      obtain ⟨name, e⟩ := a
      rw [execAttrs, execAttrs]
      refine Sim.bind (Sim.poll names _) fun _ => Sim.bind (sim_evalExpr names cfg (fuel' + 1) env e) fun v => ?_
      have hfs : findShorthand (plainCfg cfg) name = findShorthand cfg name := rfl
      rw [hfs]
      cases hf : findShorthand cfg name with
      | some sh =>
        have hmem : sh ∈ cfg.shorthands := List.mem_of_find?_eq_some hf
        exact Sim.bind (Sim.getR names) fun saved =>
          Sim.bind (Sim.modifyR names _) fun _ =>
            Sim.bind (Sim.prim names _) fun _ =>
              Sim.bind (ihf env t sh.attrs (hsh sh hmem)) fun _ =>
                Sim.bind (Sim.modifyR names _) fun _ => ih (fun a ha => hclean a (by simp [ha]))
      | none =>
        exact Sim.bind (Sim.addAttribute names t name v (hclean (name, e) (by simp))) fun _ =>
          ih (fun a ha => hclean a (by simp [ha]))


/-! ### statements -/

mutual
def stmtAttrs : Stmt → List AttrE
  | .attrNode _ attrs _ => attrs
  | .attrEdge _ _ attrs _ => attrs
  | .scan _ arms _ => scanArmsAttrs arms
  | .ifS arms _ => ifArmsAttrs arms
  | .forIn _ _ _ body _ => stmtsAttrs body
  | _ => []
def stmtsAttrs : List Stmt → List AttrE
  | [] => []
  | s :: r => stmtAttrs s ++ stmtsAttrs r
def scanArmsAttrs : List (String × List Stmt × Loc) → List AttrE
  | [] => []
  | (_, b, _) :: r => stmtsAttrs b ++ scanArmsAttrs r
def ifArmsAttrs : List (List Cond × List Stmt × Loc) → List AttrE
  | [] => []
  | (_, b, _) :: r => stmtsAttrs b ++ ifArmsAttrs r
end

theorem AttrsClean.left {names : List String} {a b : List AttrE} (h : AttrsClean names (a ++ b)) : AttrsClean names a :=
  fun x hx => h x (List.mem_append_left _ hx)
theorem AttrsClean.right {names : List String} {a b : List AttrE} (h : AttrsClean names (a ++ b)) : AttrsClean names b :=
  fun x hx => h x (List.mem_append_right _ hx)

/-- the three debug attributes of a new node are invisible: the node is new, so none of them can conflict -/
theorem sim_debugNode {ρ : Type} [RestRel ρ] (la va ma : String) (hd1 : la ≠ va) (hd2 : la ≠ ma) (hd3 : va ≠ ma) (x y z : Val)
    {kD kP : Nat → Prog ρ Unit} (hk : ∀ n, Sim [la, va, ma] (kD n) (kP n)) :
    Sim [la, va, ma]
      (gopP .addNode >>= fun n => addDebugNodeAttr n va x >>= fun _ => addDebugNodeAttr n la y >>= fun _ =>
        addDebugNodeAttr n ma z >>= fun _ => kD n)
      (gopP .addNode >>= fun n => kP n) := by
  intro sD sP hrel
  obtain ⟨hg, hr, hp⟩ := hrel
  rw [run_bind, run_bind]
  have hlen := rel_length hg
  -- the new node on both sides
  have hD0 : run (gopP .addNode : Prog ρ Nat) sD = .ok sD.graph.nodes.length { sD with graph := sD.graph.addGraphNode.1 } := rfl
  have hP0 : run (gopP .addNode : Prog ρ Nat) sP = .ok sP.graph.nodes.length { sP with graph := sP.graph.addGraphNode.1 } := rfl
  rw [hD0, hP0]
  simp only
  let n := sD.graph.nodes.length
  let s1 : MSt ρ := { sD with graph := sD.graph.addGraphNode.1 }
  have hn1 : s1.graph.node? n = some {} := by
    simp [s1, n, CGraph.addGraphNode, CGraph.node?]
  obtain ⟨g2, hrun2, hstrip2, hnode2⟩ := run_addDebug [la, va, ma] s1 n va x {} hn1 rfl (by simp)
  let s2 : MSt ρ := { s1 with graph := g2 }
  obtain ⟨g3, hrun3, hstrip3, hnode3⟩ := run_addDebug [la, va, ma] s2 n la y _ hnode2
    (by have : (la == va) = false := by simp [hd1]
        simp [List.lookup, this]) (by simp)
  let s3 : MSt ρ := { s2 with graph := g3 }
  obtain ⟨g4, hrun4, hstrip4, hnode4⟩ := run_addDebug [la, va, ma] s3 n ma z _ hnode3
    (by have h1 : (ma == va) = false := by simp [Ne.symm hd3]
        have h2 : (ma == la) = false := by simp [Ne.symm hd2]
        simp [List.lookup, h1, h2]) (by simp)
  rw [run_bind, hrun2]
  simp only
  rw [run_bind, hrun3]
  simp only
  rw [run_bind, hrun4]
  simp only
  have hrel' : Rel [la, va, ma] { s3 with graph := g4 } { sP with graph := sP.graph.addGraphNode.1 } := by
    refine ⟨?_, hr, hp⟩
    show strip [la, va, ma] g4 = strip [la, va, ma] sP.graph.addGraphNode.1
    rw [hstrip4, hstrip3, hstrip2]
    show strip [la, va, ma] sD.graph.addGraphNode.1 = _
    rw [strip_addGraphNode, strip_addGraphNode, hg]
  have := hk n _ _ hrel'
  rw [← hlen]
  exact this


/-- the match being executed has its full-match node -/
def EnvOK (env : Env) : Prop := ∃ n rest, env.mat.nodes fullMatchName = n :: rest

theorem clean_armBody (names : List String) (arms : List (String × List Stmt × Loc)) (k : Nat)
    (h : AttrsClean names (scanArmsAttrs arms)) : AttrsClean names (stmtsAttrs (armBody arms k)) := by
  induction arms generalizing k with
  | nil => simp [armBody, stmtsAttrs, AttrsClean]
  | cons a rest ih =>
    obtain ⟨re, body, l⟩ := a
    simp only [scanArmsAttrs] at h
    cases k with
    | zero => simpa [armBody] using h.left
    | succ k =>
      have := ih k h.right
      simpa [armBody] using this

theorem sim_stmts (la va ma : String) (hd1 : la ≠ va) (hd2 : la ≠ ma) (hd3 : va ≠ ma) (cfg : Cfg)
    (hla : cfg.locAttr = some la) (hva : cfg.varAttr = some va) (hma : cfg.matchAttr = some ma)
    (hsh : ∀ sh ∈ cfg.shorthands, AttrsClean [la, va, ma] sh.attrs) (fuel : Nat) : ∀ m : Nat,
    (∀ (env : Env) (st : Stmt), sizeOf st ≤ m → EnvOK env → AttrsClean [la, va, ma] (stmtAttrs st) →
      Sim [la, va, ma] (execStmt cfg fuel env st) (execStmt (plainCfg cfg) fuel env st)) ∧
    (∀ (env : Env) (kind : BlockKind) (ss : List Stmt), sizeOf ss ≤ m → EnvOK env → AttrsClean [la, va, ma] (stmtsAttrs ss) →
      Sim [la, va, ma] (execBlock cfg fuel env kind ss) (execBlock (plainCfg cfg) fuel env kind ss)) ∧
    (∀ (env : Env) (arms : List (List Cond × List Stmt × Loc)), sizeOf arms ≤ m → EnvOK env → AttrsClean [la, va, ma] (ifArmsAttrs arms) →
      Sim [la, va, ma] (execIfArms cfg fuel env arms) (execIfArms (plainCfg cfg) fuel env arms)) ∧
    (∀ (env : Env) (var : String) (body : List Stmt) (vals : List Val), sizeOf body ≤ m → EnvOK env → AttrsClean [la, va, ma] (stmtsAttrs body) →
      Sim [la, va, ma] (execFor cfg fuel env var body vals) (execFor (plainCfg cfg) fuel env var body vals)) ∧
    (∀ (env : Env) (arms : List (String × List Stmt × Loc)) (subject : String) (i : Nat), sizeOf arms ≤ m → EnvOK env →
      AttrsClean [la, va, ma] (scanArmsAttrs arms) →
      Sim [la, va, ma] (scanLoop cfg fuel env arms subject i) (scanLoop (plainCfg cfg) fuel env arms subject i)) := by
  intro m
  induction m with
  | zero =>
    refine ⟨?_, ?_, ?_, ?_, ?_⟩
    · intro env st h; cases st <;> simp at h <;> omega
    · intro env kind ss h; cases ss <;> simp at h
    · intro env arms h; cases arms <;> simp at h
    · intro env var body vals h; cases body <;> simp at h
    · intro env arms subject i h; cases arms <;> simp at h
  | succ m ih =>
    obtain ⟨ihS, ihB, ihI, ihF, ihSc⟩ := ih
    -- statements
    have hS : ∀ (env : Env) (st : Stmt), sizeOf st ≤ m + 1 → EnvOK env → AttrsClean [la, va, ma] (stmtAttrs st) →
        Sim [la, va, ma] (execStmt cfg fuel env st) (execStmt (plainCfg cfg) fuel env st) := by
      intro env st h hok hclean
      have hpl : (plainCfg cfg).locAttr = none ∧ (plainCfg cfg).varAttr = none ∧ (plainCfg cfg).matchAttr = none := ⟨rfl, rfl, rfl⟩
      cases st with
      | declImm v e l =>
        simp only [execStmt]
        exact Sim.bind (Sim.poll _ _) fun _ => Sim.bind (sim_evalExpr _ cfg fuel env e) fun _ => sim_varAdd _ cfg fuel env v _ _
      | declMut v e l =>
        simp only [execStmt]
        exact Sim.bind (Sim.poll _ _) fun _ => Sim.bind (sim_evalExpr _ cfg fuel env e) fun _ => sim_varAdd _ cfg fuel env v _ _
      | assign v e l =>
        simp only [execStmt]
        exact Sim.bind (Sim.poll _ _) fun _ => Sim.bind (sim_evalExpr _ cfg fuel env e) fun _ => sim_varSet _ cfg fuel env v _
      | createNode v l =>
        obtain ⟨n0, rest0, hfull⟩ := hok
        simp only [execStmt, hla, hva, hma, hpl.1, hpl.2.1, hpl.2.2, fullMatchNode, hfull]
        refine Sim.bind (Sim.poll _ _) fun _ => ?_
        have := sim_debugNode la va ma hd1 hd2 hd3 (.str v.display) (.str (locString v.loc)) (.syn n0)
          (kD := fun n => varAdd cfg fuel env v (.gnode n) false) (kP := fun n => varAdd (plainCfg cfg) fuel env v (.gnode n) false)
          (fun n => sim_varAdd _ cfg fuel env v _ _)
        intro sD sP hrel
        have h1 := this sD sP hrel
        have hpure : ∀ (a : Nat) (s : MSt SRest), Prog.run (Pure.pure a : Prog SRest Nat) s = .ok a s := fun _ _ => rfl
        simpa [Prog.run_bind, hpure] using h1
      | attrNode ne attrs l =>
        simp only [execStmt]
        exact Sim.bind (Sim.poll _ _) fun _ => Sim.bind (sim_evalExpr _ cfg fuel env ne) fun _ =>
          Sim.bind (Sim.asGraphNode _ _) fun _ => sim_execAttrs _ cfg hsh fuel env _ attrs (by simpa [stmtAttrs] using hclean)
      | createEdge a b l =>
        simp only [execStmt, hla, hpl.1]
        refine Sim.bind (Sim.poll _ _) fun _ => Sim.bind (sim_evalExpr _ cfg fuel env a) fun _ =>
          Sim.bind (Sim.asGraphNode _ _) fun _ => Sim.bind (sim_evalExpr _ cfg fuel env b) fun _ =>
            Sim.bind (Sim.asGraphNode _ _) fun _ =>
              Sim.bind (Sim.gop_addEdge _ _ _ _ _ (by simp [stripAttrs])) fun r => ?_
        cases r <;> first | exact Sim.panicAt _ _ | exact Sim.pure _ _
      | attrEdge a b attrs l =>
        simp only [execStmt]
        exact Sim.bind (Sim.poll _ _) fun _ => Sim.bind (sim_evalExpr _ cfg fuel env a) fun _ =>
          Sim.bind (Sim.asGraphNode _ _) fun _ => Sim.bind (sim_evalExpr _ cfg fuel env b) fun _ =>
            Sim.bind (Sim.asGraphNode _ _) fun _ => sim_execAttrs _ cfg hsh fuel env _ attrs (by simpa [stmtAttrs] using hclean)
      | scan e arms l =>
        simp only [execStmt]
        exact Sim.bind (Sim.poll _ _) fun _ => Sim.bind (sim_evalExpr _ cfg fuel env e) fun _ =>
          Sim.bind (Sim.ofExcept _ _) fun _ => ihSc env arms _ 0 (by simp at h; omega) hok (by simpa [stmtAttrs] using hclean)
      | print es l =>
        simp only [execStmt]
        exact Sim.bind (Sim.poll _ _) fun _ => sim_evalPrintArgs _ cfg fuel env es
      | ifS arms l =>
        simp only [execStmt]
        exact Sim.bind (Sim.poll _ _) fun _ => ihI env arms (by simp at h; omega) hok (by simpa [stmtAttrs] using hclean)
      | forIn var vl e body l =>
        simp only [execStmt]
        exact Sim.bind (Sim.poll _ _) fun _ => Sim.bind (sim_evalExpr _ cfg fuel env e) fun _ =>
          Sim.bind (Sim.ofExcept _ _) fun _ => Sim.bind (Sim.modifyR _ _) fun _ =>
            Sim.bind (ihF env var body _ (by simp at h; omega) hok (by simpa [stmtAttrs] using hclean)) fun _ => Sim.modifyR _ _
    -- blocks
    have hB : ∀ (env : Env) (kind : BlockKind) (ss : List Stmt), sizeOf ss ≤ m + 1 → EnvOK env → AttrsClean [la, va, ma] (stmtsAttrs ss) →
        Sim [la, va, ma] (execBlock cfg fuel env kind ss) (execBlock (plainCfg cfg) fuel env kind ss) := by
      intro env kind ss h hok hclean
      cases ss with
      | nil => rw [execBlock, execBlock]; exact Sim.pure _ _
      | cons st rest =>
        simp only [stmtsAttrs] at hclean
        have hst : sizeOf st ≤ m := by simp at h; omega
        have hrest : sizeOf rest ≤ m := by simp at h; omega
        rw [Strict.execBlock.eq_def, Strict.execBlock.eq_def]
        simp only
        have hok' : EnvOK { env with ctx := { env.ctx with stmtLoc := st.loc } } := hok
        cases kind with
        | plain =>
          exact Sim.bind (Sim.ctx _ (ihS _ st hst hok' hclean.left)) fun _ => ihB _ _ rest hrest hok' hclean.right
        | scanArm what =>
          exact Sim.bind (Sim.ctx _ (Sim.ctx _ (ihS _ st hst hok' hclean.left))) fun _ => ihB _ _ rest hrest hok' hclean.right
    -- if arms
    have hI : ∀ (env : Env) (arms : List (List Cond × List Stmt × Loc)), sizeOf arms ≤ m + 1 → EnvOK env →
        AttrsClean [la, va, ma] (ifArmsAttrs arms) →
        Sim [la, va, ma] (execIfArms cfg fuel env arms) (execIfArms (plainCfg cfg) fuel env arms) := by
      intro env arms h hok hclean
      cases arms with
      | nil => rw [execIfArms, execIfArms]; exact Sim.pure _ _
      | cons a rest =>
        obtain ⟨conds, body, l⟩ := a
        simp only [ifArmsAttrs] at hclean
        have hbody : sizeOf body ≤ m := by simp at h; omega
        have hrest : sizeOf rest ≤ m := by simp at h; omega
        rw [execIfArms, execIfArms]
        refine Sim.bind (sim_testConds _ cfg fuel env conds) fun ok => ?_
        cases ok with
        | true =>
          simp only [if_true]
          exact Sim.bind (Sim.modifyR _ _) fun _ => Sim.bind (ihB env .plain body hbody hok hclean.left) fun _ => Sim.modifyR _ _
        | false =>
          simp only [Bool.false_eq_true, if_false]
          exact ihI env rest hrest hok hclean.right
    -- for loops
    have hF : ∀ (env : Env) (var : String) (body : List Stmt) (vals : List Val), sizeOf body ≤ m + 1 → EnvOK env →
        AttrsClean [la, va, ma] (stmtsAttrs body) →
        Sim [la, va, ma] (execFor cfg fuel env var body vals) (execFor (plainCfg cfg) fuel env var body vals) := by
      intro env var body vals h hok hclean
      induction vals with
      | nil => rw [execFor, execFor]; exact Sim.pure _ _
      | cons v rest ihv =>
        rw [execFor, execFor]
        exact Sim.bind (Sim.modifyR _ _) fun _ => Sim.bind (Sim.prim _ _) fun _ =>
          Sim.bind (hB env .plain body h hok hclean) fun _ => ihv
    -- scan loops
    have hSc : ∀ (env : Env) (arms : List (String × List Stmt × Loc)) (subject : String) (i : Nat), sizeOf arms ≤ m + 1 → EnvOK env →
        AttrsClean [la, va, ma] (scanArmsAttrs arms) →
        Sim [la, va, ma] (scanLoop cfg fuel env arms subject i) (scanLoop (plainCfg cfg) fuel env arms subject i) := by
      intro env arms subject i h hok hclean
      -- induction on the number of bytes left
      have key : ∀ (k : Nat) (i : Nat), subject.utf8ByteSize - i ≤ k →
          Sim [la, va, ma] (scanLoop cfg fuel env arms subject i) (scanLoop (plainCfg cfg) fuel env arms subject i) := by
        intro k
        induction k with
        | zero =>
          intro i hk
          have hi : ¬ i < subject.utf8ByteSize := by omega
          rw [scanLoop, scanLoop]
          simp only [hi, dite_false]
          exact Sim.pure _ _
        | succ k ihk =>
          intro i hk
          by_cases hi : i < subject.utf8ByteSize
          · rw [scanLoop, scanLoop]
            simp only [hi, dite_true]
            refine Sim.bind (Sim.poll _ _) fun _ => ?_
            have horacle : (plainCfg cfg).oracle = cfg.oracle := rfl
            rw [horacle]
            cases hc : scanCollect cfg.oracle subject i arms 0 with
            | error f => exact Sim.failP _ _
            | ok ms =>
              simp only
              cases hb : scanBest ms with
              | none => exact Sim.pure _ _
              | some p =>
                obtain ⟨mt, kk⟩ := p
                simp only
                by_cases hk2 : (arms[kk]?).isSome
                · simp only [hk2, dite_true]
                  by_cases hm : 0 < mt.stop
                  · simp only [hm, dite_true]
                    have hsz : sizeOf (armBody arms kk) ≤ m := by
                      have := armBody_lt arms kk hk2; omega
                    exact Sim.bind (Sim.modifyR _ _) fun _ =>
                      Sim.bind (ihB { env with caps := capsOf mt } (.scanArm (armRegex arms kk)) (armBody arms kk) hsz hok
                        (clean_armBody _ arms kk hclean)) fun _ =>
                        Sim.bind (Sim.modifyR _ _) fun _ => ihk (i + mt.stop) (by omega)
                  · simp only [hm, dite_false]
                    exact Sim.failP _ _
                · simp only [hk2, dite_false]
                  exact Sim.panicAt _ _
          · rw [scanLoop, scanLoop]
            simp only [hi, dite_false]
            exact Sim.pure _ _
      exact key _ i (Nat.le_refl _)
    exact ⟨hS, hB, hI, hF, hSc⟩


/-! ### matches, stanzas, the whole run -/

theorem sim_execMatch (la va ma : String) (hd1 : la ≠ va) (hd2 : la ≠ ma) (hd3 : va ≠ ma) (cfg : Cfg)
    (hla : cfg.locAttr = some la) (hva : cfg.varAttr = some va) (hma : cfg.matchAttr = some ma)
    (hsh : ∀ sh ∈ cfg.shorthands, AttrsClean [la, va, ma] sh.attrs) (fuel : Nat) (st : Stanza) (m : QMatch)
    (hclean : AttrsClean [la, va, ma] (stmtsAttrs st.stmts)) :
    Sim [la, va, ma] (execMatch cfg fuel st m) (execMatch (plainCfg cfg) fuel st m) := by
  unfold execMatch
  refine Sim.bind (Sim.modifyR _ _) fun _ => ?_
  cases hst : st.stmts with
  | nil => exact Sim.pure _ _
  | cons s0 rest =>
    simp only
    rw [hst] at hclean
    unfold fullMatchNode
    cases hm : m.nodes fullMatchName with
    | nil =>
      show Sim _ (Prog.throwK .undefinedCapture >>= _) (Prog.throwK .undefinedCapture >>= _)
      intro sD sP h
      exact ⟨rfl, h⟩
    | cons n rest' =>
      show Sim _ (Pure.pure n >>= _) (Pure.pure n >>= _)
      refine Sim.bind (Sim.pure _ _) fun node => ?_
      have htree : (plainCfg cfg).tree = cfg.tree := rfl
      rw [htree]
      cases cfg.tree.node? node with
      | none => exact Sim.panicAt _ _
      | some tn =>
        exact (sim_stmts la va ma hd1 hd2 hd3 cfg hla hva hma hsh fuel (sizeOf (s0 :: rest))).2.1 _ .plain (s0 :: rest) (Nat.le_refl _)
          ⟨n, rest', hm⟩ hclean


theorem sim_execMatches (la va ma : String) (hd1 : la ≠ va) (hd2 : la ≠ ma) (hd3 : va ≠ ma) (cfg : Cfg)
    (hla : cfg.locAttr = some la) (hva : cfg.varAttr = some va) (hma : cfg.matchAttr = some ma)
    (hsh : ∀ sh ∈ cfg.shorthands, AttrsClean [la, va, ma] sh.attrs) (fuel : Nat) (st : Stanza)
    (hclean : AttrsClean [la, va, ma] (stmtsAttrs st.stmts)) (ms : List QMatch) :
    Sim [la, va, ma] (execMatches cfg fuel st ms) (execMatches (plainCfg cfg) fuel st ms) := by
  induction ms with
  | nil => exact Sim.pure _ _
  | cons m rest ih =>
    exact Sim.bind (sim_execMatch la va ma hd1 hd2 hd3 cfg hla hva hma hsh fuel st m hclean) fun _ => ih

theorem sim_execStanzas (la va ma : String) (hd1 : la ≠ va) (hd2 : la ≠ ma) (hd3 : va ≠ ma) (cfg : Cfg)
    (hla : cfg.locAttr = some la) (hva : cfg.varAttr = some va) (hma : cfg.matchAttr = some ma)
    (hsh : ∀ sh ∈ cfg.shorthands, AttrsClean [la, va, ma] sh.attrs) (fuel : Nat)
    (l : List (Stanza × List QMatch)) (hclean : ∀ p ∈ l, AttrsClean [la, va, ma] (stmtsAttrs p.1.stmts)) :
    Sim [la, va, ma] (execStanzas cfg fuel l) (execStanzas (plainCfg cfg) fuel l) := by
  induction l with
  | nil => exact Sim.pure _ _
  | cons p rest ih =>
    obtain ⟨st, ms⟩ := p
    exact Sim.bind (sim_execMatches la va ma hd1 hd2 hd3 cfg hla hva hma hsh fuel st (hclean (st, ms) (by simp)) ms) fun _ =>
      ih (fun q hq => hclean q (by simp [hq]))

/-- **Debug attributes are neutral (strict mode).** If the three debug attribute names are pairwise different and
are not used as attribute names by the file (in its stanzas or in its attribute shorthands), then the run with debug
attributes and the run without them — from the same graph, with the same globals, matches, oracle answers and
cancellation flag — end the same way (success, or the same error with the same contexts), after the same number of
polls, with graphs that are equal once the debug attributes are removed. -/
theorem strict_debug_neutral (file : File) (tree : Tree) (oracle : Oracle) (globals : GlobalsM) (la va ma : String)
    (cancelAt : Option Nat) (fuel : Nat) (ms : List (List QMatch)) (g0 : CGraph)
    (hd1 : la ≠ va) (hd2 : la ≠ ma) (hd3 : va ≠ ma)
    (hstanzas : ∀ st ∈ file.stanzas, AttrsClean [la, va, ma] (stmtsAttrs st.stmts))
    (hsh : ∀ sh ∈ file.shorthands, AttrsClean [la, va, ma] sh.attrs) :
    let plain := Strict.run file tree oracle globals none none none cancelAt fuel ms g0
    let dbg := Strict.run file tree oracle globals (some la) (some va) (some ma) cancelAt fuel ms g0
    dbg.outcome = plain.outcome ∧ strip [la, va, ma] dbg.graph = strip [la, va, ma] plain.graph ∧ dbg.polls = plain.polls := by
  simp only [Strict.run]
  cases hg : checkGlobals file.globals globals.nested with
  | error k => exact ⟨rfl, rfl, rfl⟩
  | ok gl =>
    simp only
    let cfgD : Cfg := { tree, oracle, globals := gl, inherited := file.inherited, shorthands := file.shorthands,
                        locAttr := some la, varAttr := some va, matchAttr := some ma }
    have hsim := sim_execStanzas la va ma hd1 hd2 hd3 cfgD rfl rfl rfl hsh fuel (file.stanzas.zip ms)
      (fun p hp => hstanzas p.1 (List.of_mem_zip hp).1)
    let s0 : MSt SRest := { graph := g0, rest := { locals := [[]], scopedVars := [] }, ps := { polls := 0, cancelAt } }
    have h := hsim s0 s0 ⟨rfl, rfl, rfl⟩
    show (Prog.toResult (Prog.run (execStanzas cfgD fuel (file.stanzas.zip ms)) s0)).outcome =
        (Prog.toResult (Prog.run (execStanzas (plainCfg cfgD) fuel (file.stanzas.zip ms)) s0)).outcome ∧
      strip [la, va, ma] (Prog.toResult (Prog.run (execStanzas cfgD fuel (file.stanzas.zip ms)) s0)).graph =
        strip [la, va, ma] (Prog.toResult (Prog.run (execStanzas (plainCfg cfgD) fuel (file.stanzas.zip ms)) s0)).graph ∧
      (Prog.toResult (Prog.run (execStanzas cfgD fuel (file.stanzas.zip ms)) s0)).polls =
        (Prog.toResult (Prog.run (execStanzas (plainCfg cfgD) fuel (file.stanzas.zip ms)) s0)).polls
    generalize Prog.run (execStanzas cfgD fuel (file.stanzas.zip ms)) s0 = rD at h ⊢
    generalize Prog.run (execStanzas (plainCfg cfgD) fuel (file.stanzas.zip ms)) s0 = rP at h ⊢
    cases rD with
    | ok u sD =>
      cases rP with
      | ok u' sP =>
        obtain ⟨_, hgr, _, hps⟩ := h
        exact ⟨rfl, hgr, by simp [Prog.toResult, hps]⟩
      | fail f sP => exact h.elim
    | fail f sD =>
      cases rP with
      | ok u' sP => exact h.elim
      | fail f' sP =>
        obtain ⟨rfl, hgr, _, hps⟩ := h
        exact ⟨rfl, hgr, by simp [Prog.toResult, hps]⟩

end DebugSim
