/-
  Neutrality of debug attributes, the framework: a semantic simulation between two programs over an
  interpreter's state, relating machine states whose graphs are equal once the debug attribute names are removed.
-/
import Tsg.Proofs.Strip

namespace DebugSim
open Prog C15

variable {α β : Type}

/-- how the private states of the two runs are related: equal for the strict interpreter; for the lazy interpreter the
queued `edge` statements may differ in their debug attributes -/
class RestRel (ρ : Type) where
  rr : List String → ρ → ρ → Prop

instance : RestRel SRest := ⟨fun _ a b => a = b⟩

variable {ρ : Type} [RestRel ρ]

/-- machine states that differ only in attributes named in `names` -/
def Rel (names : List String) (sD sP : MSt ρ) : Prop :=
  strip names sD.graph = strip names sP.graph ∧ RestRel.rr names sD.rest sP.rest ∧ sD.ps = sP.ps

/-- results that agree: same value or same failure, related states -/
def RelRes (names : List String) : Res (MSt ρ) α → Res (MSt ρ) α → Prop
  | .ok a sD, .ok a' sP => a = a' ∧ Rel names sD sP
  | .fail f sD, .fail f' sP => f = f' ∧ Rel names sD sP
  | _, _ => False

/-- `tD` (the run with debug attributes) simulates `tP` (the plain run) -/
def Sim (names : List String) (tD tP : Prog ρ α) : Prop :=
  ∀ sD sP, Rel names sD sP → RelRes names (run tD sD) (run tP sP)

theorem Sim.pure (names : List String) (a : α) : Sim names (Pure.pure a : Prog ρ α) (Pure.pure a) := by
  intro sD sP h; exact ⟨rfl, h⟩

theorem Sim.fail (names : List String) (f : Fail) : Sim names (Prog.fail f : Prog ρ α) (Prog.fail f) := by
  intro sD sP h; exact ⟨rfl, h⟩

theorem Sim.bind {names : List String} {tD tP : Prog ρ α} {fD fP : α → Prog ρ β}
    (h1 : Sim names tD tP) (h2 : ∀ a, Sim names (fD a) (fP a)) : Sim names (tD >>= fD) (tP >>= fP) := by
  intro sD sP h
  rw [run_bind, run_bind]
  have := h1 sD sP h
  cases hD : run tD sD with
  | ok a sD' =>
    cases hP : run tP sP with
    | ok a' sP' =>
      rw [hD, hP] at this
      obtain ⟨rfl, hrel⟩ := this
      exact h2 a sD' sP' hrel
    | fail f sP' => rw [hD, hP] at this; exact this.elim
  | fail f sD' =>
    cases hP : run tP sP with
    | ok a' sP' => rw [hD, hP] at this; exact this.elim
    | fail f' sP' =>
      rw [hD, hP] at this
      exact this

theorem Sim.poll (names : List String) (l : String) : Sim names (pollP l : Prog ρ Unit) (pollP l) := by
  intro sD sP h
  obtain ⟨hg, hr, hp⟩ := h
  simp only [pollP, run, hp]
  cases hc : sP.ps.cancelAt with
  | none => exact ⟨rfl, hg, hr, by simp [hp]⟩
  | some c =>
    simp only
    split
    · exact ⟨rfl, hg, hr, by simp [hp]⟩
    · exact ⟨rfl, hg, hr, by simp [hp]⟩

theorem Sim.prim (names : List String) (f : SRest → Except Fail α × SRest) : Sim names (primP f) (primP f) := by
  intro sD sP h
  obtain ⟨hg, hr, hp⟩ := h
  have hr : sD.rest = sP.rest := hr
  simp only [primP, run, hr]
  cases hf : f sP.rest with
  | mk r s' =>
    cases r with
    | ok b => exact ⟨rfl, hg, rfl, hp⟩
    | error e => exact ⟨rfl, hg, rfl, hp⟩

theorem Sim.ctx {names : List String} {mD mP : Prog ρ α} (c : Ctx) (h : Sim names mD mP) :
    Sim names (withContext c mD) (withContext c mP) := by
  intro sD sP hrel
  simp only [withContext, run]
  have := h sD sP hrel
  cases hD : run mD sD with
  | ok a sD' =>
    cases hP : run mP sP with
    | ok a' sP' => rw [hD, hP] at this; exact this
    | fail f sP' => rw [hD, hP] at this; exact this.elim
  | fail f sD' =>
    cases hP : run mP sP with
    | ok a' sP' => rw [hD, hP] at this; exact this.elim
    | fail f' sP' =>
      rw [hD, hP] at this
      obtain ⟨rfl, hr⟩ := this
      exact ⟨rfl, hr⟩

theorem Sim.ofExcept (names : List String) (x : Except EK α) : Sim names (ofExcept x : Prog ρ α) (ofExcept x) := by
  cases x with
  | ok a => exact Sim.pure names a
  | error e => intro sD sP h; exact ⟨rfl, h⟩

theorem Sim.throwK (names : List String) (k : EK) : Sim names (throwK k : Prog ρ α) (throwK k) := by
  intro sD sP h; exact ⟨rfl, h⟩

theorem Sim.failP (names : List String) (f : Fail) : Sim names (failP f : Prog ρ α) (failP f) := by
  intro sD sP h; exact ⟨rfl, h⟩

theorem Sim.panicAt (names : List String) (site : String) : Sim names (panicAt site : Prog ρ α) (panicAt site) := by
  intro sD sP h; exact ⟨rfl, h⟩


/-! ### stripping and the graph primitives -/

theorem strip_length (names : List String) (g : CGraph) : (strip names g).nodes.length = g.nodes.length := by
  simp [strip]

theorem rel_length {names : List String} {gD gP : CGraph} (h : strip names gD = strip names gP) :
    gD.nodes.length = gP.nodes.length := by
  have := congrArg (fun g => g.nodes.length) h
  simpa [strip] using this

theorem node?_strip (names : List String) (g : CGraph) (i : Nat) :
    (strip names g).node? i = (g.node? i).map (stripNode names) := by
  simp [strip, CGraph.node?]

theorem strip_setNode (names : List String) (g : CGraph) (i : Nat) (n : GNode) :
    strip names (g.setNode i n) = (strip names g).setNode i (stripNode names n) := by
  simp [strip, CGraph.setNode, List.map_set]

theorem stripNode_empty (names : List String) : stripNode names ({} : GNode) = {} := by
  simp [stripNode, stripAttrs]

theorem strip_addGraphNode (names : List String) (g : CGraph) :
    strip names g.addGraphNode.1 = (strip names g).addGraphNode.1 := by
  simp [strip, CGraph.addGraphNode, stripNode_empty]

/-- related graphs have related nodes at every index -/
theorem rel_node {names : List String} {gD gP : CGraph} (h : strip names gD = strip names gP) (i : Nat) :
    (gD.node? i).map (stripNode names) = (gP.node? i).map (stripNode names) := by
  rw [← node?_strip, ← node?_strip, h]

theorem Sim.gop_addNode (names : List String) : Sim names (gopP .addNode : Prog ρ Nat) (gopP .addNode) := by
  intro sD sP h
  obtain ⟨hg, hr, hp⟩ := h
  simp only [gopP, run, GraphOp.apply]
  refine ⟨?_, ?_, hr, hp⟩
  · simp [CGraph.addGraphNode, rel_length hg]
  · show strip names sD.graph.addGraphNode.1 = strip names sP.graph.addGraphNode.1
    rw [strip_addGraphNode, strip_addGraphNode, hg]

theorem Sim.gop_callFn (names : List String) (o : Oracle) (t : Tree) (name : String) (args : List Val) :
    Sim names (gopP (.callFn o t name args) : Prog ρ Val) (gopP (.callFn o t name args)) := by
  intro sD sP h
  obtain ⟨hg, hr, hp⟩ := h
  simp only [gopP, run, GraphOp.apply, Stdlib.call]
  by_cases hn : name = "node"
  · simp only [hn, if_true]
    cases Stdlib.finish args with
    | error e => exact ⟨rfl, hg, hr, hp⟩
    | ok u =>
      refine ⟨?_, ?_, hr, hp⟩
      · simp [CGraph.addGraphNode, rel_length hg]
      · show strip names sD.graph.addGraphNode.1 = strip names sP.graph.addGraphNode.1
        rw [strip_addGraphNode, strip_addGraphNode, hg]
  · simp only [hn, if_false]
    cases Stdlib.callPure o t name args <;> exact ⟨rfl, hg, hr, hp⟩


/-- an ordinary node attribute: same verdict, related graphs -/
theorem Sim.gop_addNodeAttr (names : List String) (n : Nat) (k : String) (v : Val) (f : Fail) (hk : names.contains k = false) :
    Sim names (gopP (.addNodeAttr n k v f) : Prog ρ (Option Unit)) (gopP (.addNodeAttr n k v f)) := by
  intro sD sP h
  obtain ⟨hg, hr, hp⟩ := h
  have hnode := rel_node hg n
  simp only [gopP, run, GraphOp.apply, CGraph.addNodeAttr]
  cases hD : sD.graph.node? n with
  | none =>
    cases hP : sP.graph.node? n with
    | none => exact ⟨rfl, hg, hr, hp⟩
    | some nP => rw [hD, hP] at hnode; simp at hnode
  | some nD =>
    cases hP : sP.graph.node? n with
    | none => rw [hD, hP] at hnode; simp at hnode
    | some nP =>
      rw [hD, hP] at hnode
      simp only [Option.map_some, Option.some.injEq] at hnode
      have hattrs : stripAttrs names nD.attrs = stripAttrs names nP.attrs := by
        have := congrArg GNode.attrs hnode; simpa [stripNode] using this
      have hedges : nD.edges.map (fun e => (e.1, stripAttrs names e.2)) = nP.edges.map (fun e => (e.1, stripAttrs names e.2)) := by
        have := congrArg GNode.edges hnode; simpa [stripNode] using this
      obtain ⟨hD1, hD2⟩ := stripAttrs_add_other names nD.attrs k v hk
      obtain ⟨hP1, hP2⟩ := stripAttrs_add_other names nP.attrs k v hk
      have hverdict : (Attrs.add nD.attrs k v).2 = (Attrs.add nP.attrs k v).2 := by rw [hD2, hP2, hattrs]
      have hnew : strip names (sD.graph.setNode n { nD with attrs := (Attrs.add nD.attrs k v).1 }) =
          strip names (sP.graph.setNode n { nP with attrs := (Attrs.add nP.attrs k v).1 }) := by
        rw [strip_setNode, strip_setNode, hg]
        congr 1
        simp only [stripNode, hedges, hD1, hP1, hattrs]
      simp only
      cases hc : (Attrs.add nD.attrs k v).2 with
      | false =>
        rw [← hverdict, hc] 
        exact ⟨rfl, hnew, hr, hp⟩
      | true =>
        rw [← hverdict, hc]
        exact ⟨rfl, hnew, hr, hp⟩


/-! edges of related nodes -/

theorem lookup_map_strip (names : List String) (es : List (Nat × Attrs)) (sink : Nat) :
    (es.map fun e => (e.1, stripAttrs names e.2)).lookup sink = (es.lookup sink).map (stripAttrs names) := by
  induction es with
  | nil => rfl
  | cons e rest ih =>
    obtain ⟨s', a⟩ := e
    simp only [List.map_cons, List.lookup]
    cases hb : sink == s' <;> simp [ih]

theorem setEdgeAttrs_map_strip (names : List String) (es : List (Nat × Attrs)) (sink : Nat) (a : Attrs) :
    (GNode.setEdgeAttrs es sink a).map (fun e => (e.1, stripAttrs names e.2)) =
      GNode.setEdgeAttrs (es.map fun e => (e.1, stripAttrs names e.2)) sink (stripAttrs names a) := by
  induction es with
  | nil => rfl
  | cons e rest ih =>
    obtain ⟨s', a'⟩ := e
    simp only [GNode.setEdgeAttrs, List.map_cons]
    by_cases h : s' = sink <;> simp [h, ih]

theorem insertEdge_map_strip (names : List String) (es : List (Nat × Attrs)) (sink : Nat) :
    ((GNode.insertEdge es sink).1.map fun e => (e.1, stripAttrs names e.2)) =
      (GNode.insertEdge (es.map fun e => (e.1, stripAttrs names e.2)) sink).1 ∧
    (GNode.insertEdge es sink).2 = (GNode.insertEdge (es.map fun e => (e.1, stripAttrs names e.2)) sink).2 := by
  induction es with
  | nil => simp [GNode.insertEdge, stripAttrs]
  | cons e rest ih =>
    obtain ⟨s', a'⟩ := e
    simp only [GNode.insertEdge, List.map_cons]
    by_cases h1 : sink < s'
    · simp [h1, stripAttrs]
    · by_cases h2 : sink = s'
      · simp [h1, h2]
      · simp only [h1, h2, if_false]
        obtain ⟨ih1, ih2⟩ := ih
        simp [ih1, ih2]

/-- an ordinary edge attribute -/
theorem Sim.gop_addEdgeAttr (names : List String) (src sink : Nat) (k : String) (v : Val) (f : Fail) (hk : names.contains k = false) :
    Sim names (gopP (.addEdgeAttr src sink k v f) : Prog ρ (Option (Option Unit))) (gopP (.addEdgeAttr src sink k v f)) := by
  intro sD sP h
  obtain ⟨hg, hr, hp⟩ := h
  have hnode := rel_node hg src
  simp only [gopP, run, GraphOp.apply, CGraph.addEdgeAttr]
  cases hD : sD.graph.node? src with
  | none =>
    cases hP : sP.graph.node? src with
    | none => exact ⟨rfl, hg, hr, hp⟩
    | some nP => rw [hD, hP] at hnode; simp at hnode
  | some nD =>
    cases hP : sP.graph.node? src with
    | none => rw [hD, hP] at hnode; simp at hnode
    | some nP =>
      rw [hD, hP] at hnode
      simp only [Option.map_some, Option.some.injEq] at hnode
      have hattrs : stripAttrs names nD.attrs = stripAttrs names nP.attrs := by
        have := congrArg GNode.attrs hnode; simpa [stripNode] using this
      have hedges : nD.edges.map (fun e => (e.1, stripAttrs names e.2)) = nP.edges.map (fun e => (e.1, stripAttrs names e.2)) := by
        have := congrArg GNode.edges hnode; simpa [stripNode] using this
      have hlook : (nD.edges.lookup sink).map (stripAttrs names) = (nP.edges.lookup sink).map (stripAttrs names) := by
        rw [← lookup_map_strip, ← lookup_map_strip, hedges]
      simp only [GNode.getEdge]
      cases hlD : nD.edges.lookup sink with
      | none =>
        cases hlP : nP.edges.lookup sink with
        | none => exact ⟨rfl, hg, hr, hp⟩
        | some eP => rw [hlD, hlP] at hlook; simp at hlook
      | some eD =>
        cases hlP : nP.edges.lookup sink with
        | none => rw [hlD, hlP] at hlook; simp at hlook
        | some eP =>
          rw [hlD, hlP] at hlook
          simp only [Option.map_some, Option.some.injEq] at hlook
          obtain ⟨hD1, hD2⟩ := stripAttrs_add_other names eD k v hk
          obtain ⟨hP1, hP2⟩ := stripAttrs_add_other names eP k v hk
          have hverdict : (Attrs.add eD k v).2 = (Attrs.add eP k v).2 := by rw [hD2, hP2, hlook]
          have hnew : strip names (sD.graph.setNode src { nD with edges := GNode.setEdgeAttrs nD.edges sink (Attrs.add eD k v).1 }) =
              strip names (sP.graph.setNode src { nP with edges := GNode.setEdgeAttrs nP.edges sink (Attrs.add eP k v).1 }) := by
            rw [strip_setNode, strip_setNode, hg]
            congr 1
            simp only [stripNode, setEdgeAttrs_map_strip, hedges, hD1, hP1, hlook, hattrs]
          simp only
          cases hc : (Attrs.add eD k v).2 with
          | false => rw [← hverdict, hc]; exact ⟨rfl, hnew, hr, hp⟩
          | true => rw [← hverdict, hc]; exact ⟨rfl, hnew, hr, hp⟩

/-- an `edge` statement: the attributes given to a NEW edge may differ in debug attributes only -/
theorem Sim.gop_addEdge (names : List String) (src sink : Nat) (aD aP : Attrs) (ha : stripAttrs names aD = stripAttrs names aP) :
    Sim names (gopP (.addEdge src sink aD) : Prog ρ (Option Bool)) (gopP (.addEdge src sink aP)) := by
  intro sD sP h
  obtain ⟨hg, hr, hp⟩ := h
  have hnode := rel_node hg src
  simp only [gopP, run, GraphOp.apply]
  cases hD : sD.graph.node? src with
  | none =>
    cases hP : sP.graph.node? src with
    | none => exact ⟨rfl, hg, hr, hp⟩
    | some nP => rw [hD, hP] at hnode; simp at hnode
  | some nD =>
    cases hP : sP.graph.node? src with
    | none => rw [hD, hP] at hnode; simp at hnode
    | some nP =>
      rw [hD, hP] at hnode
      simp only [Option.map_some, Option.some.injEq] at hnode
      have hattrs : stripAttrs names nD.attrs = stripAttrs names nP.attrs := by
        have := congrArg GNode.attrs hnode; simpa [stripNode] using this
      have hedges : nD.edges.map (fun e => (e.1, stripAttrs names e.2)) = nP.edges.map (fun e => (e.1, stripAttrs names e.2)) := by
        have := congrArg GNode.edges hnode; simpa [stripNode] using this
      obtain ⟨hiD1, hiD2⟩ := insertEdge_map_strip names nD.edges sink
      obtain ⟨hiP1, hiP2⟩ := insertEdge_map_strip names nP.edges sink
      have hnewflag : (GNode.insertEdge nD.edges sink).2 = (GNode.insertEdge nP.edges sink).2 := by rw [hiD2, hiP2, hedges]
      simp only [GNode.addEdge]
      by_cases hc : (GNode.insertEdge nD.edges sink).2 = true
      · have hcP : (GNode.insertEdge nP.edges sink).2 = true := by rw [← hnewflag]; exact hc
        simp only [hc, hcP, if_true]
        refine ⟨rfl, ?_, hr, hp⟩
        rw [strip_setNode, strip_setNode, hg]
        congr 1
        simp only [stripNode, setEdgeAttrs_map_strip, hiD1, hiP1, hedges, ha, hattrs]
      · have hcP : ¬ (GNode.insertEdge nP.edges sink).2 = true := by rw [← hnewflag]; exact hc
        simp only [hc, hcP, if_false]
        exact ⟨rfl, hg, hr, hp⟩


/-! ### the debug attributes of a new node -/

theorem node?_setNode_same (g : CGraph) (i : Nat) (n nd : GNode) (h : g.node? i = some nd) : (g.setNode i n).node? i = some n := by
  simp only [CGraph.node?, CGraph.setNode] at h ⊢
  have hlt : i < g.nodes.length := by
    cases hh : g.nodes[i]? with
    | none => rw [hh] at h; cases h
    | some x => exact (List.getElem?_eq_some_iff.mp hh).1
  simp [hlt]

/-- a debug attribute on a node that does not carry it yet: no conflict, invisible after stripping -/
theorem run_addDebug (names : List String) (s : MSt ρ) (n : Nat) (k : String) (v : Val) (nd : GNode)
    (hn : s.graph.node? n = some nd) (hfresh : nd.attrs.lookup k = none) (hk : names.contains k = true) :
    ∃ g', run (Strict.addDebugNodeAttr n k v : Prog ρ Unit) s = .ok () { s with graph := g' } ∧
      strip names g' = strip names s.graph ∧ g'.node? n = some { nd with attrs := nd.attrs ++ [(k, v)] } := by
  refine ⟨s.graph.setNode n { nd with attrs := nd.attrs ++ [(k, v)] }, ?_, ?_, node?_setNode_same _ _ _ _ hn⟩
  · simp only [Strict.addDebugNodeAttr, Strict.addAttribute, run_bind, gopP, run, GraphOp.apply, CGraph.addNodeAttr, hn, Attrs.add, hfresh]
    rfl
  · rw [strip_setNode]
    have : stripNode names { nd with attrs := nd.attrs ++ [(k, v)] } = stripNode names nd := by
      simp only [stripNode, stripAttrs_append]
      have : stripAttrs names [(k, v)] = [] := by rw [stripAttrs_cons, if_pos hk]; rfl
      rw [this]; simp
    rw [this]
    -- setting a node to (the strip of) itself changes nothing
    simp only [strip, CGraph.setNode]
    congr 1
    have hn' : s.graph.nodes[n]? = some nd := hn
    apply List.ext_getElem?
    intro i
    by_cases hi : i = n
    · subst hi
      obtain ⟨hlt, hget⟩ := List.getElem?_eq_some_iff.mp hn'
      simp [hlt, hget]
    · simp [List.getElem?_set, Ne.symm hi]

end DebugSim
