/-
  The graph preorder `g ⊑ g'` ("everything in `g` is still in `g'` with the same value") and its
  preservation by every graph operation, hence by every program (`Prog.run`).
-/
import Tsg.Proofs.Prog

namespace CGraph

def AttrsLe (a a' : Attrs) : Prop := ∀ k v, a.get k = some v → a'.get k = some v

/-- every node index, attribute binding and edge (with its attribute bindings) of `g` is present in `g'` -/
def Le (g g' : CGraph) : Prop :=
  g.nodes.length ≤ g'.nodes.length ∧
  ∀ (i : Nat) (nd : GNode), g.nodes[i]? = some nd → ∃ nd' : GNode, g'.nodes[i]? = some nd' ∧ AttrsLe nd.attrs nd'.attrs ∧
    ∀ (t : Nat) (a : Attrs), nd.getEdge t = some a → ∃ a' : Attrs, nd'.getEdge t = some a' ∧ AttrsLe a a'

theorem attrsLe_refl (a : Attrs) : AttrsLe a a := fun _ _ h => h
theorem attrsLe_trans {a b c : Attrs} (h1 : AttrsLe a b) (h2 : AttrsLe b c) : AttrsLe a c :=
  fun k v h => h2 k v (h1 k v h)

theorem le_refl (g : CGraph) : Le g g :=
  ⟨Nat.le_refl _, fun _ nd h => ⟨nd, h, attrsLe_refl _, fun _ a ha => ⟨a, ha, attrsLe_refl _⟩⟩⟩

theorem le_trans {a b c : CGraph} (h1 : Le a b) (h2 : Le b c) : Le a c := by
  refine ⟨Nat.le_trans h1.1 h2.1, ?_⟩
  intro i nd hnd
  obtain ⟨nd1, h1n, h1a, h1e⟩ := h1.2 i nd hnd
  obtain ⟨nd2, h2n, h2a, h2e⟩ := h2.2 i nd1 h1n
  refine ⟨nd2, h2n, attrsLe_trans h1a h2a, ?_⟩
  intro t a ha
  obtain ⟨a1, ha1, hle1⟩ := h1e t a ha
  obtain ⟨a2, ha2, hle2⟩ := h2e t a1 ha1
  exact ⟨a2, ha2, attrsLe_trans hle1 hle2⟩

/-- replacing node `i` by a node that extends it extends the graph -/
theorem le_setNode (g : CGraph) (i : Nat) (nd nd' : GNode) (hi : g.nodes[i]? = some nd)
    (ha : AttrsLe nd.attrs nd'.attrs)
    (he : ∀ t a, nd.getEdge t = some a → ∃ a', nd'.getEdge t = some a' ∧ AttrsLe a a') :
    Le g (g.setNode i nd') := by
  refine ⟨by simp [setNode], ?_⟩
  intro j ndj hj
  rw [getElem?_setNode]
  by_cases hij : i = j
  · subst hij
    rw [hi] at hj; cases hj
    exact ⟨nd', by simp [hi], ha, he⟩
  · simp only [hij, if_false]
    exact ⟨ndj, hj, attrsLe_refl _, fun _ a h => ⟨a, h, attrsLe_refl _⟩⟩

theorem le_addGraphNode (g : CGraph) : Le g (g.addGraphNode).1 := by
  refine ⟨by simp [addGraphNode], ?_⟩
  intro i nd h
  have hlt := lt_of_getElem?_some _ _ _ h
  refine ⟨nd, ?_, attrsLe_refl _, fun _ a ha => ⟨a, ha, attrsLe_refl _⟩⟩
  simp [addGraphNode, List.getElem?_append_left hlt, h]

theorem inv_addGraphNode (g : CGraph) (h : Inv g) : Inv (g.addGraphNode).1 :=
  inv_applyOp g .addNode h

/-- a non-conflicting `Attributes::add` only adds -/
theorem attrsLe_add (a : Attrs) (k : String) (v : Val) (h : (Attrs.add a k v).2 = false) :
    AttrsLe a (Attrs.add a k v).1 := by
  intro k2 v2 h2
  by_cases hk : k2 = k
  · subst hk
    rw [Attrs.get_add_same]
    have := (Attrs.add_conflict_iff a k2 v)
    by_cases hv : v2 = v
    · rw [hv]
    · have hc : (Attrs.add a k2 v).2 = true := this.mpr ⟨v2, h2, hv⟩
      rw [hc] at h; cases h
  · rw [Attrs.get_add_other _ _ _ _ hk]; exact h2

end CGraph

namespace GraphOp
open CGraph

theorem stdlib_call_graph (o : Oracle) (t : Tree) (name : String) (args : List Val) (g g' : CGraph) (v : Val)
    (h : Stdlib.call o t name args g = .ok v g') : g' = g ∨ g' = (g.addGraphNode).1 := by
  unfold Stdlib.call at h
  by_cases hn : name = "node"
  · simp only [hn, if_true] at h
    cases hf : Stdlib.finish args with
    | error e => simp [hf] at h
    | ok u => simp [hf] at h; exact Or.inr h.2.symm
  · simp only [hn, if_false] at h
    cases hp : Stdlib.callPure o t name args <;> simp [hp] at h
    exact Or.inl h.2.symm

/-- every successful graph operation extends the graph and keeps the representation invariant -/
theorem apply_extends {α : Type} (op : GraphOp α) (g g' : CGraph) (b : α) (hinv : Inv g)
    (h : op.apply g = (.ok b, g')) : Le g g' ∧ Inv g' := by
  cases op with
  | read => simp [apply] at h; obtain ⟨_, rfl⟩ := h; exact ⟨le_refl _, hinv⟩
  | addNode =>
    simp [apply] at h; obtain ⟨_, rfl⟩ := h
    exact ⟨le_addGraphNode g, inv_addGraphNode g hinv⟩
  | addEdge src sink attrs =>
    simp only [apply, node?] at h
    cases hs : g.nodes[src]? with
    | none => simp [hs] at h; obtain ⟨_, rfl⟩ := h; exact ⟨le_refl _, hinv⟩
    | some nd =>
      simp only [hs, GNode.addEdge] at h
      have hsorted := node_sorted g hinv src nd hs
      by_cases hnew : (GNode.insertEdge nd.edges sink).2 = true
      · simp only [hnew, if_true] at h
        simp at h; obtain ⟨_, rfl⟩ := h
        have hnone : nd.edges.lookup sink = none := (GNode.insertEdge_new_iff nd.edges sink hsorted).mp hnew
        constructor
        · refine le_setNode g src nd _ hs (fun _ _ h => h) ?_
          intro t a ha
          simp only [GNode.getEdge] at ha ⊢
          by_cases hts : t = sink
          · subst hts; rw [hnone] at ha; cases ha
          · rw [GNode.lookup_setEdgeAttrs_other _ _ _ _ hts, GNode.lookup_insertEdge_other _ _ _ hts]
            exact ⟨a, ha, attrsLe_refl _⟩
        · exact inv_setNode g src _ hinv (GNode.sorted_setEdgeAttrs _ _ _ (GNode.sorted_insertEdge _ _ hsorted))
      · have hf : (GNode.insertEdge nd.edges sink).2 = false := by
          cases hb : (GNode.insertEdge nd.edges sink).2 <;> simp_all
        simp [hf] at h; obtain ⟨_, rfl⟩ := h
        exact ⟨le_refl _, hinv⟩
  | addNodeAttr n k v onConflict =>
    cases hs : g.nodes[n]? with
    | none => simp [apply, CGraph.addNodeAttr, node?, hs] at h; obtain ⟨_, rfl⟩ := h; exact ⟨le_refl _, hinv⟩
    | some nd =>
      simp only [apply, CGraph.addNodeAttr, node?, hs] at h
      cases hc : (Attrs.add nd.attrs k v).2 with
      | true => simp [hc] at h
      | false =>
        simp [hc] at h; obtain ⟨_, rfl⟩ := h
        constructor
        · refine le_setNode g n nd _ hs (attrsLe_add _ _ _ hc) ?_
          intro t a ha; exact ⟨a, ha, attrsLe_refl _⟩
        · exact inv_setNode g n _ hinv (node_sorted g hinv n nd hs)
  | addEdgeAttr src sink k v onConflict =>
    cases hs : g.nodes[src]? with
    | none => simp [apply, CGraph.addEdgeAttr, node?, hs] at h; obtain ⟨_, rfl⟩ := h; exact ⟨le_refl _, hinv⟩
    | some nd =>
      cases he : nd.getEdge sink with
      | none => simp [apply, CGraph.addEdgeAttr, node?, hs, he] at h; obtain ⟨_, rfl⟩ := h; exact ⟨le_refl _, hinv⟩
      | some ea =>
        simp only [apply, CGraph.addEdgeAttr, node?, hs, he] at h
        cases hc : (Attrs.add ea k v).2 with
        | true => simp [hc] at h
        | false =>
          simp [hc] at h; obtain ⟨_, rfl⟩ := h
          constructor
          · refine le_setNode g src nd _ hs (fun _ _ h => h) ?_
            intro t a ha
            simp only [GNode.getEdge] at ha he ⊢
            by_cases hts : t = sink
            · subst hts
              rw [he] at ha; cases ha
              rw [GNode.lookup_setEdgeAttrs_same _ _ _ (by simp [he])]
              exact ⟨_, rfl, attrsLe_add _ _ _ hc⟩
            · rw [GNode.lookup_setEdgeAttrs_other _ _ _ _ hts]
              exact ⟨a, ha, attrsLe_refl _⟩
          · exact inv_setNode g src _ hinv (GNode.sorted_setEdgeAttrs _ _ _ (node_sorted g hinv src nd hs))
  | callFn o t name args =>
    simp only [apply] at h
    cases hc : Stdlib.call o t name args g with
    | ok v g2 =>
      simp [hc] at h; obtain ⟨_, rfl⟩ := h
      rcases stdlib_call_graph o t name args g g2 v hc with rfl | rfl
      · exact ⟨le_refl _, hinv⟩
      · exact ⟨le_addGraphNode g, inv_addGraphNode g hinv⟩
    | err k => simp [hc] at h
    | panic s => simp [hc] at h
    | need q => simp [hc] at h

end GraphOp

namespace Prog
open CGraph
variable {ρ : Type}

/-- **Monotonicity.** A program that finishes successfully leaves every node, edge and attribute
binding of the initial graph in place (and keeps edge lists sorted) — for every program term. -/
theorem run_extends {α : Type} (t : Prog ρ α) :
    ∀ (s s' : MSt ρ) (a : α), Inv s.graph → run t s = .ok a s' → Le s.graph s'.graph ∧ Inv s'.graph := by
  induction t with
  | pure x => intro s s' a hinv h; simp [run] at h; obtain ⟨_, rfl⟩ := h; exact ⟨le_refl _, hinv⟩
  | fail f => intro s s' a hinv h; simp [run] at h
  | poll label k ih =>
    intro s s' a hinv h
    simp only [run] at h
    split at h
    · split at h
      · cases h
      · exact ih () { s with ps := { s.ps with polls := s.ps.polls + 1 } } s' a hinv h
    · exact ih () { s with ps := { s.ps with polls := s.ps.polls + 1 } } s' a hinv h
  | gop op k ih =>
    intro s s' a hinv h
    simp only [run] at h
    split at h
    · rename_i b g' hop
      obtain ⟨hle, hinv'⟩ := GraphOp.apply_extends op s.graph g' b hinv hop
      obtain ⟨hle2, hinv2⟩ := ih b { s with graph := g' } s' a hinv' h
      exact ⟨le_trans hle hle2, hinv2⟩
    · cases h
  | prim f k ih =>
    intro s s' a hinv h
    simp only [run] at h
    split at h
    · rename_i b r' _
      exact ih b { s with rest := r' } s' a hinv h
    · cases h
  | ctx c m k ihm ihk =>
    intro s s' a hinv h
    simp only [run] at h
    cases hm : run m s with
    | ok b s1 =>
      simp only [hm] at h
      obtain ⟨hle, hinv1⟩ := ihm s s1 b hinv hm
      obtain ⟨hle2, hinv2⟩ := ihk b s1 s' a hinv1 h
      exact ⟨le_trans hle hle2, hinv2⟩
    | fail f s1 => simp [hm] at h

end Prog
