/-
  Helper lemmas about the container model (`Attrs`, `GNode`, `CGraph`).
-/
import Tsg.Base.Graph

namespace Attrs

theorem lookup_replace_same (a : Attrs) (k : String) (v : Val) (h : (a.lookup k).isSome) :
    (replace a k v).lookup k = some v := by
  induction a with
  | nil => simp [List.lookup] at h
  | cons p rest ih =>
    obtain ⟨k', v'⟩ := p
    by_cases hk : k' = k
    · subst hk; simp [replace, List.lookup]
    · have hk' : (k == k') = false := by simp [Ne.symm hk]
      simp only [replace, hk, if_false, List.lookup, hk']
      simp only [List.lookup, hk'] at h
      exact ih h

theorem lookup_replace_other (a : Attrs) (k k2 : String) (v : Val) (h : k2 ≠ k) :
    (replace a k v).lookup k2 = a.lookup k2 := by
  induction a with
  | nil => simp [replace]
  | cons p rest ih =>
    obtain ⟨k', v'⟩ := p
    by_cases hk : k' = k
    · subst hk
      have : (k2 == k') = false := by simp [h]
      simp [replace, List.lookup, this]
    · simp only [replace, hk, if_false, List.lookup]
      cases hkk : (k2 == k') <;> simp [ih]

theorem lookup_append_single (a : Attrs) (k k2 : String) (v : Val) :
    (a ++ [(k, v)]).lookup k2 = match a.lookup k2 with
      | some x => some x
      | none => if k2 = k then some v else none := by
  induction a with
  | nil =>
    by_cases h : k2 = k
    · subst h; simp [List.lookup]
    · have : (k2 == k) = false := by simp [h]
      simp [List.lookup, this, h]
  | cons p rest ih =>
    obtain ⟨k', v'⟩ := p
    cases hkk : (k2 == k') <;> simp [List.lookup, hkk, ih]

/-- after `add`, the attribute holds the new value — also in the conflict case (the code
overwrites and reports `Err(old)`) -/
theorem get_add_same (a : Attrs) (k : String) (v : Val) : (add a k v).1.get k = some v := by
  unfold add get
  cases h : a.lookup k with
  | none => simp [lookup_append_single, h]
  | some old =>
    by_cases ho : old = v
    · subst ho; simp [h]
    · simp only [ho, if_false]
      exact lookup_replace_same a k v (by simp [h])

theorem get_add_other (a : Attrs) (k k2 : String) (v : Val) (hne : k2 ≠ k) :
    (add a k v).1.get k2 = a.get k2 := by
  unfold add get
  cases h : a.lookup k with
  | none =>
    simp only [lookup_append_single, hne, if_false]
    cases a.lookup k2 <;> rfl
  | some old =>
    by_cases ho : old = v
    · simp [ho]
    · simp only [ho, if_false]
      exact lookup_replace_other a k k2 v hne

/-- `add` reports a conflict exactly when a different value was present -/
theorem add_conflict_iff (a : Attrs) (k : String) (v : Val) :
    (add a k v).2 = true ↔ ∃ old, a.get k = some old ∧ old ≠ v := by
  unfold add get
  cases h : a.lookup k with
  | none => simp
  | some old =>
    by_cases ho : old = v
    · simp [ho]
    · simp [ho]

/-- without conflict and with the key present, `add` leaves the attributes unchanged -/
theorem add_same_value_noop (a : Attrs) (k : String) (v : Val) (h : a.get k = some v) :
    add a k v = (a, false) := by
  unfold add
  unfold get at h
  simp [h]

def UniqueKeys (a : Attrs) : Prop := (a.map (·.1)).Nodup

theorem keys_replace (a : Attrs) (k : String) (v : Val) : (replace a k v).map (·.1) = a.map (·.1) := by
  induction a with
  | nil => rfl
  | cons p rest ih =>
    obtain ⟨k', v'⟩ := p
    by_cases hk : k' = k
    · subst hk; simp [replace]
    · simp [replace, hk, ih]

theorem lookup_none_not_mem (a : Attrs) (k : String) (h : a.lookup k = none) : k ∉ a.map (·.1) := by
  induction a with
  | nil => simp
  | cons p rest ih =>
    obtain ⟨k', v'⟩ := p
    cases hkk : (k == k') with
    | true => simp [List.lookup, hkk] at h
    | false =>
      simp only [List.lookup, hkk] at h
      have hne : k ≠ k' := by simpa using hkk
      simp only [List.map_cons, List.mem_cons, not_or]
      exact ⟨hne, ih h⟩

theorem uniqueKeys_add (a : Attrs) (k : String) (v : Val) (h : UniqueKeys a) : UniqueKeys (add a k v).1 := by
  unfold add UniqueKeys at *
  cases hl : a.lookup k with
  | none =>
    simp only [List.map_append, List.map_cons, List.map_nil]
    rw [List.nodup_append]
    refine ⟨h, by simp, ?_⟩
    intro x hx y hy
    simp at hy
    subst hy
    intro hxy; subst hxy
    exact lookup_none_not_mem a _ hl hx
  | some old =>
    by_cases ho : old = v
    · simpa [ho] using h
    · simp only [ho, if_false, keys_replace]; exact h

end Attrs

namespace GNode

/-- strictly ascending sinks -/
def Sorted (es : List (Nat × Attrs)) : Prop := es.Pairwise (fun a b => a.1 < b.1)

theorem insertEdge_sinks (es : List (Nat × Attrs)) (sink : Nat) :
    ∀ x, x ∈ (insertEdge es sink).1.map (·.1) ↔ x = sink ∨ x ∈ es.map (·.1) := by
  induction es with
  | nil => intro x; simp [insertEdge]
  | cons p rest ih =>
    obtain ⟨s, a⟩ := p
    intro x
    unfold insertEdge
    by_cases h1 : sink < s
    · simp [h1]
    · by_cases h2 : sink = s
      · subst h2; simp
      · simp only [h1, h2, if_false]
        have := ih x
        simp only [List.map_cons, List.mem_cons]
        rw [this]
        constructor
        · rintro (h | h | h)
          · exact Or.inr (Or.inl h)
          · exact Or.inl h
          · exact Or.inr (Or.inr h)
        · rintro (h | h | h)
          · exact Or.inr (Or.inl h)
          · exact Or.inl h
          · exact Or.inr (Or.inr h)

theorem sorted_insertEdge (es : List (Nat × Attrs)) (sink : Nat) (h : Sorted es) :
    Sorted (insertEdge es sink).1 := by
  induction es with
  | nil => simp [insertEdge, Sorted]
  | cons p rest ih =>
    obtain ⟨s, a⟩ := p
    unfold insertEdge
    have hrest : Sorted rest := (List.pairwise_cons.mp h).2
    have hhead := (List.pairwise_cons.mp h).1
    by_cases h1 : sink < s
    · simp only [h1, if_true]
      refine List.pairwise_cons.mpr ⟨?_, h⟩
      intro b hb
      rcases List.mem_cons.mp hb with hb | hb
      · subst hb; exact h1
      · exact Nat.lt_trans h1 (hhead b hb)
    · by_cases h2 : sink = s
      · simp only [h2, Nat.lt_irrefl, if_false, if_true]; exact h
      · simp only [h1, h2, if_false]
        refine List.pairwise_cons.mpr ⟨?_, ih hrest⟩
        intro b hb
        have hmem : b.1 ∈ (insertEdge rest sink).1.map (·.1) := List.mem_map_of_mem hb
        rcases (insertEdge_sinks rest sink b.1).mp hmem with hb' | hb'
        · rw [hb']; omega
        · obtain ⟨c, hc, hcb⟩ := List.mem_map.mp hb'
          have := hhead c hc
          omega

theorem lookup_none_of_lt (rest : List (Nat × Attrs)) (s sink : Nat)
    (h : ∀ b ∈ rest, s < b.1) (hlt : sink ≤ s) : rest.lookup sink = none := by
  induction rest with
  | nil => rfl
  | cons p rest ih =>
    obtain ⟨s', a'⟩ := p
    have h1 := h (s', a') (by simp)
    have : (sink == s') = false := by simp; simp at h1; omega
    simp only [List.lookup, this]
    exact ih (fun b hb => h b (List.mem_cons_of_mem _ hb))

theorem lookup_insertEdge_same (es : List (Nat × Attrs)) (sink : Nat) (hs : Sorted es) :
    (insertEdge es sink).1.lookup sink = some ((es.lookup sink).getD []) := by
  induction es with
  | nil => simp [insertEdge, List.lookup]
  | cons p rest ih =>
    obtain ⟨s, a⟩ := p
    have hrest : Sorted rest := (List.pairwise_cons.mp hs).2
    have hhead := (List.pairwise_cons.mp hs).1
    unfold insertEdge
    by_cases h1 : sink < s
    · have : (sink == s) = false := by simp; omega
      have hn := lookup_none_of_lt rest s sink hhead (by omega)
      simp [h1, List.lookup, this, hn]
    · by_cases h2 : sink = s
      · subst h2; simp [List.lookup]
      · have : (sink == s) = false := by simp [h2]
        simp only [h1, h2, if_false, List.lookup, this]
        exact ih hrest

theorem lookup_insertEdge_other (es : List (Nat × Attrs)) (sink t : Nat) (hne : t ≠ sink) :
    (insertEdge es sink).1.lookup t = es.lookup t := by
  induction es with
  | nil =>
    have : (t == sink) = false := by simp [hne]
    simp [insertEdge, List.lookup, this]
  | cons p rest ih =>
    obtain ⟨s, a⟩ := p
    unfold insertEdge
    by_cases h1 : sink < s
    · have : (t == sink) = false := by simp [hne]
      simp [h1, List.lookup, this]
    · by_cases h2 : sink = s
      · simp [h2]
      · simp only [h1, h2, if_false, List.lookup]
        cases (t == s) <;> simp [ih]

/-- the edge is reported new exactly when it was absent -/
theorem insertEdge_new_iff (es : List (Nat × Attrs)) (sink : Nat) (hs : Sorted es) :
    (insertEdge es sink).2 = true ↔ es.lookup sink = none := by
  induction es with
  | nil => simp [insertEdge]
  | cons p rest ih =>
    obtain ⟨s, a⟩ := p
    have hrest : Sorted rest := (List.pairwise_cons.mp hs).2
    have hhead := (List.pairwise_cons.mp hs).1
    unfold insertEdge
    by_cases h1 : sink < s
    · have : (sink == s) = false := by simp; omega
      have hn := lookup_none_of_lt rest s sink hhead (by omega)
      simp [h1, List.lookup, this, hn]
    · by_cases h2 : sink = s
      · subst h2; simp [List.lookup]
      · have : (sink == s) = false := by simp [h2]
        simp only [h1, h2, if_false, List.lookup, this]
        exact ih hrest

theorem length_insertEdge (es : List (Nat × Attrs)) (sink : Nat) :
    (insertEdge es sink).1.length = es.length + (if (insertEdge es sink).2 then 1 else 0) := by
  induction es with
  | nil => simp [insertEdge]
  | cons p rest ih =>
    obtain ⟨s, a⟩ := p
    unfold insertEdge
    by_cases h1 : sink < s
    · simp [h1]
    · by_cases h2 : sink = s
      · simp [h2]
      · simp only [h1, h2, if_false, List.length_cons]
        rw [ih]; omega

theorem lookup_setEdgeAttrs_same (es : List (Nat × Attrs)) (sink : Nat) (new : Attrs)
    (h : (es.lookup sink).isSome) : (setEdgeAttrs es sink new).lookup sink = some new := by
  induction es with
  | nil => simp [List.lookup] at h
  | cons p rest ih =>
    obtain ⟨s, a⟩ := p
    by_cases hs : s = sink
    · subst hs; simp [setEdgeAttrs, List.lookup]
    · have : (sink == s) = false := by simp [Ne.symm hs]
      simp only [setEdgeAttrs, hs, if_false, List.lookup, this]
      simp only [List.lookup, this] at h
      exact ih h

theorem lookup_setEdgeAttrs_other (es : List (Nat × Attrs)) (sink t : Nat) (new : Attrs) (hne : t ≠ sink) :
    (setEdgeAttrs es sink new).lookup t = es.lookup t := by
  induction es with
  | nil => rfl
  | cons p rest ih =>
    obtain ⟨s, a⟩ := p
    by_cases hs : s = sink
    · subst hs
      have : (t == s) = false := by simp [hne]
      simp [setEdgeAttrs, List.lookup, this]
    · simp only [setEdgeAttrs, hs, if_false, List.lookup]
      cases (t == s) <;> simp [ih]

theorem sinks_setEdgeAttrs (es : List (Nat × Attrs)) (sink : Nat) (new : Attrs) :
    (setEdgeAttrs es sink new).map (·.1) = es.map (·.1) := by
  induction es with
  | nil => rfl
  | cons p rest ih =>
    obtain ⟨s, a⟩ := p
    by_cases hs : s = sink
    · simp [setEdgeAttrs, hs]
    · simp [setEdgeAttrs, hs, ih]

theorem sorted_iff_sinks (es : List (Nat × Attrs)) : Sorted es ↔ (es.map (·.1)).Pairwise (· < ·) := by
  unfold Sorted
  rw [List.pairwise_map]

theorem sorted_setEdgeAttrs (es : List (Nat × Attrs)) (sink : Nat) (new : Attrs) (h : Sorted es) :
    Sorted (setEdgeAttrs es sink new) := by
  rw [sorted_iff_sinks] at *
  rw [sinks_setEdgeAttrs]; exact h

end GNode
