/-
  Neutrality of debug attributes for the lazy interpreter. The private states of the two runs are not equal: an `edge`
  statement queued by the run with debug attributes carries the location attribute. They are equal once the debug
  attributes of queued `edge` statements are removed (`eraseR`), and that is the relation carried through both phases.
-/
import Tsg.Proofs.DebugNeutral
import Tsg.Sem.Lazy

namespace DebugSim
open Prog C15 Lazy

variable {α β : Type}

/-- a queued statement without the debug attributes given to a new edge -/
def eraseStmt (names : List String) : LStmt → LStmt
  | .createEdge a b attrs dbg => .createEdge a b (stripAttrs names attrs) dbg
  | st => st

def eraseR (names : List String) (r : LSt) : LSt := { r with edgeQ := r.edgeQ.map (eraseStmt names) }

/-- the attribute names of a queued `attr` statement are not debug attribute names -/
def StmtClean (names : List String) : LStmt → Prop
  | .attrNode _ attrs _ => ∀ a ∈ attrs, names.contains a.1 = false
  | .attrEdge _ _ attrs _ => ∀ a ∈ attrs, names.contains a.1 = false
  | _ => True

/-- both queues that may hold `attr` statements hold clean ones -/
def QClean (names : List String) (r : LSt) : Prop :=
  (∀ st ∈ r.attrQ, StmtClean names st) ∧ (∀ st ∈ r.edgeQ, StmtClean names st) ∧ (∀ st ∈ r.printQ, StmtClean names st)

instance : RestRel LSt :=
  ⟨fun names rD rP => eraseR names rD = eraseR names rP ∧ QClean names rD⟩

/-- a step on the private state that does not look at the queued `edge` statements and keeps the `attr` queue clean -/
theorem Sim.primL' (names : List String) (f : LSt → Except Fail α × LSt)
    (hc : ∀ r, f (eraseR names r) = ((f r).1, eraseR names (f r).2))
    (hq : ∀ r, QClean names r → QClean names (f r).2) :
    Sim names (primP f) (primP f) := by
  intro sD sP h
  obtain ⟨hg, ⟨he, hcl⟩, hp⟩ := h
  simp only [primP, Prog.run]
  have hD := hc sD.rest
  have hP := hc sP.rest
  rw [he, hP] at hD
  have h1 := congrArg Prod.fst hD
  have h2 := congrArg Prod.snd hD
  simp only at h1 h2
  have hqD := hq sD.rest hcl
  cases hfD : f sD.rest with
  | mk xD rD' =>
    cases hfP : f sP.rest with
    | mk xP rP' =>
      rw [hfD, hfP] at h1 h2
      simp only at h1 h2
      rw [hfD] at hqD
      simp only at hqD
      subst h1
      cases xP with
      | ok b => exact ⟨rfl, hg, ⟨h2.symm, hqD⟩, hp⟩
      | error e => exact ⟨rfl, hg, ⟨h2.symm, hqD⟩, hp⟩

theorem Sim.primL (names : List String) (f : LSt → Except Fail α × LSt)
    (hc : ∀ r, f (eraseR names r) = ((f r).1, eraseR names (f r).2))
    (hq : ∀ r, (f r).2.attrQ = r.attrQ ∧ (f r).2.edgeQ = r.edgeQ ∧ (f r).2.printQ = r.printQ) :
    Sim names (primP f) (primP f) :=
  Sim.primL' names f hc fun r h => by unfold QClean; rw [(hq r).1, (hq r).2.1, (hq r).2.2]; exact h

theorem Sim.getR_bind {names : List String} {fD fP : LSt → Prog LSt β}
    (h : ∀ rD rP, RestRel.rr names rD rP → Sim names (fD rD) (fP rP)) :
    Sim names (Prog.getR >>= fD) (Prog.getR >>= fP) := by
  intro sD sP hrel
  have hD : Prog.run (Prog.getR >>= fD) sD = Prog.run (fD sD.rest) sD := by rw [run_bind]; rfl
  have hP : Prog.run (Prog.getR >>= fP) sP = Prog.run (fP sP.rest) sP := by rw [run_bind]; rfl
  rw [hD, hP]
  exact h sD.rest sP.rest hrel.2.1 sD sP hrel

theorem Sim.read_bind {ρ : Type} [RestRel ρ] {names : List String} {fD fP : CGraph → Prog ρ β}
    (h : ∀ gD gP, strip names gD = strip names gP → Sim names (fD gD) (fP gP)) :
    Sim names (gopP .read >>= fD) (gopP .read >>= fP) := by
  intro sD sP hrel
  have hD : Prog.run (gopP .read >>= fD) sD = Prog.run (fD sD.graph) sD := by rw [run_bind]; rfl
  have hP : Prog.run (gopP .read >>= fP) sP = Prog.run (fP sP.graph) sP := by rw [run_bind]; rfl
  rw [hD, hP]
  exact h sD.graph sP.graph hrel.1 sD sP hrel

/-- a value produced by the first program has a property the continuation may use -/
def Post {ρ : Type} (Q : α → Prop) (t : Prog ρ α) : Prop := ∀ s a s', Prog.run t s = .ok a s' → Q a

theorem Sim.bindQ {ρ : Type} [RestRel ρ] {names : List String} {tD tP : Prog ρ α} {fD fP : α → Prog ρ β} {Q : α → Prop}
    (h1 : Sim names tD tP) (hq : Post Q tD) (h2 : ∀ a, Q a → Sim names (fD a) (fP a)) : Sim names (tD >>= fD) (tP >>= fP) := by
  intro sD sP h
  rw [run_bind, run_bind]
  have := h1 sD sP h
  cases hD : Prog.run tD sD with
  | ok a sD' =>
    cases hP : Prog.run tP sP with
    | ok a' sP' =>
      rw [hD, hP] at this
      obtain ⟨rfl, hrel⟩ := this
      exact h2 a (hq sD a sD' hD) sD' sP' hrel
    | fail f sP' => rw [hD, hP] at this; exact this.elim
  | fail f sD' =>
    cases hP : Prog.run tP sP with
    | ok a' sP' => rw [hD, hP] at this; exact this.elim
    | fail f' sP' => rw [hD, hP] at this; exact this

/-! ### steps on the private state -/

theorem Sim.modifyL (names : List String) (f : LSt → LSt) (hc : ∀ r, f (eraseR names r) = eraseR names (f r))
    (hq : ∀ r, (f r).attrQ = r.attrQ ∧ (f r).edgeQ = r.edgeQ ∧ (f r).printQ = r.printQ) : Sim names (Prog.modifyR f) (Prog.modifyR f) :=
  Sim.primL names _ (fun r => by simp only [hc]) hq

theorem Sim.framesL (names : List String) (f : Frames LVal → Frames LVal) :
    Sim names (Prog.modifyR fun s : LSt => { s with locals := f s.locals }) (Prog.modifyR fun s => { s with locals := f s.locals }) :=
  Sim.modifyL names _ (fun _ => rfl) (fun _ => ⟨rfl, rfl, rfl⟩)

theorem Sim.setThunkL (names : List String) (loc : Nat) (st : ThunkState) :
    Sim names (Prog.modifyR fun s => setThunk s loc st) (Prog.modifyR fun s => setThunk s loc st) :=
  Sim.modifyL names _ (fun r => by unfold Lazy.setThunk eraseR; simp only; split <;> rfl) (fun r => by unfold Lazy.setThunk; split <;> exact ⟨rfl, rfl, rfl⟩)

theorem Sim.setCellL (names : List String) (name : String) (c : ScopedCell) :
    Sim names (Prog.modifyR fun s => setCell s name c) (Prog.modifyR fun s => setCell s name c) :=
  Sim.modifyL names _ (fun r => by unfold Lazy.setCell eraseR; simp only; split <;> rfl) (fun r => by unfold Lazy.setCell; split <;> exact ⟨rfl, rfl, rfl⟩)

theorem Sim.storeAddL (names : List String) (v : LVal) (dbg : StmtCtx) : Sim names (storeAdd v dbg) (storeAdd v dbg) :=
  Sim.primL names _ (fun _ => rfl) (fun _ => ⟨rfl, rfl, rfl⟩)

theorem Sim.recordPrevL (names : List String) (key : ElemKey) (dbg : StmtCtx) : Sim names (recordPrev key dbg) (recordPrev key dbg) :=
  Sim.primL names _ (fun _ => rfl) (fun _ => ⟨rfl, rfl, rfl⟩)

theorem Sim.unscopedGetL (names : List String) (cfg : Cfg) (name : String) :
    Sim names (Lazy.unscopedGetL cfg name) (Lazy.unscopedGetL (plainCfg cfg) name) := by
  have : Lazy.unscopedGetL (plainCfg cfg) name = Lazy.unscopedGetL cfg name := rfl
  rw [this]
  refine Sim.primL names _ (fun r => ?_) (fun r => ?_)
  · simp only [eraseR]; split <;> (try split) <;> simp_all
  · split <;> (try split) <;> exact ⟨rfl, rfl, rfl⟩

theorem Sim.localsAddL (names : List String) (name : String) (var : LVal) (m : Bool) :
    Sim names (Lazy.localsAddL name var m) (Lazy.localsAddL name var m) := by
  refine Sim.primL names _ (fun r => ?_) (fun r => ?_)
  · simp only [eraseR]; split <;> simp_all
  · split <;> exact ⟨rfl, rfl, rfl⟩

theorem Sim.localsSetL (names : List String) (name : String) (var : LVal) :
    Sim names (Lazy.localsSetL name var) (Lazy.localsSetL name var) := by
  refine Sim.primL names _ (fun r => ?_) (fun r => ?_)
  · simp only [eraseR]; split <;> (try split) <;> simp_all
  · split <;> (try split) <;> exact ⟨rfl, rfl, rfl⟩

theorem Sim.cellAddL (names : List String) (scope : LVal) (name : String) (value : LVal) (dbg : StmtCtx) :
    Sim names (cellAdd scope name value dbg) (cellAdd scope name value dbg) := by
  refine Sim.primL names _ (fun r => ?_) (fun r => ?_)
  · simp only [eraseR, Lazy.setCell]; split <;> (try split) <;> simp_all
  · simp only [Lazy.setCell]; split <;> (try split) <;> exact ⟨rfl, rfl, rfl⟩

theorem Sim.unscopedAddL (names : List String) (cfg : Cfg) (ctx : StmtCtx) (name : String) (v : LVal) (m : Bool) :
    Sim names (Lazy.unscopedAddL cfg ctx name v m) (Lazy.unscopedAddL (plainCfg cfg) ctx name v m) := by
  have : Lazy.unscopedAddL (plainCfg cfg) ctx name v m = Lazy.unscopedAddL cfg ctx name v m := rfl
  rw [this]
  unfold Lazy.unscopedAddL
  split
  · exact Sim.throwK names _
  · exact Sim.bind (Sim.storeAddL names _ _) fun _ => Sim.localsAddL names _ _ _

theorem Sim.unscopedSetL (names : List String) (cfg : Cfg) (ctx : StmtCtx) (name : String) (v : LVal) :
    Sim names (Lazy.unscopedSetL cfg ctx name v) (Lazy.unscopedSetL (plainCfg cfg) ctx name v) := by
  have : Lazy.unscopedSetL (plainCfg cfg) ctx name v = Lazy.unscopedSetL cfg ctx name v := rfl
  rw [this]
  unfold Lazy.unscopedSetL
  split
  · exact Sim.throwK names _
  · exact Sim.bind (Sim.storeAddL names _ _) fun _ => Sim.localsSetL names _ _

theorem Sim.asSyntaxNodeL (names : List String) (v : Val) : Sim names (Lazy.asSyntaxNodeL v) (Lazy.asSyntaxNodeL v) := by
  unfold Lazy.asSyntaxNodeL
  cases v <;> first | exact Sim.pure names _ | exact Sim.throwK names _

theorem Sim.asGraphNodeL (names : List String) (v : Val) : Sim names (Lazy.asGraphNodeL v) (Lazy.asGraphNodeL v) := by
  unfold Lazy.asGraphNodeL
  cases v <;> first | exact Sim.pure names _ | exact Sim.throwK names _

theorem rr_cells {names : List String} {rD rP : LSt} (h : RestRel.rr names rD rP) : rD.cells = rP.cells :=
  by have := congrArg LSt.cells h.1; exact this
theorem rr_thunks {names : List String} {rD rP : LSt} (h : RestRel.rr names rD rP) : rD.thunks = rP.thunks :=
  by have := congrArg LSt.thunks h.1; exact this
theorem rr_locals {names : List String} {rD rP : LSt} (h : RestRel.rr names rD rP) : rD.locals = rP.locals :=
  by have := congrArg LSt.locals h.1; exact this
theorem rr_attrQ {names : List String} {rD rP : LSt} (h : RestRel.rr names rD rP) : rD.attrQ = rP.attrQ :=
  by have := congrArg LSt.attrQ h.1; exact this
theorem rr_printQ {names : List String} {rD rP : LSt} (h : RestRel.rr names rD rP) : rD.printQ = rP.printQ :=
  by have := congrArg LSt.printQ h.1; exact this
theorem rr_edgeQ {names : List String} {rD rP : LSt} (h : RestRel.rr names rD rP) :
    rD.edgeQ.map (eraseStmt names) = rP.edgeQ.map (eraseStmt names) := by have := congrArg LSt.edgeQ h.1; exact this

theorem Sim.callFnL (names : List String) (cfg : Cfg) (fn : String) (vs : List Val) :
    Sim names (Lazy.callFnL cfg fn vs) (Lazy.callFnL (plainCfg cfg) fn vs) := by
  unfold Lazy.callFnL Strict.callFn
  exact Sim.gop_callFn names _ _ _ _

/-- the forcing functions -/
theorem sim_force (names : List String) (cfg : Cfg) :
    (∀ (ef : Nat) (lv : LVal), Sim names (evalL cfg ef lv) (evalL (plainCfg cfg) ef lv)) ∧
    (∀ (ef node : Nat) (name : String), Sim names (resolveScoped cfg ef node name) (resolveScoped (plainCfg cfg) ef node name)) ∧
    (∀ (ef : Nat) (name : String) (cell : ScopedCell), Sim names (forceCell cfg ef name cell) (forceCell (plainCfg cfg) ef name cell)) ∧
    (∀ (ef : Nat) (name : String) (pairs : List (LVal × LVal × StmtCtx)) (acc : List (Nat × LVal)) (dbgs : List (Nat × StmtCtx)),
      Sim names (forcePairs cfg ef name pairs acc dbgs) (forcePairs (plainCfg cfg) ef name pairs acc dbgs)) ∧
    (∀ (ef loc : Nat), Sim names (forceThunk cfg ef loc) (forceThunk (plainCfg cfg) ef loc)) ∧
    (∀ (ef : Nat) (es : List LVal), Sim names (evalLs cfg ef es) (evalLs (plainCfg cfg) ef es)) := by
  apply Lazy.evalL.mutual_induct
  · intro lv; rw [Lazy.evalL.eq_def, Lazy.evalL.eq_def]; exact Sim.failP names _
  · intro lv ef' h6 h5 h1 h2
    rw [Lazy.evalL.eq_def, Lazy.evalL.eq_def]
    simp only
    refine Sim.bind (Sim.poll names _) fun _ => ?_
    cases lv with
    | value v => exact Sim.pure names _
    | list es => exact Sim.bind (h6 es) fun _ => Sim.pure names _
    | set es => exact Sim.bind (h6 es) fun _ => Sim.pure names _
    | var loc => exact h5 loc
    | scopedVar scope name =>
      exact Sim.bind (Sim.ctx _ (Sim.bind (h1 scope) fun _ => Sim.asSyntaxNodeL names _)) fun sv =>
        Sim.bind (h2 name sv) fun target => h1 target
    | call fn args => exact Sim.bind (h6 args) fun _ => Sim.callFnL names cfg _ _
  · -- resolveScoped
    intro ef node name h3
    rw [Lazy.resolveScoped.eq_def, Lazy.resolveScoped.eq_def]
    refine Sim.getR_bind fun rD rP hrr => ?_
    rw [rr_cells hrr]
    cases rP.cells.lookup name with
    | none => exact Sim.throwK names _
    | some cell =>
      simp only
      refine Sim.bind (h3 cell) fun map => Sim.bind (Sim.setCellL names _ _) fun _ => ?_
      cases map.lookup node with
      | some v => exact Sim.pure names _
      | none =>
        simp only
        have hinh : (plainCfg cfg).inherited = cfg.inherited := rfl
        have htree : (plainCfg cfg).tree = cfg.tree := rfl
        rw [hinh, htree]
        cases cfg.inherited.contains name with
        | false => exact Sim.throwK names _
        | true =>
          simp only [if_true]
          cases (cfg.tree.ancestors node).findSome? fun a => map.lookup a with
          | some v => exact Sim.pure names _
          | none => exact Sim.throwK names _
  · -- forceCell
    intro ef name cell h4
    rw [Lazy.forceCell.eq_def, Lazy.forceCell.eq_def]
    refine Sim.bind (Sim.setCellL names _ _) fun _ => ?_
    cases cell with
    | unforced pairs => exact h4 pairs
    | forcing => exact Sim.throwK names _
    | forced map => exact Sim.pure names _
  · intro ef name acc dbgs; rw [Lazy.forcePairs.eq_def, Lazy.forcePairs.eq_def]; exact Sim.pure names _
  · intro ef name acc dbgs scope value dbg rest h1 h4
    rw [Lazy.forcePairs.eq_def, Lazy.forcePairs.eq_def]
    simp only
    refine Sim.bind (Sim.ctx _ (Sim.ctx _ (Sim.bind h1 fun _ => Sim.asSyntaxNodeL names _))) fun node => ?_
    cases dbgs.lookup node with
    | some prev => exact Sim.ctx _ (Sim.throwK names _)
    | none => exact h4 node
  · -- forceThunk
    intro ef loc h1
    rw [Lazy.forceThunk.eq_def, Lazy.forceThunk.eq_def]
    refine Sim.getR_bind fun rD rP hrr => ?_
    rw [rr_thunks hrr]
    cases rP.thunks[loc]? with
    | none => exact Sim.panicAt names _
    | some t =>
      simp only
      refine Sim.ctx _ (Sim.bind (Sim.setThunkL names _ _) fun _ => ?_)
      cases t.state with
      | unforced lv => exact Sim.bind (h1 lv) fun _ => Sim.bind (Sim.setThunkL names _ _) fun _ => Sim.pure names _
      | forced v => exact Sim.bind (Sim.setThunkL names _ _) fun _ => Sim.pure names _
      | forcing => exact Sim.throwK names _
  · intro ef; rw [Lazy.evalLs.eq_def, Lazy.evalLs.eq_def]; exact Sim.pure names _
  · intro ef e rest h1 h6
    rw [Lazy.evalLs.eq_def, Lazy.evalLs.eq_def]
    simp only
    exact Sim.bind h1 fun _ => Sim.bind h6 fun _ => Sim.pure names _

theorem sim_evalL (names : List String) (cfg : Cfg) (ef : Nat) (lv : LVal) :
    Sim names (evalL cfg ef lv) (evalL (plainCfg cfg) ef lv) := (sim_force names cfg).1 ef lv

/-! ### the execute phase -/

theorem Sim.fromNodesL (names : List String) (q : Quant) (nodes : List Nat) :
    Sim names (Strict.fromNodes q nodes : Prog LSt Val) (Strict.fromNodes q nodes) := by
  unfold Strict.fromNodes
  cases q <;> (try cases nodes) <;> first | exact Sim.pure names _ | exact Sim.panicAt names _ | exact Sim.throwK names _

theorem sim_lazyExprs (names : List String) (cfg : Cfg) (fuel ef : Nat) (env : Env) :
    (∀ (e : Expr), Sim names (lazyExpr cfg fuel ef env e) (lazyExpr (plainCfg cfg) fuel ef env e)) ∧
    (∀ (elem : Expr) (var : String) (vals : List Val),
      Sim names (lazyComp cfg fuel ef env elem var vals) (lazyComp (plainCfg cfg) fuel ef env elem var vals)) ∧
    (∀ (es : List Expr), Sim names (lazyExprs cfg fuel ef env es) (lazyExprs (plainCfg cfg) fuel ef env es)) := by
  apply Lazy.lazyExpr.mutual_induct (fuel := fuel) (env := env)
  all_goals (intros; first | rw [Lazy.lazyExpr.eq_def, Lazy.lazyExpr.eq_def] | rw [Lazy.lazyComp.eq_def, Lazy.lazyComp.eq_def] | rw [Lazy.lazyExprs.eq_def, Lazy.lazyExprs.eq_def])
  all_goals simp only
  case case1 => exact Sim.pure names _
  case case2 => exact Sim.pure names _
  case case3 => exact Sim.pure names _
  case case4 => exact Sim.pure names _
  case case5 => exact Sim.pure names _
  case case6 ih => exact Sim.bind ih fun _ => Sim.pure names _
  case case7 ih => exact Sim.bind ih fun _ => Sim.pure names _
  case case8 ih1 ih2 =>
    exact Sim.bind ih1 fun _ => Sim.bind (sim_evalL names cfg _ _) fun _ => Sim.bind (Sim.ofExcept names _) fun vals =>
      Sim.bind (Sim.framesL names _) fun _ => Sim.bind (ih2 vals) fun _ => Sim.bind (Sim.framesL names _) fun _ => Sim.pure names _
  case case9 ih1 ih2 =>
    exact Sim.bind ih1 fun _ => Sim.bind (sim_evalL names cfg _ _) fun _ => Sim.bind (Sim.ofExcept names _) fun vals =>
      Sim.bind (Sim.framesL names _) fun _ => Sim.bind (ih2 vals) fun _ => Sim.bind (Sim.framesL names _) fun _ => Sim.pure names _
  case case10 => exact Sim.throwK names _
  case case11 q _ _ _ q' hl hq =>
    cases q with
    | zero => exact (hq rfl).elim
    | _ => simp only [hl]; exact Sim.bind (Sim.fromNodesL names _ _) fun _ => Sim.pure names _
  case case12 q _ _ _ hl hq =>
    cases q with
    | zero => exact (hq rfl).elim
    | _ => simp only [hl]; exact Sim.panicAt names _
  case case13 => exact Sim.unscopedGetL names cfg _
  case case14 ih => exact Sim.bind ih fun _ => Sim.pure names _
  case case15 ih => exact Sim.bind ih fun _ => Sim.pure names _
  case case16 h => simp only [h]; exact Sim.pure names _
  case case17 h => simp only [h]; exact Sim.throwK names _
  case case18 => exact Sim.pure names _
  case case19 ih1 ih2 =>
    exact Sim.bind (Sim.framesL names _) fun _ => Sim.bind (Sim.unscopedAddL names cfg _ _ _ _) fun _ =>
      Sim.bind ih1 fun _ => Sim.bind ih2 fun _ => Sim.pure names _
  case case20 => exact Sim.pure names _
  case case21 ih1 ih2 => exact Sim.bind ih1 fun _ => Sim.bind ih2 fun _ => Sim.pure names _

theorem sim_lazyExpr (names : List String) (cfg : Cfg) (fuel ef : Nat) (env : Env) (e : Expr) :
    Sim names (lazyExpr cfg fuel ef env e) (lazyExpr (plainCfg cfg) fuel ef env e) := (sim_lazyExprs names cfg fuel ef env).1 e

theorem sim_eagerExpr (names : List String) (cfg : Cfg) (fuel ef : Nat) (env : Env) (e : Expr) :
    Sim names (eagerExpr cfg fuel ef env e) (eagerExpr (plainCfg cfg) fuel ef env e) := by
  unfold Lazy.eagerExpr
  exact Sim.bind (sim_lazyExpr names cfg fuel ef env e) fun _ => sim_evalL names cfg _ _

theorem sim_varAddL (names : List String) (cfg : Cfg) (fuel ef : Nat) (env : Env) (v : Var) (value : LVal) (m : Bool) :
    Sim names (varAddL cfg fuel ef env v value m) (varAddL (plainCfg cfg) fuel ef env v value m) := by
  unfold Lazy.varAddL
  cases v with
  | unscoped name l => exact Sim.unscopedAddL names cfg _ _ _ _
  | scopedV scope name l =>
    simp only
    cases m with
    | true => exact Sim.throwK names _
    | false =>
      simp only [Bool.false_eq_true, if_false]
      exact Sim.bind (sim_lazyExpr names cfg fuel ef env scope) fun _ => Sim.bind (Sim.storeAddL names _ _) fun _ => Sim.cellAddL names _ _ _ _

theorem sim_varSetL (names : List String) (cfg : Cfg) (env : Env) (v : Var) (value : LVal) :
    Sim names (varSetL cfg env v value) (varSetL (plainCfg cfg) env v value) := by
  unfold Lazy.varSetL
  cases v with
  | unscoped name l => exact Sim.unscopedSetL names cfg _ _ _
  | scopedV scope name l => exact Sim.throwK names _

theorem sim_testCondL (names : List String) (cfg : Cfg) (fuel ef : Nat) (env : Env) (c : Cond) :
    Sim names (testCondL cfg fuel ef env c) (testCondL (plainCfg cfg) fuel ef env c) := by
  cases c <;> (unfold Lazy.testCondL; refine Sim.bind (sim_eagerExpr names cfg fuel ef env _) fun _ => ?_) <;>
    first | exact Sim.pure names _ | exact Sim.ofExcept names _

theorem sim_testCondsL (names : List String) (cfg : Cfg) (fuel ef : Nat) (env : Env) (cs : List Cond) :
    Sim names (testCondsL cfg fuel ef env cs) (testCondsL (plainCfg cfg) fuel ef env cs) := by
  induction cs with
  | nil => exact Sim.pure names _
  | cons c rest ih => exact Sim.bind (sim_testCondL names cfg fuel ef env c) fun _ => Sim.bind ih fun _ => Sim.pure names _

theorem sim_printArgsL (names : List String) (cfg : Cfg) (fuel ef : Nat) (env : Env) (es : List Expr) :
    Sim names (printArgsL cfg fuel ef env es) (printArgsL (plainCfg cfg) fuel ef env es) := by
  induction es with
  | nil => exact Sim.pure names _
  | cons e rest ih =>
    cases e <;> first
      | exact Sim.bind ih fun _ => Sim.pure names _
      | exact Sim.bind (sim_lazyExpr names cfg fuel ef env _) fun _ => Sim.bind ih fun _ => Sim.pure names _

theorem sim_lazyScanCollect (names : List String) (o : Oracle) (subject : String) (i : Nat) :
    ∀ (arms : List (String × List Stmt × Loc)) (idx : Nat),
      Sim names (lazyScanCollect o subject i arms idx) (lazyScanCollect o subject i arms idx) := by
  intro arms
  induction arms with
  | nil => intro idx; exact Sim.pure names _
  | cons a rest ih =>
    intro idx
    obtain ⟨re, b, l⟩ := a
    simp only [lazyScanCollect]
    refine Sim.bind (Sim.poll names _) fun _ => ?_
    cases o.regexAt re subject i with
    | none => exact Sim.failP names _
    | some r =>
      cases r with
      | none => exact ih _
      | some m =>
        simp only
        by_cases hm : m.stop ≤ m.start
        · simp only [hm, if_true]; exact Sim.throwK names _
        · simp only [hm, if_false]; exact Sim.bind (ih _) fun _ => Sim.pure names _

/-! ### queueing statements -/

theorem Sim.pushStmtSame (names : List String) (st : LStmt) (hk : ∀ a b attrs dbg, st ≠ .createEdge a b attrs dbg)
    (hcl : StmtClean names st) : Sim names (pushStmt st) (pushStmt st) := by
  unfold Lazy.pushStmt
  refine Sim.primL' names _ (fun r => ?_) (fun r h => ?_)
  · cases st with
    | createEdge a b attrs dbg => exact absurd rfl (hk a b attrs dbg)
    | _ => rfl
  · cases st with
    | createEdge a b attrs dbg => exact absurd rfl (hk a b attrs dbg)
    | attrNode node attrs dbg =>
      refine ⟨?_, h.2⟩
      intro st' hst'
      simp only [List.mem_append, List.mem_singleton] at hst'
      rcases hst' with h' | rfl
      · exact h.1 st' h'
      · exact hcl
    | attrEdge a b attrs dbg =>
      refine ⟨?_, h.2⟩
      intro st' hst'
      simp only [List.mem_append, List.mem_singleton] at hst'
      rcases hst' with h' | rfl
      · exact h.1 st' h'
      · exact hcl
    | print args dbg =>
      refine ⟨h.1, h.2.1, ?_⟩
      intro st' hst'
      simp only [List.mem_append, List.mem_singleton] at hst'
      rcases hst' with h' | rfl
      · exact h.2.2 st' h'
      · trivial

theorem Sim.pushEdge (names : List String) (a b : LVal) (aD aP : Attrs) (dbg : StmtCtx) (ha : stripAttrs names aD = stripAttrs names aP) :
    Sim names (pushStmt (.createEdge a b aD dbg)) (pushStmt (.createEdge a b aP dbg)) := by
  intro sD sP h
  obtain ⟨hg, ⟨he, hcl⟩, hp⟩ := h
  have hD : Prog.run (pushStmt (.createEdge a b aD dbg)) sD = .ok () { sD with rest := { sD.rest with edgeQ := sD.rest.edgeQ ++ [.createEdge a b aD dbg] } } := rfl
  have hP : Prog.run (pushStmt (.createEdge a b aP dbg)) sP = .ok () { sP with rest := { sP.rest with edgeQ := sP.rest.edgeQ ++ [.createEdge a b aP dbg] } } := rfl
  rw [hD, hP]
  refine ⟨rfl, hg, ⟨?_, hcl.1, ?_, hcl.2.2⟩, hp⟩
  · have h1 := congrArg LSt.locals he
    have h2 := congrArg LSt.thunks he
    have h3 := congrArg LSt.cells he
    have h4 := congrArg LSt.edgeQ he
    have h5 := congrArg LSt.attrQ he
    have h6 := congrArg LSt.printQ he
    have h7 := congrArg LSt.prevDbg he
    simp only [eraseR] at h1 h2 h3 h4 h5 h6 h7
    simp only [eraseR, List.map_append, List.map_cons, List.map_nil, eraseStmt, h1, h2, h3, h4, h5, h6, h7, ha]
  · intro st' hst'
    simp only [List.mem_append, List.mem_singleton] at hst'
    rcases hst' with h' | rfl
    · exact hcl.2.1 st' h'
    · trivial

/-! ### attribute lists -/

theorem Post.bind {ρ : Type} {Q : β → Prop} (t : Prog ρ α) {f : α → Prog ρ β} (h : ∀ a, Post Q (f a)) : Post Q (t >>= f) := by
  intro s b s' hr
  rw [Prog.run_bind] at hr
  cases ht : Prog.run t s with
  | ok a s1 => rw [ht] at hr; exact h a s1 b s' hr
  | fail e s1 => rw [ht] at hr; cases hr

theorem Post.pure {ρ : Type} {Q : α → Prop} (a : α) (h : Q a) : Post Q (Pure.pure a : Prog ρ α) := by
  intro s b s' hr
  have : Prog.run (Pure.pure a : Prog ρ α) s = .ok a s := rfl
  rw [this] at hr; cases hr; exact h

theorem Post.fail {ρ : Type} {Q : α → Prop} (f : Fail) : Post Q (Prog.fail f : Prog ρ α) := by
  intro s b s' hr; cases hr

def AccClean (names : List String) (acc : List (String × LVal)) : Prop := ∀ p ∈ acc, names.contains p.1 = false

theorem post_lazyAttrs (names : List String) (cfg : Cfg) (hsh : ∀ sh ∈ cfg.shorthands, AttrsClean names sh.attrs) (ef : Nat) (env : Env) :
    ∀ (fuel : Nat) (attrs : List AttrE) (acc : List (String × LVal)), AttrsClean names attrs → AccClean names acc →
      Post (AccClean names) (lazyAttrs cfg fuel ef env attrs acc) := by
  apply Lazy.lazyAttrs.induct
  · intro fuel acc _ hacc; rw [Lazy.lazyAttrs.eq_def]; exact Post.pure _ hacc
  · intro fuel acc name e rest ih1 ih2 hattrs hacc
    rw [Lazy.lazyAttrs.eq_def]
    simp only
    refine Post.bind _ fun _ => Post.bind _ fun v => ?_
    have hrest : AttrsClean names rest := fun a ha => hattrs a (by simp [ha])
    cases hs : Strict.findShorthand cfg name with
    | none =>
      simp only
      refine ih2 v hrest ?_
      intro p hp
      simp only [List.mem_append, List.mem_singleton] at hp
      rcases hp with hp | rfl
      · exact hacc p hp
      · exact hattrs (name, e) (by simp)
    | some sh =>
      simp only
      cases fuel with
      | zero => exact Post.fail _
      | succ fuel' =>
        have := ih1 sh
        simp only at this
        have hshm : sh ∈ cfg.shorthands := by
          unfold Strict.findShorthand at hs
          exact List.mem_of_find?_eq_some hs
        refine Post.bind _ fun saved => Post.bind _ fun _ => Post.bind _ fun _ => ?_
        intro s b s' hr
        rw [Prog.run_bind] at hr
        cases hin : Prog.run (lazyAttrs cfg fuel' ef env sh.attrs acc) s with
        | fail e0 s1 => rw [hin] at hr; cases hr
        | ok acc' s1 =>
          rw [hin] at hr
          have hacc' := this.1 (hsh sh hshm) hacc s acc' s1 hin
          exact Post.bind _ (fun _ => this.2 acc' hrest hacc') s1 b s' hr

theorem sim_lazyAttrs (names : List String) (cfg : Cfg) (ef : Nat) (env : Env) :
    ∀ (fuel : Nat) (attrs : List AttrE) (acc : List (String × LVal)),
      Sim names (lazyAttrs cfg fuel ef env attrs acc) (lazyAttrs (plainCfg cfg) fuel ef env attrs acc) := by
  apply Lazy.lazyAttrs.induct
  · intro fuel acc; rw [Lazy.lazyAttrs.eq_def, Lazy.lazyAttrs.eq_def]; exact Sim.pure names _
  · intro fuel acc name e rest ih1 ih2
    rw [Lazy.lazyAttrs.eq_def, Lazy.lazyAttrs.eq_def]
    simp only
    refine Sim.bind (Sim.poll names _) fun _ => Sim.bind (sim_lazyExpr names cfg fuel ef env e) fun v => ?_
    have hfs : Strict.findShorthand (plainCfg cfg) name = Strict.findShorthand cfg name := rfl
    rw [hfs]
    cases hs : Strict.findShorthand cfg name with
    | none => exact ih2 v
    | some sh =>
      simp only
      cases fuel with
      | zero => exact Sim.failP names _
      | succ fuel' =>
        have := ih1 sh
        simp only at this
        refine Sim.getR_bind fun rD rP hrr => ?_
        rw [rr_locals hrr]
        exact Sim.bind (Sim.framesL names (fun _ => [[]])) fun _ => Sim.bind (Sim.unscopedAddL names cfg _ _ _ _) fun _ =>
          Sim.bind this.1 fun acc' => Sim.bind (Sim.framesL names (fun _ => rP.locals)) fun _ => this.2 acc'

/-! ### statements -/

theorem sim_lazyStmts (la va ma : String) (hd1 : la ≠ va) (hd2 : la ≠ ma) (hd3 : va ≠ ma) (cfg : Cfg)
    (hla : cfg.locAttr = some la) (hva : cfg.varAttr = some va) (hma : cfg.matchAttr = some ma)
    (hsh : ∀ sh ∈ cfg.shorthands, AttrsClean [la, va, ma] sh.attrs) (fuel ef : Nat) : ∀ m : Nat,
    (∀ (env : Env) (st : Stmt), sizeOf st ≤ m → EnvOK env → AttrsClean [la, va, ma] (stmtAttrs st) →
      Sim [la, va, ma] (lazyStmt cfg fuel ef env st) (lazyStmt (plainCfg cfg) fuel ef env st)) ∧
    (∀ (env : Env) (kind : LBlockKind) (ss : List Stmt), sizeOf ss ≤ m → EnvOK env → AttrsClean [la, va, ma] (stmtsAttrs ss) →
      Sim [la, va, ma] (lazyBlock cfg fuel ef env kind ss) (lazyBlock (plainCfg cfg) fuel ef env kind ss)) ∧
    (∀ (env : Env) (arms : List (List Cond × List Stmt × Loc)), sizeOf arms ≤ m → EnvOK env → AttrsClean [la, va, ma] (ifArmsAttrs arms) →
      Sim [la, va, ma] (lazyIfArms cfg fuel ef env arms) (lazyIfArms (plainCfg cfg) fuel ef env arms)) ∧
    (∀ (env : Env) (var : String) (body : List Stmt) (vals : List Val), sizeOf body ≤ m → EnvOK env → AttrsClean [la, va, ma] (stmtsAttrs body) →
      Sim [la, va, ma] (lazyFor cfg fuel ef env var body vals) (lazyFor (plainCfg cfg) fuel ef env var body vals)) ∧
    (∀ (env : Env) (arms : List (String × List Stmt × Loc)) (subject : String) (i : Nat), sizeOf arms ≤ m → EnvOK env →
      AttrsClean [la, va, ma] (scanArmsAttrs arms) →
      Sim [la, va, ma] (lazyScanLoop cfg fuel ef env arms subject i) (lazyScanLoop (plainCfg cfg) fuel ef env arms subject i)) := by
  intro m
  induction m with
  | zero =>
    refine ⟨?_, ?_, ?_, ?_, ?_⟩
    · intro env st h; cases st <;> simp at h <;> omega
    · intro env kind ss h; cases ss <;> simp at h
    · intro env arms h; cases arms <;> simp at h
    · intro env var body vals h; cases body <;> simp at h
    · intro env arms subject i h; cases arms <;> simp at h
  | succ m ih =>
    obtain ⟨ihS, ihB, ihI, ihF, ihSc⟩ := ih
    have hS : ∀ (env : Env) (st : Stmt), sizeOf st ≤ m + 1 → EnvOK env → AttrsClean [la, va, ma] (stmtAttrs st) →
        Sim [la, va, ma] (lazyStmt cfg fuel ef env st) (lazyStmt (plainCfg cfg) fuel ef env st) := by
      intro env st h hok hclean
      have hpl : (plainCfg cfg).locAttr = none ∧ (plainCfg cfg).varAttr = none ∧ (plainCfg cfg).matchAttr = none := ⟨rfl, rfl, rfl⟩
      cases st with
      | declImm v e l =>
        simp only [lazyStmt]
        exact Sim.bind (Sim.poll _ _) fun _ => Sim.bind (sim_lazyExpr _ cfg fuel ef env e) fun _ => sim_varAddL _ cfg fuel ef env v _ _
      | declMut v e l =>
        simp only [lazyStmt]
        exact Sim.bind (Sim.poll _ _) fun _ => Sim.bind (sim_lazyExpr _ cfg fuel ef env e) fun _ => sim_varAddL _ cfg fuel ef env v _ _
      | assign v e l =>
        simp only [lazyStmt]
        exact Sim.bind (Sim.poll _ _) fun _ => Sim.bind (sim_lazyExpr _ cfg fuel ef env e) fun _ => sim_varSetL _ cfg env v _
      | createNode v l =>
        obtain ⟨n0, rest0, hfull⟩ := hok
        simp only [lazyStmt, hla, hva, hma, hpl.1, hpl.2.1, hpl.2.2, hfull]
        refine Sim.bind (Sim.poll _ _) fun _ => ?_
        have := sim_debugNode la va ma hd1 hd2 hd3 (.str v.display) (.str (Strict.locString v.loc)) (.syn n0)
          (kD := fun n => varAddL cfg fuel ef env v (.value (.gnode n)) false)
          (kP := fun n => varAddL (plainCfg cfg) fuel ef env v (.value (.gnode n)) false)
          (fun n => sim_varAddL _ cfg fuel ef env v _ _)
        intro sD sP hrel
        have h1 := this sD sP hrel
        have hpure : ∀ (a : Unit) (s : MSt LSt), Prog.run (Pure.pure a : Prog LSt Unit) s = .ok a s := fun _ _ => rfl
        simpa [Prog.run_bind, hpure] using h1
      | attrNode ne attrs l =>
        simp only [lazyStmt]
        have hcl : AttrsClean [la, va, ma] attrs := by simpa [stmtAttrs] using hclean
        exact Sim.bind (Sim.poll _ _) fun _ => Sim.bind (sim_lazyExpr _ cfg fuel ef env ne) fun node =>
          Sim.bindQ (sim_lazyAttrs _ cfg ef env fuel attrs []) (post_lazyAttrs _ cfg hsh ef env fuel attrs [] hcl (fun _ hp => by cases hp))
            fun as has => Sim.pushStmtSame _ _ (fun _ _ _ _ h => by cases h) has
      | createEdge a b l =>
        simp only [lazyStmt, hla, hpl.1]
        exact Sim.bind (Sim.poll _ _) fun _ => Sim.bind (sim_lazyExpr _ cfg fuel ef env a) fun _ =>
          Sim.bind (sim_lazyExpr _ cfg fuel ef env b) fun _ => Sim.pushEdge _ _ _ _ _ _ (by simp [stripAttrs])
      | attrEdge a b attrs l =>
        simp only [lazyStmt]
        have hcl : AttrsClean [la, va, ma] attrs := by simpa [stmtAttrs] using hclean
        exact Sim.bind (Sim.poll _ _) fun _ => Sim.bind (sim_lazyExpr _ cfg fuel ef env a) fun _ =>
          Sim.bind (sim_lazyExpr _ cfg fuel ef env b) fun _ =>
            Sim.bindQ (sim_lazyAttrs _ cfg ef env fuel attrs []) (post_lazyAttrs _ cfg hsh ef env fuel attrs [] hcl (fun _ hp => by cases hp))
              fun as has => Sim.pushStmtSame _ _ (fun _ _ _ _ h => by cases h) has
      | scan e arms l =>
        simp only [lazyStmt]
        exact Sim.bind (Sim.poll _ _) fun _ => Sim.bind (sim_eagerExpr _ cfg fuel ef env e) fun _ =>
          Sim.bind (Sim.ofExcept _ _) fun _ => ihSc env arms _ 0 (by simp at h; omega) hok (by simpa [stmtAttrs] using hclean)
      | print es l =>
        simp only [lazyStmt]
        exact Sim.bind (Sim.poll _ _) fun _ => Sim.bind (sim_printArgsL _ cfg fuel ef env es) fun _ =>
          Sim.pushStmtSame _ _ (fun _ _ _ _ h => by cases h) trivial
      | ifS arms l =>
        simp only [lazyStmt]
        exact Sim.bind (Sim.poll _ _) fun _ => ihI env arms (by simp at h; omega) hok (by simpa [stmtAttrs] using hclean)
      | forIn var vl e body l =>
        simp only [lazyStmt]
        exact Sim.bind (Sim.poll _ _) fun _ => Sim.bind (sim_eagerExpr _ cfg fuel ef env e) fun _ =>
          Sim.bind (Sim.ofExcept _ _) fun _ => Sim.bind (Sim.framesL _ _) fun _ =>
            Sim.bind (ihF env var body _ (by simp at h; omega) hok (by simpa [stmtAttrs] using hclean)) fun _ => Sim.framesL _ _
    have hB : ∀ (env : Env) (kind : LBlockKind) (ss : List Stmt), sizeOf ss ≤ m + 1 → EnvOK env → AttrsClean [la, va, ma] (stmtsAttrs ss) →
        Sim [la, va, ma] (lazyBlock cfg fuel ef env kind ss) (lazyBlock (plainCfg cfg) fuel ef env kind ss) := by
      intro env kind ss h hok hclean
      cases ss with
      | nil => rw [lazyBlock, lazyBlock]; exact Sim.pure _ _
      | cons st rest =>
        simp only [stmtsAttrs] at hclean
        have hst : sizeOf st ≤ m := by simp at h; omega
        have hrest : sizeOf rest ≤ m := by simp at h; omega
        rw [Lazy.lazyBlock.eq_def, Lazy.lazyBlock.eq_def]
        simp only
        have hok' : EnvOK { env with ctx := { env.ctx with stmtLoc := st.loc } } := hok
        cases kind with
        | top => exact Sim.bind (Sim.ctx _ (ihS _ st hst hok' hclean.left)) fun _ => ihB _ _ rest hrest hok' hclean.right
        | scanArm what => exact Sim.bind (Sim.ctx _ (Sim.ctx _ (ihS _ st hst hok' hclean.left))) fun _ => ihB _ _ rest hrest hok' hclean.right
        | bare => exact Sim.bind (ihS _ st hst hok' hclean.left) fun _ => ihB _ _ rest hrest hok' hclean.right
    have hI : ∀ (env : Env) (arms : List (List Cond × List Stmt × Loc)), sizeOf arms ≤ m + 1 → EnvOK env →
        AttrsClean [la, va, ma] (ifArmsAttrs arms) →
        Sim [la, va, ma] (lazyIfArms cfg fuel ef env arms) (lazyIfArms (plainCfg cfg) fuel ef env arms) := by
      intro env arms h hok hclean
      cases arms with
      | nil => rw [lazyIfArms, lazyIfArms]; exact Sim.pure _ _
      | cons a rest =>
        obtain ⟨conds, body, l⟩ := a
        simp only [ifArmsAttrs] at hclean
        have hbody : sizeOf body ≤ m := by simp at h; omega
        have hrest : sizeOf rest ≤ m := by simp at h; omega
        rw [lazyIfArms, lazyIfArms]
        refine Sim.bind (sim_testCondsL _ cfg fuel ef env conds) fun ok => ?_
        cases ok with
        | true =>
          simp only [if_true]
          exact Sim.bind (Sim.framesL _ _) fun _ => Sim.bind (ihB env .bare body hbody hok hclean.left) fun _ => Sim.framesL _ _
        | false =>
          simp only [Bool.false_eq_true, if_false]
          exact ihI env rest hrest hok hclean.right
    have hF : ∀ (env : Env) (var : String) (body : List Stmt) (vals : List Val), sizeOf body ≤ m + 1 → EnvOK env →
        AttrsClean [la, va, ma] (stmtsAttrs body) →
        Sim [la, va, ma] (lazyFor cfg fuel ef env var body vals) (lazyFor (plainCfg cfg) fuel ef env var body vals) := by
      intro env var body vals h hok hclean
      induction vals with
      | nil => rw [lazyFor, lazyFor]; exact Sim.pure _ _
      | cons v rest ihv =>
        rw [lazyFor, lazyFor]
        exact Sim.bind (Sim.framesL _ _) fun _ => Sim.bind (Sim.unscopedAddL _ cfg _ _ _ _) fun _ =>
          Sim.bind (hB env .bare body h hok hclean) fun _ => ihv
    have hSc : ∀ (env : Env) (arms : List (String × List Stmt × Loc)) (subject : String) (i : Nat), sizeOf arms ≤ m + 1 → EnvOK env →
        AttrsClean [la, va, ma] (scanArmsAttrs arms) →
        Sim [la, va, ma] (lazyScanLoop cfg fuel ef env arms subject i) (lazyScanLoop (plainCfg cfg) fuel ef env arms subject i) := by
      intro env arms subject i h hok hclean
      have key : ∀ (k : Nat) (i : Nat), subject.utf8ByteSize - i ≤ k →
          Sim [la, va, ma] (lazyScanLoop cfg fuel ef env arms subject i) (lazyScanLoop (plainCfg cfg) fuel ef env arms subject i) := by
        intro k
        induction k with
        | zero =>
          intro i hk
          have hi : ¬ i < subject.utf8ByteSize := by omega
          rw [lazyScanLoop, lazyScanLoop]
          simp only [hi, dite_false]
          exact Sim.pure _ _
        | succ k ihk =>
          intro i hk
          by_cases hi : i < subject.utf8ByteSize
          · rw [lazyScanLoop, lazyScanLoop]
            simp only [hi, dite_true]
            have horacle : (plainCfg cfg).oracle = cfg.oracle := rfl
            rw [horacle]
            refine Sim.bind (sim_lazyScanCollect _ cfg.oracle subject i arms 0) fun ms => ?_
            cases hb : Strict.scanBest ms with
            | none => exact Sim.pure _ _
            | some p =>
              obtain ⟨mt, kk⟩ := p
              simp only
              by_cases hk2 : (arms[kk]?).isSome
              · simp only [hk2, dite_true]
                by_cases hm : 0 < mt.stop
                · simp only [hm, dite_true]
                  have hsz : sizeOf (Strict.armBody arms kk) ≤ m := by
                    have := Strict.armBody_lt arms kk hk2; omega
                  exact Sim.bind (Sim.framesL _ _) fun _ =>
                    Sim.bind (ihB { env with caps := Strict.capsOf mt } (.scanArm (Strict.armRegex arms kk)) (Strict.armBody arms kk) hsz hok
                      (clean_armBody _ arms kk hclean)) fun _ =>
                      Sim.bind (Sim.framesL _ _) fun _ => ihk (i + mt.stop) (by omega)
                · simp only [hm, dite_false]
                  exact Sim.throwK _ _
              · simp only [hk2, dite_false]
                exact Sim.panicAt _ _
          · rw [lazyScanLoop, lazyScanLoop]
            simp only [hi, dite_false]
            exact Sim.pure _ _
      exact key _ i (Nat.le_refl _)
    exact ⟨hS, hB, hI, hF, hSc⟩

/-! ### matches and the merged-query driver -/

theorem sim_execMatchL (la va ma : String) (hd1 : la ≠ va) (hd2 : la ≠ ma) (hd3 : va ≠ ma) (cfg : Cfg)
    (hla : cfg.locAttr = some la) (hva : cfg.varAttr = some va) (hma : cfg.matchAttr = some ma)
    (hsh : ∀ sh ∈ cfg.shorthands, AttrsClean [la, va, ma] sh.attrs) (fuel ef : Nat) (st : Stanza) (m : QMatch)
    (hclean : AttrsClean [la, va, ma] (stmtsAttrs st.stmts)) :
    Sim [la, va, ma] (execMatchL cfg fuel ef st m) (execMatchL (plainCfg cfg) fuel ef st m) := by
  unfold Lazy.execMatchL
  refine Sim.bind (Sim.framesL _ Frames.clear) fun _ => ?_
  cases hm : m.nodes fullMatchName with
  | nil => exact Sim.throwK _ _
  | cons n rest' =>
    simp only
    have htree : (plainCfg cfg).tree = cfg.tree := rfl
    rw [htree]
    cases cfg.tree.node? n with
    | none => exact Sim.panicAt _ _
    | some tn =>
      exact (sim_lazyStmts la va ma hd1 hd2 hd3 cfg hla hva hma hsh fuel ef (sizeOf st.stmts)).2.1 _ .top st.stmts (Nat.le_refl _)
        ⟨n, rest', hm⟩ hclean

theorem sim_execMergedL (la va ma : String) (hd1 : la ≠ va) (hd2 : la ≠ ma) (hd3 : va ≠ ma) (cfg : Cfg)
    (hla : cfg.locAttr = some la) (hva : cfg.varAttr = some va) (hma : cfg.matchAttr = some ma)
    (hsh : ∀ sh ∈ cfg.shorthands, AttrsClean [la, va, ma] sh.attrs) (fuel ef : Nat) (stanzas : List Stanza)
    (hclean : ∀ st ∈ stanzas, AttrsClean [la, va, ma] (stmtsAttrs st.stmts)) (ms : List QMatch) :
    Sim [la, va, ma] (execMergedL cfg fuel ef stanzas ms) (execMergedL (plainCfg cfg) fuel ef stanzas ms) := by
  induction ms with
  | nil => exact Sim.pure _ _
  | cons m rest ih =>
    simp only [execMergedL]
    refine Sim.bind ?_ fun _ => ih
    unfold Lazy.lazyBlockOf
    cases hix : stanzas[m.patternIx]? with
    | none => exact Sim.panicAt _ _
    | some st =>
      exact Sim.bind (Sim.poll _ _) fun _ =>
        sim_execMatchL la va ma hd1 hd2 hd3 cfg hla hva hma hsh fuel ef st m (hclean st (List.mem_of_getElem? hix))

/-! ### the evaluate phase -/

theorem sim_evalNodeAttrs (names : List String) (cfg : Cfg) (ef node : Nat) (dbg : StmtCtx) :
    ∀ (attrs : List (String × LVal)), (∀ a ∈ attrs, names.contains a.1 = false) →
      Sim names (evalNodeAttrs cfg ef node dbg attrs) (evalNodeAttrs (plainCfg cfg) ef node dbg attrs) := by
  intro attrs
  induction attrs with
  | nil => intro _; exact Sim.pure names _
  | cons a rest ih =>
    intro hcl
    obtain ⟨name, lv⟩ := a
    simp only [evalNodeAttrs]
    refine Sim.bind (sim_evalL names cfg ef lv) fun v => Sim.bind (Sim.recordPrevL names _ _) fun prev =>
      Sim.bind (Sim.gop_addNodeAttr names node name v _ (hcl (name, lv) (by simp))) fun r => ?_
    cases r with
    | none => exact Sim.panicAt names _
    | some u => exact ih (fun a ha => hcl a (by simp [ha]))

/-- related graphs agree on which edges and nodes exist -/
theorem rel_getEdge {names : List String} {gD gP : CGraph} (h : strip names gD = strip names gP) (src sink : Nat) :
    (gD.getEdge src sink).isSome = (gP.getEdge src sink).isSome ∧ (gD.node? src).isNone = (gP.node? src).isNone := by
  have hnode := rel_node h src
  simp only [CGraph.getEdge]
  cases hD : gD.node? src with
  | none =>
    cases hP : gP.node? src with
    | none => simp
    | some nP => rw [hD, hP] at hnode; simp at hnode
  | some nD =>
    cases hP : gP.node? src with
    | none => rw [hD, hP] at hnode; simp at hnode
    | some nP =>
      rw [hD, hP] at hnode
      simp only [Option.map_some, Option.some.injEq] at hnode
      have hedges : nD.edges.map (fun e => (e.1, stripAttrs names e.2)) = nP.edges.map (fun e => (e.1, stripAttrs names e.2)) := by
        have := congrArg GNode.edges hnode; simpa [stripNode] using this
      have hlook : (nD.edges.lookup sink).map (stripAttrs names) = (nP.edges.lookup sink).map (stripAttrs names) := by
        rw [← lookup_map_strip, ← lookup_map_strip, hedges]
      simp only [GNode.getEdge, Option.isNone_some, and_true]
      cases hlD : nD.edges.lookup sink <;> cases hlP : nP.edges.lookup sink <;> rw [hlD, hlP] at hlook <;> simp at hlook ⊢

theorem sim_evalEdgeAttrs (names : List String) (cfg : Cfg) (ef src sink : Nat) (dbg : StmtCtx) :
    ∀ (attrs : List (String × LVal)), (∀ a ∈ attrs, names.contains a.1 = false) →
      Sim names (evalEdgeAttrs cfg ef src sink dbg attrs) (evalEdgeAttrs (plainCfg cfg) ef src sink dbg attrs) := by
  intro attrs
  induction attrs with
  | nil => intro _; exact Sim.pure names _
  | cons a rest ih =>
    intro hcl
    obtain ⟨name, lv⟩ := a
    simp only [evalEdgeAttrs]
    refine Sim.bind (sim_evalL names cfg ef lv) fun v => Sim.read_bind fun gD gP hg => ?_
    obtain ⟨h1, h2⟩ := rel_getEdge hg src sink
    cases hD : gD.getEdge src sink with
    | none =>
      cases hP : gP.getEdge src sink with
      | some eP => rw [hD, hP] at h1; simp at h1
      | none =>
        simp only
        rw [h2]
        cases (gP.node? src).isNone with
        | true => simp only [if_true]; exact Sim.panicAt names _
        | false => simp only [Bool.false_eq_true, if_false]; exact Sim.throwK names _
    | some eD =>
      cases hP : gP.getEdge src sink with
      | none => rw [hD, hP] at h1; simp at h1
      | some eP =>
        simp only
        refine Sim.bind (Sim.recordPrevL names _ _) fun prev =>
          Sim.bind (Sim.gop_addEdgeAttr names src sink name v _ (hcl (name, lv) (by simp))) fun r => ?_
        cases r with
        | none => exact Sim.panicAt names _
        | some r' =>
          cases r' with
          | none => exact Sim.panicAt names _
          | some u => exact ih (fun a ha => hcl a (by simp [ha]))

theorem sim_evalPrintL (names : List String) (cfg : Cfg) (ef : Nat) (args : List (Option LVal)) :
    Sim names (evalPrintL cfg ef args) (evalPrintL (plainCfg cfg) ef args) := by
  induction args with
  | nil => exact Sim.pure names _
  | cons a rest ih =>
    cases a with
    | none => simp only [evalPrintL]; exact ih
    | some lv => simp only [evalPrintL]; exact Sim.bind (sim_evalL names cfg ef lv) fun _ => ih

theorem sim_target (names : List String) (cfg : Cfg) (ef : Nat) (c : Ctx) (lv : LVal) :
    Sim names (withContext c (evalL cfg ef lv >>= asGraphNodeL)) (withContext c (evalL (plainCfg cfg) ef lv >>= asGraphNodeL)) :=
  Sim.ctx c (Sim.bind (sim_evalL names cfg ef lv) fun _ => Sim.asGraphNodeL names _)

/-- queued statements that are equal after erasure are equal, or two `edge` statements that differ in debug attributes -/
theorem erase_eq_cases (names : List String) (a b : LStmt) (h : eraseStmt names a = eraseStmt names b) :
    a = b ∨ ∃ src sink aD aP dbg, a = .createEdge src sink aD dbg ∧ b = .createEdge src sink aP dbg ∧
      stripAttrs names aD = stripAttrs names aP := by
  cases a <;> cases b <;> simp only [eraseStmt, LStmt.createEdge.injEq, reduceCtorEq] at h
  all_goals first
    | exact Or.inl h
    | (left; rw [h])
    | (obtain ⟨rfl, rfl, h3, rfl⟩ := h; exact Or.inr ⟨_, _, _, _, _, rfl, rfl, h3⟩)

theorem sim_evalLStmt (names : List String) (cfg : Cfg) (ef : Nat) (stD stP : LStmt)
    (he : eraseStmt names stD = eraseStmt names stP) (hcl : StmtClean names stD) :
    Sim names (evalLStmt cfg ef stD) (evalLStmt (plainCfg cfg) ef stP) := by
  have edge : ∀ (src sink : LVal) (aD aP : Attrs) (dbg : StmtCtx), stripAttrs names aD = stripAttrs names aP →
      Sim names (evalLStmt cfg ef (.createEdge src sink aD dbg)) (evalLStmt (plainCfg cfg) ef (.createEdge src sink aP dbg)) := by
    intro src sink aD aP dbg ha
    unfold Lazy.evalLStmt
    refine Sim.bind (Sim.poll names _) fun _ => ?_
    refine Sim.ctx _ (Sim.bind (sim_target names cfg ef _ src) fun a => Sim.bind (sim_target names cfg ef _ sink) fun b =>
      Sim.bind (Sim.gop_addEdge names a b aD aP ha) fun r => ?_)
    cases r <;> first | exact Sim.panicAt names _ | exact Sim.pure names _
  rcases erase_eq_cases names stD stP he with rfl | ⟨src, sink, aD, aP, dbg, rfl, rfl, ha⟩
  · cases stD with
    | attrNode node attrs dbg =>
      unfold Lazy.evalLStmt
      refine Sim.bind (Sim.poll names _) fun _ => ?_
      exact Sim.ctx _ (Sim.bind (sim_target names cfg ef _ node) fun n => sim_evalNodeAttrs names cfg ef n dbg attrs hcl)
    | createEdge src sink attrs dbg => exact edge src sink attrs attrs dbg rfl
    | attrEdge src sink attrs dbg =>
      unfold Lazy.evalLStmt
      refine Sim.bind (Sim.poll names _) fun _ => ?_
      exact Sim.ctx _ (Sim.bind (sim_target names cfg ef _ src) fun a => Sim.bind (sim_target names cfg ef _ sink) fun b =>
        sim_evalEdgeAttrs names cfg ef a b dbg attrs hcl)
    | print args dbg =>
      unfold Lazy.evalLStmt
      refine Sim.bind (Sim.poll names _) fun _ => ?_
      exact Sim.ctx _ (sim_evalPrintL names cfg ef args)
  · exact edge src sink aD aP dbg ha

theorem sim_evalQueue (names : List String) (cfg : Cfg) (ef : Nat) : ∀ (qD qP : List LStmt),
    qD.map (eraseStmt names) = qP.map (eraseStmt names) → (∀ st ∈ qD, StmtClean names st) →
      Sim names (evalQueue cfg ef qD) (evalQueue (plainCfg cfg) ef qP) := by
  intro qD
  induction qD with
  | nil =>
    intro qP he _
    cases qP with
    | nil => exact Sim.pure names _
    | cons b rest => simp at he
  | cons a restD ih =>
    intro qP he hcl
    cases qP with
    | nil => simp at he
    | cons b restP =>
      simp only [List.map_cons, List.cons.injEq] at he
      simp only [evalQueue]
      exact Sim.bind (sim_evalLStmt names cfg ef a b he.1 (hcl a (by simp))) fun _ =>
        ih restP he.2 (fun st hst => hcl st (by simp [hst]))

theorem sim_forceAllThunks (names : List String) (cfg : Cfg) (ef : Nat) : ∀ (k i : Nat),
    Sim names (forceAllThunks cfg ef k i) (forceAllThunks (plainCfg cfg) ef k i) := by
  intro k
  induction k with
  | zero => intro i; exact Sim.pure names _
  | succ k ih => intro i; simp only [forceAllThunks]; exact Sim.bind ((sim_force names cfg).2.2.2.2.1 ef i) fun _ => ih _

theorem sim_forceAllCells (names : List String) (cfg : Cfg) (ef : Nat) (ns : List String) :
    Sim names (forceAllCells cfg ef ns) (forceAllCells (plainCfg cfg) ef ns) := by
  induction ns with
  | nil => exact Sim.pure names _
  | cons name rest ih =>
    simp only [forceAllCells]
    refine Sim.getR_bind fun rD rP hrr => ?_
    rw [rr_cells hrr]
    cases rP.cells.lookup name with
    | none => exact ih
    | some cell =>
      simp only
      exact Sim.bind ((sim_force names cfg).2.2.1 ef name cell) fun map => Sim.bind (Sim.setCellL names _ _) fun _ => ih

theorem sim_evaluatePhase (names : List String) (cfg : Cfg) (ef : Nat) :
    Sim names (evaluatePhase cfg ef) (evaluatePhase (plainCfg cfg) ef) := by
  unfold Lazy.evaluatePhase
  refine Sim.getR_bind fun rD rP hrr => ?_
  refine Sim.bind (sim_evalQueue names cfg ef rD.edgeQ rP.edgeQ (rr_edgeQ hrr) hrr.2.2.1) fun _ => ?_
  refine Sim.bind (sim_evalQueue names cfg ef rD.attrQ rP.attrQ (by rw [rr_attrQ hrr]) hrr.2.1) fun _ => ?_
  refine Sim.bind (sim_evalQueue names cfg ef rD.printQ rP.printQ (by rw [rr_printQ hrr]) hrr.2.2.2) fun _ => ?_
  refine Sim.getR_bind fun rD2 rP2 hrr2 => ?_
  rw [rr_thunks hrr2]
  refine Sim.bind (sim_forceAllThunks names cfg ef _ _) fun _ => ?_
  refine Sim.getR_bind fun rD3 rP3 hrr3 => ?_
  rw [rr_cells hrr3]
  exact sim_forceAllCells names cfg ef _

/-- **Debug attributes are neutral (lazy mode).** If the three debug attribute names are pairwise different and are not
used as attribute names by the file, then the lazy run with debug attributes and the lazy run without them — from the
same graph, with the same globals, matches, oracle answers and cancellation flag — end the same way (success, or the
same error with the same contexts), after the same number of polls, with graphs that are equal once the debug
attributes are removed. -/
theorem lazy_debug_neutral (file : File) (tree : Tree) (oracle : Oracle) (globals : GlobalsM) (la va ma : String)
    (cancelAt : Option Nat) (fuel ef : Nat) (merged : List QMatch) (g0 : CGraph)
    (hd1 : la ≠ va) (hd2 : la ≠ ma) (hd3 : va ≠ ma)
    (hstanzas : ∀ st ∈ file.stanzas, AttrsClean [la, va, ma] (stmtsAttrs st.stmts))
    (hsh : ∀ sh ∈ file.shorthands, AttrsClean [la, va, ma] sh.attrs) :
    let plain := Lazy.run file tree oracle globals none none none cancelAt fuel ef merged g0
    let dbg := Lazy.run file tree oracle globals (some la) (some va) (some ma) cancelAt fuel ef merged g0
    dbg.outcome = plain.outcome ∧ strip [la, va, ma] dbg.graph = strip [la, va, ma] plain.graph ∧ dbg.polls = plain.polls := by
  simp only [Lazy.run]
  cases hg : checkGlobals file.globals globals.nested with
  | error k => exact ⟨rfl, rfl, rfl⟩
  | ok gl =>
    simp only
    let cfgD : Cfg := { tree, oracle, globals := gl, inherited := file.inherited, shorthands := file.shorthands,
                        locAttr := some la, varAttr := some va, matchAttr := some ma }
    have hsim : Sim [la, va, ma] (execMergedL cfgD fuel ef file.stanzas merged >>= fun _ => evaluatePhase cfgD ef)
        (execMergedL (plainCfg cfgD) fuel ef file.stanzas merged >>= fun _ => evaluatePhase (plainCfg cfgD) ef) :=
      Sim.bind (sim_execMergedL la va ma hd1 hd2 hd3 cfgD rfl rfl rfl hsh fuel ef file.stanzas hstanzas merged) fun _ =>
        sim_evaluatePhase _ cfgD ef
    let r0 : LSt := { locals := [[]], thunks := [], cells := [], edgeQ := [], attrQ := [], printQ := [], prevDbg := [] }
    let s0 : MSt LSt := { graph := g0, rest := r0, ps := { polls := 0, cancelAt } }
    have hq0 : QClean [la, va, ma] r0 := by
      refine ⟨?_, ?_, ?_⟩ <;> (intro st hst; simp [r0] at hst)
    have hrel : Rel [la, va, ma] s0 s0 := ⟨rfl, ⟨rfl, hq0⟩, rfl⟩
    have h := hsim s0 s0 hrel
    show (Prog.toResult (Prog.run (execMergedL cfgD fuel ef file.stanzas merged >>= fun _ => evaluatePhase cfgD ef) s0)).outcome =
        (Prog.toResult (Prog.run (execMergedL (plainCfg cfgD) fuel ef file.stanzas merged >>= fun _ => evaluatePhase (plainCfg cfgD) ef) s0)).outcome ∧
      strip [la, va, ma] (Prog.toResult (Prog.run (execMergedL cfgD fuel ef file.stanzas merged >>= fun _ => evaluatePhase cfgD ef) s0)).graph =
        strip [la, va, ma] (Prog.toResult (Prog.run (execMergedL (plainCfg cfgD) fuel ef file.stanzas merged >>= fun _ => evaluatePhase (plainCfg cfgD) ef) s0)).graph ∧
      (Prog.toResult (Prog.run (execMergedL cfgD fuel ef file.stanzas merged >>= fun _ => evaluatePhase cfgD ef) s0)).polls =
        (Prog.toResult (Prog.run (execMergedL (plainCfg cfgD) fuel ef file.stanzas merged >>= fun _ => evaluatePhase (plainCfg cfgD) ef) s0)).polls
    generalize Prog.run (execMergedL cfgD fuel ef file.stanzas merged >>= fun _ => evaluatePhase cfgD ef) s0 = rD at h ⊢
    generalize Prog.run (execMergedL (plainCfg cfgD) fuel ef file.stanzas merged >>= fun _ => evaluatePhase (plainCfg cfgD) ef) s0 = rP at h ⊢
    cases rD with
    | ok u sD =>
      cases rP with
      | ok u' sP =>
        obtain ⟨_, hgr, _, hps⟩ := h
        exact ⟨rfl, hgr, by simp [Prog.toResult, hps]⟩
      | fail f sP => exact h.elim
    | fail f sD =>
      cases rP with
      | ok u' sP => exact h.elim
      | fail f' sP =>
        obtain ⟨rfl, hgr, _, hps⟩ := h
        exact ⟨rfl, hgr, by simp [Prog.toResult, hps]⟩

end DebugSim
