/-
  Lazy evaluation keeps the "being forced" marks of scoped-variable cells balanced: a successful run of any program of
  the lazy interpreter leaves no cell in state `Forcing` that was not already in that state.
-/
import Tsg.Proofs.Prog
import Tsg.Sem.Lazy

namespace LazyForcing
open Prog Lazy

def Forcing (r : LSt) (n : String) : Prop := r.cells.lookup n = some .forcing

/-- a successful run leaves no cell in state `Forcing` that was not so before, except those named in `S` -/
structure Grow {α : Type} (S : String → Prop) (t : Prog LSt α) : Prop where
  h : ∀ s a s', Prog.run t s = .ok a s' → ∀ n, Forcing s'.rest n → Forcing s.rest n ∨ S n

variable {α β : Type} {S : String → Prop}

theorem Grow.mono {S' : String → Prop} {t : Prog LSt α} (h : Grow S t) (hs : ∀ n, S n → S' n) : Grow S' t :=
  ⟨fun s a s' hr n hn => (h.h s a s' hr n hn).imp id (hs n)⟩

theorem Grow.pure (a : α) : Grow S (Pure.pure a : Prog LSt α) := by
  constructor
  intro s b s' hr n hn
  have : Prog.run (Pure.pure a : Prog LSt α) s = .ok a s := rfl
  rw [this] at hr; cases hr; exact Or.inl hn

theorem Grow.fail (f : Fail) : Grow S (Prog.fail f : Prog LSt α) := by
  constructor
  intro s b s' hr; cases hr

theorem Grow.failP (f : Fail) : Grow S (Prog.failP f : Prog LSt α) := Grow.fail f
theorem Grow.throwK (k : EK) : Grow S (Prog.throwK k : Prog LSt α) := Grow.fail _
theorem Grow.panicAt (site : String) : Grow S (Prog.panicAt site : Prog LSt α) := Grow.fail _

theorem Grow.ofExcept (x : Except EK α) : Grow S (Prog.ofExcept x : Prog LSt α) := by
  cases x with
  | ok a => exact Grow.pure a
  | error e => exact Grow.fail _

theorem Grow.bind {t : Prog LSt α} {f : α → Prog LSt β} (h1 : Grow S t) (h2 : ∀ a, Grow S (f a)) : Grow S (t >>= f) := by
  constructor
  intro s b s' hr n hn
  rw [Prog.run_bind] at hr
  cases h : Prog.run t s with
  | ok a s1 =>
    rw [h] at hr
    rcases (h2 a).h s1 b s' hr n hn with h' | h'
    · exact h1.h s a s1 h n h'
    · exact Or.inr h'
  | fail e s1 => rw [h] at hr; cases hr

theorem Grow.poll (l : String) : Grow S (pollP l : Prog LSt Unit) := by
  constructor
  intro s b s' hr n hn
  simp only [pollP, Prog.run] at hr
  split at hr
  · split at hr
    · cases hr
    · cases hr; exact Or.inl hn
  · cases hr; exact Or.inl hn

theorem Grow.gop {γ : Type} (op : GraphOp γ) : Grow S (gopP op : Prog LSt γ) := by
  constructor
  intro s b s' hr n hn
  simp only [gopP, Prog.run] at hr
  split at hr
  · cases hr; exact Or.inl hn
  · cases hr

theorem Grow.ctx {m : Prog LSt α} (c : Ctx) (h : Grow S m) : Grow S (withContext c m) := by
  constructor
  intro s b s' hr n hn
  simp only [withContext, Prog.run] at hr
  cases hm : Prog.run m s with
  | ok a s1 => rw [hm] at hr; simp only [Prog.run] at hr; cases hr; exact h.h s _ _ hm n hn
  | fail e s1 => rw [hm] at hr; cases hr

theorem Grow.prim (f : LSt → Except Fail α × LSt)
    (h : ∀ r b r', f r = (.ok b, r') → ∀ n, Forcing r' n → Forcing r n ∨ S n) : Grow S (primP f) := by
  constructor
  intro s b s' hr n hn
  simp only [primP, Prog.run] at hr
  cases hf : f s.rest with
  | mk x r' =>
    rw [hf] at hr
    cases x with
    | ok b' => simp only [Prog.run] at hr; cases hr; exact h s.rest _ r' hf n hn
    | error e => cases hr

theorem Grow.getR : Grow S (Prog.getR : Prog LSt LSt) :=
  Grow.prim _ fun r b r' h n hn => by cases h; exact Or.inl hn

/-- an update of the private state that leaves the cells alone -/
theorem Grow.modifyR (f : LSt → LSt) (h : ∀ r, (f r).cells = r.cells) : Grow S (Prog.modifyR f) :=
  Grow.prim _ fun r b r' hf n hn => by
    cases hf; left; unfold Forcing at hn ⊢; rw [h] at hn; exact hn

theorem lookup_cons_ite {β : Type} (n k : String) (v : β) (l : List (String × β)) :
    List.lookup n ((k, v) :: l) = if n = k then some v else List.lookup n l := by
  rw [List.lookup_cons]
  by_cases h : n = k
  · subst h; simp
  · have : (n == k) = false := by simpa using h
    simp [this, h]

theorem lookup_map_replace (name : String) (c : ScopedCell) (n : String) : ∀ (l : List (String × ScopedCell)),
    (l.map fun e => if e.1 = name then (name, c) else e).lookup n =
      if n = name then (l.lookup name).map (fun _ => c) else l.lookup n := by
  intro l
  induction l with
  | nil => simp [List.lookup]
  | cons e rest ih =>
    obtain ⟨k, v⟩ := e
    simp only [List.map_cons]
    by_cases hk : k = name
    · subst hk
      by_cases hn : n = k
      · subst hn; simp [lookup_cons_ite]
      · simp only [if_true, lookup_cons_ite, hn, if_false] at ih ⊢
        exact ih
    · have hk' : ¬ name = k := fun h => hk h.symm
      by_cases hn : n = k
      · subst hn; simp [lookup_cons_ite, hk]
      · by_cases hn2 : n = name
        · subst hn2; simp only [hk, if_false, lookup_cons_ite, hn, if_true] at ih ⊢; exact ih
        · simp only [hk, if_false, lookup_cons_ite, hn, hn2] at ih ⊢; exact ih

theorem lookup_setCell (r : LSt) (name : String) (c : ScopedCell) (n : String) :
    (setCell r name c).cells.lookup n = if n = name then some c else r.cells.lookup n := by
  unfold setCell
  split
  · rename_i h
    simp only
    rw [lookup_map_replace]
    by_cases hn : n = name
    · simp only [hn, if_true]
      cases hl : r.cells.lookup name with
      | none => rw [hl] at h; simp at h
      | some _ => rfl
    · simp [hn]
  · rename_i h
    simp only [Bool.not_eq_true, Option.isSome_eq_false_iff, Option.isNone_iff_eq_none] at h
    simp only [List.lookup_append]
    by_cases hn : n = name
    · subst hn; rw [h, lookup_cons_ite]; simp
    · rw [lookup_cons_ite]; simp [hn]

/-- marking a cell `Forcing` -/
theorem Grow.setForcing (name : String) : Grow (fun n => n = name) (Prog.modifyR fun s => setCell s name .forcing) :=
  Grow.prim _ fun r b r' hf n hn => by
    cases hf
    unfold Forcing at hn ⊢
    rw [lookup_setCell] at hn
    by_cases h : n = name
    · exact Or.inr h
    · simp only [h, if_false] at hn; exact Or.inl hn

/-- storing any other state -/
theorem Grow.setCell (name : String) (c : ScopedCell) (hc : c ≠ .forcing) : Grow S (Prog.modifyR fun s => setCell s name c) :=
  Grow.prim _ fun r b r' hf n hn => by
    cases hf
    unfold Forcing at hn ⊢
    rw [lookup_setCell] at hn
    by_cases h : n = name
    · simp only [h, if_true, Option.some.injEq] at hn; exact absurd hn hc
    · simp only [h, if_false] at hn; exact Or.inl hn

/-- closes goals `Grow S t` for programs built from the formers above; induction hypotheses are taken from the context -/
macro "grow0" : tactic => `(tactic| repeat' (first
  | exact Grow.pure _ | exact Grow.throwK _ | exact Grow.failP _ | exact Grow.panicAt _ | exact Grow.fail _
  | exact Grow.poll _ | exact Grow.gop _ | exact Grow.ofExcept _ | exact Grow.getR
  | apply_assumption
  | apply Grow.bind | apply Grow.ctx | intro _ | split))

abbrev No : String → Prop := fun _ => False

theorem Grow.setThunk (loc : Nat) (st : ThunkState) : Grow S (Prog.modifyR fun s => setThunk s loc st) :=
  Grow.modifyR _ fun r => by unfold Lazy.setThunk; split <;> rfl

theorem Grow.callFn (cfg : Cfg) (fn : String) (vs : List Val) : Grow S (callFnL cfg fn vs) := by
  unfold callFnL Strict.callFn
  grow0

theorem Grow.asSyntaxNodeL (v : Val) : Grow S (asSyntaxNodeL v) := by
  unfold Lazy.asSyntaxNodeL; grow0

theorem Grow.asGraphNodeL (v : Val) : Grow S (asGraphNodeL v) := by
  unfold Lazy.asGraphNodeL; grow0

macro "grow" : tactic => `(tactic| repeat' (first
  | exact Grow.pure _ | exact Grow.throwK _ | exact Grow.failP _ | exact Grow.panicAt _ | exact Grow.fail _
  | exact Grow.poll _ | exact Grow.gop _ | exact Grow.ofExcept _ | exact Grow.getR
  | exact Grow.asSyntaxNodeL _ | exact Grow.asGraphNodeL _ | exact Grow.callFn _ _ _ | exact Grow.setThunk _ _
  | apply_assumption
  | apply Grow.bind | apply Grow.ctx | intro _ | split))

/-- the forcing functions: everything keeps the marks balanced, except `forceCell`, which leaves its own cell marked
(the callers overwrite the mark with the forced map) -/
theorem grow_force (cfg : Cfg) :
    (∀ (ef : Nat) (lv : LVal), Grow No (evalL cfg ef lv)) ∧
    (∀ (ef node : Nat) (name : String), Grow No (resolveScoped cfg ef node name)) ∧
    (∀ (ef : Nat) (name : String) (cell : ScopedCell), Grow (fun n => n = name) (forceCell cfg ef name cell)) ∧
    (∀ (ef : Nat) (name : String) (pairs : List (LVal × LVal × StmtCtx)) (acc : List (Nat × LVal)) (dbgs : List (Nat × StmtCtx)),
      Grow No (forcePairs cfg ef name pairs acc dbgs)) ∧
    (∀ (ef loc : Nat), Grow No (forceThunk cfg ef loc)) ∧
    (∀ (ef : Nat) (es : List LVal), Grow No (evalLs cfg ef es)) := by
  apply Lazy.evalL.mutual_induct
  · intro lv; rw [Lazy.evalL.eq_def]; exact Grow.failP _
  · intro lv ef' h6 h5 h1 h2
    rw [Lazy.evalL.eq_def]
    simp only
    refine Grow.bind (Grow.poll _) fun _ => ?_
    cases lv <;> simp only <;> grow
  · -- resolveScoped
    intro ef node name h3
    rw [Lazy.resolveScoped.eq_def]
    refine Grow.bind Grow.getR fun r => ?_
    split
    · exact Grow.throwK _
    · rename_i cell _
      -- `forceCell` marks `name`; the caller overwrites the mark with the forced map
      constructor
      intro s b s' hr n hn
      rw [Prog.run_bind] at hr
      cases hfc : Prog.run (forceCell cfg ef name cell) s with
      | fail e s1 => rw [hfc] at hr; cases hr
      | ok map s1 =>
        rw [hfc] at hr
        simp only at hr
        rw [Prog.run_bind] at hr
        have hset : Prog.run (Prog.modifyR fun s => setCell s name (.forced map)) s1 = .ok () { s1 with rest := setCell s1.rest name (.forced map) } := rfl
        rw [hset] at hr
        simp only at hr
        have hrest : Grow No (match List.lookup node map with
            | some v => Pure.pure v
            | none =>
              if cfg.inherited.contains name = true then
                match List.findSome? (fun a => List.lookup a map) (cfg.tree.ancestors node) with
                | some v => Pure.pure v
                | none => Prog.throwK EK.undefinedScopedVariable
              else Prog.throwK EK.undefinedScopedVariable : Prog LSt LVal) := by grow
        have h2 := hrest.h _ b s' hr n hn
        rcases h2 with h2 | h2
        · unfold Forcing at h2
          rw [lookup_setCell] at h2
          by_cases hnn : n = name
          · simp [hnn] at h2
          · simp only [hnn, if_false] at h2
            rcases (h3 cell).h s map s1 hfc n h2 with h4 | h4
            · exact Or.inl h4
            · exact absurd h4 hnn
        · exact h2.elim
  · -- forceCell
    intro ef name cell h4
    rw [Lazy.forceCell.eq_def]
    refine Grow.bind (Grow.setForcing name) fun _ => ?_
    cases cell with
    | unforced pairs => exact (h4 pairs).mono (fun _ h => h.elim)
    | forcing => exact Grow.throwK _
    | forced map => exact Grow.pure _
  · intro ef name acc dbgs; rw [Lazy.forcePairs.eq_def]; exact Grow.pure _
  · intro ef name acc dbgs scope value dbg rest h1 h4
    rw [Lazy.forcePairs.eq_def]
    simp only
    grow
  · -- forceThunk
    intro ef loc h1
    rw [Lazy.forceThunk.eq_def]
    refine Grow.bind Grow.getR fun r => ?_
    split
    · exact Grow.panicAt _
    · refine Grow.ctx _ (Grow.bind (Grow.setThunk _ _) fun _ => ?_)
      split
      · exact Grow.bind (h1 _) fun _ => Grow.bind (Grow.setThunk _ _) fun _ => Grow.pure _
      · exact Grow.bind (Grow.setThunk _ _) fun _ => Grow.pure _
      · exact Grow.throwK _
  · intro ef; rw [Lazy.evalLs.eq_def]; exact Grow.pure _
  · intro ef e rest h1 h6
    rw [Lazy.evalLs.eq_def]
    simp only
    grow

theorem grow_evalL (cfg : Cfg) (ef : Nat) (lv : LVal) : Grow No (evalL cfg ef lv) := (grow_force cfg).1 ef lv
theorem grow_forceThunk (cfg : Cfg) (ef loc : Nat) : Grow No (forceThunk cfg ef loc) := (grow_force cfg).2.2.2.2.1 ef loc
theorem grow_forceCell (cfg : Cfg) (ef : Nat) (name : String) (cell : ScopedCell) :
    Grow (fun n => n = name) (forceCell cfg ef name cell) := (grow_force cfg).2.2.1 ef name cell

/-! ### the execute phase -/

theorem Grow.frames (f : Frames LVal → Frames LVal) : Grow S (Prog.modifyR fun s => { s with locals := f s.locals }) :=
  Grow.modifyR _ fun _ => rfl

theorem Grow.pushFrameL : Grow S pushFrameL := Grow.frames _
theorem Grow.popFrameL : Grow S popFrameL := Grow.frames _
theorem Grow.clearFrameL : Grow S clearFrameL := Grow.frames _

theorem Grow.storeAdd (v : LVal) (dbg : StmtCtx) : Grow S (storeAdd v dbg) :=
  Grow.prim _ fun r b r' h n hn => by cases h; exact Or.inl hn

theorem Grow.unscopedGetL (cfg : Cfg) (name : String) : Grow S (unscopedGetL cfg name) :=
  Grow.prim _ fun r b r' h n hn => by
    split at h
    · cases h; exact Or.inl hn
    · split at h
      · cases h; exact Or.inl hn
      · cases h

theorem Grow.localsAddL (name : String) (var : LVal) (m : Bool) : Grow S (localsAddL name var m) :=
  Grow.prim _ fun r b r' h n hn => by
    split at h
    · cases h; exact Or.inl hn
    · cases h

theorem Grow.localsSetL (name : String) (var : LVal) : Grow S (localsSetL name var) :=
  Grow.prim _ fun r b r' h n hn => by
    split at h
    · cases h; exact Or.inl hn
    · split at h <;> cases h

theorem Grow.unscopedAddL (cfg : Cfg) (ctx : StmtCtx) (name : String) (v : LVal) (m : Bool) : Grow S (unscopedAddL cfg ctx name v m) := by
  unfold Lazy.unscopedAddL
  split
  · exact Grow.throwK _
  · exact Grow.bind (Grow.storeAdd _ _) fun _ => Grow.localsAddL _ _ _

theorem Grow.unscopedSetL (cfg : Cfg) (ctx : StmtCtx) (name : String) (v : LVal) : Grow S (unscopedSetL cfg ctx name v) := by
  unfold Lazy.unscopedSetL
  split
  · exact Grow.throwK _
  · exact Grow.bind (Grow.storeAdd _ _) fun _ => Grow.localsSetL _ _

theorem Grow.cellAdd (scope : LVal) (name : String) (value : LVal) (dbg : StmtCtx) : Grow S (cellAdd scope name value dbg) :=
  Grow.prim _ fun r b r' h n hn => by
    unfold Forcing at hn ⊢
    split at h
    · cases h
      rw [lookup_setCell] at hn
      by_cases hnn : n = name
      · simp [hnn] at hn
      · simp only [hnn, if_false] at hn; exact Or.inl hn
    · cases h
      rw [lookup_setCell] at hn
      by_cases hnn : n = name
      · simp [hnn] at hn
      · simp only [hnn, if_false] at hn; exact Or.inl hn
    · cases h
    · cases h

theorem Grow.pushStmt (st : LStmt) : Grow S (pushStmt st) :=
  Grow.modifyR _ fun r => by cases st <;> rfl

theorem Grow.recordPrev (key : ElemKey) (dbg : StmtCtx) : Grow S (recordPrev key dbg) :=
  Grow.prim _ fun r b r' h n hn => by cases h; exact Or.inl hn

theorem Grow.fromNodes (q : Quant) (nodes : List Nat) : Grow S (Strict.fromNodes q nodes : Prog LSt Val) := by
  unfold Strict.fromNodes
  grow

theorem Grow.addAttribute (t : Strict.Target) (name : String) (v : Val) : Grow S (Strict.addAttribute t name v : Prog LSt Unit) := by
  unfold Strict.addAttribute
  grow

/-- closes `Grow S t` for straight-line programs (no case split, induction hypotheses by `assumption`) -/
macro "grow1" : tactic => `(tactic| repeat' (first
  | assumption
  | with_reducible exact Grow.pure _ | with_reducible exact Grow.throwK _ | with_reducible exact Grow.failP _
  | with_reducible exact Grow.panicAt _ | with_reducible exact Grow.fail _
  | with_reducible exact Grow.poll _ | with_reducible exact Grow.gop _ | with_reducible exact Grow.ofExcept _ | with_reducible exact Grow.getR
  | with_reducible exact Grow.asSyntaxNodeL _ | with_reducible exact Grow.asGraphNodeL _ | with_reducible exact Grow.callFn _ _ _
  | with_reducible exact Grow.setThunk _ _
  | with_reducible exact Grow.pushFrameL | with_reducible exact Grow.popFrameL | with_reducible exact Grow.clearFrameL
  | with_reducible exact Grow.storeAdd _ _
  | with_reducible exact Grow.unscopedGetL _ _ | with_reducible exact Grow.localsAddL _ _ _ | with_reducible exact Grow.localsSetL _ _
  | with_reducible exact Grow.unscopedAddL _ _ _ _ _
  | with_reducible exact Grow.unscopedSetL _ _ _ _ | with_reducible exact Grow.cellAdd _ _ _ _ | with_reducible exact Grow.pushStmt _
  | with_reducible exact Grow.recordPrev _ _
  | with_reducible exact Grow.fromNodes _ _ | with_reducible exact Grow.addAttribute _ _ _ | with_reducible exact grow_evalL _ _ _
  | with_reducible exact grow_forceThunk _ _ _
  | with_reducible apply Grow.bind | with_reducible apply Grow.ctx | intro _))

theorem grow_lazyExprs (cfg : Cfg) (fuel ef : Nat) (env : Env) :
    (∀ (e : Expr), Grow No (lazyExpr cfg fuel ef env e)) ∧
    (∀ (elem : Expr) (var : String) (vals : List Val), Grow No (lazyComp cfg fuel ef env elem var vals)) ∧
    (∀ (es : List Expr), Grow No (lazyExprs cfg fuel ef env es)) := by
  apply Lazy.lazyExpr.mutual_induct (fuel := fuel) (env := env)
  all_goals (intros; first | rw [Lazy.lazyExpr.eq_def] | rw [Lazy.lazyComp.eq_def] | rw [Lazy.lazyExprs.eq_def])
  all_goals simp only
  case case8 ih1 ih2 =>
    exact Grow.bind ih1 fun _ => Grow.bind (grow_evalL _ _ _) fun _ => Grow.bind (Grow.ofExcept _) fun vals =>
      Grow.bind Grow.pushFrameL fun _ => Grow.bind (ih2 vals) fun _ => Grow.bind Grow.popFrameL fun _ => Grow.pure _
  case case9 ih1 ih2 =>
    exact Grow.bind ih1 fun _ => Grow.bind (grow_evalL _ _ _) fun _ => Grow.bind (Grow.ofExcept _) fun vals =>
      Grow.bind Grow.pushFrameL fun _ => Grow.bind (ih2 vals) fun _ => Grow.bind Grow.popFrameL fun _ => Grow.pure _
  case case11 q _ _ _ q' hl hq =>
    cases q with
    | zero => exact (hq rfl).elim
    | _ => simp only [hl]; grow1
  case case12 q _ _ _ hl hq =>
    cases q with
    | zero => exact (hq rfl).elim
    | _ => simp only [hl]; grow1
  case case16 h => simp only [h]; grow1
  case case17 h => simp only [h]; grow1
  all_goals grow1

theorem grow_lazyExpr (cfg : Cfg) (fuel ef : Nat) (env : Env) (e : Expr) : Grow No (lazyExpr cfg fuel ef env e) :=
  (grow_lazyExprs cfg fuel ef env).1 e

theorem grow_eagerExpr (cfg : Cfg) (fuel ef : Nat) (env : Env) (e : Expr) : Grow No (eagerExpr cfg fuel ef env e) := by
  unfold Lazy.eagerExpr
  exact Grow.bind (grow_lazyExpr ..) fun _ => grow_evalL ..

theorem grow_varAddL (cfg : Cfg) (fuel ef : Nat) (env : Env) (v : Var) (value : LVal) (m : Bool) :
    Grow No (varAddL cfg fuel ef env v value m) := by
  unfold Lazy.varAddL
  cases v with
  | unscoped name l => exact Grow.unscopedAddL ..
  | scopedV scope name l =>
    simp only
    cases m with
    | true => exact Grow.throwK _
    | false =>
      simp only [Bool.false_eq_true, if_false]
      exact Grow.bind (grow_lazyExpr ..) fun _ => Grow.bind (Grow.storeAdd ..) fun _ => Grow.cellAdd ..

theorem grow_varSetL (cfg : Cfg) (env : Env) (v : Var) (value : LVal) : Grow No (varSetL cfg env v value) := by
  unfold Lazy.varSetL
  cases v with
  | unscoped name l => exact Grow.unscopedSetL ..
  | scopedV scope name l => exact Grow.throwK _

theorem grow_testCondL (cfg : Cfg) (fuel ef : Nat) (env : Env) (c : Cond) : Grow No (testCondL cfg fuel ef env c) := by
  cases c <;> (unfold Lazy.testCondL; exact Grow.bind (grow_eagerExpr ..) fun _ => by grow1)

theorem grow_testCondsL (cfg : Cfg) (fuel ef : Nat) (env : Env) (cs : List Cond) : Grow No (testCondsL cfg fuel ef env cs) := by
  induction cs with
  | nil => exact Grow.pure _
  | cons c rest ih => exact Grow.bind (grow_testCondL ..) fun _ => Grow.bind ih fun _ => Grow.pure _

theorem grow_printArgsL (cfg : Cfg) (fuel ef : Nat) (env : Env) (es : List Expr) : Grow No (printArgsL cfg fuel ef env es) := by
  induction es with
  | nil => exact Grow.pure _
  | cons e rest ih =>
    cases e <;> first
      | exact Grow.bind ih fun _ => Grow.pure _
      | exact Grow.bind (grow_lazyExpr ..) fun _ => Grow.bind ih fun _ => Grow.pure _

theorem grow_lazyAttrs (cfg : Cfg) (ef : Nat) (env : Env) : ∀ (fuel : Nat) (attrs : List AttrE) (acc : List (String × LVal)),
    Grow No (lazyAttrs cfg fuel ef env attrs acc) := by
  apply Lazy.lazyAttrs.induct
  · intro fuel acc; rw [Lazy.lazyAttrs.eq_def]; exact Grow.pure _
  · intro fuel acc name e rest ih1 ih2
    rw [Lazy.lazyAttrs.eq_def]
    simp only
    refine Grow.bind (Grow.poll _) fun _ => Grow.bind (grow_lazyExpr ..) fun v => ?_
    cases hs : Strict.findShorthand cfg name with
    | none => exact ih2 v
    | some sh =>
      simp only
      cases fuel with
      | zero => exact Grow.failP _
      | succ fuel' =>
        have := ih1 sh
        simp only at this
        exact Grow.bind Grow.getR fun saved => Grow.bind (Grow.modifyR _ fun _ => rfl) fun _ => Grow.bind (Grow.unscopedAddL ..) fun _ =>
          Grow.bind this.1 fun acc' => Grow.bind (Grow.modifyR _ fun _ => rfl) fun _ => this.2 acc'

theorem grow_lazyScanCollect (o : Oracle) (subject : String) (i : Nat) : ∀ (arms : List (String × List Stmt × Loc)) (idx : Nat),
    Grow No (lazyScanCollect o subject i arms idx) := by
  intro arms
  induction arms with
  | nil => intro idx; exact Grow.pure _
  | cons a rest ih =>
    intro idx
    obtain ⟨re, b, l⟩ := a
    simp only [lazyScanCollect]
    refine Grow.bind (Grow.poll _) fun _ => ?_
    cases o.regexAt re subject i with
    | none => exact Grow.failP _
    | some r =>
      cases r with
      | none => exact ih _
      | some m =>
        simp only
        by_cases hm : m.stop ≤ m.start
        · simp only [hm, if_true]; exact Grow.throwK _
        · simp only [hm, if_false]; exact Grow.bind (ih _) fun _ => Grow.pure _

theorem Grow.addDebugNodeAttr (n : Nat) (a : String) (v : Val) : Grow S (Strict.addDebugNodeAttr n a v : Prog LSt Unit) :=
  Grow.addAttribute _ _ _

theorem grow_lazyStmts (cfg : Cfg) (fuel ef : Nat) : ∀ m : Nat,
    (∀ (env : Env) (st : Stmt), sizeOf st ≤ m → Grow No (lazyStmt cfg fuel ef env st)) ∧
    (∀ (env : Env) (kind : LBlockKind) (ss : List Stmt), sizeOf ss ≤ m → Grow No (lazyBlock cfg fuel ef env kind ss)) ∧
    (∀ (env : Env) (arms : List (List Cond × List Stmt × Loc)), sizeOf arms ≤ m → Grow No (lazyIfArms cfg fuel ef env arms)) ∧
    (∀ (env : Env) (var : String) (body : List Stmt) (vals : List Val), sizeOf body ≤ m → Grow No (lazyFor cfg fuel ef env var body vals)) ∧
    (∀ (env : Env) (arms : List (String × List Stmt × Loc)) (subject : String) (i : Nat), sizeOf arms ≤ m →
      Grow No (lazyScanLoop cfg fuel ef env arms subject i)) := by
  intro m
  induction m with
  | zero =>
    refine ⟨?_, ?_, ?_, ?_, ?_⟩
    · intro env st h; cases st <;> simp at h <;> omega
    · intro env kind ss h; cases ss <;> simp at h
    · intro env arms h; cases arms <;> simp at h
    · intro env var body vals h; cases body <;> simp at h
    · intro env arms subject i h; cases arms <;> simp at h
  | succ m ih =>
    obtain ⟨ihS, ihB, ihI, ihF, ihSc⟩ := ih
    have hS : ∀ (env : Env) (st : Stmt), sizeOf st ≤ m + 1 → Grow No (lazyStmt cfg fuel ef env st) := by
      intro env st h
      cases st with
      | declImm v e l =>
        simp only [lazyStmt]
        exact Grow.bind (Grow.poll _) fun _ => Grow.bind (grow_lazyExpr ..) fun _ => grow_varAddL ..
      | declMut v e l =>
        simp only [lazyStmt]
        exact Grow.bind (Grow.poll _) fun _ => Grow.bind (grow_lazyExpr ..) fun _ => grow_varAddL ..
      | assign v e l =>
        simp only [lazyStmt]
        exact Grow.bind (Grow.poll _) fun _ => Grow.bind (grow_lazyExpr ..) fun _ => grow_varSetL ..
      | createNode v l =>
        simp only [lazyStmt]
        refine Grow.bind (Grow.poll _) fun _ => Grow.bind (Grow.gop _) fun n => ?_
        have hvar := grow_varAddL cfg fuel ef env v (.value (.gnode n)) false
        have hdbg : ∀ a x, Grow No (Strict.addDebugNodeAttr n a x : Prog LSt Unit) := fun a x => Grow.addDebugNodeAttr n a x
        cases cfg.varAttr <;> cases cfg.locAttr <;> cases cfg.matchAttr <;> (try simp only []) <;>
          (try cases env.mat.nodes fullMatchName) <;> (try simp only []) <;>
          repeat' (first | exact hvar | exact hdbg _ _ | exact Grow.throwK _ | with_reducible apply Grow.bind | intro _)
      | attrNode ne attrs l =>
        simp only [lazyStmt]
        exact Grow.bind (Grow.poll _) fun _ => Grow.bind (grow_lazyExpr ..) fun _ => Grow.bind (grow_lazyAttrs ..) fun _ => Grow.pushStmt _
      | createEdge a b l =>
        simp only [lazyStmt]
        exact Grow.bind (Grow.poll _) fun _ => Grow.bind (grow_lazyExpr ..) fun _ => Grow.bind (grow_lazyExpr ..) fun _ => Grow.pushStmt _
      | attrEdge a b attrs l =>
        simp only [lazyStmt]
        exact Grow.bind (Grow.poll _) fun _ => Grow.bind (grow_lazyExpr ..) fun _ => Grow.bind (grow_lazyExpr ..) fun _ =>
          Grow.bind (grow_lazyAttrs ..) fun _ => Grow.pushStmt _
      | scan e arms l =>
        simp only [lazyStmt]
        exact Grow.bind (Grow.poll _) fun _ => Grow.bind (grow_eagerExpr ..) fun _ => Grow.bind (Grow.ofExcept _) fun _ =>
          ihSc env arms _ 0 (by simp at h; omega)
      | print es l =>
        simp only [lazyStmt]
        exact Grow.bind (Grow.poll _) fun _ => Grow.bind (grow_printArgsL ..) fun _ => Grow.pushStmt _
      | ifS arms l =>
        simp only [lazyStmt]
        exact Grow.bind (Grow.poll _) fun _ => ihI env arms (by simp at h; omega)
      | forIn var vl e body l =>
        simp only [lazyStmt]
        exact Grow.bind (Grow.poll _) fun _ => Grow.bind (grow_eagerExpr ..) fun _ => Grow.bind (Grow.ofExcept _) fun vals =>
          Grow.bind Grow.pushFrameL fun _ => Grow.bind (ihF env var body vals (by simp at h; omega)) fun _ => Grow.popFrameL
    have hB : ∀ (env : Env) (kind : LBlockKind) (ss : List Stmt), sizeOf ss ≤ m + 1 → Grow No (lazyBlock cfg fuel ef env kind ss) := by
      intro env kind ss h
      cases ss with
      | nil => rw [lazyBlock]; exact Grow.pure _
      | cons st rest =>
        have hst : sizeOf st ≤ m := by simp at h; omega
        have hrest : sizeOf rest ≤ m := by simp at h; omega
        rw [Lazy.lazyBlock.eq_def]
        simp only
        cases kind with
        | top => exact Grow.bind (Grow.ctx _ (ihS _ st hst)) fun _ => ihB _ _ rest hrest
        | scanArm what => exact Grow.bind (Grow.ctx _ (Grow.ctx _ (ihS _ st hst))) fun _ => ihB _ _ rest hrest
        | bare => exact Grow.bind (ihS _ st hst) fun _ => ihB _ _ rest hrest
    have hI : ∀ (env : Env) (arms : List (List Cond × List Stmt × Loc)), sizeOf arms ≤ m + 1 → Grow No (lazyIfArms cfg fuel ef env arms) := by
      intro env arms h
      cases arms with
      | nil => rw [lazyIfArms]; exact Grow.pure _
      | cons a rest =>
        obtain ⟨conds, body, l⟩ := a
        have hbody : sizeOf body ≤ m := by simp at h; omega
        have hrest : sizeOf rest ≤ m := by simp at h; omega
        rw [lazyIfArms]
        refine Grow.bind (grow_testCondsL ..) fun ok => ?_
        cases ok with
        | true =>
          simp only [if_true]
          exact Grow.bind Grow.pushFrameL fun _ => Grow.bind (ihB env .bare body hbody) fun _ => Grow.popFrameL
        | false =>
          simp only [Bool.false_eq_true, if_false]
          exact ihI env rest hrest
    have hF : ∀ (env : Env) (var : String) (body : List Stmt) (vals : List Val), sizeOf body ≤ m + 1 →
        Grow No (lazyFor cfg fuel ef env var body vals) := by
      intro env var body vals h
      induction vals with
      | nil => rw [lazyFor]; exact Grow.pure _
      | cons v rest ihv =>
        rw [lazyFor]
        exact Grow.bind Grow.clearFrameL fun _ => Grow.bind (Grow.unscopedAddL ..) fun _ => Grow.bind (hB env .bare body h) fun _ => ihv
    have hSc : ∀ (env : Env) (arms : List (String × List Stmt × Loc)) (subject : String) (i : Nat), sizeOf arms ≤ m + 1 →
        Grow No (lazyScanLoop cfg fuel ef env arms subject i) := by
      intro env arms subject i h
      have key : ∀ (k : Nat) (i : Nat), subject.utf8ByteSize - i ≤ k → Grow No (lazyScanLoop cfg fuel ef env arms subject i) := by
        intro k
        induction k with
        | zero =>
          intro i hk
          have hi : ¬ i < subject.utf8ByteSize := by omega
          rw [lazyScanLoop]
          simp only [hi, dite_false]
          exact Grow.pure _
        | succ k ihk =>
          intro i hk
          by_cases hi : i < subject.utf8ByteSize
          · rw [lazyScanLoop]
            simp only [hi, dite_true]
            refine Grow.bind (grow_lazyScanCollect ..) fun ms => ?_
            cases hb : Strict.scanBest ms with
            | none => exact Grow.pure _
            | some p =>
              obtain ⟨mt, kk⟩ := p
              simp only
              by_cases hk2 : (arms[kk]?).isSome = true
              · simp only [hk2, dite_true]
                by_cases hm : 0 < mt.stop
                · simp only [hm, dite_true]
                  have hsz : sizeOf (Strict.armBody arms kk) ≤ m := by
                    have := Strict.armBody_lt arms kk hk2; omega
                  exact Grow.bind Grow.pushFrameL fun _ =>
                    Grow.bind (ihB { env with caps := Strict.capsOf mt } (.scanArm (Strict.armRegex arms kk)) (Strict.armBody arms kk) hsz) fun _ =>
                      Grow.bind Grow.popFrameL fun _ => ihk (i + mt.stop) (by omega)
                · simp only [hm, dite_false]
                  exact Grow.throwK _
              · simp only [hk2, dite_false]
                exact Grow.panicAt _
          · rw [lazyScanLoop]
            simp only [hi, dite_false]
            exact Grow.pure _
      exact key _ i (Nat.le_refl _)
    exact ⟨hS, hB, hI, hF, hSc⟩

theorem grow_lazyBlock (cfg : Cfg) (fuel ef : Nat) (env : Env) (kind : LBlockKind) (ss : List Stmt) :
    Grow No (lazyBlock cfg fuel ef env kind ss) := (grow_lazyStmts cfg fuel ef (sizeOf ss)).2.1 env kind ss (Nat.le_refl _)

theorem grow_execMatchL (cfg : Cfg) (fuel ef : Nat) (st : Stanza) (m : QMatch) : Grow No (execMatchL cfg fuel ef st m) := by
  unfold Lazy.execMatchL
  refine Grow.bind (Grow.frames _) fun _ => ?_
  cases m.nodes fullMatchName with
  | nil => exact Grow.throwK _
  | cons node rest =>
    simp only
    cases cfg.tree.node? node with
    | none => exact Grow.panicAt _
    | some tn => exact grow_lazyBlock ..

theorem grow_execMergedL (cfg : Cfg) (fuel ef : Nat) (stanzas : List Stanza) (ms : List QMatch) :
    Grow No (execMergedL cfg fuel ef stanzas ms) := by
  induction ms with
  | nil => exact Grow.pure _
  | cons m rest ih =>
    simp only [execMergedL]
    refine Grow.bind ?_ fun _ => ih
    unfold Lazy.lazyBlockOf
    cases stanzas[m.patternIx]? with
    | none => exact Grow.panicAt _
    | some st => exact Grow.bind (Grow.poll _) fun _ => grow_execMatchL ..

/-! ### the evaluate phase -/

theorem grow_evalNodeAttrs (cfg : Cfg) (ef node : Nat) (dbg : StmtCtx) (attrs : List (String × LVal)) :
    Grow No (evalNodeAttrs cfg ef node dbg attrs) := by
  induction attrs with
  | nil => exact Grow.pure _
  | cons a rest ih =>
    obtain ⟨name, lv⟩ := a
    simp only [evalNodeAttrs]
    refine Grow.bind (grow_evalL ..) fun v => Grow.bind (Grow.recordPrev ..) fun prev => Grow.bind (Grow.gop _) fun r => ?_
    cases r with
    | none => exact Grow.panicAt _
    | some u => exact ih

theorem grow_evalEdgeAttrs (cfg : Cfg) (ef src sink : Nat) (dbg : StmtCtx) (attrs : List (String × LVal)) :
    Grow No (evalEdgeAttrs cfg ef src sink dbg attrs) := by
  induction attrs with
  | nil => exact Grow.pure _
  | cons a rest ih =>
    obtain ⟨name, lv⟩ := a
    simp only [evalEdgeAttrs]
    refine Grow.bind (grow_evalL ..) fun v => Grow.bind (Grow.gop _) fun g => ?_
    cases g.getEdge src sink with
    | none =>
      simp only
      cases (g.node? src).isNone <;> simp only [Bool.false_eq_true, if_false, if_true] <;> first | exact Grow.panicAt _ | exact Grow.throwK _
    | some ea =>
      simp only
      refine Grow.bind (Grow.recordPrev ..) fun prev => Grow.bind (Grow.gop _) fun r => ?_
      cases r with
      | none => exact Grow.panicAt _
      | some r' =>
        cases r' with
        | none => exact Grow.panicAt _
        | some u => exact ih

theorem grow_evalPrintL (cfg : Cfg) (ef : Nat) (args : List (Option LVal)) : Grow No (evalPrintL cfg ef args) := by
  induction args with
  | nil => exact Grow.pure _
  | cons a rest ih =>
    cases a with
    | none => simp only [evalPrintL]; exact ih
    | some lv => simp only [evalPrintL]; exact Grow.bind (grow_evalL ..) fun _ => ih

theorem grow_target (cfg : Cfg) (ef : Nat) (c : Ctx) (lv : LVal) : Grow No (withContext c (evalL cfg ef lv >>= asGraphNodeL)) :=
  Grow.ctx c (Grow.bind (grow_evalL ..) fun _ => Grow.asGraphNodeL _)

theorem grow_evalLStmt (cfg : Cfg) (ef : Nat) (st : LStmt) : Grow No (evalLStmt cfg ef st) := by
  unfold Lazy.evalLStmt
  refine Grow.bind (Grow.poll _) fun _ => ?_
  cases st with
  | attrNode node attrs dbg => exact Grow.ctx _ (Grow.bind (grow_target ..) fun _ => grow_evalNodeAttrs ..)
  | createEdge src sink attrs dbg =>
    refine Grow.ctx _ (Grow.bind (grow_target ..) fun _ => Grow.bind (grow_target ..) fun _ => Grow.bind (Grow.gop _) fun r => ?_)
    cases r <;> first | exact Grow.panicAt _ | exact Grow.pure _
  | attrEdge src sink attrs dbg =>
    exact Grow.ctx _ (Grow.bind (grow_target ..) fun _ => Grow.bind (grow_target ..) fun _ => grow_evalEdgeAttrs ..)
  | print args dbg => exact Grow.ctx _ (grow_evalPrintL ..)

theorem grow_evalQueue (cfg : Cfg) (ef : Nat) (sts : List LStmt) : Grow No (evalQueue cfg ef sts) := by
  induction sts with
  | nil => exact Grow.pure _
  | cons st rest ih => simp only [evalQueue]; exact Grow.bind (grow_evalLStmt ..) fun _ => ih

theorem grow_forceAllThunks (cfg : Cfg) (ef : Nat) : ∀ (k i : Nat), Grow No (forceAllThunks cfg ef k i) := by
  intro k
  induction k with
  | zero => intro i; exact Grow.pure _
  | succ k ih => intro i; simp only [forceAllThunks]; exact Grow.bind (grow_forceThunk ..) fun _ => ih _

/-- forcing a cell and storing the result: the mark set by `forceCell` is overwritten -/
theorem Grow.bracket (name : String) {t : Prog LSt α} {g : α → ScopedCell} (hg : ∀ a, g a ≠ .forcing) {k : α → Prog LSt β}
    (ht : Grow (fun n => n = name) t) (hk : ∀ a, Grow No (k a)) :
    Grow No (t >>= fun a => (Prog.modifyR fun s => Lazy.setCell s name (g a)) >>= fun _ => k a) := by
  constructor
  intro s b s' hr n hn
  rw [Prog.run_bind] at hr
  cases hfc : Prog.run t s with
  | fail e s1 => rw [hfc] at hr; cases hr
  | ok a s1 =>
    rw [hfc] at hr
    simp only at hr
    rw [Prog.run_bind] at hr
    have hset : Prog.run (Prog.modifyR fun s => Lazy.setCell s name (g a)) s1 = .ok () { s1 with rest := Lazy.setCell s1.rest name (g a) } := rfl
    rw [hset] at hr
    simp only at hr
    rcases (hk a).h _ b s' hr n hn with h2 | h2
    · unfold Forcing at h2
      rw [lookup_setCell] at h2
      by_cases hnn : n = name
      · simp only [hnn, if_true, Option.some.injEq] at h2; exact absurd h2 (hg a)
      · simp only [hnn, if_false] at h2
        rcases ht.h s a s1 hfc n h2 with h4 | h4
        · exact Or.inl h4
        · exact absurd h4 hnn
    · exact h2.elim

theorem grow_forceAllCells (cfg : Cfg) (ef : Nat) (names : List String) : Grow No (forceAllCells cfg ef names) := by
  induction names with
  | nil => exact Grow.pure _
  | cons name rest ih =>
    simp only [forceAllCells]
    refine Grow.bind Grow.getR fun r => ?_
    cases r.cells.lookup name with
    | none => exact ih
    | some cell =>
      simp only
      exact Grow.bracket name (g := fun map => .forced map) (fun _ h => by cases h) (grow_forceCell ..) fun _ => ih

/-! ### no cell is being forced between top-level steps -/

/-- no scoped-variable cell is in state `Forcing` -/
def NF (s : MSt LSt) : Prop := ∀ n, ¬ Forcing s.rest n

theorem Grow.keepsNF {t : Prog LSt α} (h : Grow No t) {s s' : MSt LSt} {a : α} (hr : Prog.run t s = .ok a s') (hs : NF s) : NF s' :=
  fun n hn => (h.h s a s' hr n hn).elim (hs n) id

end LazyForcing
