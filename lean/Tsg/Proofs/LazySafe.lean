/-
  The lazy interpreter never reaches a panic site — framework. Invariant: every graph-node value and every thunk
  location held anywhere in the lazy state (variables, thunks, scoped-variable cells, statement queues) is in range.
-/
import Tsg.Proofs.StrictSafeInterp
import Tsg.Sem.Lazy

namespace LazySafe
open Prog Lazy
open StrictSafe (wf wfs wf_mono wfs_mono wfs_iff NoPanic GlobalsWf TreeOK)

/-! ### well-formed lazy values -/

mutual
def lwf (n t : Nat) : LVal → Prop
  | .value v => wf n v
  | .list es => lwfs n t es
  | .set es => lwfs n t es
  | .var loc => loc < t
  | .scopedVar scope _ => lwf n t scope
  | .call _ args => lwfs n t args
def lwfs (n t : Nat) : List LVal → Prop
  | [] => True
  | e :: r => lwf n t e ∧ lwfs n t r
end

theorem lwfs_iff (n t : Nat) (vs : List LVal) : lwfs n t vs ↔ ∀ v ∈ vs, lwf n t v := by
  induction vs with
  | nil => simp [lwfs]
  | cons v r ih => simp [lwfs, ih]

mutual
theorem lwf_mono {n m t u : Nat} (h1 : n ≤ m) (h2 : t ≤ u) : ∀ v, lwf n t v → lwf m u v
  | .value v, hv => by simp only [lwf] at hv ⊢; exact wf_mono h1 v hv
  | .list es, hv => by simp only [lwf] at hv ⊢; exact lwfs_mono h1 h2 es hv
  | .set es, hv => by simp only [lwf] at hv ⊢; exact lwfs_mono h1 h2 es hv
  | .var loc, hv => by simp only [lwf] at hv ⊢; omega
  | .scopedVar scope _, hv => by simp only [lwf] at hv ⊢; exact lwf_mono h1 h2 scope hv
  | .call _ args, hv => by simp only [lwf] at hv ⊢; exact lwfs_mono h1 h2 args hv
theorem lwfs_mono {n m t u : Nat} (h1 : n ≤ m) (h2 : t ≤ u) : ∀ vs, lwfs n t vs → lwfs m u vs
  | [], _ => by simp [lwfs]
  | v :: r, hv => by simp only [lwfs] at hv ⊢; exact ⟨lwf_mono h1 h2 v hv.1, lwfs_mono h1 h2 r hv.2⟩
end

theorem lwfs_append (n t : Nat) (a b : List LVal) : lwfs n t (a ++ b) ↔ lwfs n t a ∧ lwfs n t b := by
  simp only [lwfs_iff, List.mem_append]
  constructor
  · intro h; exact ⟨fun v hv => h v (Or.inl hv), fun v hv => h v (Or.inr hv)⟩
  · intro h v hv; rcases hv with hv | hv; exact h.1 v hv; exact h.2 v hv

/-! ### the values held by the lazy state -/

def thunkVals (t : LThunk) : List LVal :=
  match t.state with
  | .unforced lv => [lv]
  | .forcing => []
  | .forced v => [.value v]

def cellVals : ScopedCell → List LVal
  | .unforced pairs => pairs.flatMap fun p => [p.1, p.2.1]
  | .forcing => []
  | .forced map => map.map (·.2)

def lstmtVals : LStmt → List LVal
  | .attrNode node attrs _ => node :: attrs.map (·.2)
  | .createEdge src sink attrs _ => src :: sink :: attrs.map fun a => .value a.2
  | .attrEdge src sink attrs _ => src :: sink :: attrs.map (·.2)
  | .print args _ => args.filterMap id

def stVals (r : LSt) : List LVal :=
  (r.locals.flatMap fun f => f.map fun e => e.2.1) ++ r.thunks.flatMap thunkVals ++
  (r.cells.flatMap fun c => cellVals c.2) ++ r.edgeQ.flatMap lstmtVals ++ r.attrQ.flatMap lstmtVals ++ r.printQ.flatMap lstmtVals

/-- every value held in the state is well-formed w.r.t. the graph size `n` and the number of thunks -/
def RestWf (n : Nat) (r : LSt) : Prop := lwfs n r.thunks.length (stVals r)

def Inv (cfg : Cfg) (s : MSt LSt) : Prop := RestWf s.graph.nodes.length s.rest ∧ GlobalsWf s.graph.nodes.length cfg.globals

/-- what a result contributes to the values that must stay well-formed -/
class HasVals (α : Type) where
  vals : α → List LVal

instance : HasVals Unit := ⟨fun _ => []⟩
instance : HasVals Bool := ⟨fun _ => []⟩
instance : HasVals String := ⟨fun _ => []⟩
instance : HasVals Nat := ⟨fun _ => []⟩
instance : HasVals Val := ⟨fun v => [.value v]⟩
instance : HasVals LVal := ⟨fun v => [v]⟩
instance : HasVals (List Val) := ⟨fun vs => vs.map .value⟩
instance : HasVals (List LVal) := ⟨fun vs => vs⟩
instance : HasVals LSt := ⟨stVals⟩

/-- a good result: the invariant again, graph and thunk store not smaller, the result's values well-formed; or a
failure that is not a panic -/
def Good (cfg : Cfg) {α : Type} [HasVals α] (n0 t0 : Nat) : Res (MSt LSt) α → Prop
  | .ok a s' => Inv cfg s' ∧ n0 ≤ s'.graph.nodes.length ∧ t0 ≤ s'.rest.thunks.length ∧
      lwfs s'.graph.nodes.length s'.rest.thunks.length (HasVals.vals a)
  | .fail f _ => NoPanic f

def Safe (cfg : Cfg) {α : Type} [HasVals α] (vs : List LVal) (t : Prog LSt α) : Prop :=
  ∀ s, Inv cfg s → lwfs s.graph.nodes.length s.rest.thunks.length vs →
    Good cfg s.graph.nodes.length s.rest.thunks.length (Prog.run t s)

variable {cfg : Cfg} {α β : Type} [HasVals α] [HasVals β]

theorem Safe.pure (vs : List LVal) (a : α) (h : ∀ n t, lwfs n t vs → lwfs n t (HasVals.vals a)) :
    Safe cfg vs (Pure.pure a : Prog LSt α) := by
  intro s hinv hvs
  exact ⟨hinv, Nat.le_refl _, Nat.le_refl _, h _ _ hvs⟩

theorem Safe.fail (vs : List LVal) (f : Fail) (h : NoPanic f) : Safe cfg vs (Prog.fail f : Prog LSt α) := by
  intro s _ _; exact h

theorem Safe.throwK (vs : List LVal) (k : EK) : Safe cfg vs (Prog.throwK k : Prog LSt α) := by
  intro s _ _ site h; cases h

theorem Safe.failP (vs : List LVal) (f : Fail) (h : NoPanic f) : Safe cfg vs (Prog.failP f : Prog LSt α) := by
  intro s _ _; exact h

theorem Safe.weaken {vs vs' : List LVal} {t : Prog LSt α} (h : Safe cfg vs t) (hsub : ∀ n u, lwfs n u vs' → lwfs n u vs) :
    Safe cfg vs' t := by
  intro s hinv hvs; exact h s hinv (hsub _ _ hvs)

theorem Safe.bind {vs : List LVal} {t : Prog LSt α} {f : α → Prog LSt β}
    (h1 : Safe cfg vs t) (h2 : ∀ a, Safe cfg (HasVals.vals a ++ vs) (f a)) : Safe cfg vs (t >>= f) := by
  intro s hinv hvs
  rw [Prog.run_bind]
  have := h1 s hinv hvs
  cases hr : Prog.run t s with
  | ok a s1 =>
    rw [hr] at this
    obtain ⟨hinv1, hle1, hlt1, hva⟩ := this
    simp only
    have h2' := h2 a s1 hinv1 ((lwfs_append _ _ _ _).mpr ⟨hva, lwfs_mono hle1 hlt1 vs hvs⟩)
    cases hr2 : Prog.run (f a) s1 with
    | ok b s2 =>
      rw [hr2] at h2'
      obtain ⟨hinv2, hle2, hlt2, hvb⟩ := h2'
      exact ⟨hinv2, Nat.le_trans hle1 hle2, Nat.le_trans hlt1 hlt2, hvb⟩
    | fail e s2 => rw [hr2] at h2'; exact h2'
  | fail e s1 => rw [hr] at this; exact this

/-- sequencing where the continuation may use a fact about the value produced -/
theorem Safe.bindQ {vs : List LVal} {t : Prog LSt α} {f : α → Prog LSt β} {Q : α → Prop}
    (h1 : Safe cfg vs t) (hQ : ∀ s a s', Prog.run t s = .ok a s' → Q a)
    (h2 : ∀ a, Q a → Safe cfg (HasVals.vals a ++ vs) (f a)) : Safe cfg vs (t >>= f) := by
  intro s hinv hvs
  rw [Prog.run_bind]
  have := h1 s hinv hvs
  cases hr : Prog.run t s with
  | ok a s1 =>
    rw [hr] at this
    obtain ⟨hinv1, hle1, hlt1, hva⟩ := this
    simp only
    have h2' := h2 a (hQ s a s1 hr) s1 hinv1 ((lwfs_append _ _ _ _).mpr ⟨hva, lwfs_mono hle1 hlt1 vs hvs⟩)
    cases hr2 : Prog.run (f a) s1 with
    | ok b s2 =>
      rw [hr2] at h2'
      obtain ⟨hinv2, hle2, hlt2, hvb⟩ := h2'
      exact ⟨hinv2, Nat.le_trans hle1 hle2, Nat.le_trans hlt1 hlt2, hvb⟩
    | fail e s2 => rw [hr2] at h2'; exact h2'
  | fail e s1 => rw [hr] at this; exact this

theorem Safe.pure_bind {γ : Type} (vs : List LVal) (a : γ) (f : γ → Prog LSt β) (h : Safe cfg vs (f a)) :
    Safe cfg vs (Pure.pure a >>= f) := h

theorem Safe.poll (vs : List LVal) (l : String) : Safe cfg vs (pollP l : Prog LSt Unit) := by
  intro s hinv _
  have hinv' : Inv cfg { s with ps := { s.ps with polls := s.ps.polls + 1 } } := hinv
  simp only [pollP, Prog.run]
  cases s.ps.cancelAt with
  | none => exact ⟨hinv', Nat.le_refl _, Nat.le_refl _, by simp [HasVals.vals, lwfs]⟩
  | some c =>
    simp only
    split
    · intro site h; cases h
    · exact ⟨hinv', Nat.le_refl _, Nat.le_refl _, by simp [HasVals.vals, lwfs]⟩

theorem Safe.ctx {vs : List LVal} {m : Prog LSt α} (c : Ctx) (h : Safe cfg vs m) : Safe cfg vs (withContext c m) := by
  intro s hinv hvs
  simp only [withContext, Prog.run]
  have := h s hinv hvs
  cases hr : Prog.run m s with
  | ok a s1 => rw [hr] at this; exact this
  | fail f s1 =>
    rw [hr] at this
    show NoPanic (f.withContext c)
    intro site hc
    cases f with
    | panic st => exact this st rfl
    | err e => simp [Fail.withContext] at hc
    | need q => simp [Fail.withContext] at hc
    | outOfFuel => simp [Fail.withContext] at hc

theorem Safe.ofExcept (vs : List LVal) (x : Except EK α) (h : ∀ a, x = .ok a → ∀ n t, lwfs n t vs → lwfs n t (HasVals.vals a)) :
    Safe cfg vs (Prog.ofExcept x : Prog LSt α) := by
  cases x with
  | ok a => exact Safe.pure vs a (h a rfl)
  | error e => intro s _ _ site hc; cases hc

/-- a step on the private state: the new state's values and the result's are well-formed, the thunk store does not shrink -/
theorem Safe.prim (vs : List LVal) (f : LSt → Except Fail β × LSt)
    (h : ∀ n r, RestWf n r → GlobalsWf n cfg.globals → lwfs n r.thunks.length vs →
      match f r with
      | (.ok b, r') => RestWf n r' ∧ r.thunks.length ≤ r'.thunks.length ∧ lwfs n r'.thunks.length (HasVals.vals b)
      | (.error e, _) => NoPanic e) : Safe cfg vs (primP f) := by
  intro s hinv hvs
  obtain ⟨h1, h3⟩ := hinv
  have := h _ s.rest h1 h3 hvs
  simp only [primP, Prog.run]
  cases hf : f s.rest with
  | mk x r' =>
    rw [hf] at this
    cases x with
    | ok b => exact ⟨⟨this.1, h3⟩, Nat.le_refl _, this.2.1, this.2.2⟩
    | error e => exact this

theorem Safe.getR (vs : List LVal) : Safe cfg vs (Prog.getR : Prog LSt LSt) := by
  apply Safe.prim
  intro n r hr _ _
  exact ⟨hr, Nat.le_refl _, hr⟩


/-! ### the invariant, by component -/

structure Parts (n t : Nat) (r : LSt) : Prop where
  locals : ∀ f ∈ r.locals, ∀ e ∈ f, lwf n t e.2.1
  thunks : ∀ th ∈ r.thunks, ∀ v ∈ thunkVals th, lwf n t v
  cells : ∀ c ∈ r.cells, ∀ v ∈ cellVals c.2, lwf n t v
  edgeQ : ∀ st ∈ r.edgeQ, ∀ v ∈ lstmtVals st, lwf n t v
  attrQ : ∀ st ∈ r.attrQ, ∀ v ∈ lstmtVals st, lwf n t v
  printQ : ∀ st ∈ r.printQ, ∀ v ∈ lstmtVals st, lwf n t v

theorem parts_iff (n t : Nat) (r : LSt) : lwfs n t (stVals r) ↔ Parts n t r := by
  simp only [stVals, lwfs_append]
  simp only [lwfs_iff, List.mem_flatMap, List.mem_map]
  constructor
  · rintro ⟨⟨⟨⟨⟨h1, h2⟩, h3⟩, h4⟩, h5⟩, h6⟩
    exact ⟨fun f hf e he => h1 _ ⟨f, hf, e, he, rfl⟩, fun th hth v hv => h2 v ⟨th, hth, hv⟩, fun c hc v hv => h3 v ⟨c, hc, hv⟩,
      fun st hst v hv => h4 v ⟨st, hst, hv⟩, fun st hst v hv => h5 v ⟨st, hst, hv⟩, fun st hst v hv => h6 v ⟨st, hst, hv⟩⟩
  · intro h
    refine ⟨⟨⟨⟨⟨?_, ?_⟩, ?_⟩, ?_⟩, ?_⟩, ?_⟩
    · rintro v ⟨f, hf, e, he, rfl⟩; exact h.locals f hf e he
    · rintro v ⟨th, hth, hv⟩; exact h.thunks th hth v hv
    · rintro v ⟨c, hc, hv⟩; exact h.cells c hc v hv
    · rintro v ⟨st, hst, hv⟩; exact h.edgeQ st hst v hv
    · rintro v ⟨st, hst, hv⟩; exact h.attrQ st hst v hv
    · rintro v ⟨st, hst, hv⟩; exact h.printQ st hst v hv

theorem RestWf.parts {n : Nat} {r : LSt} (h : RestWf n r) : Parts n r.thunks.length r := (parts_iff _ _ _).mp h
theorem Parts.restWf {n : Nat} {r : LSt} (h : Parts n r.thunks.length r) : RestWf n r := (parts_iff _ _ _).mpr h

theorem Parts.mono {n m t u : Nat} {r : LSt} (h : Parts n t r) (h1 : n ≤ m) (h2 : t ≤ u) : Parts m u r :=
  ⟨fun f hf e he => lwf_mono h1 h2 _ (h.locals f hf e he), fun th hth v hv => lwf_mono h1 h2 _ (h.thunks th hth v hv),
   fun c hc v hv => lwf_mono h1 h2 _ (h.cells c hc v hv), fun st hst v hv => lwf_mono h1 h2 _ (h.edgeQ st hst v hv),
   fun st hst v hv => lwf_mono h1 h2 _ (h.attrQ st hst v hv), fun st hst v hv => lwf_mono h1 h2 _ (h.printQ st hst v hv)⟩

theorem Inv.mono {s : MSt LSt} (h : Inv cfg s) (g' : CGraph) (hle : s.graph.nodes.length ≤ g'.nodes.length) :
    Inv cfg { s with graph := g' } :=
  ⟨(h.1.parts.mono hle (Nat.le_refl _)).restWf, fun l hl e he => wf_mono hle _ (h.2 l hl e he)⟩

/-- changing only the variable maps -/
theorem Safe.modifyFrames (vs : List LVal) (f : Frames LVal → Frames LVal)
    (h : ∀ n t fs, (∀ fr ∈ fs, ∀ e ∈ fr, lwf n t e.2.1) → lwfs n t vs → ∀ fr ∈ f fs, ∀ e ∈ fr, lwf n t e.2.1) :
    Safe cfg vs (Prog.modifyR fun s => { s with locals := f s.locals }) := by
  apply Safe.prim
  intro n r hr _ hvs
  have hp := hr.parts
  refine ⟨Parts.restWf ⟨h n _ r.locals hp.locals hvs, hp.thunks, hp.cells, hp.edgeQ, hp.attrQ, hp.printQ⟩, Nat.le_refl _, by simp [HasVals.vals, lwfs]⟩

theorem Safe.pushFrameL (vs : List LVal) : Safe cfg vs pushFrameL :=
  Safe.modifyFrames vs _ fun n t fs h _ f hf => by
    simp only [Frames.push, List.mem_cons] at hf
    rcases hf with rfl | hf
    · intro e he; cases he
    · exact h f hf

theorem Safe.popFrameL (vs : List LVal) : Safe cfg vs popFrameL :=
  Safe.modifyFrames vs _ fun n t fs h _ f hf => by
    cases fs with
    | nil => simp [Frames.pop] at hf
    | cons f0 rest => simp only [Frames.pop] at hf; exact h f (by simp [hf])

theorem Safe.clearFrameL (vs : List LVal) : Safe cfg vs clearFrameL :=
  Safe.modifyFrames vs _ fun n t fs h _ f hf => by
    cases fs with
    | nil => simp [Frames.clear] at hf
    | cons f0 rest =>
      simp only [Frames.clear, List.mem_cons] at hf
      rcases hf with rfl | hf
      · intro e he; cases he
      · exact h f (by simp [hf])

/-- `LazyStore::add`: the new location is in range afterwards -/
theorem Safe.storeAdd (vs : List LVal) (v : LVal) (dbg : StmtCtx) (hv : ∀ n t, lwfs n t vs → lwf n t v) :
    Safe cfg vs (storeAdd v dbg) := by
  apply Safe.prim
  intro n r hr _ hvs
  have hp := hr.parts
  have hp' := hp.mono (Nat.le_refl n) (Nat.le_succ r.thunks.length)
  show RestWf n { r with thunks := r.thunks ++ [({ state := .unforced v, dbg := dbg } : LThunk)] } ∧
    r.thunks.length ≤ (r.thunks ++ [({ state := .unforced v, dbg := dbg } : LThunk)]).length ∧
    lwfs n (r.thunks ++ [({ state := .unforced v, dbg := dbg } : LThunk)]).length (HasVals.vals (LVal.var r.thunks.length))
  have hlen : (r.thunks ++ [({ state := .unforced v, dbg := dbg } : LThunk)]).length = r.thunks.length + 1 := by simp
  refine ⟨?_, by rw [hlen]; omega, ?_⟩
  · apply Parts.restWf
    show Parts n (r.thunks ++ [({ state := .unforced v, dbg := dbg } : LThunk)]).length _
    rw [hlen]
    refine ⟨hp'.locals, ?_, hp'.cells, hp'.edgeQ, hp'.attrQ, hp'.printQ⟩
    intro th hth x hx
    simp only [List.mem_append, List.mem_singleton] at hth
    rcases hth with hth | rfl
    · exact hp'.thunks th hth x hx
    · simp only [thunkVals, List.mem_singleton] at hx
      subst hx
      exact lwf_mono (Nat.le_refl _) (Nat.le_succ _) _ (hv n _ hvs)
  · rw [hlen]; simp only [HasVals.vals, lwfs, lwf, and_true]; omega


theorem lframes_get_wf {n t : Nat} {fs : Frames LVal} (h : ∀ f ∈ fs, ∀ e ∈ f, lwf n t e.2.1) {k : String} {v : LVal}
    (hg : fs.get k = some v) : lwf n t v := by
  induction fs with
  | nil => simp [Frames.get] at hg
  | cons f rest ih =>
    simp only [Frames.get] at hg
    cases hl : f.lookup k with
    | none => rw [hl] at hg; exact ih (fun f' hf' => h f' (by simp [hf'])) hg
    | some p =>
      rw [hl] at hg
      obtain ⟨v', m⟩ := p
      simp at hg; subst hg
      exact h f (by simp) _ (StrictSafe.lookup_mem hl)

theorem Safe.unscopedGetL (vs : List LVal) (name : String) : Safe cfg vs (unscopedGetL cfg name) := by
  apply Safe.prim
  intro n r hr hg _
  cases hgl : cfg.globals.get name with
  | some v =>
    simp only [hgl]
    exact ⟨hr, Nat.le_refl _, by simp [HasVals.vals, lwfs, lwf, StrictSafe.globals_get_wf hg hgl]⟩
  | none =>
    simp only [hgl]
    cases hl : r.locals.get name with
    | some v => simp only [hl]; exact ⟨hr, Nat.le_refl _, by simp [HasVals.vals, lwfs, lframes_get_wf hr.parts.locals hl]⟩
    | none => simp only [hl]; intro site h; cases h

theorem lframes_add_wf {n t : Nat} {fs fs' : Frames LVal} {k : String} {v : LVal} {m : Bool}
    (h : ∀ f ∈ fs, ∀ e ∈ f, lwf n t e.2.1) (hv : lwf n t v) (ha : Frames.add fs k v m = .ok fs') : ∀ f ∈ fs', ∀ e ∈ f, lwf n t e.2.1 := by
  cases fs with
  | nil => simp [Frames.add] at ha
  | cons f rest =>
    simp only [Frames.add] at ha
    cases hl : f.lookup k with
    | some p => rw [hl] at ha; simp at ha
    | none =>
      rw [hl] at ha
      simp at ha; subst ha
      intro f' hf'
      simp only [List.mem_cons] at hf'
      rcases hf' with rfl | hf'
      · intro e he
        simp only [List.mem_append, List.mem_singleton] at he
        rcases he with he | rfl
        · exact h f (by simp) e he
        · exact hv
      · exact h f' (by simp [hf'])

theorem lframeSet_wf {n t : Nat} {f : Frame LVal} {k : String} {v : LVal} (h : ∀ e ∈ f, lwf n t e.2.1) (hv : lwf n t v) :
    ∀ e ∈ Frames.frameSet f k v, lwf n t e.2.1 := by
  intro e he
  simp only [Frames.frameSet, List.mem_map] at he
  obtain ⟨e0, he0, rfl⟩ := he
  by_cases hk : e0.1 = k
  · simp [hk, hv]
  · simp only [hk, if_false]; exact h e0 he0

theorem lframes_set_wf {n t : Nat} : ∀ {fs fs' : Frames LVal} {k : String} {v : LVal},
    (∀ f ∈ fs, ∀ e ∈ f, lwf n t e.2.1) → lwf n t v → Frames.set fs k v = .ok fs' → ∀ f ∈ fs', ∀ e ∈ f, lwf n t e.2.1
  | [], _, _, _, _, _, hs => by simp [Frames.set] at hs
  | f :: rest, fs', k, v, h, hv, hs => by
    simp only [Frames.set] at hs
    split at hs
    · simp at hs; subst hs
      intro f' hf'
      simp only [List.mem_cons] at hf'
      rcases hf' with rfl | hf'
      · exact lframeSet_wf (h f (by simp)) hv
      · exact h f' (by simp [hf'])
    · simp at hs
    · split at hs
      · rename_i rest' hrest
        simp at hs; subst hs
        have := lframes_set_wf (n := n) (t := t) (fun f' hf' => h f' (by simp [hf'])) hv hrest
        intro f' hf'
        simp only [List.mem_cons] at hf'
        rcases hf' with rfl | hf'
        · exact h _ (by simp)
        · exact this f' hf'
      · simp at hs

theorem Safe.localsAddL (vs : List LVal) (name : String) (var : LVal) (mutable : Bool) (hv : ∀ n t, lwfs n t vs → lwf n t var) :
    Safe cfg vs (localsAddL name var mutable) := by
  apply Safe.prim
  intro n r hr _ hvs
  have hp := hr.parts
  cases ha : r.locals.add name var mutable with
  | ok l =>
    simp only []
    exact ⟨Parts.restWf ⟨lframes_add_wf hp.locals (hv _ _ hvs) ha, hp.thunks, hp.cells, hp.edgeQ, hp.attrQ, hp.printQ⟩,
      Nat.le_refl _, by simp [HasVals.vals, lwfs]⟩
  | error e => simp only []; intro site h; cases h

theorem Safe.localsSetL (vs : List LVal) (name : String) (var : LVal) (hv : ∀ n t, lwfs n t vs → lwf n t var) :
    Safe cfg vs (localsSetL name var) := by
  apply Safe.prim
  intro n r hr _ hvs
  have hp := hr.parts
  cases ha : r.locals.set name var with
  | ok l =>
    simp only []
    exact ⟨Parts.restWf ⟨lframes_set_wf hp.locals (hv _ _ hvs) ha, hp.thunks, hp.cells, hp.edgeQ, hp.attrQ, hp.printQ⟩,
      Nat.le_refl _, by simp [HasVals.vals, lwfs]⟩
  | error e =>
    simp only []
    by_cases hg : (r.locals.get name).isSome = true
    · simp only [hg, if_true]; intro site h; cases h
    · simp only [hg, if_false]; intro site h; cases h

theorem Safe.unscopedAddL (vs : List LVal) (ctx : StmtCtx) (name : String) (v : LVal) (mutable : Bool)
    (hv : ∀ n t, lwfs n t vs → lwf n t v) : Safe cfg vs (Lazy.unscopedAddL cfg ctx name v mutable) := by
  unfold Lazy.unscopedAddL
  cases cfg.globals.get name with
  | some _ => exact Safe.throwK vs _
  | none =>
    exact Safe.bind (Safe.storeAdd vs v ctx hv) fun var =>
      Safe.localsAddL _ name var mutable (fun n t hn => by simp only [HasVals.vals, List.cons_append, lwfs] at hn; exact hn.1)

theorem Safe.unscopedSetL (vs : List LVal) (ctx : StmtCtx) (name : String) (v : LVal)
    (hv : ∀ n t, lwfs n t vs → lwf n t v) : Safe cfg vs (Lazy.unscopedSetL cfg ctx name v) := by
  unfold Lazy.unscopedSetL
  cases cfg.globals.get name with
  | some _ => exact Safe.throwK vs _
  | none =>
    exact Safe.bind (Safe.storeAdd vs v ctx hv) fun var =>
      Safe.localsSetL _ name var (fun n t hn => by simp only [HasVals.vals, List.cons_append, lwfs] at hn; exact hn.1)


/-! cells, thunks, queues -/

theorem setCell_parts {n t : Nat} {r : LSt} (h : Parts n t r) (name : String) (c : ScopedCell)
    (hc : ∀ v ∈ cellVals c, lwf n t v) : Parts n t (setCell r name c) := by
  unfold setCell
  split
  · refine ⟨h.locals, h.thunks, ?_, h.edgeQ, h.attrQ, h.printQ⟩
    intro e he
    simp only [List.mem_map] at he
    obtain ⟨e0, he0, rfl⟩ := he
    by_cases hk : e0.1 = name
    · simp only [hk, if_true]; exact hc
    · simp only [hk, if_false]; exact h.cells e0 he0
  · refine ⟨h.locals, h.thunks, ?_, h.edgeQ, h.attrQ, h.printQ⟩
    intro e he
    simp only [List.mem_append, List.mem_singleton] at he
    rcases he with he | rfl
    · exact h.cells e he
    · exact hc

theorem setCell_thunks (r : LSt) (name : String) (c : ScopedCell) : (setCell r name c).thunks = r.thunks := by
  unfold setCell; split <;> rfl

theorem setThunk_length (r : LSt) (loc : Nat) (st : ThunkState) : (setThunk r loc st).thunks.length = r.thunks.length := by
  unfold setThunk
  cases r.thunks[loc]? <;> simp

theorem setThunk_parts {n t : Nat} {r : LSt} (h : Parts n t r) (loc : Nat) (st : ThunkState)
    (hst : ∀ th : LThunk, ∀ v ∈ thunkVals { th with state := st }, lwf n t v) : Parts n t (setThunk r loc st) := by
  unfold setThunk
  cases hl : r.thunks[loc]? with
  | none => exact h
  | some th =>
    refine ⟨h.locals, ?_, h.cells, h.edgeQ, h.attrQ, h.printQ⟩
    intro x hx v hv
    simp only at hx
    rcases List.mem_or_eq_of_mem_set hx with hx | rfl
    · exact h.thunks x hx v hv
    · exact hst th v hv

theorem cells_lookup_vals {n t : Nat} {r : LSt} (h : Parts n t r) {name : String} {c : ScopedCell}
    (hl : r.cells.lookup name = some c) : ∀ v ∈ cellVals c, lwf n t v :=
  h.cells (name, c) (StrictSafe.lookup_mem hl)

theorem Safe.cellAdd (vs : List LVal) (scope : LVal) (name : String) (value : LVal) (dbg : StmtCtx)
    (hs : ∀ n t, lwfs n t vs → lwf n t scope) (hv : ∀ n t, lwfs n t vs → lwf n t value) :
    Safe cfg vs (cellAdd scope name value dbg) := by
  apply Safe.prim
  intro n r hr _ hvs
  have hp := hr.parts
  cases hl : r.cells.lookup name with
  | none =>
    simp only []
    refine ⟨?_, by rw [setCell_thunks]; exact Nat.le_refl _, by simp [HasVals.vals, lwfs]⟩
    apply Parts.restWf; rw [setCell_thunks]
    exact setCell_parts hp name _ (fun v hv' => by
      simp only [cellVals, List.flatMap_cons, List.flatMap_nil, List.append_nil, List.mem_cons, List.not_mem_nil, or_false] at hv'
      rcases hv' with rfl | rfl
      · exact hs _ _ hvs
      · exact hv _ _ hvs)
  | some c =>
    cases c with
    | unforced pairs =>
      simp only []
      refine ⟨?_, by rw [setCell_thunks]; exact Nat.le_refl _, by simp [HasVals.vals, lwfs]⟩
      apply Parts.restWf; rw [setCell_thunks]
      refine setCell_parts hp name _ (fun v hv' => ?_)
      simp only [cellVals, List.flatMap_append, List.mem_append, List.flatMap_cons, List.flatMap_nil, List.append_nil,
        List.mem_cons, List.not_mem_nil, or_false] at hv'
      rcases hv' with h1 | rfl | rfl
      · exact cells_lookup_vals hp hl v (by simpa [cellVals] using h1)
      · exact hs _ _ hvs
      · exact hv _ _ hvs
    | forcing => simp only []; intro site h; cases h
    | forced map => simp only []; intro site h; cases h

theorem Safe.pushStmt (vs : List LVal) (st : LStmt) (hst : ∀ n t, lwfs n t vs → ∀ v ∈ lstmtVals st, lwf n t v) :
    Safe cfg vs (pushStmt st) := by
  apply Safe.prim
  intro n r hr _ hvs
  have hp := hr.parts
  have hq : ∀ (q : List LStmt), (∀ x ∈ q, ∀ v ∈ lstmtVals x, lwf n r.thunks.length v) → ∀ x ∈ q ++ [st], ∀ v ∈ lstmtVals x, lwf n r.thunks.length v := by
    intro q hq x hx v hv
    simp only [List.mem_append, List.mem_singleton] at hx
    rcases hx with hx | rfl
    · exact hq x hx v hv
    · exact hst _ _ hvs v hv
  cases st with
  | attrNode a b c => exact ⟨Parts.restWf ⟨hp.locals, hp.thunks, hp.cells, hp.edgeQ, hq _ hp.attrQ, hp.printQ⟩, Nat.le_refl _, by simp [HasVals.vals, lwfs]⟩
  | createEdge a b c d => exact ⟨Parts.restWf ⟨hp.locals, hp.thunks, hp.cells, hq _ hp.edgeQ, hp.attrQ, hp.printQ⟩, Nat.le_refl _, by simp [HasVals.vals, lwfs]⟩
  | attrEdge a b c d => exact ⟨Parts.restWf ⟨hp.locals, hp.thunks, hp.cells, hp.edgeQ, hq _ hp.attrQ, hp.printQ⟩, Nat.le_refl _, by simp [HasVals.vals, lwfs]⟩
  | print a b => exact ⟨Parts.restWf ⟨hp.locals, hp.thunks, hp.cells, hp.edgeQ, hp.attrQ, hq _ hp.printQ⟩, Nat.le_refl _, by simp [HasVals.vals, lwfs]⟩

instance : HasVals (Option StmtCtx) := ⟨fun _ => []⟩

theorem Safe.recordPrev (vs : List LVal) (key : ElemKey) (dbg : StmtCtx) : Safe cfg vs (recordPrev key dbg) := by
  apply Safe.prim
  intro n r hr _ _
  have hp := hr.parts
  exact ⟨Parts.restWf ⟨hp.locals, hp.thunks, hp.cells, hp.edgeQ, hp.attrQ, hp.printQ⟩, Nat.le_refl _, by simp [HasVals.vals, lwfs]⟩


/-! ### steps on the graph -/

theorem Inv.sameLength {s : MSt LSt} (h : Inv cfg s) (g' : CGraph) (hl : g'.nodes.length = s.graph.nodes.length) :
    Inv cfg { s with graph := g' } := h.mono g' (by omega)

theorem Safe.bind_addNode {vs : List LVal} {f : Nat → Prog LSt β} (h : ∀ n, Safe cfg (.value (.gnode n) :: vs) (f n)) :
    Safe cfg vs (gopP .addNode >>= f) := by
  intro s hinv hvs
  rw [Prog.run_bind]
  have hrun : Prog.run (gopP .addNode : Prog LSt Nat) s = .ok s.graph.nodes.length { s with graph := s.graph.addGraphNode.1 } := rfl
  rw [hrun]
  simp only
  have hlen : (s.graph.addGraphNode.1).nodes.length = s.graph.nodes.length + 1 := by simp [CGraph.addGraphNode]
  have hinv' : Inv cfg { s with graph := s.graph.addGraphNode.1 } := hinv.mono _ (by omega)
  have := h s.graph.nodes.length { s with graph := s.graph.addGraphNode.1 } hinv'
    (by simp only [lwfs, lwf, wf]; exact ⟨by rw [hlen]; omega, lwfs_mono (by rw [hlen]; omega) (Nat.le_refl _) vs hvs⟩)
  cases hr : Prog.run (f s.graph.nodes.length) { s with graph := s.graph.addGraphNode.1 } with
  | ok b s2 =>
    rw [hr] at this
    obtain ⟨h1, h2, h3, h4⟩ := this
    exact ⟨h1, by rw [hlen] at h2; omega, h3, h4⟩
  | fail e s2 => rw [hr] at this; exact this

theorem Safe.callFnL (vs : List LVal) (fn : String) (args : List Val) (ht : TreeOK cfg.tree)
    (hargs : ∀ n t, lwfs n t vs → wfs n args) : Safe cfg vs (Lazy.callFnL cfg fn args : Prog LSt Val) := by
  intro s hinv hvs
  simp only [Lazy.callFnL, Strict.callFn, gopP, Prog.run, GraphOp.apply, Stdlib.call]
  by_cases hn : fn = "node"
  · simp only [hn, if_true]
    cases Stdlib.finish args with
    | error e => intro site h; cases h
    | ok u =>
      have hlen : (s.graph.addGraphNode.1).nodes.length = s.graph.nodes.length + 1 := by simp [CGraph.addGraphNode]
      refine ⟨hinv.mono _ (by omega), by rw [hlen]; omega, Nat.le_refl _, ?_⟩
      simp only [HasVals.vals, lwfs, lwf, wf, and_true]
      show s.graph.nodes.length < (s.graph.addGraphNode.1).nodes.length
      omega
  · simp only [hn, if_false]
    have := StrictSafe.callPure_good cfg.oracle cfg.tree fn args ht _ (hargs _ _ hvs)
    cases hc : Stdlib.callPure cfg.oracle cfg.tree fn args with
    | ok v => rw [hc] at this; exact ⟨hinv, Nat.le_refl _, Nat.le_refl _, by simp only [HasVals.vals, lwfs, lwf, and_true]; exact this⟩
    | err k => intro site h; cases h
    | panic site => rw [hc] at this; exact this.elim
    | need q => intro site h; cases h

theorem Safe.bind_asGraphNodeL {vs : List LVal} (v : Val) {f : Nat → Prog LSt β} (hv : ∀ n t, lwfs n t vs → wf n v)
    (h : ∀ n, Safe cfg (.value (.gnode n) :: vs) (f n)) : Safe cfg vs (asGraphNodeL v >>= f) := by
  cases v with
  | gnode i =>
    have : (asGraphNodeL (.gnode i) >>= f) = f i := rfl
    rw [this]
    exact (h i).weaken fun n t hn => by simp only [lwfs, lwf]; exact ⟨hv n t hn, hn⟩
  | _ => intro s _ _ site hc; cases hc

theorem Safe.asSyntaxNodeL (vs : List LVal) (v : Val) : Safe cfg vs (asSyntaxNodeL v) := by
  unfold Lazy.asSyntaxNodeL
  cases v <;> first | exact Safe.pure vs _ (fun _ _ _ => by simp [HasVals.vals, lwfs]) | exact Safe.throwK vs _

/-- a debug attribute on a node of the graph (the `node` statement) -/
theorem Safe.addAttributeNode (vs : List LVal) (i : Nat) (name : String) (v : Val) (hi : ∀ n t, lwfs n t vs → i < n) :
    Safe cfg vs (Strict.addAttribute (.node i) name v : Prog LSt Unit) := by
  intro s hinv hvs
  obtain ⟨nd, hnd⟩ := StrictSafe.node?_some_of_lt s.graph i (hi _ _ hvs)
  simp only [Strict.addAttribute, Prog.run_bind, gopP, Prog.run, GraphOp.apply, CGraph.addNodeAttr, hnd]
  cases hc : (Attrs.add nd.attrs name v).2 with
  | false =>
    simp only
    exact ⟨hinv.sameLength _ (StrictSafe.setNode_length _ _ _), by rw [StrictSafe.setNode_length]; exact Nat.le_refl _, Nat.le_refl _, by simp [HasVals.vals, lwfs]⟩
  | true => simp only; intro site h; cases h


/-! ### reading the state -/

/-- safety from the states that satisfy `P` -/
def SafeIf (cfg : Cfg) {α : Type} [HasVals α] (P : MSt LSt → Prop) (vs : List LVal) (t : Prog LSt α) : Prop :=
  ∀ s, P s → Inv cfg s → lwfs s.graph.nodes.length s.rest.thunks.length vs →
    Good cfg s.graph.nodes.length s.rest.thunks.length (Prog.run t s)

theorem Safe.bind_getR {vs : List LVal} {f : LSt → Prog LSt β} (h : ∀ r, SafeIf cfg (fun s => s.rest = r) vs (f r)) :
    Safe cfg vs (Prog.getR >>= f) := by
  intro s hinv hvs
  have : Prog.run (Prog.getR >>= f) s = Prog.run (f s.rest) s := by
    rw [Prog.run_bind]; rfl
  rw [this]
  exact h s.rest s rfl hinv hvs

theorem SafeIf.of_safe {P : MSt LSt → Prop} {vs extra : List LVal} {t : Prog LSt α} (h : Safe cfg (extra ++ vs) t)
    (hx : ∀ s, P s → Inv cfg s → lwfs s.graph.nodes.length s.rest.thunks.length vs → lwfs s.graph.nodes.length s.rest.thunks.length extra) :
    SafeIf cfg P vs t := by
  intro s hP hinv hvs
  exact h s hinv ((lwfs_append _ _ _ _).mpr ⟨hx s hP hinv hvs, hvs⟩)

instance : HasVals (List (Nat × LVal)) := ⟨fun m => m.map (·.2)⟩

end LazySafe
