/-
  Safety of the lazy interpreter's functions (framework: LazySafe.lean).
-/
import Tsg.Proofs.LazySafe

namespace LazySafe
open Prog Lazy
open StrictSafe (wf wfs wf_mono wfs_mono wfs_iff NoPanic GlobalsWf TreeOK EnvQ Resolved exprCaps exprsCaps)

variable {cfg : Cfg}

theorem Safe.setThunk (vs : List LVal) (loc : Nat) (st : ThunkState)
    (hst : ∀ n t, lwfs n t vs → ∀ th : LThunk, ∀ v ∈ thunkVals { th with state := st }, lwf n t v) :
    Safe cfg vs (Prog.modifyR fun s => setThunk s loc st) := by
  apply Safe.prim
  intro n r hr _ hvs
  refine ⟨?_, by rw [setThunk_length]; exact Nat.le_refl _, by simp [HasVals.vals, lwfs]⟩
  apply Parts.restWf
  rw [setThunk_length]
  exact setThunk_parts hr.parts loc st (hst _ _ hvs)

theorem Safe.setCell (vs : List LVal) (name : String) (c : ScopedCell)
    (hc : ∀ n t, lwfs n t vs → ∀ v ∈ cellVals c, lwf n t v) :
    Safe cfg vs (Prog.modifyR fun s => setCell s name c) := by
  apply Safe.prim
  intro n r hr _ hvs
  refine ⟨?_, by rw [setCell_thunks]; exact Nat.le_refl _, by simp [HasVals.vals, lwfs]⟩
  apply Parts.restWf
  rw [setCell_thunks]
  exact setCell_parts hr.parts name c (hc _ _ hvs)

theorem wfs_of_values {n t : Nat} {l : List Val} (h : lwfs n t (l.map LVal.value)) : wfs n l := by
  rw [wfs_iff]; rw [lwfs_iff] at h
  intro v hv
  have := h (.value v) (List.mem_map.mpr ⟨v, hv, rfl⟩)
  simpa [lwf] using this

theorem values_of_wfs {n t : Nat} {l : List Val} (h : wfs n l) : lwfs n t (l.map LVal.value) := by
  rw [lwfs_iff]; rw [wfs_iff] at h
  intro v hv
  obtain ⟨x, hx, rfl⟩ := List.mem_map.mp hv
  simpa [lwf] using h x hx

/-- the forcing functions other than `evalL`, given `evalL` at the same fuel -/
theorem safe_force_rest (ef : Nat)
    (hE : ∀ (lv : LVal) (vs : List LVal), (∀ n t, lwfs n t vs → lwf n t lv) → Safe cfg vs (evalL cfg ef lv)) :
    (∀ (es : List LVal) (vs : List LVal), (∀ n t, lwfs n t vs → lwfs n t es) → Safe cfg vs (evalLs cfg ef es)) ∧
    (∀ (loc : Nat) (vs : List LVal), (∀ n t, lwfs n t vs → loc < t) → Safe cfg vs (forceThunk cfg ef loc)) ∧
    (∀ (name : String) (pairs : List (LVal × LVal × StmtCtx)) (acc : List (Nat × LVal)) (dbgs : List (Nat × StmtCtx)) (vs : List LVal),
      (∀ n t, lwfs n t vs → (∀ p ∈ pairs, lwf n t p.1 ∧ lwf n t p.2.1) ∧ ∀ q ∈ acc, lwf n t q.2) →
      Safe cfg vs (forcePairs cfg ef name pairs acc dbgs)) ∧
    (∀ (name : String) (cell : ScopedCell) (vs : List LVal), (∀ n t, lwfs n t vs → ∀ v ∈ cellVals cell, lwf n t v) →
      Safe cfg vs (forceCell cfg ef name cell)) ∧
    (∀ (node : Nat) (name : String) (vs : List LVal), Safe cfg vs (resolveScoped cfg ef node name)) := by
  have hEs : ∀ (es : List LVal) (vs : List LVal), (∀ n t, lwfs n t vs → lwfs n t es) → Safe cfg vs (evalLs cfg ef es) := by
    intro es
    induction es with
    | nil => intro vs _; rw [evalLs]; exact Safe.pure vs _ (fun _ _ _ => by simp [HasVals.vals, lwfs])
    | cons e rest ih =>
      intro vs hes
      rw [evalLs]
      refine Safe.bind (hE e vs (fun n t h => (hes n t h).1)) fun v =>
        Safe.bind (ih _ (fun n t h => ?_)) fun l => Safe.pure _ _ (fun n t h => ?_)
      · simp only [HasVals.vals, List.cons_append, List.nil_append, lwfs] at h; exact (hes n t h.2).2
      · simp only [HasVals.vals, List.cons_append, List.nil_append, List.map_cons, lwfs, lwfs_append] at h ⊢
        exact ⟨h.2.1, h.1⟩
  have hT : ∀ (loc : Nat) (vs : List LVal), (∀ n t, lwfs n t vs → loc < t) → Safe cfg vs (forceThunk cfg ef loc) := by
    intro loc vs hloc
    rw [forceThunk]
    refine Safe.bind_getR fun r => ?_
    cases hth : r.thunks[loc]? with
    | none =>
      intro s hP _ hvs
      have := hloc _ _ hvs
      rw [hP] at this
      have hsome : loc < r.thunks.length := this
      rw [List.getElem?_eq_getElem hsome] at hth
      cases hth
    | some th =>
      simp only
      have hmem : th ∈ r.thunks := List.mem_of_getElem? hth
      refine SafeIf.of_safe (extra := thunkVals th) ?_ (fun s hP hinv _ => by
        rw [lwfs_iff]; intro v hv
        have := hinv.1.parts.thunks th (by rw [hP]; exact hmem) v hv
        exact this)
      refine Safe.ctx _ ?_
      refine Safe.bind (Safe.setThunk _ loc .forcing (fun _ _ _ th v hv => by simp [thunkVals] at hv)) fun _ => ?_
      cases hst : th.state with
      | unforced lv =>
        have htv : thunkVals th = [lv] := by simp [thunkVals, hst]
        rw [htv]
        simp only
        refine Safe.bind (hE lv _ (fun n t h => ?_)) fun v =>
          Safe.bind (Safe.setThunk _ loc (.forced v) (fun n t h th' x hx => ?_)) fun _ => Safe.pure _ _ (fun n t h => ?_)
        · simp only [HasVals.vals, List.nil_append, List.cons_append, lwfs] at h; exact h.1
        · simp only [thunkVals, List.mem_singleton] at hx; subst hx
          simp only [HasVals.vals, List.cons_append, lwfs] at h; exact h.1
        · simp only [HasVals.vals, List.cons_append, List.nil_append, lwfs] at h ⊢; exact ⟨h.1, trivial⟩
      | forced v =>
        have htv : thunkVals th = [.value v] := by simp [thunkVals, hst]
        rw [htv]
        simp only
        refine Safe.bind (Safe.setThunk _ loc (.forced v) (fun n t h th' x hx => ?_)) fun _ => Safe.pure _ _ (fun n t h => ?_)
        · simp only [thunkVals, List.mem_singleton] at hx; subst hx
          simp only [HasVals.vals, List.nil_append, List.cons_append, lwfs] at h; exact h.1
        · simp only [HasVals.vals, List.nil_append, List.cons_append, lwfs] at h ⊢; exact ⟨h.1, trivial⟩
      | forcing => exact Safe.throwK _ _
  have hP : ∀ (name : String) (pairs : List (LVal × LVal × StmtCtx)) (acc : List (Nat × LVal)) (dbgs : List (Nat × StmtCtx)) (vs : List LVal),
      (∀ n t, lwfs n t vs → (∀ p ∈ pairs, lwf n t p.1 ∧ lwf n t p.2.1) ∧ ∀ q ∈ acc, lwf n t q.2) →
      Safe cfg vs (forcePairs cfg ef name pairs acc dbgs) := by
    intro name pairs
    induction pairs with
    | nil =>
      intro acc dbgs vs h
      rw [forcePairs]
      exact Safe.pure vs _ (fun n t hn => by
        simp only [HasVals.vals]; rw [lwfs_iff]; intro v hv
        obtain ⟨q, hq, rfl⟩ := List.mem_map.mp hv
        exact (h n t hn).2 q hq)
    | cons p rest ih =>
      intro acc dbgs vs h
      obtain ⟨scope, value, dbg⟩ := p
      rw [forcePairs]
      refine Safe.bind (α := Nat) (Safe.ctx _ (Safe.ctx _ (Safe.bind (hE scope vs (fun n t hn => ((h n t hn).1 (scope, value, dbg) List.mem_cons_self).1)) fun v =>
        Safe.asSyntaxNodeL _ v))) fun node => ?_
      cases dbgs.lookup node with
      | some prev => exact Safe.ctx _ (Safe.throwK _ _)
      | none =>
        refine ih _ _ _ (fun n t hn => ?_)
        simp only [HasVals.vals, List.nil_append] at hn
        have := h n t hn
        refine ⟨fun p hp => this.1 p (by simp [hp]), fun q hq => ?_⟩
        simp only [List.mem_append, List.mem_singleton] at hq
        rcases hq with hq | rfl
        · exact this.2 q hq
        · exact (this.1 (scope, value, dbg) List.mem_cons_self).2
  have hC : ∀ (name : String) (cell : ScopedCell) (vs : List LVal), (∀ n t, lwfs n t vs → ∀ v ∈ cellVals cell, lwf n t v) →
      Safe cfg vs (forceCell cfg ef name cell) := by
    intro name cell vs h
    unfold Lazy.forceCell
    refine Safe.bind (Safe.setCell vs name .forcing (fun _ _ _ v hv => by simp [cellVals] at hv)) fun _ => ?_
    cases cell with
    | unforced pairs =>
      refine hP name pairs [] [] _ (fun n t hn => ?_)
      simp only [HasVals.vals, List.nil_append] at hn
      refine ⟨fun p hp => ?_, fun q hq => by cases hq⟩
      have h' := h n t hn
      exact ⟨h' p.1 (by simp only [cellVals, List.mem_flatMap]; exact ⟨p, hp, by simp⟩),
             h' p.2.1 (by simp only [cellVals, List.mem_flatMap]; exact ⟨p, hp, by simp⟩)⟩
    | forcing => exact Safe.throwK _ _
    | forced map =>
      refine Safe.pure _ _ (fun n t hn => ?_)
      simp only [HasVals.vals, List.nil_append] at hn ⊢
      rw [lwfs_iff]; intro v hv
      exact h n t hn v (by simpa [cellVals] using hv)
  refine ⟨hEs, hT, hP, hC, ?_⟩
  intro node name vs
  rw [resolveScoped]
  refine Safe.bind_getR fun r => ?_
  cases hl : r.cells.lookup name with
  | none => intro s _ _ _ site h; cases h
  | some cell =>
    simp only
    refine SafeIf.of_safe (extra := cellVals cell) ?_ (fun s hP' hinv _ => by
      rw [lwfs_iff]; intro v hv
      exact hinv.1.parts.cells (name, cell) (by rw [hP']; exact StrictSafe.lookup_mem hl) v hv)
    refine Safe.bind (hC name cell _ (fun n t hn => by
      simp only [lwfs_append] at hn; rw [lwfs_iff] at hn; exact hn.1)) fun map => ?_
    refine Safe.bind (Safe.setCell _ name (.forced map) (fun n t hn v hv => ?_)) fun _ => ?_
    · simp only [HasVals.vals, lwfs_append] at hn
      have := (lwfs_iff _ _ _).mp hn.1
      exact this v (by simpa [cellVals] using hv)
    · have hmapwf : ∀ n t, lwfs n t (HasVals.vals () ++ (HasVals.vals map ++ (cellVals cell ++ vs))) → ∀ (k : Nat) (v : LVal), map.lookup k = some v → lwf n t v := by
        intro n t hn k v hk
        simp only [HasVals.vals, List.nil_append, lwfs_append] at hn
        have := (lwfs_iff _ _ _).mp hn.1
        exact this v (List.mem_map.mpr ⟨(k, v), StrictSafe.lookup_mem hk, rfl⟩)
      cases hm : map.lookup node with
      | some v => exact Safe.pure _ _ (fun n t hn => by simp only [HasVals.vals, lwfs, and_true]; exact hmapwf n t hn node v hm)
      | none =>
        simp only
        split
        · cases hf : (cfg.tree.ancestors node).findSome? fun a => map.lookup a with
          | some v =>
            obtain ⟨a, _, ha⟩ := List.exists_of_findSome?_eq_some hf
            exact Safe.pure _ _ (fun n t hn => by simp only [HasVals.vals, lwfs, and_true]; exact hmapwf n t hn a v ha)
          | none => exact Safe.throwK _ _
        · exact Safe.throwK _ _


theorem safe_evalL (ht : TreeOK cfg.tree) : ∀ (ef : Nat) (lv : LVal) (vs : List LVal), (∀ n t, lwfs n t vs → lwf n t lv) →
    Safe cfg vs (evalL cfg ef lv) := by
  intro ef
  induction ef with
  | zero => intro lv vs _; rw [Lazy.evalL.eq_def]; exact Safe.failP vs _ (fun site h => by cases h)
  | succ ef ih =>
    obtain ⟨hEs, hT, _, _, hR⟩ := safe_force_rest (cfg := cfg) ef ih
    intro lv vs hlv
    rw [Lazy.evalL.eq_def]
    simp only
    refine Safe.bind (Safe.poll vs _) fun _ => ?_
    have hlv' : ∀ n t, lwfs n t (HasVals.vals () ++ vs) → lwf n t lv := fun n t h => hlv n t (by simpa [HasVals.vals] using h)
    cases lv with
    | value v =>
      exact Safe.pure _ _ (fun n t h => by simp only [HasVals.vals, lwfs, and_true]; simpa [lwf] using hlv' n t h)
    | list es =>
      refine Safe.bind (hEs es _ (fun n t h => by simpa [lwf] using hlv' n t h)) fun l => Safe.pure _ _ (fun n t h => ?_)
      simp only [HasVals.vals, lwfs_append, lwfs, lwf, and_true, wf] at h ⊢
      exact wfs_of_values h.1
    | set es =>
      refine Safe.bind (hEs es _ (fun n t h => by simpa [lwf] using hlv' n t h)) fun l => Safe.pure _ _ (fun n t h => ?_)
      simp only [HasVals.vals, lwfs_append, lwfs, lwf, and_true, wf] at h ⊢
      exact StrictSafe.wfs_setOfList n l (wfs_of_values h.1)
    | var loc =>
      exact hT loc _ (fun n t h => by simpa [lwf] using hlv' n t h)
    | scopedVar scope name =>
      refine Safe.bind (α := Nat) (Safe.ctx _ (Safe.bind (ih scope _ (fun n t h => by simpa [lwf] using hlv' n t h)) fun v =>
        Safe.asSyntaxNodeL _ v)) fun sv => Safe.bind (hR sv name _) fun target => ih target _ (fun n t h => ?_)
      simp only [HasVals.vals, List.cons_append, lwfs] at h; exact h.1
    | call fn args =>
      refine Safe.bind (hEs args _ (fun n t h => by simpa [lwf] using hlv' n t h)) fun l =>
        Safe.callFnL _ fn l ht (fun n t h => ?_)
      simp only [HasVals.vals, lwfs_append] at h
      exact wfs_of_values h.1



/-! ### the execute phase -/

theorem Safe.fromNodesL (vs : List LVal) (q : Quant) (nodes : List Nat) (hq : q ≠ .zero) :
    Safe cfg vs (Strict.fromNodes q nodes : Prog LSt Val) := by
  unfold Strict.fromNodes
  cases q with
  | zero => exact (hq rfl).elim
  | one =>
    cases nodes with
    | nil => exact Safe.throwK vs _
    | cons n r => exact Safe.pure vs _ (fun _ _ _ => by simp [HasVals.vals, lwfs, lwf, wf])
  | zeroOrMore | oneOrMore =>
    refine Safe.pure vs _ (fun k t _ => ?_)
    simp only [HasVals.vals, lwfs, lwf, wf, and_true]
    rw [wfs_iff]; intro v hv; simp only [List.mem_map] at hv; obtain ⟨x, _, rfl⟩ := hv; simp [wf]
  | zeroOrOne =>
    cases nodes <;> exact Safe.pure vs _ (fun _ _ _ => by simp [HasVals.vals, lwfs, lwf, wf])

theorem asList_values {n t : Nat} {v : Val} {l : List Val} (h : Stdlib.asList v = .ok l) (hv : lwf n t (.value v)) :
    lwfs n t (l.map LVal.value) := by
  simp only [lwf] at hv
  exact values_of_wfs (StrictSafe.asList_wf h hv)

theorem safe_lazyExpr (ht : TreeOK cfg.tree) (fuel ef : Nat) : ∀ m : Nat,
    (∀ (env : Env) (e : Expr) (vs : List LVal), sizeOf e ≤ m → EnvQ env → Resolved env (exprCaps e) → Safe cfg vs (lazyExpr cfg fuel ef env e)) ∧
    (∀ (env : Env) (es : List Expr) (vs : List LVal), sizeOf es ≤ m → EnvQ env → Resolved env (exprsCaps es) → Safe cfg vs (lazyExprs cfg fuel ef env es)) ∧
    (∀ (env : Env) (elem : Expr) (var : String) (vals : List Val) (vs : List LVal), sizeOf elem ≤ m → EnvQ env → Resolved env (exprCaps elem) →
      (∀ n t, lwfs n t vs → lwfs n t (vals.map LVal.value)) → Safe cfg vs (lazyComp cfg fuel ef env elem var vals)) := by
  intro m
  induction m with
  | zero =>
    refine ⟨?_, ?_, ?_⟩
    · intro env e vs h; cases e <;> simp at h <;> omega
    · intro env es vs h; cases es <;> simp at h
    · intro env elem var vals vs h; cases elem <;> simp at h <;> omega
  | succ m ih =>
    obtain ⟨ihE, ihEs, ihC⟩ := ih
    have hC : ∀ (env : Env) (elem : Expr) (var : String) (vals : List Val) (vs : List LVal), EnvQ env →
        (∀ env' vs', EnvQ env' → env'.quants = env.quants → Safe cfg vs' (lazyExpr cfg fuel ef env' elem)) →
        (∀ n t, lwfs n t vs → lwfs n t (vals.map LVal.value)) → Safe cfg vs (lazyComp cfg fuel ef env elem var vals) := by
      intro env elem var vals vs hq hel hvals
      induction vals generalizing vs with
      | nil => rw [lazyComp]; exact Safe.pure vs _ (fun _ _ _ => by simp [HasVals.vals, lwfs])
      | cons v rest ihv =>
        rw [lazyComp]
        refine Safe.bind (Safe.clearFrameL vs) fun _ => Safe.bind (Safe.unscopedAddL _ env.ctx var (.value v) false (fun n t hn => ?_)) fun _ =>
          Safe.bind (hel env _ hq rfl) fun x => Safe.bind (ihv _ (fun n t hn => ?_)) fun xs => Safe.pure _ _ (fun n t hn => ?_)
        · simp only [HasVals.vals, List.nil_append] at hn; exact (hvals n t hn).1
        · simp only [HasVals.vals, List.nil_append, List.cons_append, lwfs] at hn; exact (hvals n t hn.2).2
        · simp only [HasVals.vals, List.nil_append, List.cons_append, lwfs, lwfs_append] at hn ⊢
          exact ⟨hn.2.1, hn.1⟩
    have hE : ∀ (env : Env) (e : Expr) (vs : List LVal), sizeOf e ≤ m + 1 → EnvQ env → Resolved env (exprCaps e) →
        Safe cfg vs (lazyExpr cfg fuel ef env e) := by
      intro env e vs h hq hres
      cases e with
      | falseLit | nullLit | trueLit | int _ | str _ =>
        rw [lazyExpr]; exact Safe.pure vs _ (fun _ _ _ => by simp [HasVals.vals, lwfs, lwf, wf])
      | list es =>
        rw [lazyExpr]
        refine Safe.bind (ihEs env es vs (by simp at h; omega) hq (by simpa [exprCaps] using hres)) fun l =>
          Safe.pure _ _ (fun n t hn => ?_)
        simp only [HasVals.vals, lwfs, lwf, and_true, lwfs_append] at hn ⊢
        exact hn.1
      | set es =>
        rw [lazyExpr]
        refine Safe.bind (ihEs env es vs (by simp at h; omega) hq (by simpa [exprCaps] using hres)) fun l =>
          Safe.pure _ _ (fun n t hn => ?_)
        simp only [HasVals.vals, lwfs, lwf, and_true, lwfs_append] at hn ⊢
        exact hn.1
      | listComp elem var vl value l =>
        rw [lazyExpr]
        simp only [exprCaps] at hres
        refine Safe.bind (ihE env value vs (by simp at h; omega) hq hres.right) fun lv =>
          Safe.bind (safe_evalL ht ef lv _ (fun n t hn => by simp only [HasVals.vals, List.cons_append, lwfs] at hn; exact hn.1)) fun v =>
            Safe.bind (Safe.ofExcept _ _ (fun a ha n t hn => ?_)) fun vals =>
              Safe.bind (Safe.pushFrameL _) fun _ =>
                Safe.bind (ihC env elem var vals _ (by simp at h; omega) hq hres.left (fun n t hn => ?_)) fun out =>
                  Safe.bind (Safe.popFrameL _) fun _ => Safe.pure _ _ (fun n t hn => ?_)
        · simp only [HasVals.vals, List.cons_append, List.nil_append, lwfs] at hn ⊢
          exact asList_values ha hn.1
        · simp only [HasVals.vals, List.nil_append, lwfs_append] at hn; exact hn.1
        · simp only [HasVals.vals, List.nil_append, lwfs_append, lwfs, lwf, and_true] at hn ⊢; exact hn.1
      | setComp elem var vl value l =>
        rw [lazyExpr]
        simp only [exprCaps] at hres
        refine Safe.bind (ihE env value vs (by simp at h; omega) hq hres.right) fun lv =>
          Safe.bind (safe_evalL ht ef lv _ (fun n t hn => by simp only [HasVals.vals, List.cons_append, lwfs] at hn; exact hn.1)) fun v =>
            Safe.bind (Safe.ofExcept _ _ (fun a ha n t hn => ?_)) fun vals =>
              Safe.bind (Safe.pushFrameL _) fun _ =>
                Safe.bind (ihC env elem var vals _ (by simp at h; omega) hq hres.left (fun n t hn => ?_)) fun out =>
                  Safe.bind (Safe.popFrameL _) fun _ => Safe.pure _ _ (fun n t hn => ?_)
        · simp only [HasVals.vals, List.cons_append, List.nil_append, lwfs] at hn ⊢
          exact asList_values ha hn.1
        · simp only [HasVals.vals, List.nil_append, lwfs_append] at hn; exact hn.1
        · simp only [HasVals.vals, List.nil_append, lwfs_append, lwfs, lwf, and_true] at hn ⊢; exact hn.1
      | capture name q i1 i2 l =>
        cases q with
        | zero => simp only [lazyExpr]; exact Safe.throwK vs _
        | zeroOrOne | zeroOrMore | one | oneOrMore =>
          simp only [lazyExpr]
          have hr := hres name (by simp [exprCaps])
          cases hl : env.quants.lookup name with
          | none => rw [hl] at hr; simp at hr
          | some q' =>
            simp only
            have := hq name q' hl
            exact Safe.bind (Safe.fromNodesL vs q' _ this) fun v => Safe.pure _ _ (fun n t hn => by
              simp only [HasVals.vals, List.cons_append, lwfs] at hn ⊢; exact ⟨hn.1, trivial⟩)
      | var name l => rw [lazyExpr]; exact Safe.unscopedGetL vs name
      | scopedVar scope name l =>
        rw [lazyExpr]
        exact Safe.bind (ihE env scope vs (by simp at h; omega) hq (by simpa [exprCaps] using hres)) fun sv =>
          Safe.pure _ _ (fun n t hn => by simp only [HasVals.vals, List.cons_append, lwfs, lwf] at hn ⊢; exact ⟨hn.1, trivial⟩)
      | call fn args =>
        rw [lazyExpr]
        exact Safe.bind (ihEs env args vs (by simp at h; omega) hq (by simpa [exprCaps] using hres)) fun l =>
          Safe.pure _ _ (fun n t hn => by simp only [HasVals.vals, lwfs_append, lwfs, lwf, and_true] at hn ⊢; exact hn.1)
      | regexCap ix =>
        rw [lazyExpr]
        cases env.caps[ix]? <;> first | exact Safe.pure vs _ (fun _ _ _ => by simp [HasVals.vals, lwfs, lwf, wf]) | exact Safe.throwK vs _
    refine ⟨hE, ?_, ?_⟩
    · intro env es vs h hq hres
      cases es with
      | nil => rw [lazyExprs]; exact Safe.pure vs _ (fun _ _ _ => by simp [HasVals.vals, lwfs])
      | cons e rest =>
        rw [lazyExprs]
        simp only [exprsCaps] at hres
        refine Safe.bind (ihE env e vs (by simp at h; omega) hq hres.left) fun v =>
          Safe.bind (ihEs env rest _ (by simp at h; omega) hq hres.right) fun l => Safe.pure _ _ (fun n t hn => ?_)
        simp only [HasVals.vals, lwfs_append, lwfs, and_true] at hn ⊢
        exact ⟨hn.2.1, hn.1⟩
    · intro env elem var vals vs h hq hres hvals
      refine hC env elem var vals vs hq (fun env' vs' hq' heq => hE env' elem vs' h hq' ?_) hvals
      intro n hn; rw [heq]; exact hres n hn

theorem safe_lazyExpr' (ht : TreeOK cfg.tree) (fuel ef : Nat) (env : Env) (e : Expr) (vs : List LVal) (hq : EnvQ env)
    (hres : Resolved env (exprCaps e)) : Safe cfg vs (lazyExpr cfg fuel ef env e) :=
  (safe_lazyExpr ht fuel ef (sizeOf e)).1 env e vs (Nat.le_refl _) hq hres

theorem safe_eagerExpr (ht : TreeOK cfg.tree) (fuel ef : Nat) (env : Env) (e : Expr) (vs : List LVal) (hq : EnvQ env)
    (hres : Resolved env (exprCaps e)) : Safe cfg vs (eagerExpr cfg fuel ef env e) :=
  Safe.bind (safe_lazyExpr' ht fuel ef env e vs hq hres) fun lv =>
    safe_evalL ht ef lv _ (fun n t hn => by simp only [HasVals.vals, List.cons_append, lwfs] at hn; exact hn.1)


open StrictSafe (varCaps condCaps condsCaps attrsCaps stmtCaps stmtsCaps scanArmsCaps ifArmsCaps ShorthandsOK)

theorem safe_varAddL (ht : TreeOK cfg.tree) (fuel ef : Nat) (env : Env) (v : Var) (value : LVal) (mutable : Bool) (vs : List LVal)
    (hq : EnvQ env) (hres : Resolved env (varCaps v)) (hv : ∀ n t, lwfs n t vs → lwf n t value) :
    Safe cfg vs (varAddL cfg fuel ef env v value mutable) := by
  cases v with
  | unscoped name l => exact Safe.unscopedAddL vs env.ctx name value mutable hv
  | scopedV scope name l =>
    simp only [varAddL]
    cases mutable with
    | true => exact Safe.throwK vs _
    | false =>
      simp only [Bool.false_eq_true, if_false]
      exact Safe.bind (safe_lazyExpr' ht fuel ef env scope vs hq hres) fun sv =>
        Safe.bind (Safe.storeAdd _ value env.ctx (fun n t hn => by
          simp only [HasVals.vals, List.cons_append, lwfs] at hn; exact hv n t hn.2)) fun var =>
          Safe.cellAdd _ sv name var env.ctx
            (fun n t hn => by simp only [HasVals.vals, List.cons_append, lwfs] at hn; exact hn.2.1)
            (fun n t hn => by simp only [HasVals.vals, List.cons_append, lwfs] at hn; exact hn.1)

theorem safe_varSetL (env : Env) (v : Var) (value : LVal) (vs : List LVal) (hv : ∀ n t, lwfs n t vs → lwf n t value) :
    Safe cfg vs (varSetL cfg env v value) := by
  cases v with
  | unscoped name l => exact Safe.unscopedSetL vs env.ctx name value hv
  | scopedV scope name l => exact Safe.throwK vs _

theorem safe_testCondL (ht : TreeOK cfg.tree) (fuel ef : Nat) (env : Env) (c : Cond) (vs : List LVal) (hq : EnvQ env)
    (hres : Resolved env (condCaps c)) : Safe cfg vs (testCondL cfg fuel ef env c) := by
  cases c with
  | some e l => exact Safe.bind (safe_eagerExpr ht fuel ef env e vs hq hres) fun _ => Safe.pure _ _ (fun _ _ _ => by simp [HasVals.vals, lwfs])
  | none e l => exact Safe.bind (safe_eagerExpr ht fuel ef env e vs hq hres) fun _ => Safe.pure _ _ (fun _ _ _ => by simp [HasVals.vals, lwfs])
  | bool e l =>
    exact Safe.bind (safe_eagerExpr ht fuel ef env e vs hq hres) fun _ => Safe.ofExcept _ _ (fun _ _ _ _ _ => by simp [HasVals.vals, lwfs])

theorem safe_testCondsL (ht : TreeOK cfg.tree) (fuel ef : Nat) (env : Env) (cs : List Cond) (vs : List LVal) (hq : EnvQ env)
    (hres : Resolved env (condsCaps cs)) : Safe cfg vs (testCondsL cfg fuel ef env cs) := by
  induction cs generalizing vs with
  | nil => exact Safe.pure vs _ (fun _ _ _ => by simp [HasVals.vals, lwfs])
  | cons c rest ih =>
    simp only [condsCaps] at hres
    exact Safe.bind (safe_testCondL ht fuel ef env c vs hq hres.left) fun _ =>
      Safe.bind (ih _ hres.right) fun _ => Safe.pure _ _ (fun _ _ _ => by simp [HasVals.vals, lwfs])

instance : HasVals (List (Option LVal)) := ⟨fun l => l.filterMap id⟩
instance : HasVals (List (String × LVal)) := ⟨fun l => l.map (·.2)⟩

theorem safe_printArgsL (ht : TreeOK cfg.tree) (fuel ef : Nat) (env : Env) (es : List Expr) (vs : List LVal) (hq : EnvQ env)
    (hres : Resolved env (exprsCaps es)) : Safe cfg vs (printArgsL cfg fuel ef env es) := by
  induction es generalizing vs with
  | nil => exact Safe.pure vs _ (fun _ _ _ => by simp [HasVals.vals, lwfs])
  | cons e rest ih =>
    simp only [exprsCaps] at hres
    cases e with
    | str s =>
      exact Safe.bind (ih vs hres.right) fun xs => Safe.pure _ _ (fun n t hn => by
        simp only [HasVals.vals, lwfs_append, List.filterMap_cons] at hn ⊢; exact hn.1)
    | _ =>
      exact Safe.bind (safe_lazyExpr' ht fuel ef env _ vs hq hres.left) fun lv =>
        Safe.bind (ih _ hres.right) fun xs => Safe.pure _ _ (fun n t hn => by
          simp only [HasVals.vals, lwfs_append, List.cons_append, List.nil_append, List.filterMap_cons, id, lwfs] at hn ⊢
          exact ⟨hn.2.1, hn.1⟩)

theorem safe_lazyAttrs (ht : TreeOK cfg.tree) (hsh : ShorthandsOK cfg) (ef : Nat) :
    ∀ (fuel : Nat) (env : Env) (attrs : List AttrE) (acc : List (String × LVal)) (vs : List LVal), EnvQ env → Resolved env (attrsCaps attrs) →
      (∀ n t, lwfs n t vs → lwfs n t (acc.map (·.2))) → Safe cfg vs (lazyAttrs cfg fuel ef env attrs acc) := by
  intro fuel
  induction fuel with
  | zero =>
    intro env attrs acc vs hq hres hacc
    induction attrs generalizing vs acc with
    | nil => rw [lazyAttrs]; exact Safe.pure vs _ (fun n t hn => hacc n t hn)
    | cons a rest ih =>
      obtain ⟨name, e⟩ := a
      simp only [attrsCaps] at hres
      rw [lazyAttrs]
      refine Safe.bind (Safe.poll vs _) fun _ => Safe.bind (safe_lazyExpr' ht 0 ef env e _ hq hres.left) fun v => ?_
      cases hf : Strict.findShorthand cfg name with
      | some sh => exact Safe.failP _ _ (fun site h => by cases h)
      | none =>
        refine ih _ _ hres.right (fun n t hn => ?_)
        simp only [HasVals.vals, List.nil_append, List.cons_append, lwfs, List.map_append, List.map_cons, List.map_nil, lwfs_append] at hn ⊢
        exact ⟨hacc n t hn.2, hn.1, trivial⟩
  | succ fuel' ihf =>
    intro env attrs acc vs hq hres hacc
    induction attrs generalizing vs acc with
    | nil => rw [lazyAttrs]; exact Safe.pure vs _ (fun n t hn => hacc n t hn)
    | cons a rest ih =>
      obtain ⟨name, e⟩ := a
      simp only [attrsCaps] at hres
      rw [lazyAttrs]
      refine Safe.bind (Safe.poll vs _) fun _ => Safe.bind (safe_lazyExpr' ht (fuel' + 1) ef env e _ hq hres.left) fun v => ?_
      cases hf : Strict.findShorthand cfg name with
      | some sh =>
        have hmem : sh ∈ cfg.shorthands := List.mem_of_find?_eq_some hf
        refine Safe.bind (Safe.getR _) fun saved =>
          Safe.bind (Safe.modifyFrames _ (fun _ => [[]]) (fun n t fs _ _ f hf => ?_)) fun _ =>
            Safe.bind (Safe.unscopedAddL _ env.ctx sh.var v false (fun n t hn => ?_)) fun _ =>
              Safe.bind (ihf env sh.attrs acc _ hq (by rw [hsh sh hmem]; intro n hn; cases hn) (fun n t hn => ?_)) fun acc' =>
                Safe.bind (Safe.modifyFrames _ (fun _ => saved.locals) (fun n t fs _ hvs => ?_)) fun _ => ih _ _ hres.right (fun n t hn => ?_)
        · simp at hf; subst hf; intro e he; cases he
        · simp only [HasVals.vals, List.nil_append, List.cons_append, lwfs, lwfs_append] at hn
          exact hn.2.1
        · simp only [HasVals.vals, List.nil_append, List.cons_append, lwfs, lwfs_append] at hn
          exact hacc n t hn.2.2
        · simp only [HasVals.vals, List.nil_append, List.cons_append, lwfs, lwfs_append] at hvs
          have : Parts n t saved := (parts_iff n t saved).mp hvs.2.1
          exact this.locals
        · simp only [HasVals.vals, List.nil_append, List.cons_append, lwfs, lwfs_append] at hn
          exact hn.1
      | none =>
        refine ih _ _ hres.right (fun n t hn => ?_)
        simp only [HasVals.vals, List.nil_append, List.cons_append, lwfs, List.map_append, List.map_cons, List.map_nil, lwfs_append] at hn ⊢
        exact ⟨hacc n t hn.2, hn.1, trivial⟩


instance : HasVals (List (RMatch × Nat)) := ⟨fun _ => []⟩

theorem safe_lazyScanCollect (o : Oracle) (subject : String) (i : Nat) : ∀ (arms : List (String × List Stmt × Loc)) (idx : Nat) (vs : List LVal),
    Safe cfg vs (lazyScanCollect o subject i arms idx) := by
  intro arms
  induction arms with
  | nil => intro idx vs; exact Safe.pure vs _ (fun _ _ _ => by simp [HasVals.vals, lwfs])
  | cons a rest ih =>
    intro idx vs
    obtain ⟨re, b, l⟩ := a
    simp only [lazyScanCollect]
    refine Safe.bind (Safe.poll vs _) fun _ => ?_
    cases o.regexAt re subject i with
    | none => exact Safe.failP _ _ (fun site h => by cases h)
    | some r =>
      cases r with
      | none => exact ih _ _
      | some m =>
        simp only
        split
        · exact Safe.throwK _ _
        · exact Safe.bind (ih _ _) fun _ => Safe.pure _ _ (fun _ _ _ => by simp [HasVals.vals, lwfs])

/-- what the lazy collection returns is what the strict collection returns (restated from C10 for the arm index) -/
theorem lazyCollect_ok {o : Oracle} {subject : String} {i : Nat} {arms : List (String × List Stmt × Loc)} {idx : Nat}
    {s s' : MSt LSt} {ms : List (RMatch × Nat)} (h : Prog.run (lazyScanCollect o subject i arms idx) s = .ok ms s') :
    Strict.scanCollect o subject i arms idx = .ok ms := by
  rw [C10.lazyCollect_run] at h
  rw [Prog.run_bind] at h
  cases hp : Prog.run (C10.pollN (C10.collectPolls o subject i arms)) s with
  | fail e s1 => rw [hp] at h; cases h
  | ok u s1 =>
    rw [hp] at h
    simp only at h
    cases hc : Strict.scanCollect o subject i arms idx with
    | error f => rw [hc] at h; simp [Prog.ofExceptF, Prog.run] at h
    | ok ms' => rw [hc] at h; simp [Prog.ofExceptF, Prog.run] at h; rw [h.1]


theorem safe_lazyStmts (ht : TreeOK cfg.tree) (hsh : ShorthandsOK cfg) (fuel ef : Nat) : ∀ m : Nat,
    (∀ (env : Env) (st : Stmt) (vs : List LVal), sizeOf st ≤ m → EnvQ env → Resolved env (stmtCaps st) → Safe cfg vs (lazyStmt cfg fuel ef env st)) ∧
    (∀ (env : Env) (kind : LBlockKind) (ss : List Stmt) (vs : List LVal), sizeOf ss ≤ m → EnvQ env → Resolved env (stmtsCaps ss) →
      Safe cfg vs (lazyBlock cfg fuel ef env kind ss)) ∧
    (∀ (env : Env) (arms : List (List Cond × List Stmt × Loc)) (vs : List LVal), sizeOf arms ≤ m → EnvQ env → Resolved env (ifArmsCaps arms) →
      Safe cfg vs (lazyIfArms cfg fuel ef env arms)) ∧
    (∀ (env : Env) (var : String) (body : List Stmt) (vals : List Val) (vs : List LVal), sizeOf body ≤ m → EnvQ env →
      Resolved env (stmtsCaps body) → (∀ n t, lwfs n t vs → lwfs n t (vals.map LVal.value)) → Safe cfg vs (lazyFor cfg fuel ef env var body vals)) ∧
    (∀ (env : Env) (arms : List (String × List Stmt × Loc)) (subject : String) (i : Nat) (vs : List LVal), sizeOf arms ≤ m → EnvQ env →
      Resolved env (scanArmsCaps arms) → Safe cfg vs (lazyScanLoop cfg fuel ef env arms subject i)) := by
  intro m
  induction m with
  | zero =>
    refine ⟨?_, ?_, ?_, ?_, ?_⟩
    · intro env st vs h; cases st <;> simp at h <;> omega
    · intro env kind ss vs h; cases ss <;> simp at h
    · intro env arms vs h; cases arms <;> simp at h
    · intro env var body vals vs h; cases body <;> simp at h
    · intro env arms subject i vs h; cases arms <;> simp at h
  | succ m ih =>
    obtain ⟨ihS, ihB, ihI, ihF, ihSc⟩ := ih
    have unit_ok : ∀ (vs : List LVal) (n t : Nat), lwfs n t vs → lwfs n t (HasVals.vals ()) := fun _ _ _ _ => by simp [HasVals.vals, lwfs]
    have hS : ∀ (env : Env) (st : Stmt) (vs : List LVal), sizeOf st ≤ m + 1 → EnvQ env → Resolved env (stmtCaps st) →
        Safe cfg vs (lazyStmt cfg fuel ef env st) := by
      intro env st vs h hq hres
      cases st with
      | declImm v e l =>
        simp only [lazyStmt]; simp only [stmtCaps] at hres
        exact Safe.bind (Safe.poll _ _) fun _ => Safe.bind (safe_lazyExpr' ht fuel ef env e _ hq hres.left) fun value =>
          safe_varAddL ht fuel ef env v value false _ hq hres.right (fun n t hn => by simp only [HasVals.vals, List.cons_append, lwfs] at hn; exact hn.1)
      | declMut v e l =>
        simp only [lazyStmt]; simp only [stmtCaps] at hres
        exact Safe.bind (Safe.poll _ _) fun _ => Safe.bind (safe_lazyExpr' ht fuel ef env e _ hq hres.left) fun value =>
          safe_varAddL ht fuel ef env v value true _ hq hres.right (fun n t hn => by simp only [HasVals.vals, List.cons_append, lwfs] at hn; exact hn.1)
      | assign v e l =>
        simp only [lazyStmt]; simp only [stmtCaps] at hres
        exact Safe.bind (Safe.poll _ _) fun _ => Safe.bind (safe_lazyExpr' ht fuel ef env e _ hq hres.left) fun value =>
          safe_varSetL env v value _ (fun n t hn => by simp only [HasVals.vals, List.cons_append, lwfs] at hn; exact hn.1)
      | createNode v l =>
        simp only [lazyStmt]; simp only [stmtCaps] at hres
        refine Safe.bind (Safe.poll _ _) fun _ => Safe.bind_addNode fun n => ?_
        have hP0 : ∀ (k t : Nat), lwfs k t (.value (.gnode n) :: (HasVals.vals () ++ vs)) → n < k := by
          intro k t hk; simp only [lwfs, lwf, wf] at hk; exact hk.1
        revert hP0
        generalize (LVal.value (Val.gnode n) :: (HasVals.vals () ++ vs)) = ws0
        revert ws0
        have hdbg : ∀ (a : String) (x : Val) (ws : List LVal), (∀ (k t : Nat), lwfs k t ws → n < k) → Safe cfg ws (Strict.addDebugNodeAttr n a x) :=
          fun a x ws hP => Safe.addAttributeNode _ n a x hP
        have hvar : ∀ (ws : List LVal), (∀ (k t : Nat), lwfs k t ws → n < k) → Safe cfg ws (varAddL cfg fuel ef env v (.value (.gnode n)) false) :=
          fun ws hP => safe_varAddL ht fuel ef env v _ false _ hq hres (fun k t hk => by
            simp only [lwf, wf]; exact hP k t hk)
        have bindU : ∀ (t : Prog LSt Unit) (f : Unit → Prog LSt Unit),
            (∀ (ws : List LVal), (∀ (k t : Nat), lwfs k t ws → n < k) → Safe cfg ws t) →
            (∀ (ws : List LVal), (∀ (k t : Nat), lwfs k t ws → n < k) → Safe cfg ws (f ())) →
            ∀ (ws : List LVal), (∀ (k t : Nat), lwfs k t ws → n < k) → Safe cfg ws (t >>= f) := by
          intro t f h1 h2 ws hP
          exact Safe.bind (h1 ws hP) fun (_ : Unit) => h2 _ (fun k t hk => by
            simp only [HasVals.vals, List.nil_append] at hk; exact hP k t hk)
        have hthrow : ∀ (ws : List LVal), (∀ (k t : Nat), lwfs k t ws → n < k) → Safe cfg ws (Prog.throwK (ρ := LSt) (α := Unit) .undefinedCapture) :=
          fun ws _ => Safe.throwK _ _
        cases cfg.varAttr <;> cases cfg.locAttr <;> cases cfg.matchAttr <;> (try simp only []) <;>
          (try cases env.mat.nodes fullMatchName) <;> (try simp only []) <;>
          repeat (first | exact hvar | exact hdbg _ _ | exact hthrow | apply bindU)
      | attrNode ne attrs l =>
        simp only [lazyStmt]; simp only [stmtCaps] at hres
        exact Safe.bind (Safe.poll _ _) fun _ => Safe.bind (safe_lazyExpr' ht fuel ef env ne _ hq hres.left) fun node =>
          Safe.bind (safe_lazyAttrs ht hsh ef fuel env attrs [] _ hq hres.right (fun _ _ _ => by simp [lwfs])) fun as =>
            Safe.pushStmt _ _ (fun n t hn v hv => by
              simp only [HasVals.vals, lwfs_append, List.cons_append, lwfs] at hn
              simp only [lstmtVals, List.mem_cons] at hv
              rcases hv with rfl | hv
              · exact hn.2.1
              · exact (lwfs_iff _ _ _).mp hn.1 v hv)
      | createEdge a b l =>
        simp only [lazyStmt]; simp only [stmtCaps] at hres
        exact Safe.bind (Safe.poll _ _) fun _ => Safe.bind (safe_lazyExpr' ht fuel ef env a _ hq hres.left) fun src =>
          Safe.bind (safe_lazyExpr' ht fuel ef env b _ hq hres.right) fun sink =>
            Safe.pushStmt _ _ (fun n t hn v hv => by
              simp only [HasVals.vals, List.cons_append, lwfs] at hn
              simp only [lstmtVals, List.mem_cons] at hv
              rcases hv with rfl | rfl | hv
              · exact hn.2.1
              · exact hn.1
              · cases hla : cfg.locAttr <;> simp [hla] at hv
                obtain ⟨_, rfl⟩ := hv; simp [lwf, wf])
      | attrEdge a b attrs l =>
        simp only [lazyStmt]; simp only [stmtCaps] at hres
        exact Safe.bind (Safe.poll _ _) fun _ => Safe.bind (safe_lazyExpr' ht fuel ef env a _ hq hres.left) fun src =>
          Safe.bind (safe_lazyExpr' ht fuel ef env b _ hq hres.right.left) fun sink =>
            Safe.bind (safe_lazyAttrs ht hsh ef fuel env attrs [] _ hq hres.right.right (fun _ _ _ => by simp [lwfs])) fun as =>
              Safe.pushStmt _ _ (fun n t hn v hv => by
                simp only [HasVals.vals, lwfs_append, List.cons_append, lwfs] at hn
                simp only [lstmtVals, List.mem_cons] at hv
                rcases hv with rfl | rfl | hv
                · exact hn.2.2.2.1
                · exact hn.2.1
                · exact (lwfs_iff _ _ _).mp hn.1 v hv)
      | scan e arms l =>
        simp only [lazyStmt]; simp only [stmtCaps] at hres
        exact Safe.bind (Safe.poll _ _) fun _ => Safe.bind (safe_eagerExpr ht fuel ef env e _ hq hres.left) fun v =>
          Safe.bind (Safe.ofExcept _ _ (fun _ _ _ _ _ => by simp [HasVals.vals, lwfs])) fun subject =>
            ihSc env arms subject 0 _ (by simp at h; omega) hq hres.right
      | print es l =>
        simp only [lazyStmt]; simp only [stmtCaps] at hres
        exact Safe.bind (Safe.poll _ _) fun _ => Safe.bind (safe_printArgsL ht fuel ef env es _ hq hres) fun args =>
          Safe.pushStmt _ _ (fun n t hn v hv => by
            simp only [HasVals.vals, lwfs_append] at hn
            simp only [lstmtVals] at hv
            exact (lwfs_iff _ _ _).mp hn.1 v hv)
      | ifS arms l =>
        simp only [lazyStmt]; simp only [stmtCaps] at hres
        exact Safe.bind (Safe.poll _ _) fun _ => ihI env arms _ (by simp at h; omega) hq hres
      | forIn var vl e body l =>
        simp only [lazyStmt]; simp only [stmtCaps] at hres
        exact Safe.bind (Safe.poll _ _) fun _ => Safe.bind (safe_eagerExpr ht fuel ef env e _ hq hres.left) fun v =>
          Safe.bind (Safe.ofExcept _ _ (fun a ha n t hn => by
            simp only [HasVals.vals, List.cons_append, lwfs] at hn ⊢; exact asList_values ha hn.1)) fun vals =>
            Safe.bind (Safe.pushFrameL _) fun _ =>
              Safe.bind (ihF env var body vals _ (by simp at h; omega) hq hres.right (fun n t hn => by
                simp only [HasVals.vals, List.nil_append, lwfs_append] at hn; exact hn.1)) fun _ => Safe.popFrameL _
    have hB : ∀ (env : Env) (kind : LBlockKind) (ss : List Stmt) (vs : List LVal), sizeOf ss ≤ m + 1 → EnvQ env → Resolved env (stmtsCaps ss) →
        Safe cfg vs (lazyBlock cfg fuel ef env kind ss) := by
      intro env kind ss vs h hq hres
      cases ss with
      | nil => rw [lazyBlock]; exact Safe.pure vs _ (unit_ok vs)
      | cons st rest =>
        simp only [stmtsCaps] at hres
        have hst : sizeOf st ≤ m := by simp at h; omega
        have hrest : sizeOf rest ≤ m := by simp at h; omega
        rw [Lazy.lazyBlock.eq_def]
        simp only
        have hq' : EnvQ { env with ctx := { env.ctx with stmtLoc := st.loc } } := hq
        have hresL : Resolved { env with ctx := { env.ctx with stmtLoc := st.loc } } (stmtCaps st) := hres.left
        have hresR : Resolved { env with ctx := { env.ctx with stmtLoc := st.loc } } (stmtsCaps rest) := hres.right
        cases kind with
        | top => exact Safe.bind (Safe.ctx _ (ihS _ st _ hst hq' hresL)) fun _ => ihB _ _ rest _ hrest hq' hresR
        | scanArm what => exact Safe.bind (Safe.ctx _ (Safe.ctx _ (ihS _ st _ hst hq' hresL))) fun _ => ihB _ _ rest _ hrest hq' hresR
        | bare => exact Safe.bind (ihS _ st _ hst hq' hresL) fun _ => ihB _ _ rest _ hrest hq' hresR
    have hI : ∀ (env : Env) (arms : List (List Cond × List Stmt × Loc)) (vs : List LVal), sizeOf arms ≤ m + 1 → EnvQ env →
        Resolved env (ifArmsCaps arms) → Safe cfg vs (lazyIfArms cfg fuel ef env arms) := by
      intro env arms vs h hq hres
      cases arms with
      | nil => rw [lazyIfArms]; exact Safe.pure vs _ (unit_ok vs)
      | cons a rest =>
        obtain ⟨conds, body, l⟩ := a
        simp only [ifArmsCaps] at hres
        have hbody : sizeOf body ≤ m := by simp at h; omega
        have hrest : sizeOf rest ≤ m := by simp at h; omega
        rw [lazyIfArms]
        refine Safe.bind (safe_testCondsL ht fuel ef env conds vs hq hres.left) fun ok => ?_
        cases ok with
        | true =>
          simp only [if_true]
          exact Safe.bind (Safe.pushFrameL _) fun _ => Safe.bind (ihB env .bare body _ hbody hq hres.right.left) fun _ => Safe.popFrameL _
        | false =>
          simp only [Bool.false_eq_true, if_false]
          exact ihI env rest _ hrest hq hres.right.right
    have hF : ∀ (env : Env) (var : String) (body : List Stmt) (vals : List Val) (vs : List LVal), sizeOf body ≤ m + 1 → EnvQ env →
        Resolved env (stmtsCaps body) → (∀ n t, lwfs n t vs → lwfs n t (vals.map LVal.value)) → Safe cfg vs (lazyFor cfg fuel ef env var body vals) := by
      intro env var body vals vs h hq hres hvals
      induction vals generalizing vs with
      | nil => rw [lazyFor]; exact Safe.pure vs _ (unit_ok vs)
      | cons v rest ihv =>
        rw [lazyFor]
        refine Safe.bind (Safe.clearFrameL vs) fun _ => Safe.bind (Safe.unscopedAddL _ env.ctx var (.value v) false (fun n t hn => ?_)) fun _ =>
          Safe.bind (hB env .bare body _ h hq hres) fun _ => ihv _ (fun n t hn => ?_)
        · simp only [HasVals.vals, List.nil_append] at hn; exact (hvals n t hn).1
        · simp only [HasVals.vals, List.nil_append] at hn; exact (hvals n t hn).2
    have hSc : ∀ (env : Env) (arms : List (String × List Stmt × Loc)) (subject : String) (i : Nat) (vs : List LVal), sizeOf arms ≤ m + 1 →
        EnvQ env → Resolved env (scanArmsCaps arms) → Safe cfg vs (lazyScanLoop cfg fuel ef env arms subject i) := by
      intro env arms subject i vs h hq hres
      have key : ∀ (k : Nat) (i : Nat) (vs : List LVal), subject.utf8ByteSize - i ≤ k → Safe cfg vs (lazyScanLoop cfg fuel ef env arms subject i) := by
        intro k
        induction k with
        | zero =>
          intro i vs hk
          have hi : ¬ i < subject.utf8ByteSize := by omega
          rw [lazyScanLoop]
          simp only [hi, dite_false]
          exact Safe.pure vs _ (unit_ok vs)
        | succ k ihk =>
          intro i vs hk
          by_cases hi : i < subject.utf8ByteSize
          · rw [lazyScanLoop]
            simp only [hi, dite_true]
            refine Safe.bindQ (Q := fun ms => Strict.scanCollect cfg.oracle subject i arms 0 = .ok ms)
              (safe_lazyScanCollect cfg.oracle subject i arms 0 _) (fun s a s' hr => lazyCollect_ok hr) fun ms hc => ?_
            cases hb : Strict.scanBest ms with
            | none => exact Safe.pure _ _ (unit_ok _)
            | some p =>
              obtain ⟨mt, kk⟩ := p
              simp only
              have hk2 : (arms[kk]?).isSome = true := C10.C10_selected_arm_exists cfg.oracle subject i arms ms mt kk hc hb
              simp only [hk2, dite_true]
              by_cases hm : 0 < mt.stop
              · simp only [hm, dite_true]
                have hsz : sizeOf (Strict.armBody arms kk) ≤ m := by
                  have := Strict.armBody_lt arms kk hk2; omega
                exact Safe.bind (Safe.pushFrameL _) fun _ =>
                  Safe.bind (ihB { env with caps := Strict.capsOf mt } (.scanArm (Strict.armRegex arms kk)) (Strict.armBody arms kk) _ hsz hq
                    (StrictSafe.resolved_armBody env arms kk hres)) fun _ =>
                    Safe.bind (Safe.popFrameL _) fun _ => ihk (i + mt.stop) _ (by omega)
              · simp only [hm, dite_false]
                exact Safe.throwK _ _
          · rw [lazyScanLoop]
            simp only [hi, dite_false]
            exact Safe.pure vs _ (unit_ok vs)
      exact key _ i vs (Nat.le_refl _)
    exact ⟨hS, hB, hI, hF, hSc⟩

end LazySafe
