/-
  The lazy interpreter never reaches a panic site — matches, the merged-query driver, the evaluate phase, the whole run.
-/
import Tsg.Proofs.LazySafeInterp

namespace LazySafe
open Prog Lazy
open StrictSafe (wf wfs wf_mono wfs_mono wfs_iff NoPanic GlobalsWf TreeOK EnvQ Resolved exprCaps exprsCaps)
open StrictSafe (varCaps condCaps condsCaps attrsCaps stmtCaps stmtsCaps scanArmsCaps ifArmsCaps ShorthandsOK MatchOK StanzaOK)

variable {cfg : Cfg} {α β : Type} [HasVals α] [HasVals β]

/-! ### graph steps of the evaluate phase -/

theorem Safe.bind_addNodeAttr {vs : List LVal} (i : Nat) (name : String) (v : Val) (fl : Fail) (f : Option Unit → Prog LSt β)
    (hi : ∀ n t, lwfs n t vs → i < n) (hfl : NoPanic fl) (h : Safe cfg vs (f (some ()))) :
    Safe cfg vs (gopP (.addNodeAttr i name v fl) >>= f) := by
  intro s hinv hvs
  obtain ⟨nd, hnd⟩ := StrictSafe.node?_some_of_lt s.graph i (hi _ _ hvs)
  simp only [Prog.run_bind, gopP, Prog.run, GraphOp.apply, CGraph.addNodeAttr, hnd]
  cases hc : (Attrs.add nd.attrs name v).2 with
  | false =>
    simp only
    have := h { s with graph := s.graph.setNode i { nd with attrs := (Attrs.add nd.attrs name v).1 } }
      (hinv.sameLength _ (StrictSafe.setNode_length _ _ _)) (by rw [StrictSafe.setNode_length]; exact hvs)
    rw [StrictSafe.setNode_length] at this
    exact this
  | true => simp only; exact hfl

theorem Safe.bind_addEdge {vs : List LVal} (src sink : Nat) (attrs : Attrs) (f : Option Bool → Prog LSt β)
    (hsrc : ∀ n t, lwfs n t vs → src < n) (h : ∀ b, Safe cfg vs (f (some b))) :
    Safe cfg vs (gopP (.addEdge src sink attrs) >>= f) := by
  intro s hinv hvs
  obtain ⟨nd, hnd⟩ := StrictSafe.node?_some_of_lt s.graph src (hsrc _ _ hvs)
  simp only [Prog.run_bind, gopP, Prog.run, GraphOp.apply, hnd]
  by_cases hnew : (nd.addEdge sink).2 = true
  · simp only [hnew, if_true]
    have := h true { s with graph := s.graph.setNode src { (nd.addEdge sink).1 with edges := GNode.setEdgeAttrs (nd.addEdge sink).1.edges sink attrs } }
      (hinv.sameLength _ (StrictSafe.setNode_length _ _ _)) (by rw [StrictSafe.setNode_length]; exact hvs)
    rw [StrictSafe.setNode_length] at this
    exact this
  · simp only [hnew, if_false]
    exact h false s hinv hvs

theorem Safe.bind_read {vs : List LVal} {f : CGraph → Prog LSt β} (h : ∀ g, SafeIf cfg (fun s => s.graph = g) vs (f g)) :
    Safe cfg vs (gopP .read >>= f) := by
  intro s hinv hvs
  have : Prog.run (gopP .read >>= f) s = Prog.run (f s.graph) s := by
    rw [Prog.run_bind]; rfl
  rw [this]
  exact h s.graph s rfl hinv hvs

theorem SafeIf.recordPrev_bind {g : CGraph} {vs : List LVal} (key : ElemKey) (dbg : StmtCtx) {k : Option StmtCtx → Prog LSt β}
    (h : ∀ prev, SafeIf cfg (fun s => s.graph = g) vs (k prev)) :
    SafeIf cfg (fun s => s.graph = g) vs (recordPrev key dbg >>= k) := by
  intro s hP hinv hvs
  have hrun : Prog.run (recordPrev key dbg >>= k) s =
      Prog.run (k (s.rest.prevDbg.lookup key))
        { s with rest := { s.rest with prevDbg := s.rest.prevDbg.filter (·.1 ≠ key) ++ [(key, dbg)] } } := by
    rw [Prog.run_bind]; rfl
  rw [hrun]
  exact h _ _ hP ⟨hinv.1, hinv.2⟩ hvs

theorem SafeIf.bind_addEdgeAttr {g : CGraph} {vs : List LVal} (src sink : Nat) (name : String) (v : Val) (fl : Fail) (ea : Attrs)
    (f : Option (Option Unit) → Prog LSt β) (hge : g.getEdge src sink = some ea) (hfl : NoPanic fl)
    (h : Safe cfg vs (f (some (some ())))) :
    SafeIf cfg (fun s => s.graph = g) vs (gopP (.addEdgeAttr src sink name v fl) >>= f) := by
  intro s hP hinv hvs
  have hP' : s.graph = g := hP
  subst hP'
  simp only [CGraph.getEdge] at hge
  cases hnd : s.graph.node? src with
  | none => rw [hnd] at hge; cases hge
  | some nd =>
    rw [hnd] at hge
    simp only at hge
    simp only [Prog.run_bind, gopP, Prog.run, GraphOp.apply, CGraph.addEdgeAttr, hnd, hge]
    cases hc : (Attrs.add ea name v).2 with
    | false =>
      simp only
      have := h { s with graph := s.graph.setNode src { nd with edges := GNode.setEdgeAttrs nd.edges sink (Attrs.add ea name v).1 } }
        (hinv.sameLength _ (StrictSafe.setNode_length _ _ _)) (by rw [StrictSafe.setNode_length]; exact hvs)
      rw [StrictSafe.setNode_length] at this
      exact this
    | true => simp only; exact hfl

theorem conflictFail_noPanic (prev : Option StmtCtx) (dbg : StmtCtx) : NoPanic (conflictFail prev dbg) := by
  cases prev <;> intro site h <;> cases h

/-! ### the evaluate phase -/

theorem safe_evalNodeAttrs (ht : TreeOK cfg.tree) (ef node : Nat) (dbg : StmtCtx) : ∀ (attrs : List (String × LVal)) (vs : List LVal),
    (∀ n t, lwfs n t vs → node < n ∧ ∀ a ∈ attrs, lwf n t a.2) → Safe cfg vs (evalNodeAttrs cfg ef node dbg attrs) := by
  intro attrs
  induction attrs with
  | nil => intro vs _; exact Safe.pure vs _ (fun _ _ _ => by simp [HasVals.vals, lwfs])
  | cons a rest ih =>
    intro vs h
    obtain ⟨name, lv⟩ := a
    simp only [evalNodeAttrs]
    refine Safe.bind (safe_evalL ht ef lv vs (fun n t hn => (h n t hn).2 (name, lv) (by simp))) fun v =>
      Safe.bind (Safe.recordPrev _ _ _) fun prev =>
        Safe.bind_addNodeAttr node name v _ _ (fun n t hn => ?_) (conflictFail_noPanic prev dbg) (ih _ (fun n t hn => ?_))
    all_goals
      simp only [HasVals.vals, List.nil_append, List.cons_append, lwfs] at hn
      have h' := h n t hn.2
    · exact h'.1
    · exact ⟨h'.1, fun a ha => h'.2 a (by simp [ha])⟩

theorem safe_evalEdgeAttrs (ht : TreeOK cfg.tree) (ef src sink : Nat) (dbg : StmtCtx) : ∀ (attrs : List (String × LVal)) (vs : List LVal),
    (∀ n t, lwfs n t vs → src < n ∧ ∀ a ∈ attrs, lwf n t a.2) → Safe cfg vs (evalEdgeAttrs cfg ef src sink dbg attrs) := by
  intro attrs
  induction attrs with
  | nil => intro vs _; exact Safe.pure vs _ (fun _ _ _ => by simp [HasVals.vals, lwfs])
  | cons a rest ih =>
    intro vs h
    obtain ⟨name, lv⟩ := a
    simp only [evalEdgeAttrs]
    refine Safe.bind (safe_evalL ht ef lv vs (fun n t hn => (h n t hn).2 (name, lv) (by simp))) fun v => Safe.bind_read fun g => ?_
    have hctx : ∀ n t, lwfs n t (HasVals.vals v ++ vs) → src < n ∧ ∀ a ∈ rest, lwf n t a.2 := by
      intro n t hn
      simp only [HasVals.vals, List.cons_append, List.nil_append, lwfs] at hn
      have h' := h n t hn.2
      exact ⟨h'.1, fun a ha => h'.2 a (by simp [ha])⟩
    cases hge : g.getEdge src sink with
    | none =>
      simp only
      intro s hP hinv hvs
      have hP' : s.graph = g := hP
      subst hP'
      obtain ⟨nd, hnd⟩ := StrictSafe.node?_some_of_lt s.graph src (hctx _ _ hvs).1
      simp only [hnd, Option.isNone_some, Bool.false_eq_true, if_false]
      intro site hc; cases hc
    | some ea =>
      simp only
      refine SafeIf.recordPrev_bind _ _ fun prev =>
        SafeIf.bind_addEdgeAttr src sink name v _ ea _ hge (conflictFail_noPanic prev dbg) (ih _ hctx)

theorem safe_evalPrintL (ht : TreeOK cfg.tree) (ef : Nat) : ∀ (args : List (Option LVal)) (vs : List LVal),
    (∀ n t, lwfs n t vs → ∀ v ∈ args.filterMap id, lwf n t v) → Safe cfg vs (evalPrintL cfg ef args) := by
  intro args
  induction args with
  | nil => intro vs _; exact Safe.pure vs _ (fun _ _ _ => by simp [HasVals.vals, lwfs])
  | cons a rest ih =>
    intro vs h
    cases a with
    | none =>
      simp only [evalPrintL]
      exact ih vs (fun n t hn v hv => h n t hn v (by simpa using hv))
    | some lv =>
      simp only [evalPrintL]
      refine Safe.bind (safe_evalL ht ef lv vs (fun n t hn => h n t hn lv (by simp))) fun _ => ih _ (fun n t hn v hv => ?_)
      simp only [HasVals.vals, List.cons_append, List.nil_append, lwfs] at hn
      exact h n t hn.2 v (by simp only [List.filterMap_cons, id_eq, List.mem_cons]; exact Or.inr hv)

/-- graph-node results, read as graph-node values -/
def gnInst : HasVals Nat := ⟨fun n => [.value (.gnode n)]⟩

theorem safe_targetNode (ht : TreeOK cfg.tree) (ef : Nat) (c : Ctx) (lv : LVal) (vs : List LVal) (hlv : ∀ n t, lwfs n t vs → lwf n t lv) :
    @Safe cfg Nat gnInst vs (withContext c (evalL cfg ef lv >>= asGraphNodeL)) := by
  letI := gnInst
  refine Safe.ctx c (Safe.bind (safe_evalL ht ef lv vs hlv) fun v => ?_)
  cases v with
  | gnode i =>
    refine Safe.pure _ i (fun n t hn => ?_)
    simp only [HasVals.vals, gnInst, List.cons_append, List.nil_append, lwfs] at hn ⊢
    exact ⟨hn.1, trivial⟩
  | _ => intro s _ _ site hc; cases hc

theorem Safe.bindN {vs : List LVal} {t : Prog LSt Nat} {f : Nat → Prog LSt β} (h1 : @Safe cfg Nat gnInst vs t)
    (h2 : ∀ n, Safe cfg (.value (.gnode n) :: vs) (f n)) : Safe cfg vs (t >>= f) := by
  letI := gnInst
  exact Safe.bind h1 h2

theorem safe_evalLStmt (ht : TreeOK cfg.tree) (ef : Nat) (st : LStmt) (vs : List LVal)
    (h : ∀ n t, lwfs n t vs → ∀ v ∈ lstmtVals st, lwf n t v) : Safe cfg vs (evalLStmt cfg ef st) := by
  unfold evalLStmt
  refine Safe.bind (Safe.poll _ _) fun _ => ?_
  have h' : ∀ n t, lwfs n t (HasVals.vals () ++ vs) → ∀ v ∈ lstmtVals st, lwf n t v := fun n t hn => h n t (by simpa [HasVals.vals] using hn)
  cases st with
  | attrNode node attrs dbg =>
    simp only [lstmtVals] at h'
    refine Safe.ctx _ (Safe.bindN (safe_targetNode ht ef _ node _ (fun n t hn => h' n t hn node (by simp))) fun k =>
      safe_evalNodeAttrs ht ef k dbg attrs _ (fun n t hn => ?_))
    simp only [lwfs, lwf, wf] at hn
    exact ⟨hn.1, fun a ha => h' n t hn.2 a.2 (by simp only [List.mem_cons, List.mem_map]; exact Or.inr ⟨a, ha, rfl⟩)⟩
  | createEdge src sink attrs dbg =>
    simp only [lstmtVals] at h'
    refine Safe.ctx _ (Safe.bindN (safe_targetNode ht ef _ src _ (fun n t hn => h' n t hn src (by simp))) fun a =>
      Safe.bindN (safe_targetNode ht ef _ sink _ (fun n t hn => ?_)) fun b =>
        Safe.bind_addEdge a b attrs _ (fun n t hn => ?_) (fun _ => Safe.pure _ _ (fun _ _ _ => by simp [HasVals.vals, lwfs])))
    · simp only [lwfs] at hn; exact h' n t hn.2 sink (by simp)
    · simp only [lwfs, lwf, wf] at hn; exact hn.2.1
  | attrEdge src sink attrs dbg =>
    simp only [lstmtVals] at h'
    refine Safe.ctx _ (Safe.bindN (safe_targetNode ht ef _ src _ (fun n t hn => h' n t hn src (by simp))) fun a =>
      Safe.bindN (safe_targetNode ht ef _ sink _ (fun n t hn => ?_)) fun b =>
        safe_evalEdgeAttrs ht ef a b dbg attrs _ (fun n t hn => ?_))
    · simp only [lwfs] at hn; exact h' n t hn.2 sink (by simp)
    · simp only [lwfs, lwf, wf] at hn
      exact ⟨hn.2.1, fun x hx => h' n t hn.2.2 x.2 (by simp only [List.mem_cons, List.mem_map]; exact Or.inr (Or.inr ⟨x, hx, rfl⟩))⟩
  | print args dbg =>
    simp only [lstmtVals] at h'
    exact Safe.ctx _ (safe_evalPrintL ht ef args _ h')

theorem safe_evalQueue (ht : TreeOK cfg.tree) (ef : Nat) : ∀ (sts : List LStmt) (vs : List LVal),
    (∀ n t, lwfs n t vs → ∀ st ∈ sts, ∀ v ∈ lstmtVals st, lwf n t v) → Safe cfg vs (evalQueue cfg ef sts) := by
  intro sts
  induction sts with
  | nil => intro vs _; exact Safe.pure vs _ (fun _ _ _ => by simp [HasVals.vals, lwfs])
  | cons st rest ih =>
    intro vs h
    simp only [evalQueue]
    refine Safe.bind (safe_evalLStmt ht ef st vs (fun n t hn => h n t hn st (by simp))) fun _ => ih _ (fun n t hn st' hst' => ?_)
    simp only [HasVals.vals, List.nil_append] at hn
    exact h n t hn st' (by simp [hst'])

theorem safe_forceAllThunks (ht : TreeOK cfg.tree) (ef : Nat) : ∀ (k i : Nat) (vs : List LVal),
    (∀ n t, lwfs n t vs → i + k ≤ t) → Safe cfg vs (forceAllThunks cfg ef k i) := by
  obtain ⟨_, hT, _, _, _⟩ := safe_force_rest (cfg := cfg) ef (safe_evalL ht ef)
  intro k
  induction k with
  | zero => intro i vs _; exact Safe.pure vs _ (fun _ _ _ => by simp [HasVals.vals, lwfs])
  | succ k ih =>
    intro i vs h
    simp only [forceAllThunks]
    refine Safe.bind (hT i vs (fun n t hn => by have := h n t hn; omega)) fun _ => ih (i + 1) _ (fun n t hn => ?_)
    simp only [HasVals.vals, List.cons_append, List.nil_append, lwfs] at hn
    have := h n t hn.2; omega

theorem safe_forceAllCells (ht : TreeOK cfg.tree) (ef : Nat) : ∀ (names : List String) (vs : List LVal),
    Safe cfg vs (forceAllCells cfg ef names) := by
  obtain ⟨_, _, _, hC, _⟩ := safe_force_rest (cfg := cfg) ef (safe_evalL ht ef)
  intro names
  induction names with
  | nil => intro vs; exact Safe.pure vs _ (fun _ _ _ => by simp [HasVals.vals, lwfs])
  | cons name rest ih =>
    intro vs
    simp only [forceAllCells]
    refine Safe.bind_getR fun r => ?_
    cases hl : r.cells.lookup name with
    | none => exact SafeIf.of_safe (extra := []) (ih _) (fun _ _ _ _ => by simp [lwfs])
    | some cell =>
      simp only
      refine SafeIf.of_safe (extra := cellVals cell) ?_ (fun s hP' hinv _ => by
        rw [lwfs_iff]; intro v hv
        exact hinv.1.parts.cells (name, cell) (by rw [hP']; exact StrictSafe.lookup_mem hl) v hv)
      refine Safe.bind (hC name cell _ (fun n t hn => by
        simp only [lwfs_append] at hn; rw [lwfs_iff] at hn; exact hn.1)) fun map => ?_
      refine Safe.bind (Safe.setCell _ name (.forced map) (fun n t hn v hv => ?_)) fun _ => ih _
      simp only [HasVals.vals, lwfs_append] at hn
      have := (lwfs_iff _ _ _).mp hn.1
      exact this v (by simpa [cellVals] using hv)

theorem safe_evaluatePhase (ht : TreeOK cfg.tree) (ef : Nat) (vs : List LVal) : Safe cfg vs (evaluatePhase cfg ef) := by
  unfold evaluatePhase
  refine Safe.bind_getR fun r => ?_
  refine SafeIf.of_safe (extra := r.edgeQ.flatMap lstmtVals ++ (r.attrQ.flatMap lstmtVals ++ r.printQ.flatMap lstmtVals)) ?_ (fun s hP' hinv _ => ?_)
  · have hq : ∀ n t, lwfs n t ((r.edgeQ.flatMap lstmtVals ++ (r.attrQ.flatMap lstmtVals ++ r.printQ.flatMap lstmtVals)) ++ vs) →
        (∀ st ∈ r.edgeQ, ∀ v ∈ lstmtVals st, lwf n t v) ∧ (∀ st ∈ r.attrQ, ∀ v ∈ lstmtVals st, lwf n t v) ∧
        (∀ st ∈ r.printQ, ∀ v ∈ lstmtVals st, lwf n t v) := by
      intro n t hn
      simp only [lwfs_append] at hn
      obtain ⟨⟨h1, h2, h3⟩, _⟩ := hn
      rw [lwfs_iff] at h1 h2 h3
      exact ⟨fun st hst v hv => h1 v (List.mem_flatMap.mpr ⟨st, hst, hv⟩), fun st hst v hv => h2 v (List.mem_flatMap.mpr ⟨st, hst, hv⟩),
        fun st hst v hv => h3 v (List.mem_flatMap.mpr ⟨st, hst, hv⟩)⟩
    refine Safe.bind (safe_evalQueue ht ef r.edgeQ _ (fun n t hn => (hq n t hn).1)) fun _ =>
      Safe.bind (safe_evalQueue ht ef r.attrQ _ (fun n t hn => (hq n t ((lwfs_append _ _ _ _).mp hn).2).2.1)) fun _ =>
        Safe.bind (safe_evalQueue ht ef r.printQ _ (fun n t hn => (hq n t ((lwfs_append _ _ _ _).mp ((lwfs_append _ _ _ _).mp hn).2).2).2.2)) fun _ => ?_
    refine Safe.bind_getR fun r2 => ?_
    refine SafeIf.of_safe (extra := match r2.thunks.length with | 0 => [] | k + 1 => [.var k]) ?_ (fun s hP' hinv _ => ?_)
    · refine Safe.bind (safe_forceAllThunks ht ef r2.thunks.length 0 _ (fun n t hn => ?_)) fun _ => ?_
      · cases hl : r2.thunks.length with
        | zero => omega
        | succ k =>
          rw [hl] at hn
          simp only [List.cons_append, lwfs, lwf] at hn
          omega
      · refine Safe.bind_getR fun r3 => SafeIf.of_safe (extra := []) (safe_forceAllCells ht ef _ _) (fun _ _ _ _ => by simp [lwfs])
    · have hP'' : s.rest = r2 := hP'
      subst hP''
      cases hl : s.rest.thunks.length with
      | zero => simp [lwfs]
      | succ k => simp only [lwfs, lwf, and_true]; omega
  · have hP'' : s.rest = r := hP'
    subst hP''
    have hp := hinv.1.parts
    rw [lwfs_append, lwfs_append]
    simp only [lwfs_iff, List.mem_flatMap]
    exact ⟨fun v ⟨st, hst, hv⟩ => hp.edgeQ st hst v hv, fun v ⟨st, hst, hv⟩ => hp.attrQ st hst v hv, fun v ⟨st, hst, hv⟩ => hp.printQ st hst v hv⟩

/-! ### matches, the merged-query driver, the whole run -/

theorem safe_execMatchL (ht : TreeOK cfg.tree) (hsh : ShorthandsOK cfg) (fuel ef : Nat) (st : Stanza) (m : QMatch) (vs : List LVal)
    (hst : StanzaOK st) (hm : MatchOK cfg.tree st m) : Safe cfg vs (execMatchL cfg fuel ef st m) := by
  unfold execMatchL
  refine Safe.bind (Safe.modifyFrames vs Frames.clear (fun n t fs h _ f hf => ?_)) fun _ => ?_
  · cases fs with
    | nil => simp [Frames.clear] at hf
    | cons f0 rest =>
      simp only [Frames.clear, List.mem_cons] at hf
      rcases hf with rfl | hf
      · intro e he; cases he
      · exact h f (by simp [hf])
  · cases hfm : m.nodes fullMatchName with
    | nil => exact Safe.throwK _ _
    | cons n rest' =>
      simp only
      have hnode := hm.2 n rest' hfm
      cases htn : cfg.tree.node? n with
      | none => rw [htn] at hnode; simp at hnode
      | some tn =>
        simp only
        let c0 : StmtCtx := { stmtLoc := default, stanzaLoc := st.rangeStart, srcLoc := { row := tn.startRow, col := tn.startCol }, nodeKind := tn.kind }
        let env0 : Env := { caps := [], mat := m, quants := st.captures, ctx := c0 }
        have hq : EnvQ env0 := hm.1
        have hres : Resolved env0 (stmtsCaps st.stmts) := hst
        exact (safe_lazyStmts ht hsh fuel ef (sizeOf st.stmts)).2.1 env0 .top st.stmts _ (Nat.le_refl _) hq hres

/-- what tree-sitter guarantees about a match of the merged query: its pattern index is the index of a stanza, and the
match respects that stanza's captures (`MatchOK`) -/
def MergedOK (tree : Tree) (stanzas : List Stanza) (m : QMatch) : Prop :=
  ∃ st, stanzas[m.patternIx]? = some st ∧ MatchOK tree st m

theorem safe_lazyBlockOf (ht : TreeOK cfg.tree) (hsh : ShorthandsOK cfg) (fuel ef : Nat) (stanzas : List Stanza) (m : QMatch) (vs : List LVal)
    (hst : ∀ st ∈ stanzas, StanzaOK st) (hm : MergedOK cfg.tree stanzas m) : Safe cfg vs (lazyBlockOf cfg fuel ef stanzas m) := by
  obtain ⟨st, hix, hmo⟩ := hm
  unfold lazyBlockOf
  rw [hix]
  simp only
  exact Safe.bind (Safe.poll _ _) fun _ => safe_execMatchL ht hsh fuel ef st m _ (hst st (List.mem_of_getElem? hix)) hmo

theorem safe_execMergedL (ht : TreeOK cfg.tree) (hsh : ShorthandsOK cfg) (fuel ef : Nat) (stanzas : List Stanza) (ms : List QMatch) (vs : List LVal)
    (hst : ∀ st ∈ stanzas, StanzaOK st) (hm : ∀ m ∈ ms, MergedOK cfg.tree stanzas m) : Safe cfg vs (execMergedL cfg fuel ef stanzas ms) := by
  induction ms generalizing vs with
  | nil => exact Safe.pure vs _ (fun _ _ _ => by simp [HasVals.vals, lwfs])
  | cons m rest ih =>
    simp only [execMergedL]
    exact Safe.bind (safe_lazyBlockOf ht hsh fuel ef stanzas m vs hst (hm m (by simp))) fun _ => ih _ (fun m' hm' => hm m' (by simp [hm']))

/-- **Lazy execution never reaches a panic site** — for every file, tree, oracle, set of globals, cancellation flag,
fuels and initial graph — provided that
* the tree's byte ranges can be sliced out of the source (`TreeOK`),
* the graph-node values among the caller's globals are nodes of the initial graph,
* the matches of the merged query respect tree-sitter's contract (`MergedOK`: the pattern index is the index of a stanza,
  captures respect their quantifiers, the full-match node is in the tree),
* the stanzas are as the checker leaves them (`StanzaOK`) and shorthand bodies carry no resolved capture. -/
theorem lazy_never_panics (file : File) (tree : Tree) (oracle : Oracle) (globals : GlobalsM) (la va ma : Option String)
    (cancelAt : Option Nat) (fuel ef : Nat) (merged : List QMatch) (g0 : CGraph)
    (ht : TreeOK tree) (hg : GlobalsWf g0.nodes.length globals)
    (hsh : ∀ sh ∈ file.shorthands, attrsCaps sh.attrs = [])
    (hst : ∀ st ∈ file.stanzas, StanzaOK st) (hm : ∀ m ∈ merged, MergedOK tree file.stanzas m) :
    ∀ site, (Lazy.run file tree oracle globals la va ma cancelAt fuel ef merged g0).outcome ≠ some (.panic site) := by
  intro site
  simp only [Lazy.run]
  cases hc : checkGlobals file.globals globals.nested with
  | error k => simp
  | ok gl =>
    simp only
    let cfg : Cfg := { tree, oracle, globals := gl, inherited := file.inherited, shorthands := file.shorthands,
                       locAttr := la, varAttr := va, matchAttr := ma }
    have hgl : GlobalsWf g0.nodes.length gl := by
      refine StrictSafe.checkGlobals_wf file.globals globals.nested gl ?_ hc
      intro l hl
      simp only [GlobalsM.nested, List.mem_cons] at hl
      rcases hl with rfl | hl
      · intro e he; cases he
      · exact hg l hl
    let r0 : LSt := { locals := [[]], thunks := [], cells := [], edgeQ := [], attrQ := [], printQ := [], prevDbg := [] }
    let s0 : MSt LSt := { graph := g0, rest := r0, ps := { polls := 0, cancelAt } }
    have hinv : Inv cfg s0 := by
      refine ⟨?_, hgl⟩
      apply Parts.restWf
      refine ⟨?_, ?_, ?_, ?_, ?_, ?_⟩
      · intro f hf; simp [s0, r0] at hf; subst hf; intro e he; cases he
      all_goals intro x hx; simp [s0, r0] at hx
    have hsafe : Safe cfg [] (execMergedL cfg fuel ef file.stanzas merged >>= fun _ => evaluatePhase cfg ef) :=
      Safe.bind (safe_execMergedL (cfg := cfg) ht hsh fuel ef file.stanzas merged [] hst hm) fun _ => safe_evaluatePhase (cfg := cfg) ht ef _
    have hsafe' := hsafe s0 hinv (by simp [lwfs])
    show (Prog.toResult (Prog.run (execMergedL cfg fuel ef file.stanzas merged >>= fun _ => evaluatePhase cfg ef) s0)).outcome ≠ some (.panic site)
    cases hr : Prog.run (execMergedL cfg fuel ef file.stanzas merged >>= fun _ => evaluatePhase cfg ef) s0 with
    | ok u s1 => simp [Prog.toResult]
    | fail f s1 =>
      rw [hr] at hsafe'
      simp only [Prog.toResult]
      intro h
      cases h
      exact hsafe' site rfl

end LazySafe
