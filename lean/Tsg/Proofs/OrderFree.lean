/-
  Order-freeness of what the lazy evaluate phase consumes: the pairs collected per scoped-variable name (this file,
  first half) and the batch of `edge` statements (second half). Used by Tsg/Props/C08.lean.
-/
import Tsg.Sem.Lazy
import Tsg.Proofs.Prog
import Tsg.Props.C09
namespace OrderFree
open Prog Lazy

/-- the definitions collected for one scoped-variable name, scopes already known: (node, value, statement) -/
abbrev Def := Nat × LVal × StmtCtx

/-- as `forcePairs` sees them: the scope is a value -/
def liftDefs (l : List Def) : List (LVal × LVal × StmtCtx) := l.map fun d => (LVal.value (.syn d.1), d.2.1, d.2.2)

/-- `forcePairs` without the machine: the map built so far, the statements seen so far; a duplicate scope fails with the two statements -/
def pureForce : List Def → List (Nat × LVal) → List (Nat × StmtCtx) → Except (StmtCtx × StmtCtx) (List (Nat × LVal))
  | [], acc, _ => .ok acc
  | (n, v, d) :: rest, acc, dbgs =>
    match dbgs.lookup n with
    | some prev => .error (prev, d)
    | none => pureForce rest (acc ++ [(n, v)]) (dbgs ++ [(n, d)])

def addPolls (s : MSt LSt) (k : Nat) : MSt LSt := { s with ps := { s.ps with polls := s.ps.polls + k } }

theorem run_evalL_value (cfg : Cfg) (ef : Nat) (v : Val) (s : MSt LSt) (hc : s.ps.cancelAt = none) :
    Prog.run (evalL cfg (ef + 1) (.value v)) s = .ok v (addPolls s 1) := by
  unfold evalL
  simp [pollP, Bind.bind, Prog.bind, Prog.run, hc, addPolls]
  rfl


theorem addPolls_cancel (s : MSt LSt) (k : Nat) : (addPolls s k).ps.cancelAt = s.ps.cancelAt := rfl
theorem addPolls_add (s : MSt LSt) (a b : Nat) : addPolls (addPolls s a) b = addPolls s (a + b) := by
  simp [addPolls, Nat.add_assoc]

/-- `forcePairs` on definitions whose scopes are known nodes, in an uncancelled run: the pure fold, one poll per definition
looked at -/
theorem run_forcePairs_lift (cfg : Cfg) (ef : Nat) (name : String) (l : List Def) (acc : List (Nat × LVal))
    (dbgs : List (Nat × StmtCtx)) (s : MSt LSt) (hc : s.ps.cancelAt = none) :
    match pureForce l acc dbgs with
    | .ok m => Prog.run (forcePairs cfg (ef + 1) name (liftDefs l) acc dbgs) s = .ok m (addPolls s l.length)
    | .error (prev, d) => ∃ k, Prog.run (forcePairs cfg (ef + 1) name (liftDefs l) acc dbgs) s =
        .fail ((Fail.err (.base .duplicateVariable "")).withContext (.stmt [prev, d])) (addPolls s k) := by
  induction l generalizing acc dbgs s with
  | nil =>
    simp only [pureForce, liftDefs, List.map_nil, List.length_nil]
    unfold forcePairs
    simp [Prog.run, addPolls]
    rfl
  | cons x rest ih =>
    obtain ⟨n, v, d⟩ := x
    simp only [pureForce]
    have hstep : Prog.run (withContext (.stmt [d]) (withContext (.other "Evaluating scope of variable") (do
        let v ← evalL cfg (ef + 1) (LVal.value (.syn n))
        asSyntaxNodeL v))) s = .ok n (addPolls s 1) := by
      simp only [withContext, Prog.run]
      rw [Prog.run_bind, run_evalL_value cfg ef _ s hc]
      simp [asSyntaxNodeL, Prog.run]
      rfl
    cases hl : dbgs.lookup n with
    | some prev =>
      simp only []
      refine ⟨1, ?_⟩
      simp only [liftDefs, List.map_cons]
      unfold forcePairs
      rw [Prog.run_bind, hstep]
      simp [hl, withContext, Prog.run, throwK]
    | none =>
      simp only []
      have hc' : (addPolls s 1).ps.cancelAt = none := hc
      have := ih (acc ++ [(n, v)]) (dbgs ++ [(n, d)]) (addPolls s 1) hc'
      cases hp : pureForce rest (acc ++ [(n, v)]) (dbgs ++ [(n, d)]) with
      | ok m =>
        rw [hp] at this
        simp only [] at this ⊢
        simp only [liftDefs, List.map_cons]
        unfold forcePairs
        rw [Prog.run_bind, hstep]
        simp only [hl]
        rw [← liftDefs] 
        rw [this, addPolls_add, List.length_cons, Nat.add_comm]
      | error e =>
        obtain ⟨prev, d'⟩ := e
        rw [hp] at this
        simp only [] at this ⊢
        obtain ⟨k, hk⟩ := this
        refine ⟨1 + k, ?_⟩
        simp only [liftDefs, List.map_cons]
        unfold forcePairs
        rw [Prog.run_bind, hstep]
        simp only [hl]
        rw [← liftDefs]
        rw [hk, addPolls_add]


/-! the pure fold: success = no node defined twice; the result lists the definitions in order -/

theorem lookup_append_none {β : Type} (l : List (Nat × β)) (k n : Nat) (b : β) :
    (l ++ [(n, b)]).lookup k = none ↔ l.lookup k = none ∧ k ≠ n := by
  induction l with
  | nil =>
    simp only [List.nil_append, List.lookup]
    by_cases h : k = n
    · subst h; simp
    · have : (k == n) = false := by simpa using h
      simp [this, h]
  | cons x rest ih =>
    obtain ⟨a, c⟩ := x
    simp only [List.cons_append, List.lookup]
    cases hk : (k == a) with
    | true => simp
    | false => simpa using ih

theorem pureForce_ok_iff (l : List Def) (acc : List (Nat × LVal)) (dbgs : List (Nat × StmtCtx)) :
    (∃ m, pureForce l acc dbgs = .ok m) ↔ (∀ d ∈ l, dbgs.lookup d.1 = none) ∧ (l.map (·.1)).Nodup := by
  induction l generalizing acc dbgs with
  | nil => simp [pureForce]
  | cons x rest ih =>
    obtain ⟨n, v, d⟩ := x
    simp only [pureForce]
    cases hl : dbgs.lookup n with
    | some prev =>
      simp only []
      constructor
      · rintro ⟨m, hm⟩; cases hm
      · rintro ⟨h1, _⟩
        have := h1 (n, v, d) (List.mem_cons_self ..)
        simp [hl] at this
    | none =>
      simp only []
      rw [ih]
      simp only [List.map_cons, List.nodup_cons, List.mem_cons, forall_eq_or_imp, hl, true_and]
      constructor
      · rintro ⟨h1, h2⟩
        refine ⟨fun e he => ((lookup_append_none dbgs e.1 n d).mp (h1 e he)).1, ?_, h2⟩
        intro hmem
        obtain ⟨e, he, hen⟩ := List.mem_map.mp hmem
        exact ((lookup_append_none dbgs e.1 n d).mp (h1 e he)).2 hen
      · rintro ⟨h1, h2, h3⟩
        refine ⟨fun e he => (lookup_append_none dbgs e.1 n d).mpr ⟨h1 e he, ?_⟩, h3⟩
        intro hen
        exact h2 (List.mem_map.mpr ⟨e, he, hen⟩)

theorem pureForce_ok_eq (l : List Def) (acc : List (Nat × LVal)) (dbgs : List (Nat × StmtCtx)) (m : List (Nat × LVal))
    (h : pureForce l acc dbgs = .ok m) : m = acc ++ l.map (fun d => (d.1, d.2.1)) := by
  induction l generalizing acc dbgs with
  | nil => simp [pureForce] at h; simp [h]
  | cons x rest ih =>
    obtain ⟨n, v, d⟩ := x
    simp only [pureForce] at h
    cases hl : dbgs.lookup n with
    | some prev => simp [hl] at h
    | none =>
      simp only [hl] at h
      have := ih _ _ h
      simp [this]

/-- two lists of bindings with the same bindings in another order and no key bound twice answer every lookup alike -/
theorem lookup_perm {β : Type} (l1 l2 : List (Nat × β)) (hp : l1.Perm l2) (hn : (l1.map (·.1)).Nodup) (k : Nat) :
    l1.lookup k = l2.lookup k := by
  induction hp with
  | nil => rfl
  | cons x _ ih =>
    obtain ⟨a, b⟩ := x
    simp only [List.map_cons, List.nodup_cons] at hn
    simp only [List.lookup]
    cases (k == a) with
    | true => rfl
    | false => exact ih hn.2
  | swap x y l =>
    obtain ⟨a, b⟩ := x
    obtain ⟨c, e⟩ := y
    simp only [List.map_cons, List.nodup_cons, List.mem_cons, not_or] at hn
    have hca : c ≠ a := hn.1.1
    simp only [List.lookup]
    cases hka : (k == a) with
    | true =>
      have : k = a := by simpa using hka
      have hkc : (k == c) = false := by subst this; simpa using (fun h => hca h.symm)
      simp [hkc]
    | false =>
      cases hkc : (k == c) <;> simp
  | trans h1 _ ih1 ih2 =>
    have hn2 := (h1.map (·.1)).nodup_iff.mp hn
    rw [ih1 hn, ih2 hn2]


/-- **the definitions of a scoped variable may be collected in any order.** Reordering stanzas (or matches) permutes the
`(scope, value)` pairs collected for a name. With the scopes known and the run not cancelled, forcing the permuted pairs
succeeds exactly when forcing the original pairs succeeds; on success both leave the same machine state and the two maps
answer every lookup alike (so every read — own node or nearest ancestor — sees the same value); on failure both report a
duplicate variable. -/
theorem scoped_defs_order_free (cfg : Cfg) (ef : Nat) (name : String) (l l' : List Def) (hp : l.Perm l')
    (s : MSt LSt) (hc : s.ps.cancelAt = none) :
    match Prog.run (forcePairs cfg (ef + 1) name (liftDefs l) [] []) s,
          Prog.run (forcePairs cfg (ef + 1) name (liftDefs l') [] []) s with
    | .ok m s1, .ok m' s2 => s1 = s2 ∧ ∀ k, m.lookup k = m'.lookup k
    | .fail f _, .fail f' _ => (∃ a b, f = (Fail.err (.base .duplicateVariable "")).withContext (.stmt [a, b])) ∧
                               (∃ a b, f' = (Fail.err (.base .duplicateVariable "")).withContext (.stmt [a, b]))
    | _, _ => False := by
  have h1 := run_forcePairs_lift cfg ef name l [] [] s hc
  have h2 := run_forcePairs_lift cfg ef name l' [] [] s hc
  have hiff : (∃ m, pureForce l [] [] = .ok m) ↔ (∃ m, pureForce l' [] [] = .ok m) := by
    rw [pureForce_ok_iff, pureForce_ok_iff]
    simp only [List.lookup, implies_true, true_and]
    exact (hp.map (·.1)).nodup_iff
  cases hf : pureForce l [] [] with
  | ok m =>
    obtain ⟨m', hm'⟩ := hiff.mp ⟨m, hf⟩
    rw [hf] at h1; rw [hm'] at h2
    simp only [] at h1 h2
    rw [h1, h2]
    simp only []
    refine ⟨by rw [hp.length_eq], fun k => ?_⟩
    have e1 := pureForce_ok_eq _ _ _ _ hf
    have e2 := pureForce_ok_eq _ _ _ _ hm'
    simp only [List.nil_append] at e1 e2
    subst e1; subst e2
    have hnd : (l.map (·.1)).Nodup := ((pureForce_ok_iff l [] []).mp ⟨_, hf⟩).2
    apply lookup_perm _ _ (hp.map _)
    have hfun : ((fun x : Nat × LVal => x.1) ∘ fun d : Def => (d.1, d.2.1)) = (fun d : Def => d.1) := rfl
    rw [List.map_map, hfun]; exact hnd
  | error e =>
    obtain ⟨a, b⟩ := e
    cases hf' : pureForce l' [] [] with
    | ok m' =>
      obtain ⟨m, hm⟩ := hiff.mpr ⟨m', hf'⟩
      rw [hm] at hf; cases hf
    | error e' =>
      obtain ⟨a', b'⟩ := e'
      rw [hf] at h1; rw [hf'] at h2
      simp only [] at h1 h2
      obtain ⟨k1, hk1⟩ := h1
      obtain ⟨k2, hk2⟩ := h2
      rw [hk1, hk2]
      exact ⟨⟨a, b, rfl⟩, ⟨a', b', rfl⟩⟩

/-- non-vacuity: two definitions in both orders; a duplicate in both orders -/
example : pureForce [(1, .value (.int 1), default), (2, .value (.int 2), default)] [] [] =
    .ok [(1, .value (.int 1)), (2, .value (.int 2))] := rfl
example : ∃ e, pureForce [(1, LVal.value (.int 1), default), (2, .value (.int 2), default), (1, .value (.int 3), default)] [] [] = .error e :=
  ⟨_, rfl⟩


open CGraph

/-- one `edge a -> b` statement without debug attributes, as a graph transformer -/
def addEdgeG (g : CGraph) (p : Nat × Nat) : CGraph := ((GraphOp.addEdge p.1 p.2 []).apply g).2
def addEdges (g : CGraph) (l : List (Nat × Nat)) : CGraph := l.foldl addEdgeG g

theorem addEdge_ok (g : CGraph) (p : Nat × Nat) : ∃ b, (GraphOp.addEdge p.1 p.2 []).apply g = (.ok b, addEdgeG g p) := by
  unfold addEdgeG
  simp only [GraphOp.apply]
  cases g.node? p.1 with
  | none => exact ⟨_, rfl⟩
  | some nd =>
    simp only []
    split <;> exact ⟨_, rfl⟩

theorem inv_addEdgeG (g : CGraph) (p : Nat × Nat) (h : Inv g) : Inv (addEdgeG g p) := by
  obtain ⟨b, hb⟩ := addEdge_ok g p
  exact (GraphOp.apply_extends _ _ _ _ h hb).2

theorem getEdge_addEdgeG (g : CGraph) (p : Nat × Nat) (hinv : Inv g) (a b : Nat) :
    (addEdgeG g p).getEdge a b =
      if (a, b) = p ∧ a < g.nodes.length ∧ g.getEdge a b = none then some [] else g.getEdge a b := by
  obtain ⟨src, sink⟩ := p
  cases hn : g.node? src with
  | none =>
    have hlen : ¬ src < g.nodes.length := by
      simp only [node?] at hn; simpa using hn
    have : addEdgeG g (src, sink) = g := by simp [addEdgeG, GraphOp.apply, hn]
    rw [this]
    split
    · rename_i h; obtain ⟨h1, h2, _⟩ := h
      have : a = src := by simpa using (congrArg Prod.fst h1)
      subst this; exact absurd h2 hlen
    · rfl
  | some nd =>
    have hlt : src < g.nodes.length := lt_of_getElem?_some _ _ _ hn
    cases he : nd.getEdge sink with
    | some ea =>
      have := C09.C09_readd_keeps_edge g src sink [] nd ea hinv hn he
      have hg : addEdgeG g (src, sink) = g := by simp [addEdgeG, this]
      rw [hg]
      split
      · rename_i h; obtain ⟨h1, _, h3⟩ := h
        have e1 : a = src := by simpa using (congrArg Prod.fst h1)
        have e2 : b = sink := by simpa using (congrArg Prod.snd h1)
        subst e1; subst e2
        simp [CGraph.getEdge, hn, he] at h3
      · rfl
    | none =>
      obtain ⟨g1, h1, h2⟩ := C09.C09_new_edge g src sink [] nd hinv hn he
      obtain ⟨g2, h3, h4⟩ := C09.C09_new_edge_others_untouched g src sink [] nd hinv hn he
      have hg1 : addEdgeG g (src, sink) = g1 := by simp [addEdgeG, h1]
      have hg2 : g2 = g1 := by rw [h1] at h3; exact (Prod.mk.inj h3).2.symm
      subst hg2
      rw [hg1]
      by_cases hab : (a, b) = (src, sink)
      · have e1 : a = src := by simpa using (congrArg Prod.fst hab)
        have e2 : b = sink := by simpa using (congrArg Prod.snd hab)
        subst e1; subst e2
        have hnone : g.getEdge a b = none := by simp [CGraph.getEdge, hn, he]
        simp [h2, hlt, hnone]
      · rw [h4 a b hab]
        simp [hab]


theorem length_addEdgeG (g : CGraph) (p : Nat × Nat) : (addEdgeG g p).nodes.length = g.nodes.length := by
  obtain ⟨src, sink⟩ := p
  simp only [addEdgeG, GraphOp.apply]
  cases g.node? src with
  | none => rfl
  | some nd =>
    simp only []
    split
    · simp [CGraph.setNode]
    · rfl

theorem inv_addEdges (g : CGraph) (l : List (Nat × Nat)) (h : Inv g) : Inv (addEdges g l) := by
  induction l generalizing g with
  | nil => exact h
  | cons p rest ih => exact ih _ (inv_addEdgeG g p h)

/-- what a batch of `edge` statements leaves behind, whatever their order: the edges that were there keep their attributes;
an edge named by some statement whose source exists is there, without attributes; nothing else is -/
theorem getEdge_addEdges (g : CGraph) (l : List (Nat × Nat)) (hinv : Inv g) (a b : Nat) :
    (addEdges g l).getEdge a b =
      match g.getEdge a b with
      | some x => some x
      | none => if (a, b) ∈ l ∧ a < g.nodes.length then some [] else none := by
  induction l generalizing g with
  | nil => simp [addEdges]; cases g.getEdge a b <;> rfl
  | cons p rest ih =>
    have := ih (addEdgeG g p) (inv_addEdgeG g p hinv)
    simp only [addEdges, List.foldl_cons] at this ⊢
    rw [this, getEdge_addEdgeG g p hinv a b, length_addEdgeG]
    by_cases hp : (a, b) = p
    · cases hg : g.getEdge a b with
      | some x => simp [hg]
      | none =>
        by_cases hlt : a < g.nodes.length
        · simp [hp, hlt, hg]
        · simp [hlt, hg]
    · have hp' : ¬ p = (a, b) := fun h => hp h.symm
      cases hg : g.getEdge a b with
      | some x => simp [hg]
      | none => simp [hp, hp', hg, List.mem_cons]

/-- **`edge` statements are order-free.** Creating a batch of edges (no debug attributes) in any order gives the same
edges with the same attributes between the same nodes: the lazy edge queue may be processed in the order of any
permutation of the stanzas. -/
theorem edges_order_free (g : CGraph) (l l' : List (Nat × Nat)) (hp : l.Perm l') (hinv : Inv g) :
    (∀ a b, (addEdges g l).getEdge a b = (addEdges g l').getEdge a b) ∧
    (addEdges g l).nodes.length = (addEdges g l').nodes.length ∧ Inv (addEdges g l) ∧ Inv (addEdges g l') := by
  refine ⟨fun a b => ?_, ?_, inv_addEdges g l hinv, inv_addEdges g l' hinv⟩
  · rw [getEdge_addEdges g l hinv, getEdge_addEdges g l' hinv]
    cases g.getEdge a b with
    | some x => rfl
    | none => simp only [hp.mem_iff]
  · have len : ∀ (l : List (Nat × Nat)) (g : CGraph), (addEdges g l).nodes.length = g.nodes.length := by
      intro l
      induction l with
      | nil => intro g; rfl
      | cons p rest ih => intro g; simp only [addEdges, List.foldl_cons] at ih ⊢; rw [ih, length_addEdgeG]
    rw [len, len]

/-- `addEdgeG` is what the lazy `edge` statement does to the graph when debug attributes are off -/
example (g : CGraph) (src sink : Nat) : addEdgeG g (src, sink) = ((GraphOp.addEdge src sink []).apply g).2 := rfl


end OrderFree
